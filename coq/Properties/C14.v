(* Property C14 — token-data serialisation is lossless, canonical and format-stable.
   Only statements, each closed by [exact] of a lemma proved under Codec/, and their assumptions.

   Model: Codec/BigIntCaster.v + Codec/CasterGo.v (data/bigIntCaster.go), Codec/Varint.v and Codec/Proto.v
   (data/esdt/esdt.pb.go: Marshal, Size, Unmarshal, skipEsdt; exact on every input, Go's 64-bit int included).
   [fits b] := the byte string b can exist in a Go program (clen b < 2^63).

   Round trips of the message types are stated twice:
   - for the EXACT decoder under [fits (enc x)] (`…_roundtrip_partial`): the literal statement "for every
     value" is false for the exact decoder on values whose encoding is longer than any Go slice
     (C14_roundtrip_needs_fits), so the hypothesis is a fact about Go, not a proof gap;
   - unconditionally for the ideal decoder, which equals the exact one on every byte string that fits
     (C14_ideal_codec_ok, C14_ideal_agrees). *)
From Coq.Strings Require Import String.
From EV Require Import Base.Bytes Base.Monad gen.ProtoTags Codec.Types Codec.Varint Codec.BigIntCaster Codec.Proto
  Codec.CasterGo Codec.Format Codec.Ideal
  Codec.VarintProofs Codec.CasterProofs Codec.LoopProofs Codec.CodecProofs Codec.SizeProofs Codec.NoPanicProofs
  Codec.FormatProofs Codec.CanonProofs Codec.CodecOk Codec.ExamplesC14 Ledger.Types.
Local Open Scope N_scope.

(* ============ amounts: one sign byte followed by the big-endian magnitude ============ *)
Theorem C14_bigint_roundtrip : forall v : option Z, caster_unmarshal (caster_marshal v) = Some v.
Proof. exact caster_roundtrip. Qed.

Theorem C14_bigint_size_eq : forall v : option Z, caster_size v = clen (caster_marshal v).
Proof. exact caster_size_eq. Qed.

(* nil -> 00; 0 -> 00 00; otherwise sign (00 / 01) followed by the minimal big-endian magnitude *)
Theorem C14_bigint_format :
  caster_marshal None = [x00] /\
  caster_marshal (Some 0%Z) = [x00; x00] /\
  forall z, z <> 0%Z ->
    caster_marshal (Some z) = (if (z <? 0)%Z then x01 else x00) :: N_to_be (Z.abs_N z)
    /\ be_to_N (N_to_be (Z.abs_N z)) = Z.abs_N z
    /\ exists b r, N_to_be (Z.abs_N z) = b :: r /\ b <> x00.
Proof. exact caster_format. Qed.

Theorem C14_bigint_canonical : forall a b : option Z, caster_marshal a = caster_marshal b -> a = b.
Proof. exact caster_marshal_injective. Qed.

(* exactly which buffers are rejected *)
Theorem C14_bigint_rejects_iff : forall buf,
  caster_unmarshal buf = None <->
  buf = [] \/ exists s b r, buf = s :: b :: r /\ ~ (r = [] /\ b2n b = 0) /\ b2n s <> 0 /\ b2n s <> 1.
Proof. exact caster_unmarshal_error_iff. Qed.

(* Unmarshal at the level of Go's index / slice expressions: never out of range, same result *)
Theorem C14_bigint_unmarshal_no_panic : forall buf,
  caster_unmarshal_go buf <> Panic /\ caster_unmarshal_go buf = caster_outcome (caster_unmarshal buf).
Proof. intros buf. split; [exact (caster_unmarshal_no_panic buf)|exact (caster_unmarshal_go_eq buf)]. Qed.

(* MarshalTo into the Size(a) bytes the generated Marshal hands over: no error, no panic, the documented bytes *)
Theorem C14_bigint_marshal_to_sized : forall a,
  caster_marshal_to_go a (caster_size a) = Ok (caster_size a, caster_marshal a).
Proof. exact caster_marshal_to_sized. Qed.

(* ============ varints ============ *)
Theorem C14_varint_roundtrip : forall n rest,
  n < 2 ^ 64 ->
  rd_varint (enc_varint n ++ rest) (clen (enc_varint n ++ rest)) 0 = Ok (n, clen (enc_varint n)).
Proof. exact varint_roundtrip. Qed.

Theorem C14_sov_eq_length : forall n, sov n = clen (enc_varint n).
Proof. exact sov_eq_length. Qed.

(* ============ messages: round trips ============ *)
(* Full statement, false for the exact decoder (C14_roundtrip_needs_fits):
     forall t, wf_token t -> dec_token (enc_token t) = Some t *)
Theorem C14_token_roundtrip_partial : forall t,
  wf_token t -> fits (enc_token t) -> dec_token (enc_token t) = Some t.
Proof. exact dec_enc_token_partial. Qed.

Theorem C14_roles_roundtrip_partial : forall r, fits (enc_roles r) -> dec_roles (enc_roles r) = Some r.
Proof. exact dec_enc_roles_partial. Qed.

Theorem C14_metadata_roundtrip_partial : forall m,
  wf_metadata m -> fits (enc_metadata m) -> dec_metadata (enc_metadata m) = Some m.
Proof. exact dec_enc_metadata_partial. Qed.

Theorem C14_roundtrip_needs_fits : exists r, ~ fits (enc_roles r) /\ dec_roles (enc_roles r) = None.
Proof. exact roles_roundtrip_needs_fits. Qed.

(* the unconditional statements, for the decoder that equals the exact one on every Go-sized byte string *)
Theorem C14_roundtrip_ideal :
  (forall t, wf_token t -> dec_token_ideal (enc_token t) = Some t)
  /\ (forall r, dec_roles_ideal (enc_roles r) = Some r)
  /\ (forall m, wf_metadata m -> dec_metadata_ideal (enc_metadata m) = Some m)
  /\ (forall b, fits b -> dec_token_ideal b = dec_token b /\ dec_roles_ideal b = dec_roles b
                          /\ dec_metadata_ideal b = dec_metadata b).
Proof.
  split; [exact (dec_enc_tok _ ideal_codec_ok)|]. split; [exact (dec_enc_rol _ ideal_codec_ok)|].
  split; [exact dec_enc_metadata_ideal|].
  intros b Hf. destruct ideal_agrees as (_ & _ & Ht & Hr).
  split; [exact (Ht b Hf)|]. split; [exact (Hr b Hf)|exact (dec_metadata_ideal_agrees b Hf)].
Qed.

(* decoded values are well formed, on every input *)
Theorem C14_decoded_wf :
  (forall b t, dec_token b = Some t -> wf_token t) /\ (forall b m, dec_metadata b = Some m -> wf_metadata m).
Proof. split; [exact dec_token_wf|exact dec_metadata_wf]. Qed.

(* ============ canonical ============ *)
Theorem C14_encoding_injective :
  (forall t1 t2, wf_token t1 -> wf_token t2 -> fits (enc_token t1) -> enc_token t1 = enc_token t2 -> t1 = t2)
  /\ (forall m1 m2, wf_metadata m1 -> wf_metadata m2 -> fits (enc_metadata m1) ->
        enc_metadata m1 = enc_metadata m2 -> m1 = m2)
  /\ (forall r1 r2, fits (enc_roles r1) -> enc_roles r1 = enc_roles r2 -> r1 = r2).
Proof. split; [exact enc_token_injective|]. split; [exact enc_metadata_injective|exact enc_roles_injective]. Qed.

(* whatever decodes re-encodes to a form that decodes to the same value; a decode / encode cycle reproduces the bytes *)
Theorem C14_canonical_form :
  (forall b t, dec_token b = Some t -> fits (enc_token t) -> dec_token (enc_token t) = Some t)
  /\ (forall t t', wf_token t -> fits (enc_token t) -> dec_token (enc_token t) = Some t' -> enc_token t' = enc_token t).
Proof. split; [exact token_canonical_form|exact token_reencode_stable]. Qed.

(* ============ Size() = len(Marshal()) ============ *)
Theorem C14_size_eq_length :
  (forall t, size_token t = clen (enc_token t))
  /\ (forall r, size_roles r = clen (enc_roles r))
  /\ (forall m, size_metadata m = clen (enc_metadata m)).
Proof. split; [exact size_token_eq|]. split; [exact size_roles_eq|exact size_metadata_eq]. Qed.

(* ============ documented wire format ============ *)
(* the tables extracted from the source (struct tags, Marshal literals, Unmarshal cases, Size order, .proto)
   describe the same fields in the same order, nothing was left unrecognised *)
Theorem C14_source_tables_consistent : tables_consistent = true.
Proof. exact tables_consistent_true. Qed.

(* protobuf fields 1-5 / 1 / 1-7, wire types (0 varint, 2 length-delimited), names and tag bytes *)
Theorem C14_documented_fields :
  fields_of PT.unmarshal_ESDigitalToken = [(1, 0); (2, 2); (3, 2); (4, 2); (5, 2)]
  /\ fields_of PT.unmarshal_ESDTRoles = [(1, 2)]
  /\ fields_of PT.unmarshal_MetaData = [(1, 0); (2, 2); (3, 2); (4, 0); (5, 2); (6, 2); (7, 2)]
  /\ map fst (rev PT.marshal_ESDigitalToken) = ["Type"; "Value"; "Properties"; "TokenMetaData"; "Reserved"]%string
  /\ map fst (rev PT.marshal_ESDTRoles) = ["Roles"]%string
  /\ map fst (rev PT.marshal_MetaData) = ["Nonce"; "Name"; "Creator"; "Royalties"; "Hash"; "URIs"; "Attributes"]%string
  /\ map snd (rev PT.marshal_ESDigitalToken) = [8; 18; 26; 34; 42]
  /\ map snd (rev PT.marshal_ESDTRoles) = [10]
  /\ map snd (rev PT.marshal_MetaData) = [8; 18; 26; 32; 42; 50; 58].
Proof. exact documented_fields. Qed.

(* the encoder writes the fields in field-number order with the source's tag bytes: zero scalars and empty
   byte fields omitted, Value always present, every element of a repeated field written *)
Theorem C14_encode_fields_in_order :
  (forall t, enc_token t = doc_token t) /\ (forall r, enc_roles r = doc_roles r)
  /\ (forall m, enc_metadata m = doc_metadata m).
Proof. split; [exact enc_token_format|]. split; [exact enc_roles_format|exact enc_metadata_format]. Qed.

(* the decoder knows exactly the source's fields with the source's wire types *)
Theorem C14_decoder_field_tables :
  (forall n, kind_wt (token_kind n) = lookup_wt PT.unmarshal_ESDigitalToken n)
  /\ (forall n, kind_wt (roles_kind n) = lookup_wt PT.unmarshal_ESDTRoles n)
  /\ (forall n, kind_wt (metadata_kind n) = lookup_wt PT.unmarshal_MetaData n).
Proof. split; [exact token_kind_table|]. split; [exact roles_kind_table|exact metadata_kind_table]. Qed.

(* ============ decoding arbitrary bytes: a value or an error, never a panic ============ *)
(* every index / slice expression of the generated decoders is an explicit Panic in the model; for EVERY byte
   string and every receiver state (Reset first or merge into an existing object) it is unreachable *)
Theorem C14_decode_no_panic : forall b,
  dec_token_res b <> Panic /\ dec_roles_res b <> Panic /\ dec_metadata_res b <> Panic
  /\ (forall t0, unmarshal_token t0 b <> Panic) /\ (forall r0, unmarshal_roles r0 b <> Panic)
  /\ (forall m0, unmarshal_metadata m0 b <> Panic) /\ skip_esdt b <> Panic.
Proof.
  intros b. split; [exact (dec_token_no_panic b)|]. split; [exact (dec_roles_no_panic b)|].
  split; [exact (dec_metadata_no_panic b)|]. split; [exact (fun t0 => unmarshal_token_no_panic t0 b)|].
  split; [exact (fun r0 => unmarshal_roles_no_panic r0 b)|].
  split; [exact (fun m0 => unmarshal_metadata_no_panic m0 b)|exact (skip_esdt_no_panic b)].
Qed.

Theorem C14_decode_value_or_error : forall b,
  (exists t, dec_token_res b = Ok t) \/ (exists e, dec_token_res b = Err e).
Proof. exact dec_token_value_or_error. Qed.

(* ============ the abstract codec of the ledger proofs ============ *)
Theorem C14_the_codec_ok_sized : codec_ok_sized proto_codec.
Proof. exact the_codec_ok_sized. Qed.
Theorem C14_proto_codec_not_ok : ~ codec_ok proto_codec.
Proof. exact proto_codec_not_ok. Qed.
Theorem C14_ideal_codec_ok : codec_ok ideal_codec.
Proof. exact ideal_codec_ok. Qed.
Theorem C14_ideal_agrees :
  enc_tok ideal_codec = enc_tok proto_codec /\ enc_rol ideal_codec = enc_rol proto_codec
  /\ (forall b, fits b -> dec_tok ideal_codec b = dec_tok proto_codec b)
  /\ (forall b, fits b -> dec_rol ideal_codec b = dec_rol proto_codec b).
Proof. exact ideal_agrees. Qed.

(* ============ non-vacuity: concrete values ============ *)
Example C14_example_token :
  wf_token ex_tok /\ fits (enc_token ex_tok) /\ enc_token ex_tok = ex_tok_bytes /\ size_token ex_tok = 99
  /\ dec_token ex_tok_bytes = Some ex_tok /\ dec_token_ideal ex_tok_bytes = Some ex_tok
  /\ t_value ex_tok = Some (- (2 ^ 200))%Z /\ t_meta ex_tok = Some ex_md /\ md_uris ex_md = [[]; str "u"%string].
Proof.
  split; [exact ex_tok_wf|]. split; [exact ex_tok_fits|].
  destruct ex_tok_encoding as [E1 E2]. destruct ex_tok_roundtrip as [R1 R2].
  repeat split; assumption.
Qed.
Example C14_example_metadata :
  wf_metadata ex_md /\ fits (enc_metadata ex_md) /\ dec_metadata (enc_metadata ex_md) = Some ex_md.
Proof. exact ex_md_roundtrip. Qed.
Example C14_example_small_encodings :
  enc_token empty_token = hx "120100"
  /\ enc_token (set_value empty_token (Some 0%Z)) = hx "12020000"
  /\ enc_token (set_value empty_token (Some 255%Z)) = hx "120200ff"
  /\ enc_token (set_value empty_token (Some (-256)%Z)) = hx "1203010100"
  /\ enc_token (set_meta empty_token (Some empty_metadata)) = hx "1201002200"
  /\ dec_token (hx "1201002200") = Some (set_meta empty_token (Some empty_metadata))
  /\ enc_roles [str "ESDTRoleLocalMint"; []] = hx "0a11" ++ str "ESDTRoleLocalMint" ++ hx "0a00"
  /\ dec_roles (hx "0a000a0141") = Some [[]; str "A"]
  /\ enc_metadata empty_metadata = [].
Proof. exact ex_small_encodings. Qed.
Example C14_example_amounts :
  caster_marshal None = hx "00" /\ caster_marshal (Some 0%Z) = hx "0000"
  /\ caster_marshal (Some (2 ^ 64)%Z) = hx "00010000000000000000"
  /\ caster_marshal (Some (- 1)%Z) = hx "0101"
  /\ caster_unmarshal (hx "0700") = Some (Some 0%Z)
  /\ caster_unmarshal (hx "0701") = None
  /\ caster_unmarshal (hx "000001") = Some (Some 1%Z)
  /\ caster_unmarshal (hx "0100") = Some (Some 0%Z)
  /\ caster_unmarshal (hx "010000") = Some (Some 0%Z)
  /\ caster_unmarshal (hx "05") = Some None
  /\ caster_unmarshal [] = None.
Proof. exact ex_amounts. Qed.
Example C14_example_malformed :
  dec_token_res (hx "08") = Err EUnexpectedEOF
  /\ dec_token_res (hx "0880808080808080808080") = Err EIntOverflow
  /\ dec_token_res (hx "12ffffffffffffffffff01") = Err EInvalidLength
  /\ dec_token_res (hx "12ffffffffffffffff7f") = Err EInvalidLength
  /\ dec_token_res (hx "1205") = Err EUnexpectedEOF
  /\ dec_token_res (hx "0a00") = Err EWrongWireType
  /\ dec_token_res (hx "00") = Err EIllegalTag
  /\ dec_token_res (hx "0c") = Err EIllegalTag
  /\ dec_token_res (hx "1200") = Err EBadValue
  /\ dec_token_res (hx "3b3c") = Ok empty_token
  /\ dec_token_res (hx "3b") = Err EUnexpectedEOF
  /\ dec_token_res (hx "3e") = Err EIllegalWireType
  /\ dec_token_res (hx "39") = Err EUnexpectedEOF
  /\ dec_token_res (hx "888080808001" ++ hx "05") = Ok (tk_set_type empty_token 5).
Proof. exact ex_malformed. Qed.

Print Assumptions C14_bigint_roundtrip.
Print Assumptions C14_bigint_size_eq.
Print Assumptions C14_bigint_format.
Print Assumptions C14_bigint_canonical.
Print Assumptions C14_bigint_rejects_iff.
Print Assumptions C14_bigint_unmarshal_no_panic.
Print Assumptions C14_bigint_marshal_to_sized.
Print Assumptions C14_varint_roundtrip.
Print Assumptions C14_sov_eq_length.
Print Assumptions C14_token_roundtrip_partial.
Print Assumptions C14_roles_roundtrip_partial.
Print Assumptions C14_metadata_roundtrip_partial.
Print Assumptions C14_roundtrip_needs_fits.
Print Assumptions C14_roundtrip_ideal.
Print Assumptions C14_decoded_wf.
Print Assumptions C14_encoding_injective.
Print Assumptions C14_canonical_form.
Print Assumptions C14_size_eq_length.
Print Assumptions C14_source_tables_consistent.
Print Assumptions C14_documented_fields.
Print Assumptions C14_encode_fields_in_order.
Print Assumptions C14_decoder_field_tables.
Print Assumptions C14_decode_no_panic.
Print Assumptions C14_decode_value_or_error.
Print Assumptions C14_the_codec_ok_sized.
Print Assumptions C14_proto_codec_not_ok.
Print Assumptions C14_ideal_codec_ok.
Print Assumptions C14_ideal_agrees.
Print Assumptions C14_example_token.
Print Assumptions C14_example_metadata.
Print Assumptions C14_example_small_encodings.
Print Assumptions C14_example_amounts.
Print Assumptions C14_example_malformed.
