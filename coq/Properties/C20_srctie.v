(* Property C20, extension "source tie": the helper functions of address.go, codeMetadata.go, gasCost.go and
   builtInFunctions/esdtMetaData.go as REGENERATED from /repo's current Go sources on this very run
   (gen/Pure.v, module P, written by tools/srcgen/pure.go over the combinators of Base/GoSem.v; None = panic).
   1. the tie theorems: each regenerated function equals the hand-written model of Helpers/Helpers.v, for all inputs;
   2. the headline theorems of C20 restated directly on the regenerated functions.
   Only statements, each closed by [exact] of a lemma of Helpers/PureTie_*.v, and their assumptions. *)
From Coq.Strings Require Import String.
From EV Require Import Base.Bytes gen.Consts Base.GoSem gen.Pure Helpers.Helpers Helpers.HelpersProofs Helpers.PureTie_Base Helpers.PureTie_Addr Helpers.PureTie_Meta.

(* ================================================================== *)
(* 1. regenerated definition = hand model                               *)
(* ================================================================== *)
Theorem C20_src_tie_IsSystemAccountAddress : forall a, P.IsSystemAccountAddress a = is_system_account_address a.
Proof. exact tie_IsSystemAccountAddress. Qed.
Theorem C20_src_tie_IsSmartContractAddress : forall a, P.IsSmartContractAddress a = is_sc_address a.
Proof. exact tie_IsSmartContractAddress. Qed.
Theorem C20_src_tie_IsEmptyAddress : forall a, P.IsEmptyAddress a = Some (is_empty_address a).
Proof. exact tie_IsEmptyAddress. Qed.
Theorem C20_src_tie_IsMetachainIdentifier : forall id, P.IsMetachainIdentifier id = Some (is_metachain_identifier id).
Proof. exact tie_IsMetachainIdentifier. Qed.
Theorem C20_src_tie_IsSmartContractOnMetachain : forall id a, P.IsSmartContractOnMetachain id a = is_sc_on_metachain id a.
Proof. exact tie_IsSmartContractOnMetachain. Qed.
Theorem C20_src_tie_IsAllowedToSaveUnderKey : forall k, P.IsAllowedToSaveUnderKey k = is_allowed_to_save_under_key k.
Proof. exact tie_IsAllowedToSaveUnderKey. Qed.

(* the generated record P.CodeMetadata and the hand record, field by field (the second pins the field list) *)
Example C20_src_codemeta_records : forall (p : P.CodeMetadata) (m : codemeta),
  cm_of p = {| cm_payable := P.CodeMetadata_Payable p; cm_upgradeable := P.CodeMetadata_Upgradeable p;
               cm_readable := P.CodeMetadata_Readable p |}
  /\ cm_to_P m = {| P.CodeMetadata_Payable := cm_payable m; P.CodeMetadata_Upgradeable := cm_upgradeable m;
                    P.CodeMetadata_Readable := cm_readable m |}
  /\ cm_of (cm_to_P m) = m /\ cm_to_P (cm_of p) = p.
Proof. exact (fun p m => conj eq_refl (conj eq_refl (conj (cm_of_to_P m) (cm_to_P_of p)))). Qed.
Theorem C20_src_tie_CodeMetadataFromBytes : forall l, option_map cm_of (P.CodeMetadataFromBytes l) = codemeta_from l.
Proof. exact tie_CodeMetadataFromBytes. Qed.
(* the receiver of ToBytes is a pointer: Some m = non-nil, None = nil (dereferencing it panics) *)
Theorem C20_src_tie_CodeMetadata_ToBytes : forall m, P.CodeMetadata_ToBytes (Some (cm_to_P m)) = codemeta_to m.
Proof. exact tie_CodeMetadata_ToBytes. Qed.
Theorem C20_src_tie_CodeMetadata_ToBytes_nil : P.CodeMetadata_ToBytes None = None.
Proof. exact tie_CodeMetadata_ToBytes_nil. Qed.

(* the error result is a value (go_nil / go_err name), not a panic; a is a uint64 *)
Theorem C20_src_tie_SafeSubUint64 : forall a b, (a < two64)%N ->
  P.SafeSubUint64 a b = Some (match safe_sub_u64 a b with
                              | Some r => (r, go_nil)
                              | None => (0%N, go_err "ErrSubtractionOverflow")
                              end).
Proof. exact tie_SafeSubUint64. Qed.

(* one-field structs: the record literals name every field of the generated records *)
Theorem C20_src_tie_ESDTGlobalMetadataFromBytes : forall l,
  option_map P.ESDTGlobalMetadata_Paused (P.ESDTGlobalMetadataFromBytes l) = paused_from l.
Proof. exact tie_ESDTGlobalMetadataFromBytes. Qed.
Theorem C20_src_tie_ESDTGlobalMetadata_ToBytes : forall f,
  P.ESDTGlobalMetadata_ToBytes (Some {| P.ESDTGlobalMetadata_Paused := f |}) = paused_to f.
Proof. exact tie_ESDTGlobalMetadata_ToBytes. Qed.
Theorem C20_src_tie_ESDTUserMetadataFromBytes : forall l,
  option_map P.ESDTUserMetadata_Frozen (P.ESDTUserMetadataFromBytes l) = frozen_from l.
Proof. exact tie_ESDTUserMetadataFromBytes. Qed.
Theorem C20_src_tie_ESDTUserMetadata_ToBytes : forall f,
  P.ESDTUserMetadata_ToBytes (Some {| P.ESDTUserMetadata_Frozen := f |}) = frozen_to f.
Proof. exact tie_ESDTUserMetadata_ToBytes. Qed.
Theorem C20_src_ESDTMetadata_one_field : forall (g : P.ESDTGlobalMetadata) (u : P.ESDTUserMetadata),
  g = {| P.ESDTGlobalMetadata_Paused := P.ESDTGlobalMetadata_Paused g |}
  /\ u = {| P.ESDTUserMetadata_Frozen := P.ESDTUserMetadata_Frozen u |}.
Proof. exact (fun g u => conj (ESDTGlobalMetadata_eta g) (ESDTUserMetadata_eta u)). Qed.
Theorem C20_src_tie_ESDTMetadata_ToBytes_nil :
  P.ESDTGlobalMetadata_ToBytes None = None /\ P.ESDTUserMetadata_ToBytes None = None.
Proof. exact tie_ESDTMetadata_ToBytes_nil. Qed.

(* ================================================================== *)
(* 2. the laws of C20 on the regenerated functions                      *)
(* ================================================================== *)
Theorem C20_src_codemeta_bytes_roundtrip : forall a b : byte,
  exists m bs, P.CodeMetadataFromBytes [a; b] = Some m /\ P.CodeMetadata_ToBytes (Some m) = Some bs
    /\ bs = [n2b (N.land (b2n a) 5); n2b (N.land (b2n b) 2)]
    /\ P.CodeMetadataFromBytes bs = Some m
    /\ P.CodeMetadata_Upgradeable m = N.testbit (b2n a) 0 /\ P.CodeMetadata_Readable m = N.testbit (b2n a) 2
    /\ P.CodeMetadata_Payable m = N.testbit (b2n b) 1.
Proof. exact P_codemeta_bytes_roundtrip. Qed.
Theorem C20_src_codemeta_record_roundtrip : forall m : P.CodeMetadata,
  exists bs, P.CodeMetadata_ToBytes (Some m) = Some bs /\ length bs = 2 /\ P.CodeMetadataFromBytes bs = Some m.
Proof. exact P_codemeta_record_roundtrip. Qed.
Theorem C20_src_codemeta_other_lengths : forall l, length l <> 2 ->
  P.CodeMetadataFromBytes l =
  Some {| P.CodeMetadata_Payable := false; P.CodeMetadata_Upgradeable := false; P.CodeMetadata_Readable := false |}.
Proof. exact P_codemeta_other_lengths. Qed.
Theorem C20_src_codemeta_never_panics : forall l (m : P.CodeMetadata),
  P.CodeMetadataFromBytes l <> None /\ P.CodeMetadata_ToBytes (Some m) <> None.
Proof. exact P_codemeta_never_panics. Qed.

Example C20_src_flag_records : forall f,
  mkFrozen f = {| P.ESDTUserMetadata_Frozen := f |} /\ mkPaused f = {| P.ESDTGlobalMetadata_Paused := f |}.
Proof. exact (fun f => conj eq_refl eq_refl). Qed.
Theorem C20_src_frozen_bytes_roundtrip : forall a b : byte,
  exists f bs, P.ESDTUserMetadataFromBytes [a; b] = Some (mkFrozen f) /\ f = N.testbit (b2n a) 0
     /\ P.ESDTUserMetadata_ToBytes (Some (mkFrozen f)) = Some bs
     /\ bs = [n2b (N.land (b2n a) 1); x00] /\ P.ESDTUserMetadataFromBytes bs = Some (mkFrozen f).
Proof. exact P_frozen_bytes_roundtrip. Qed.
Theorem C20_src_paused_bytes_roundtrip : forall a b : byte,
  exists f bs, P.ESDTGlobalMetadataFromBytes [a; b] = Some (mkPaused f) /\ f = N.testbit (b2n a) 0
     /\ P.ESDTGlobalMetadata_ToBytes (Some (mkPaused f)) = Some bs
     /\ bs = [n2b (N.land (b2n a) 1); x00] /\ P.ESDTGlobalMetadataFromBytes bs = Some (mkPaused f).
Proof. exact P_paused_bytes_roundtrip. Qed.
Theorem C20_src_flag_other_lengths : forall l, length l <> 2 ->
  P.ESDTUserMetadataFromBytes l = Some (mkFrozen false) /\ P.ESDTGlobalMetadataFromBytes l = Some (mkPaused false).
Proof. exact P_flag_other_lengths. Qed.
Theorem C20_src_flag_never_panics : forall l f,
  P.ESDTUserMetadataFromBytes l <> None /\ P.ESDTGlobalMetadataFromBytes l <> None
  /\ P.ESDTUserMetadata_ToBytes (Some (mkFrozen f)) <> None /\ P.ESDTGlobalMetadata_ToBytes (Some (mkPaused f)) <> None.
Proof. exact P_flag_never_panics. Qed.

(* the address classifiers never panic, on any length *)
Theorem C20_src_address_classification_total : forall id a,
  P.IsSystemAccountAddress a <> None /\ P.IsSmartContractAddress a <> None
  /\ P.IsSmartContractOnMetachain id a <> None /\ P.IsAllowedToSaveUnderKey a <> None
  /\ P.IsEmptyAddress a <> None /\ P.IsMetachainIdentifier id <> None.
Proof. exact P_address_classification_total. Qed.
Theorem C20_src_meta_sc_is_sc : forall id a,
  P.IsSmartContractOnMetachain id a = Some true -> P.IsSmartContractAddress a = Some true.
Proof. exact P_meta_sc_is_sc. Qed.
Theorem C20_src_system_account_classified :
  P.IsSystemAccountAddress C.SystemAccountAddress = Some true
  /\ P.IsSmartContractAddress C.SystemAccountAddress = Some false
  /\ length C.SystemAccountAddress = 32.
Proof. exact P_system_account_classified. Qed.
Theorem C20_src_esdt_sc_classified :
  P.IsSmartContractAddress C.ESDTSCAddress = Some true
  /\ P.IsSmartContractOnMetachain [xff; xff] C.ESDTSCAddress = Some true
  /\ P.IsSystemAccountAddress C.ESDTSCAddress = Some false
  /\ length C.ESDTSCAddress = 32.
Proof. exact P_esdt_sc_classified. Qed.
Theorem C20_src_protected_key_iff : forall k,
  P.IsAllowedToSaveUnderKey k = Some false <-> exists r, k = C.ElrondProtectedKeyPrefix ++ r.
Proof. exact P_protected_key_iff. Qed.

(* SafeSubUint64 returns an error exactly on underflow (then the value 0), else the exact difference *)
Theorem C20_src_safe_sub_spec : forall a b, (a < two64)%N ->
  exists r e, P.SafeSubUint64 a b = Some (r, e)
    /\ (e <> go_nil <-> (a < b)%N) /\ (e = go_nil -> (r + b = a)%N) /\ (e <> go_nil -> r = 0%N).
Proof. exact P_safe_sub_spec. Qed.
(* non-vacuity: both outcomes occur *)
Example C20_src_safe_sub_examples :
  P.SafeSubUint64 5 7 = Some (0%N, go_err "ErrSubtractionOverflow") /\ P.SafeSubUint64 7 5 = Some (2%N, go_nil)
  /\ P.IsSmartContractOnMetachain [xff; xff] C.ESDTSCAddress = Some true.
Proof. exact (conj eq_refl (conj eq_refl eq_refl)). Qed.

Print Assumptions C20_src_tie_IsSystemAccountAddress.
Print Assumptions C20_src_tie_IsSmartContractAddress.
Print Assumptions C20_src_tie_IsEmptyAddress.
Print Assumptions C20_src_tie_IsMetachainIdentifier.
Print Assumptions C20_src_tie_IsSmartContractOnMetachain.
Print Assumptions C20_src_tie_IsAllowedToSaveUnderKey.
Print Assumptions C20_src_tie_CodeMetadataFromBytes.
Print Assumptions C20_src_tie_CodeMetadata_ToBytes.
Print Assumptions C20_src_tie_SafeSubUint64.
Print Assumptions C20_src_tie_ESDTGlobalMetadataFromBytes.
Print Assumptions C20_src_tie_ESDTGlobalMetadata_ToBytes.
Print Assumptions C20_src_tie_ESDTUserMetadataFromBytes.
Print Assumptions C20_src_tie_ESDTUserMetadata_ToBytes.
Print Assumptions C20_src_codemeta_bytes_roundtrip.
Print Assumptions C20_src_codemeta_record_roundtrip.
Print Assumptions C20_src_codemeta_never_panics.
Print Assumptions C20_src_frozen_bytes_roundtrip.
Print Assumptions C20_src_paused_bytes_roundtrip.
Print Assumptions C20_src_flag_never_panics.
Print Assumptions C20_src_address_classification_total.
Print Assumptions C20_src_meta_sc_is_sc.
Print Assumptions C20_src_esdt_sc_classified.
Print Assumptions C20_src_protected_key_iff.
Print Assumptions C20_src_safe_sub_spec.
