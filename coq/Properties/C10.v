(* Property C10 — cross-shard messages and the transfer parser agree with the ledger.
   Only statements, each closed by [exact] of a lemma of LedgerProofs/C10_*.v, their assumptions, pins and
   non-vacuity examples.

   Reading guide.  [E : env] is arbitrary with [codec_ok (cdc E)]; a call is [exec E f i s = (Ok o, s')]
   (all 23 functions) or [f_xxx E i s = (Ok o, s')] (= exec under the function's name: C10_exec_dispatch).
   No [no_faults]: an Ok result already implies that no dependency failed (C17).
   1. C10_emitted_data_parses_back: every NON-EMPTY data string of every output transfer of every successful call
      is [msg_data fn args] (= Parsers' build_call = encode_message: C10_encoders_agree) for an explicit (fn, args):
      either fn = f, the executing function's own name, one of the six continuation names (then the call-arguments
      parser returns exactly (fn, args)), or (fn, args) is the call ATTACHED to the input at [attached_index f i]
      (ESDTTransfer 2, ESDTNFTTransfer 4, MultiESDTNFTTransfer 3n+2 / 3n+1 with Go's uint64 arithmetic); the parser
      returns (fn, args) whenever fn is non-empty and '@'-free.  KNOWN FINDING F10: without that condition the
      statement is false (C10_emitted_data_parses_back_refuted, _refuted_empty).
   2. C10_continuation_accepted_shape_*: the message a sender side emits passes every argument-count / shape guard
      of the destination side of the same-named function ([xxx_dest_guards]); C10_*_dest_guards_pass: under those
      guards the destination-side function IS its state-dependent remainder (payability, frozen/paused, stored
      entry), whose acceptance is C01's liveness theorem.  F2 (repaired): a 1-token multi-transfer message has 4
      arguments and 4 <= 4 passes (C10_one_token_message).
   3. C10_parser_agrees_*: [parse_esdt_transfers (dec_tok (cdc E)) caller rcpt f args] of an accepted call is Ok r,
      [pt_rcv r] is the account the ledger credits, [report_moves r] = (storage key, quantity) per reported token,
      and [ledger_moved] says the balance of EVERY cell changes by exactly these quantities (debit of the caller,
      credit of the receiver when it lives on the executing shard); call function / arguments = the attached call.
      Hypotheses: F4b [lookup_consistent] (sender-side NFT lookups); KNOWN FINDING F12 [be_to_N count < 2^64]
      (C10_parser_agrees_sender_refuted); [go_slice_len] (every Go slice); stored balances of a same-shard
      destination are non-negative ([save_nft] clamps); destination side: payloads FAITHFUL to the message's
      leading arguments, which is how sender sides build them (C10_emitted_*_faithful) - on a crafted payload the
      single-NFT parser reports argument 2 while the ledger credits the payload's Value
      (C10_parser_agrees_dest_nft_crafted; not reachable by a transaction, see C11 delivered_input). *)
From Coq.Strings Require Import String.
From EV Require Import Base.Bytes Base.Store Base.Monad gen.Consts Codec.Types Codec.CodecOk Helpers.Helpers
  Parsers.Tokenize Parsers.CallArgs Parsers.Builder Parsers.EsdtTransferParser Parsers.EsdtTransferParserProofs
  Ledger.Types Ledger.Env Ledger.Funcs Ledger.Transfers Ledger.World
  LedgerProofs.Defs LedgerProofs.EnvSpec LedgerProofs.WorldDefs
  LedgerProofs.Spec_Transfers_Base LedgerProofs.Spec_Transfers_Esdt LedgerProofs.Spec_Transfers_Nft
  LedgerProofs.Spec_Transfers_Multi LedgerProofs.Spec_Transfers LedgerProofs.Spec_Transfers_Examples
  LedgerProofs.C10_Emit LedgerProofs.C10_Parser LedgerProofs.C10_Accept LedgerProofs.C10_Examples.

(* ---- pins ---- *)
Example C10_pinned_constants :
  C.parsers_atSeparatorChar = 64%N /\ n2b C.parsers_atSeparatorChar = x40 /\ at_sep = [x40]
  /\ (C.parsers_MinArgsForESDTTransfer, C.parsers_MinArgsForESDTNFTTransfer, C.parsers_MinArgsForMultiESDTNFTTransfer,
      C.parsers_ArgsPerTransfer) = (2, 4, 4, 3)%N
  /\ (C.MinLenArgumentsESDTTransfer, C.MinLenArgumentsESDTNFTTransfer, C.bif_argumentsPerTransfer) = (2, 4, 3)%N
  /\ continuation_names =
     [str "ESDTTransfer"%string; str "ESDTBurn"%string; str "ESDTNFTTransfer"%string; str "MultiESDTNFTTransfer"%string;
      str "ESDTNFTCreateRoleTransfer"%string; str "SetUserName"%string].
Proof. repeat split. Qed.
(* the encoder of the ledger model is the encoder of the parsers' model (C12 proves parse . build = id for it) *)
Theorem C10_encoders_agree : forall fn args,
  msg_data fn args = build_call fn args /\ msg_data fn args = encode_message fn args
  /\ msg_data fn args = fn ++ concat (map (fun a => x40 :: hex_enc a) args).
Proof. intros. split; [exact (msg_data_build_call fn args)|]. split; [exact (msg_data_encode_message fn args)|reflexivity]. Qed.
(* the vocabulary of the statements, written out *)
Example C10_definitions_unfolded : forall (E : env) (f fn : bytes) (i : input) (k : N) (args : list bytes)
    (s s' : mstate) (from to : option bytes) (mv : list (bytes * Z)) (r : parsed_transfers),
  (valid_fname fn <-> fn <> [] /\ ~ In x40 fn)
  /\ (continuation_name f = true -> In f continuation_names)
  /\ (attached_at i k fn args <-> nth_error (i_args i) (N.to_nat k) = Some fn /\ args = skipn (N.to_nat (k + 1)) (i_args i))
  /\ attached_index C.BuiltInFunctionESDTTransfer i = Some 2%N
  /\ attached_index C.BuiltInFunctionESDTNFTTransfer i = Some 4%N
  /\ attached_index C.BuiltInFunctionMultiESDTNFTTransfer i =
       Some (if beqb (i_caller i) (i_rcpt i) then u64 (u64 (bigU64 (argn i 1) * 3) + 2) else u64 (u64 (bigU64 (argn i 0) * 3) + 1))
  /\ (attached_index f i <> None -> is_transfer_fn f = true)
  /\ report_moves r = map (fun t => (nft_key (P ++ et_token t) (et_nonce t), et_value t)) (pt_transfers r)
  /\ (ledger_moved E s s' from to mv <->
        forall a k0, balance E s' a k0 =
          (balance E s a k0
           - match from with Some y => if beqb a y then qty_list k0 mv else 0 | None => 0 end
           + match to with Some y => if beqb a y then qty_list k0 mv else 0 | None => 0 end)%Z).
Proof.
  intros. split; [reflexivity|]. split; [apply bytes_in_In|]. split; [reflexivity|].
  split; [reflexivity|]. split; [reflexivity|]. split; [reflexivity|]. split.
  - unfold attached_index, is_transfer_fn. destruct (beqb f C.BuiltInFunctionESDTTransfer); [reflexivity|].
    destruct (beqb f C.BuiltInFunctionESDTNFTTransfer); [reflexivity|].
    destruct (beqb f C.BuiltInFunctionMultiESDTNFTTransfer); [reflexivity|]. intros H. contradiction H. reflexivity.
  - split; reflexivity.
Qed.
Theorem C10_exec_dispatch : forall E i,
  exec E C.BuiltInFunctionESDTTransfer i = f_esdt_transfer E i
  /\ exec E C.BuiltInFunctionESDTNFTTransfer i = f_nft_transfer E i
  /\ exec E C.BuiltInFunctionMultiESDTNFTTransfer i = f_multi_transfer E i
  /\ exec E C.BuiltInFunctionESDTNFTCreateRoleTransfer i = f_create_role_transfer E i
  /\ exec E C.BuiltInFunctionSetUserName i = f_set_user_name E i.
Proof. intros. repeat split. Qed.

(* ================================================================ *)
(* 1. every emitted data string parses back                           *)
(* ================================================================ *)
Theorem C10_emitted_data_parses_back : forall (E : env), codec_ok (cdc E) -> forall f i s o s',
  exec E f i s = (Ok o, s') ->
  forall oa t, In oa (o_accounts o) -> In t (oc_transfers oa) -> tr_data t <> [] ->
  exists fn args,
    tr_data t = msg_data fn args
    /\ (valid_fname fn -> parse_call_data (tr_data t) = Some (fn, args))
    /\ ((fn = f /\ continuation_name f = true /\ parse_call_data (tr_data t) = Some (fn, args))
        \/ (exists k, attached_index f i = Some k /\ attached_at i k fn args)).
Proof. exact emitted_data_parses_back. Qed.
Theorem C10_msg_data_parses_back : forall fn args, valid_fname fn -> parse_call_data (msg_data fn args) = Some (fn, args).
Proof. exact msg_data_parses_back. Qed.
Theorem C10_continuation_names_valid : forall f, continuation_name f = true -> valid_fname f.
Proof. exact continuation_name_valid. Qed.
(* KNOWN FINDING F10: dropping [valid_fname] makes the statement false *)
Theorem C10_emitted_data_parses_back_refuted :
  ~ (forall E, codec_ok (cdc E) -> forall f i s o s', exec E f i s = (Ok o, s') ->
       forall oa t, In oa (o_accounts o) -> In t (oc_transfers oa) -> tr_data t <> [] ->
       forall k fn args, attached_index f i = Some k -> attached_at i k fn args -> tr_data t = msg_data fn args ->
       parse_call_data (tr_data t) = Some (fn, args)).
Proof. exact emitted_data_parses_back_refuted. Qed.
Theorem C10_emitted_data_parses_back_refuted_empty :
  ~ (forall E, codec_ok (cdc E) -> forall f i s o s', exec E f i s = (Ok o, s') ->
       forall oa t, In oa (o_accounts o) -> In t (oc_transfers oa) -> tr_data t <> [] ->
       exists fn args, parse_call_data (tr_data t) = Some (fn, args)).
Proof. exact emitted_data_parses_back_refuted_empty. Qed.
(* the witnesses: fn = "a@bb" is read back as "a" with one more argument; fn = "" does not tokenise *)
Example C10_F10_witnesses :
  datas (exec EI C.BuiltInFunctionESDTTransfer in_f10 s0) = Some [[str "a@bb@cc"%string]]
  /\ attached_at in_f10 2 (str "a@bb"%string) [[xcc]]
  /\ parse_call_data (str "a@bb@cc"%string) = Some (str "a"%string, [[xbb]; [xcc]])
  /\ datas (exec EI C.BuiltInFunctionESDTTransfer in_f10_empty s0) = Some [[str "@cc"%string]]
  /\ attached_at in_f10_empty 2 [] [[xcc]]
  /\ parse_call_data (str "@cc"%string) = None.
Proof.
  destruct f10_run as (H1 & _ & H2 & _ & H3). destruct f10_run_empty as (H4 & H5 & _ & H6). repeat split; assumption.
Qed.

(* ================================================================ *)
(* 2. continuation messages pass the destination side's guards        *)
(* ================================================================ *)
Section C10_Accept.
  (* E: the sender's environment, E': the destination's (Ledger/World.v env_at: only self_shard differs) *)
  Variables E E' : env.
  Hypothesis Hc : codec_ok (cdc E).
  Hypothesis Hcdc : cdc E' = cdc E.
  Hypothesis Hsh : shard_of E' = shard_of E.
  Hypothesis Hgas : gas E' = gas E.
  Hypothesis Hdns : dns E' = dns E.

  Example C10_guards_unfolded : forall i',
    (delivered_shape i' <-> i_value i' = 0%Z /\ i_snd i' = false /\ i_dst i' = true /\ i_caller i' <> i_rcpt i')
    /\ (esdt_dest_guards E' i' <->
          i_value i' = 0%Z /\ i_snd i' = false /\ i_dst i' = true
          /\ (2 <= alen (i_args i'))%N /\ shard_of E' (i_rcpt i') <> META /\ (0 < bigZ (argn i' 1))%Z)
    /\ (nft_dest_guards E' i' <->
          delivered_shape i' /\ (4 <= alen (i_args i'))%N
          /\ exists t m, dec_tok (cdc E') (argn i' 3) = Some t /\ t_value t <> None /\ t_meta t = Some m)
    /\ (multi_dest_guards E' i' <->
          delivered_shape i' /\ (4 <= alen (i_args i'))%N
          /\ multi_n_dst i' <> 0%N /\ (multi_n_dst i' <= alen (i_args i') / 3)%N
          /\ (multi_min 1 (multi_n_dst i') <= alen (i_args i'))%N
          /\ (1 + multi_n_dst i' * 3 <= alen (i_args i'))%N
          /\ Forall (fun x => (0 < rt_nonce x)%N -> exists t, dec_tok (cdc E') (rt_third x) = Some t /\ t_value t <> None)
                    (multi_dst_triples i'))
    /\ (role_dest_guards i' <->
          i_value i' = 0%Z /\ i_snd i' = false /\ i_dst i' = true /\ i_caller i' <> SC /\ alen (i_args i') = 2%N)
    /\ (username_dest_guards E' i' <->
          i_value i' = 0%Z /\ i_dst i' = true /\ (g_SaveUserName (gas E') <= i_gas i')%N
          /\ In (i_caller i') (dns E') /\ alen (i_args i') = 1%N).
  Proof. intros i'. repeat (split; [reflexivity|]). reflexivity. Qed.

  (* ESDTTransfer whose recipient lives elsewhere (re-emitted as ESDTTransfer@... when the caller is a contract;
     a user's transaction travels itself with the same arguments) *)
  Theorem C10_continuation_accepted_shape_esdt : forall i s o s',
    f_esdt_transfer E i s = (Ok o, s') -> i_dst i = false ->
    (is_sc (i_caller i) = true ->
       exists t, o_accounts o = [{| oc_addr := i_rcpt i; oc_delta := 0; oc_transfers := [t] |}]
                 /\ tr_data t = msg_data C.BuiltInFunctionESDTTransfer (i_args i))
    /\ forall i', i_args i' = i_args i -> i_rcpt i' = i_rcpt i ->
         i_value i' = 0%Z -> i_snd i' = false -> i_dst i' = true -> esdt_dest_guards E' i'.
  Proof. exact (continuation_accepted_shape_esdt E E' Hc Hsh). Qed.
  Theorem C10_esdt_dest_guards_pass : forall i', esdt_dest_guards E' i' -> forall s,
    f_esdt_transfer E' i' s =
    (check_payable E' (must_verify_payable i' 2) (i_rcpt i') ;;;
     add_to_esdt_balance E' (i_rcpt i') (P ++ argn i' 0) (bigZ (argn i' 1)) (i_rae i') ;;;
     ret (esdt_transfer_out E' i')) s.
  Proof. exact (esdt_dest_guards_pass E'). Qed.

  (* ESDTNFTTransfer, cross-shard: 4 leading arguments, the fourth a payload that decodes to an entry with value
     and metadata; an attached call follows unchanged *)
  Theorem C10_continuation_accepted_shape_nft : forall i s o s',
    f_nft_transfer E i s = (Ok o, s') -> i_caller i = i_rcpt i -> nft_same E i = false ->
    exists args' t,
      o_accounts o = [{| oc_addr := nft_dst i; oc_delta := 0; oc_transfers := [t] |}]
      /\ tr_data t = msg_data C.BuiltInFunctionESDTNFTTransfer args'
      /\ alen args' = alen (i_args i)
      /\ forall i', i_args i' = args' -> delivered_shape i' -> nft_dest_guards E' i'.
  Proof. exact (continuation_accepted_shape_nft E E' Hc Hcdc). Qed.
  Theorem C10_nft_dest_guards_pass : forall i', nft_dest_guards E' i' -> forall s,
    f_nft_transfer E' i' s =
    (t <- unmarshal_tok E' (argn i' 3) ;;
     _ <- add_nft_to_destination E' (i_rcpt i') (P ++ argn i' 0) t (must_verify_payable i' 4) (i_rae i') ;;
     ret (nft_dest_out i' t)) s
    /\ exists t m, dec_tok (cdc E') (argn i' 3) = Some t /\ t_value t <> None /\ t_meta t = Some m.
  Proof. exact (nft_dest_guards_pass E'). Qed.

  (* MultiESDTNFTTransfer, cross-shard: count = the sender's count, 3n+1 <= number of arguments, at least 4
     arguments (F2: exactly 4 for one token without attached call), every NFT payload decodes with a value *)
  Theorem C10_continuation_accepted_shape_multi : forall i s o s',
    f_multi_transfer E i s = (Ok o, s') -> i_caller i = i_rcpt i -> multi_same E i = false ->
    exists args' t,
      o_accounts o = [{| oc_addr := multi_dst i; oc_delta := 0; oc_transfers := [t] |}]
      /\ tr_data t = msg_data C.BuiltInFunctionMultiESDTNFTTransfer args'
      /\ (4 <= alen args')%N /\ (multi_n_snd i = 1%N -> alen (i_args i) = 5%N -> alen args' = 4%N)
      /\ forall i', i_args i' = args' -> delivered_shape i' ->
           multi_dest_guards E' i' /\ multi_n_dst i' = multi_n_snd i.
  Proof. exact (continuation_accepted_shape_multi E E' Hc Hcdc). Qed.
  Theorem C10_multi_dest_guards_pass : forall i', multi_dest_guards E' i' -> forall s,
    f_multi_transfer E' i' s =
    (alloc (multi_n_dst i') ;;;
     logs <- multi_dest_loop E' (N.to_nat (multi_n_dst i')) i' (multi_min 1 (multi_n_dst i')) 0 [] ;;
     multi_dest_finish i' logs) s.
  Proof. exact (multi_dest_guards_pass E'). Qed.

  (* ESDTNFTCreateRoleTransfer: the hand-over message carries (token, counter) = 2 arguments *)
  Theorem C10_continuation_accepted_shape_role : forall i s o s',
    f_create_role_transfer E i s = (Ok o, s') -> i_caller i = SC ->
    exists tok newOwner t,
      i_args i = [tok; newOwner]
      /\ o_accounts o = [{| oc_addr := newOwner; oc_delta := 0; oc_transfers := [t] |}]
      /\ tr_data t = msg_data C.BuiltInFunctionESDTNFTCreateRoleTransfer [tok; u64_bytes (counter_at s (i_rcpt i) tok)]
      /\ forall i', i_args i' = [tok; u64_bytes (counter_at s (i_rcpt i) tok)] ->
           i_value i' = 0%Z -> i_snd i' = false -> i_dst i' = true -> i_caller i' <> SC ->
           role_dest_guards i' /\ argn i' 0 = tok /\ bigU64 (argn i' 1) = counter_at s (i_rcpt i) tok.
  Proof. exact (continuation_accepted_shape_role E Hc). Qed.
  Theorem C10_role_dest_guards_pass : forall i', role_dest_guards i' -> forall s,
    f_create_role_transfer E' i' s =
    (save_latest_nonce E' (i_rcpt i') (argn i' 0) (bigU64 (argn i' 1)) ;;;
     add_create_role E' (i_rcpt i') (RP ++ argn i' 0) ;;;
     ret (mk_out rcOk 0)) s.
  Proof. exact (role_dest_guards_pass E'). Qed.

  (* SetUserName, origin side: one argument, the origin's gas travels as the gas limit, same DNS caller *)
  Theorem C10_continuation_accepted_shape_username : forall i s o s',
    f_set_user_name E i s = (Ok o, s') -> i_dst i = false ->
    exists a0 t,
      i_args i = [a0]
      /\ o_accounts o = [{| oc_addr := i_rcpt i; oc_delta := 0; oc_transfers := [t] |}]
      /\ tr_data t = msg_data C.BuiltInFunctionSetUserName [a0] /\ tr_gasLimit t = i_gas i /\ tr_sender t = i_caller i
      /\ forall i', i_args i' = [a0] -> i_value i' = 0%Z -> i_dst i' = true ->
           i_gas i' = tr_gasLimit t -> i_caller i' = tr_sender t -> username_dest_guards E' i'.
  Proof. exact (continuation_accepted_shape_username E E' Hgas Hdns). Qed.
  Theorem C10_username_dest_guards_pass : forall i', username_dest_guards E' i' -> forall s,
    f_set_user_name E' i' s =
    (d <- get_acct (i_rcpt i') ;;
     guard (enable_change E' || match a_username d with [] => true | _ => false end) EUserNameChangeIsDisabled ;;;
     upd_acct (i_rcpt i') (fun a => {| a_store := a_store a; a_balance := a_balance a; a_owner := a_owner a;
                                       a_username := argn i' 0; a_devreward := a_devreward a |}) ;;;
     ret (mk_out rcOk (sub64 (i_gas i') (g_SaveUserName (gas E'))))) s.
  Proof. exact (username_dest_guards_pass E'). Qed.
End C10_Accept.

(* bridge to the world model (Ledger/World.v): the message built from a continuation transfer carries exactly
   (f, args); its delivery has the delivered shape; composed for the multi-transfer: one message in flight, whose
   delivery with any gas passes the destination's guards *)
Theorem C10_msg_of_continuation : forall (c : wcfg) sh i id dest t f args,
  tr_data t = msg_data f args -> continuation_name f = true -> (wc_shard_of c dest =? sh)%N = false ->
  msg_of_transfer c sh i id dest t =
  Some {| m_id := id; m_fn := f; m_caller := if (wc_shard_of c (tr_sender t) =? sh)%N then tr_sender t else i_rcpt i;
          m_dest := dest; m_args := args; m_callType := tr_callType t; m_gasLimit := tr_gasLimit t;
          m_locked := tr_gasLocked t; m_origin := sh; m_sender := i_caller i |}.
Proof. exact msg_of_continuation. Qed.
Theorem C10_deliver_input_shape : forall (c : wcfg) m sh gas,
  (wc_shard_of c (m_caller m) =? sh)%N = false -> m_caller m <> m_dest m ->
  let i' := deliver_input c m sh gas in
  delivered_shape i' /\ i_args i' = m_args m /\ i_caller i' = m_caller m /\ i_rcpt i' = m_dest m /\ i_gas i' = gas.
Proof. exact deliver_input_shape. Qed.
Theorem C10_world_continuation_accepted_shape_multi : forall (c : wcfg) sh i s o s' id,
  codec_ok (wc_cdc c) ->
  exec (env_at c sh) C.BuiltInFunctionMultiESDTNFTTransfer i s = (Ok o, s') ->
  i_caller i = i_rcpt i -> wc_shard_of c (i_caller i) = sh -> wc_shard_of c (multi_dst i) <> sh ->
  exists m, collect_accounts c sh i id (o_accounts o) = [m]
    /\ m_fn m = C.BuiltInFunctionMultiESDTNFTTransfer /\ m_dest m = multi_dst i /\ m_caller m = i_caller i
    /\ forall gas, multi_dest_guards (env_at c (wc_shard_of c (m_dest m))) (deliver_input c m (wc_shard_of c (m_dest m)) gas).
Proof. exact world_continuation_accepted_shape_multi. Qed.

(* ================================================================ *)
(* 3. the ESDT-transfer parser agrees with the ledger                 *)
(* ================================================================ *)
(* ESDTTransfer, every presence case (origin side: i_snd; destination side / same shard: i_dst) *)
Theorem C10_parser_agrees_esdt : forall (E : env), codec_ok (cdc E) -> forall i s o s',
  f_esdt_transfer E i s = (Ok o, s') ->
  exists r,
    parse_esdt_transfers (dec_tok (cdc E)) (i_caller i) (i_rcpt i) C.BuiltInFunctionESDTTransfer (i_args i) = Ok r
    /\ r = {| pt_transfers := [ {| et_value := bigZ (argn i 1); et_token := argn i 0; et_type := u32 C.Fungible; et_nonce := 0 |} ];
              pt_rcv := i_rcpt i; pt_call_args := skipn 3 (i_args i); pt_call_function := call_fn_at i 2 |}
    /\ report_moves r = [(P ++ argn i 0, bigZ (argn i 1))]
    /\ ledger_moved E s s' (if i_snd i then Some (i_caller i) else None)
                           (if i_dst i then Some (pt_rcv r) else None) (report_moves r)
    /\ (forall k fn args, attached_index C.BuiltInFunctionESDTTransfer i = Some k -> attached_at i k fn args ->
          pt_call_function r = fn /\ pt_call_args r = args).
Proof. exact parser_agrees_esdt. Qed.

(* ESDTNFTTransfer, sender side *)
Theorem C10_parser_agrees_sender_nft : forall (E : env), codec_ok (cdc E) -> forall i s o s',
  f_nft_transfer E i s = (Ok o, s') -> i_caller i = i_rcpt i ->
  lookup_consistent E s (i_caller i) (nft_tkey i) (nft_nonce i) ->                    (* F4b *)
  (nft_same E i = true -> (0 <= balance E s (nft_dst i) (nft_cell i))%Z) ->
  exists r,
    parse_esdt_transfers (dec_tok (cdc E)) (i_caller i) (i_rcpt i) C.BuiltInFunctionESDTNFTTransfer (i_args i) = Ok r
    /\ r = {| pt_transfers := [ {| et_value := bigZ (argn i 2); et_token := argn i 0; et_type := u32 C.NonFungible;
                                   et_nonce := bigU64 (argn i 1) |} ];
              pt_rcv := argn i 3; pt_call_args := skipn 5 (i_args i); pt_call_function := call_fn_at i 4 |}
    /\ report_moves r = [(nft_key (P ++ argn i 0) (bigU64 (argn i 1)), bigZ (argn i 2))]
    /\ ledger_moved E s s' (Some (i_caller i)) (if nft_same E i then Some (pt_rcv r) else None) (report_moves r)
    /\ (forall k fn args, attached_index C.BuiltInFunctionESDTNFTTransfer i = Some k -> attached_at i k fn args ->
          pt_call_function r = fn /\ pt_call_args r = args).
Proof. exact parser_agrees_sender_nft. Qed.
(* without F4b's hypothesis: the report is the requested triple, and the entry found under the reported cell is
   debited by exactly the reported value *)
Theorem C10_parser_agrees_sender_nft_requested : forall (E : env), codec_ok (cdc E) -> forall i s o s',
  f_nft_transfer E i s = (Ok o, s') -> i_caller i = i_rcpt i ->
  exists r t tr,
    parse_esdt_transfers (dec_tok (cdc E)) (i_caller i) (i_rcpt i) C.BuiltInFunctionESDTNFTTransfer (i_args i) = Ok r
    /\ pt_rcv r = nft_dst i /\ pt_transfers r = [tr]
    /\ tok_at E s (i_caller i) (et_cell tr) = Some t
    /\ (et_value tr <= val_or_0 t)%Z
    /\ balance E s' (i_caller i) (nft_full i t) = (val_or_0 t - et_value tr)%Z.
Proof. exact parser_agrees_sender_nft_requested. Qed.

(* ESDTNFTTransfer, destination side, for faithful payloads *)
Theorem C10_parser_agrees_dest_nft : forall (E : env), codec_ok (cdc E) -> forall i s o s',
  f_nft_transfer E i s = (Ok o, s') -> i_caller i <> i_rcpt i ->
  (forall t, dec_tok (cdc E) (argn i 3) = Some t -> tok_nonce t = nft_nonce i /\ val_or_0 t = nft_qty i) ->
  (0 <= balance E s (i_rcpt i) (nft_cell i))%Z ->
  exists r,
    parse_esdt_transfers (dec_tok (cdc E)) (i_caller i) (i_rcpt i) C.BuiltInFunctionESDTNFTTransfer (i_args i) = Ok r
    /\ r = nft_report i (i_rcpt i)
    /\ report_moves r = [(nft_cell i, nft_qty i)]
    /\ ledger_moved E s s' None (Some (pt_rcv r)) (report_moves r)
    /\ (forall k fn args, attached_index C.BuiltInFunctionESDTNFTTransfer i = Some k -> attached_at i k fn args ->
          pt_call_function r = fn /\ pt_call_args r = args).
Proof. exact parser_agrees_dest_nft. Qed.
(* the message of a cross-shard sender side is faithful and reports the origin's triple and call at the destination *)
Theorem C10_emitted_nft_payload_faithful : forall (E : env), codec_ok (cdc E) -> forall i s o s',
  f_nft_transfer E i s = (Ok o, s') -> i_caller i = i_rcpt i -> nft_same E i = false ->
  lookup_consistent E s (i_caller i) (nft_tkey i) (nft_nonce i) ->
  exists args' t,
    o_accounts o = [{| oc_addr := nft_dst i; oc_delta := 0; oc_transfers := [t] |}]
    /\ tr_data t = msg_data C.BuiltInFunctionESDTNFTTransfer args'
    /\ forall i', i_args i' = args' ->
         nft_payload_faithful E i' /\ nft_cell i' = nft_cell i /\ nft_qty i' = nft_qty i
         /\ pt_transfers (nft_report i' (i_rcpt i')) = pt_transfers (nft_report i (nft_dst i))
         /\ pt_call_function (nft_report i' (i_rcpt i')) = pt_call_function (nft_report i (nft_dst i))
         /\ pt_call_args (nft_report i' (i_rcpt i')) = pt_call_args (nft_report i (nft_dst i)).
Proof. exact emitted_nft_payload_faithful. Qed.
Example C10_parser_agrees_dest_nft_crafted :
  match f_nft_transfer EI in_crafted s0 with
  | (Ok o, s') => (balance EI s' carol (nft_key (P ++ nftA) 1) =? 7)%Z
  | _ => false
  end = true
  /\ (exists r, parse_esdt_transfers (dec_tok (cdc EI)) bob carol C.BuiltInFunctionESDTNFTTransfer (i_args in_crafted) = Ok r
        /\ report_moves r = [(nft_key (P ++ nftA) 1, 2%Z)])
  /\ ~ nft_payload_faithful EI in_crafted.
Proof. exact parser_agrees_dest_nft_crafted. Qed.

(* MultiESDTNFTTransfer, sender side *)
Theorem C10_parser_agrees_sender_multi : forall (E : env), codec_ok (cdc E) -> forall i s o s',
  f_multi_transfer E i s = (Ok o, s') -> i_caller i = i_rcpt i ->
  go_slice_len (i_args i) ->
  (be_to_N (argn i 1) < two64)%N ->                                              (* F12 *)
  triples_consistent E s (i_caller i) (multi_snd_triples i) ->                   (* F4b *)
  (multi_same E i = true -> nonneg_balances E s (multi_dst i)) ->
  exists r,
    parse_esdt_transfers (dec_tok (cdc E)) (i_caller i) (i_rcpt i) C.BuiltInFunctionMultiESDTNFTTransfer (i_args i) = Ok r
    /\ r = {| pt_transfers := map et_snd (multi_snd_triples i); pt_rcv := argn i 0;
              pt_call_args := skipn (N.to_nat (multi_min 2 (multi_n_snd i) + 1)) (i_args i);
              pt_call_function := call_fn_at i (multi_min 2 (multi_n_snd i)) |}
    /\ report_moves r = debit_list (multi_snd_triples i)
    /\ ledger_moved E s s' (Some (i_caller i)) (if multi_same E i then Some (pt_rcv r) else None) (report_moves r)
    /\ (forall k fn args, attached_index C.BuiltInFunctionMultiESDTNFTTransfer i = Some k -> attached_at i k fn args ->
          pt_call_function r = fn /\ pt_call_args r = args).
Proof. exact parser_agrees_sender_multi. Qed.
Example C10_multi_report_unfolded : forall (x : rawtriple) trs,
  et_snd x = {| et_value := bigZ (snd x); et_token := fst (fst x);
                et_type := if (0 <? bigU64 (snd (fst x)))%N then u32 C.NonFungible else u32 C.Fungible;
                et_nonce := bigU64 (snd (fst x)) |}
  /\ debit_list trs = map (fun x => (nft_key (P ++ fst (fst x)) (bigU64 (snd (fst x))), bigZ (snd x))) trs.
Proof. intros. split; reflexivity. Qed.
(* KNOWN FINDING F12: without the count hypothesis the statement is false (count 2^64 + 2: the ledger moves two
   tokens, the parser answers ErrNotEnoughArguments) *)
Theorem C10_parser_agrees_sender_refuted :
  ~ (forall E, codec_ok (cdc E) -> forall i s o s',
       f_multi_transfer E i s = (Ok o, s') -> i_caller i = i_rcpt i -> go_slice_len (i_args i) ->
       triples_consistent E s (i_caller i) (multi_snd_triples i) ->
       (multi_same E i = true -> nonneg_balances E s (multi_dst i)) ->
       exists r, parse_esdt_transfers (dec_tok (cdc E)) (i_caller i) (i_rcpt i) C.BuiltInFunctionMultiESDTNFTTransfer (i_args i) = Ok r).
Proof. exact parser_agrees_sender_refuted. Qed.
Example C10_F12_witness :
  be_to_N count_f12 = (2 ^ 64 + 2)%N /\ multi_n_snd in_f12 = 2%N
  /\ match f_multi_transfer EI in_f12 s0 with
     | (Ok o, s') => (balance EI s' alice (nft_key (P ++ nftA) 1) =? 1)%Z && (balance EI s' alice (P ++ tokA) =? 2)%Z
     | _ => false
     end = true
  /\ parse_esdt_transfers (dec_tok (cdc EI)) alice alice C.BuiltInFunctionMultiESDTNFTTransfer (i_args in_f12)
     = Err ErrNotEnoughArguments.
Proof. exact f12_run. Qed.

(* MultiESDTNFTTransfer, destination side *)
Theorem C10_parser_agrees_dest_multi : forall (E : env), codec_ok (cdc E) -> forall i s o s',
  f_multi_transfer E i s = (Ok o, s') -> i_caller i <> i_rcpt i ->
  go_slice_len (i_args i) ->
  (be_to_N (argn i 0) < two64)%N ->
  multi_faithful E (multi_dst_triples i) ->
  nonneg_balances E s (i_rcpt i) -> credits_nonneg E (multi_dst_triples i) ->
  exists r,
    parse_esdt_transfers (dec_tok (cdc E)) (i_caller i) (i_rcpt i) C.BuiltInFunctionMultiESDTNFTTransfer (i_args i) = Ok r
    /\ r = multi_report_dst E i
    /\ report_moves r = dst_credits E (multi_dst_triples i)
    /\ ledger_moved E s s' None (Some (pt_rcv r)) (report_moves r)
    /\ (forall k fn args, attached_index C.BuiltInFunctionMultiESDTNFTTransfer i = Some k -> attached_at i k fn args ->
          pt_call_function r = fn /\ pt_call_args r = args).
Proof. exact parser_agrees_dest_multi. Qed.
Example C10_multi_faithful_unfolded : forall (E : env) trs,
  multi_faithful E trs <->
  Forall (fun x : rawtriple => (0 < bigU64 (snd (fst x)))%N ->
            forall t, dec_tok (cdc E) (snd x) = Some t -> tok_nonce t = bigU64 (snd (fst x))) trs.
Proof. intros. split; intros H; exact H. Qed.
(* the message of a cross-shard sender side has a uint64 count, the sender's count, and faithful payloads -
   whatever the lookups found (the sender writes the METADATA nonce into the message) *)
Theorem C10_emitted_multi_faithful : forall (E : env), codec_ok (cdc E) -> forall i s o s',
  f_multi_transfer E i s = (Ok o, s') -> i_caller i = i_rcpt i -> multi_same E i = false ->
  exists args' t,
    o_accounts o = [{| oc_addr := multi_dst i; oc_delta := 0; oc_transfers := [t] |}]
    /\ tr_data t = msg_data C.BuiltInFunctionMultiESDTNFTTransfer args'
    /\ forall i', i_args i' = args' ->
         (be_to_N (argn i' 0) < two64)%N /\ multi_n_dst i' = multi_n_snd i
         /\ multi_faithful E (multi_dst_triples i').
Proof. exact emitted_multi_faithful. Qed.

(* the report on the DELIVERED message of a cross-shard multi-transfer (accepted at the destination, E' = the
   destination's environment) is the origin's list of debits, and it is what the destination credits: every
   hypothesis of C10_parser_agrees_dest_multi except the destination's own non-negative balances is discharged *)
Theorem C10_delivered_multi_report_is_origin_debits : forall (E E' : env), codec_ok (cdc E) -> cdc E' = cdc E ->
  forall i s o s',
  f_multi_transfer E i s = (Ok o, s') -> i_caller i = i_rcpt i -> multi_same E i = false ->
  triples_consistent E s (i_caller i) (multi_snd_triples i) ->
  exists args' t,
    o_accounts o = [{| oc_addr := multi_dst i; oc_delta := 0; oc_transfers := [t] |}]
    /\ tr_data t = msg_data C.BuiltInFunctionMultiESDTNFTTransfer args'
    /\ forall i' s2 o2 s2', i_args i' = args' -> i_caller i' <> i_rcpt i' -> go_slice_len (i_args i') ->
         f_multi_transfer E' i' s2 = (Ok o2, s2') -> nonneg_balances E' s2 (i_rcpt i') ->
         exists r',
           parse_esdt_transfers (dec_tok (cdc E')) (i_caller i') (i_rcpt i') C.BuiltInFunctionMultiESDTNFTTransfer (i_args i') = Ok r'
           /\ pt_rcv r' = i_rcpt i'
           /\ report_moves r' = debit_list (multi_snd_triples i)
           /\ ledger_moved E' s2 s2' None (Some (i_rcpt i')) (report_moves r').
Proof. exact delivered_multi_report_is_origin_debits. Qed.

(* the forwarded call is the reported call: with r the parser's report of an accepted transfer call (its call part
   characterised as in the C10_parser_agrees_* theorems), every emitted data string is the function's own continuation
   or msg_data of the reported (call function, call arguments) *)
Theorem C10_forwarded_call_is_reported : forall (E : env), codec_ok (cdc E) -> forall f i s o s' r,
  exec E f i s = (Ok o, s') ->
  (forall k fn args, attached_index f i = Some k -> attached_at i k fn args ->
     pt_call_function r = fn /\ pt_call_args r = args) ->
  forall oa t, In oa (o_accounts o) -> In t (oc_transfers oa) -> tr_data t <> [] ->
  (continuation_name f = true /\ exists args, tr_data t = msg_data f args)
  \/ tr_data t = msg_data (pt_call_function r) (pt_call_args r).
Proof. exact forwarded_call_is_reported. Qed.

(* ================================================================ *)
(* 4. non-vacuity (ideal_codec, which is codec_ok)                    *)
(* ================================================================ *)
Example C10_codec_instance : codec_ok (cdc EI) /\ cdc EI1 = cdc EI /\ shard_of EI1 = shard_of EI.
Proof. split; [exact EI_ok|split; reflexivity]. Qed.
(* a cross-shard multi-transfer of one token emits a 4-argument message (F2) that parses back and is accepted *)
Example C10_one_token_message :
  datas (exec EI C.BuiltInFunctionMultiESDTNFTTransfer in_one s0)
    = Some [[msg_data C.BuiltInFunctionMultiESDTNFTTransfer msg_one_args]]
  /\ length msg_one_args = 4%nat
  /\ parse_call_data (msg_data C.BuiltInFunctionMultiESDTNFTTransfer msg_one_args)
     = Some (C.BuiltInFunctionMultiESDTNFTTransfer, msg_one_args)
  /\ match exec EI1 C.BuiltInFunctionMultiESDTNFTTransfer in_one_delivered sB with
     | (Ok o, s') => (balance EI1 s' bob (P ++ tokA) =? 3)%Z
     | _ => false
     end = true.
Proof. exact one_token_message. Qed.
Example C10_one_token_shape :
  exists o s' args' t,
    f_multi_transfer EI in_one s0 = (Ok o, s')
    /\ o_accounts o = [{| oc_addr := bob; oc_delta := 0; oc_transfers := [t] |}]
    /\ tr_data t = msg_data C.BuiltInFunctionMultiESDTNFTTransfer args' /\ alen args' = 4%N
    /\ forall i', i_args i' = args' -> delivered_shape i' -> multi_dest_guards EI1 i'.
Proof. exact inst_one_token_shape. Qed.
(* parser report = debits for a 2-token multi-transfer with an attached call *)
Example C10_two_token_report :
  parse_esdt_transfers (dec_tok (cdc EI)) alice alice C.BuiltInFunctionMultiESDTNFTTransfer (i_args in_two)
  = Ok {| pt_transfers := [ {| et_value := 2; et_token := nftA; et_type := 1; et_nonce := 1 |};
                            {| et_value := 3; et_token := tokA; et_type := 0; et_nonce := 0 |} ];
          pt_rcv := ctr; pt_call_args := [[x09]]; pt_call_function := str "fn"%string |}
  /\ datas (exec EI C.BuiltInFunctionMultiESDTNFTTransfer in_two s0) = Some [[str "fn@09"%string]]
  /\ match f_multi_transfer EI in_two s0 with
     | (Ok o, s') =>
       (balance EI s' alice (nft_key (P ++ nftA) 1) =? 3 - 2)%Z && (balance EI s' alice (P ++ tokA) =? 5 - 3)%Z
       && (balance EI s' ctr (nft_key (P ++ nftA) 1) =? 2)%Z && (balance EI s' ctr (P ++ tokA) =? 3)%Z
     | _ => false
     end = true.
Proof. exact two_token_report. Qed.
Example C10_two_token_agreement :
  exists o s' r,
    f_multi_transfer EI in_two s0 = (Ok o, s')
    /\ parse_esdt_transfers (dec_tok (cdc EI)) alice alice C.BuiltInFunctionMultiESDTNFTTransfer (i_args in_two) = Ok r
    /\ pt_rcv r = ctr
    /\ report_moves r = [(nft_key (P ++ nftA) 1, 2%Z); (P ++ tokA, 3%Z)]
    /\ ledger_moved EI s0 s' (Some alice) (Some ctr) (report_moves r)
    /\ pt_call_function r = str "fn"%string /\ pt_call_args r = [[x09]].
Proof. exact inst_two_token_agreement. Qed.

Print Assumptions C10_encoders_agree.
Print Assumptions C10_emitted_data_parses_back.
Print Assumptions C10_msg_data_parses_back.
Print Assumptions C10_continuation_names_valid.
Print Assumptions C10_emitted_data_parses_back_refuted.
Print Assumptions C10_emitted_data_parses_back_refuted_empty.
Print Assumptions C10_continuation_accepted_shape_esdt.
Print Assumptions C10_esdt_dest_guards_pass.
Print Assumptions C10_continuation_accepted_shape_nft.
Print Assumptions C10_nft_dest_guards_pass.
Print Assumptions C10_continuation_accepted_shape_multi.
Print Assumptions C10_multi_dest_guards_pass.
Print Assumptions C10_continuation_accepted_shape_role.
Print Assumptions C10_role_dest_guards_pass.
Print Assumptions C10_continuation_accepted_shape_username.
Print Assumptions C10_username_dest_guards_pass.
Print Assumptions C10_msg_of_continuation.
Print Assumptions C10_world_continuation_accepted_shape_multi.
Print Assumptions C10_parser_agrees_esdt.
Print Assumptions C10_parser_agrees_sender_nft.
Print Assumptions C10_parser_agrees_sender_nft_requested.
Print Assumptions C10_parser_agrees_dest_nft.
Print Assumptions C10_emitted_nft_payload_faithful.
Print Assumptions C10_parser_agrees_dest_nft_crafted.
Print Assumptions C10_parser_agrees_sender_multi.
Print Assumptions C10_parser_agrees_sender_refuted.
Print Assumptions C10_parser_agrees_dest_multi.
Print Assumptions C10_emitted_multi_faithful.
Print Assumptions C10_delivered_multi_report_is_origin_debits.
Print Assumptions C10_forwarded_call_is_reported.
Print Assumptions C10_one_token_shape.
Print Assumptions C10_two_token_agreement.
