(* Property C08 -- NFT metadata travels intact with the tokens.
   Only statements, each closed by [exact] of a lemma proved in LedgerProofs/C08_Base.v (creation, the two
   metadata-changing functions, one hop of ESDTNFTTransfer, hash mismatch), C08_Multi.v (one hop of
   MultiESDTNFTTransfer), C08_Only.v (all other functions leave metadata alone), C08_Route.v (routes),
   C08_World.v (the hops are what the world model does), pins, non-vacuity examples and their assumptions.

   Reading guide.  [E : env] is ARBITRARY with a codec satisfying [codec_ok]; [exec E f i s = (Ok o, s')]: built-in
   function f called with input i in shard state s succeeds with output o and post-state s'.
   [tok_at E s a k]: the decoded entry (ESDigitalToken: type, value, properties, metadata, reserved) account a holds under
   the FULL storage key k; [meta_at E s a k] its metadata.  Keys: [nft_key (P ++ tok) nonce] = "ELRONDesdt" ++ token id ++
   nonce bytes; [nft_cell i] the key the single transfer names (arguments 0 and 1), [rt_cell x] the key a triple
   x = (token id, nonce bytes, quantity bytes) of a multi transfer names.  Sender side of the two NFT transfer
   functions: caller = recipient of the call, destination = argument 3 ([nft_dst i]) resp. 0 ([multi_dst i]), on the
   same shard iff [nft_same E i] resp. [multi_same E i]; destination side: caller <> recipient, the payload is the 4th
   argument resp. the third element of each triple with nonce > 0.
   KNOWN FINDING F4b: an entry stored under key (token, nonce) whose metadata nonce differs from that nonce is
   written back under the key of its metadata nonce; every statement about a function that rewrites the CALLER's entry
   therefore carries [lookup_consistent] / [triples_consistent] (the entry found under (token, nonce) has metadata nonce =
   nonce).  Entries created and moved by the ledger itself always satisfy it. *)
From Coq.Strings Require Import String.
From EV Require Import Base.Bytes Base.Store Base.Monad gen.Consts Codec.Types Codec.Proto Codec.Ideal Codec.CodecOk
  Helpers.Helpers Parsers.Tokenize Parsers.CallArgs Parsers.Builder
  Ledger.Types Ledger.Env Ledger.Funcs Ledger.Transfers Ledger.World Corr.Exec
  LedgerProofs.Defs LedgerProofs.EnvSpec LedgerProofs.WorldDefs LedgerProofs.WorldSpec
  LedgerProofs.Spec_Transfers_Base LedgerProofs.Spec_Transfers_Esdt LedgerProofs.Spec_Transfers_Nft
  LedgerProofs.Spec_Transfers_Multi LedgerProofs.Spec_Transfers LedgerProofs.Spec_Supply
  LedgerProofs.C09_Admissible
  LedgerProofs.C08_Base LedgerProofs.C08_Multi LedgerProofs.C08_Only LedgerProofs.C08_Route LedgerProofs.C08_World.

(* ---- pins ---- *)
Example C08_pin_max_royalty : C.MaxRoyalty = 10000%N.
Proof. reflexivity. Qed.
Example C08_pin_u32 : forall n, u32 n = (n mod 4294967296)%N.
Proof. reflexivity. Qed.
(* the entry ESDTNFTCreate stores, field by field *)
Example C08_pin_created_token : forall i s,
  created_token i s =
  {| t_type := C.NonFungible; t_value := Some (bigZ (argn i 1)); t_props := [];
     t_meta := Some {| md_nonce := u64 (counter_at s (i_caller i) (argn i 0) + 1); md_name := argn i 2;
                       md_creator := i_caller i; md_royalties := u32 (bigU64 (argn i 3)); md_hash := argn i 4;
                       md_uris := skipn 6 (i_args i); md_attributes := argn i 5 |};
     t_reserved := [] |}
  /\ create_nonce i s = u64 (counter_at s (i_caller i) (argn i 0) + 1).
Proof. intros. split; reflexivity. Qed.
Example C08_pin_meta_at : forall E s a k,
  meta_at E s a k = match tok_at E s a k with Some t => t_meta t | None => None end.
Proof. reflexivity. Qed.
Example C08_pin_cells : forall i x,
  nft_cell i = nft_key (P ++ argn i 0) (bigU64 (argn i 1))
  /\ rt_cell x = nft_key (P ++ rt_tok x) (rt_nonce x) /\ rt_nonce x = bigU64 (snd (fst x)) /\ rt_tok x = fst (fst x)
  /\ nft_dst i = argn i 3 /\ multi_dst i = argn i 0 /\ nft_qty i = bigZ (argn i 2).
Proof. intros. repeat split. Qed.
(* the emitted argument lists *)
Example C08_pin_out_args : forall E i t lst,
  nft_out_args E i t = [argn i 0; argn i 1; argn i 2] ++ [enc_tok (cdc E) (set_value t (Some (nft_qty i)))] ++ skipn 4 (i_args i)
  /\ multi_out_list E i lst = (u64_bytes (multi_n_snd i) :: out_args_pure E lst) ++ skipn (N.to_nat (multi_min 2 (multi_n_snd i))) (i_args i)
  /\ out_args_pure E lst = concat (map (fun y => triple_args (travel_triple E y)) lst).
Proof. intros. split; [reflexivity|]. split; [reflexivity|]. apply out_args_pure_triples. Qed.
(* the ledger's message encoder is the parsers' encoder *)
Example C08_pin_encoder : forall fn args, msg_data fn args = encode_message fn args.
Proof. exact c08_msg_data_encode_message. Qed.

(* ================================================================ *)
(* 1. creation                                                        *)
(* ================================================================ *)
(* ESDTNFTCreate stores, under the next nonce of the CALLER, exactly the entry of [C08_pin_created_token]: nonce =
   counter + 1 (mod 2^64), name, creator = caller, hash, attributes, URIs from the arguments; the STORED royalties are
   (argument 3 as uint64) mod 2^32 and these are <= 10000 (the bound is on the stored value: an argument of 2^32 + 1 is
   stored as 1 -- example below); the caller holds the create role; the nonce is returned; the only log entry's last
   topic is the encoding of exactly the stored entry, which decodes back to it. *)
Theorem C08_create_records_metadata : forall (E : env), codec_ok (cdc E) -> forall i s o s',
  exec E C.BuiltInFunctionESDTNFTCreate i s = (Ok o, s') ->
  let n := create_nonce i s in
  let t := created_token i s in
  tok_at E s' (i_caller i) (nft_key (P ++ argn i 0) n) = Some t
  /\ wf_token t
  /\ (u32 (bigU64 (argn i 3)) <= C.MaxRoyalty)%N
  /\ (0 < bigZ (argn i 1))%Z
  /\ has_role E s (i_caller i) (argn i 0) C.ESDTRoleNFTCreate = true
  /\ i_caller i = i_rcpt i
  /\ counter_at s' (i_caller i) (argn i 0) = n
  /\ o_returnData o = [u64_bytes n]
  /\ o_logs o = [{| lg_id := C.BuiltInFunctionESDTNFTCreate; lg_addr := i_caller i;
                    lg_topics := [argn i 0; u64_bytes n; enc_tok (cdc E) t] |}]
  /\ dec_tok (cdc E) (enc_tok (cdc E) t) = Some t.
Proof. exact create_records_metadata_exec. Qed.

(* ================================================================ *)
(* 2. one hop                                                         *)
(* ================================================================ *)
(* single transfer, same shard: the destination's entry IS the sender's entry with only Value rewritten *)
Theorem C08_hop_same_single : forall (E : env), codec_ok (cdc E) -> forall i s o s',
  exec E C.BuiltInFunctionESDTNFTTransfer i s = (Ok o, s') -> i_caller i = i_rcpt i ->
  nft_same E i = true -> lookup_consistent E s (i_caller i) (nft_tkey i) (nft_nonce i) ->
  exists t m,
    tok_at E s (i_caller i) (nft_cell i) = Some t /\ t_meta t = Some m
    /\ tok_at E s' (nft_dst i) (nft_cell i) =
       (if (nft_qty i + balance E s (nft_dst i) (nft_cell i) <=? 0)%Z then None
        else Some (set_value t (Some (nft_qty i + balance E s (nft_dst i) (nft_cell i))%Z)))
    /\ (forall t', tok_at E s' (nft_dst i) (nft_cell i) = Some t' -> t_meta t' = Some m)
    /\ (forall t', tok_at E s' (i_caller i) (nft_cell i) = Some t' -> t_meta t' = Some m).
Proof. exact hop_same_single. Qed.

(* single transfer, cross shard, sender side: one output transfer; its data is the encoder's output for
   (ESDTNFTTransfer, [token; nonce; quantity; payload; attached call...]); the call-data parser reads exactly this name
   and list back; the payload decodes to the sender's entry with Value = quantity *)
Theorem C08_hop_cross_single_sender : forall (E : env), codec_ok (cdc E) -> forall i s o s',
  exec E C.BuiltInFunctionESDTNFTTransfer i s = (Ok o, s') -> i_caller i = i_rcpt i ->
  nft_same E i = false -> lookup_consistent E s (i_caller i) (nft_tkey i) (nft_nonce i) ->
  exists t m tr,
    tok_at E s (i_caller i) (nft_cell i) = Some t /\ t_meta t = Some m /\ wf_token t /\ tok_nonce t = nft_nonce i
    /\ o_accounts o = [{| oc_addr := nft_dst i; oc_delta := 0; oc_transfers := [tr] |}]
    /\ tr_data tr = msg_data C.BuiltInFunctionESDTNFTTransfer (nft_out_args E i t)
    /\ tr_data tr = encode_message C.BuiltInFunctionESDTNFTTransfer (nft_out_args E i t)
    /\ parse_call_data (tr_data tr) = Some (C.BuiltInFunctionESDTNFTTransfer, nft_out_args E i t)
    /\ tr_sender tr = i_caller i /\ tr_callType tr = i_callType i
    /\ dec_tok (cdc E) (enc_tok (cdc E) (set_value t (Some (nft_qty i)))) = Some (set_value t (Some (nft_qty i)))
    /\ (forall t', tok_at E s' (i_caller i) (nft_cell i) = Some t' -> t_meta t' = Some m).
Proof. exact hop_cross_single_sender. Qed.

(* single transfer, destination side: the stored entry is the decoded payload with only Value rewritten *)
Theorem C08_hop_single_dest : forall (E : env), codec_ok (cdc E) -> forall i s o s',
  exec E C.BuiltInFunctionESDTNFTTransfer i s = (Ok o, s') -> i_caller i <> i_rcpt i ->
  exists tp mp,
    dec_tok (cdc E) (argn i 3) = Some tp /\ t_meta tp = Some mp
    /\ tok_at E s' (i_rcpt i) (nft_full i tp) =
       (if (val_or_0 tp + balance E s (i_rcpt i) (nft_full i tp) <=? 0)%Z then None
        else Some (set_value tp (Some (val_or_0 tp + balance E s (i_rcpt i) (nft_full i tp))%Z)))
    /\ (forall t', tok_at E s' (i_rcpt i) (nft_full i tp) = Some t' -> t_meta t' = Some mp).
Proof. exact hop_single_dest. Qed.

(* single transfer, cross shard, both sides composed THROUGH THE WIRE: the destination side runs under another
   environment EB (its own shard; same codec) on the function name and argument list the parser reads from the emitted
   data; what it stores is the SENDER's entry with only Value rewritten *)
Theorem C08_hop_cross_single : forall (EA EB : env), codec_ok (cdc EA) -> cdc EB = cdc EA ->
  forall iA sA oA sA' iB sB oB sB' tr fn,
  exec EA C.BuiltInFunctionESDTNFTTransfer iA sA = (Ok oA, sA') -> i_caller iA = i_rcpt iA -> nft_same EA iA = false ->
  lookup_consistent EA sA (i_caller iA) (nft_tkey iA) (nft_nonce iA) ->
  o_accounts oA = [{| oc_addr := i_rcpt iB; oc_delta := 0; oc_transfers := [tr] |}] ->
  parse_call_data (tr_data tr) = Some (fn, i_args iB) ->
  exec EB fn iB sB = (Ok oB, sB') -> i_caller iB <> i_rcpt iB ->
  exists t m,
    tok_at EA sA (i_caller iA) (nft_cell iA) = Some t /\ t_meta t = Some m
    /\ fn = C.BuiltInFunctionESDTNFTTransfer /\ i_rcpt iB = nft_dst iA
    /\ tok_at EB sB' (i_rcpt iB) (nft_cell iA) =
       (if (nft_qty iA + balance EB sB (i_rcpt iB) (nft_cell iA) <=? 0)%Z then None
        else Some (set_value t (Some (nft_qty iA + balance EB sB (i_rcpt iB) (nft_cell iA))%Z)))
    /\ (forall t', tok_at EB sB' (i_rcpt iB) (nft_cell iA) = Some t' -> t_meta t' = Some m).
Proof. exact hop_cross_single. Qed.

(* multi transfer, same shard: for EVERY triple, whatever the destination (and the sender) holds afterwards in the
   cell the triple names carries the metadata of the sender's pre-state entry of that cell *)
Theorem C08_hop_same_multi : forall (E : env), codec_ok (cdc E) -> forall i s o s',
  exec E C.BuiltInFunctionMultiESDTNFTTransfer i s = (Ok o, s') -> i_caller i = i_rcpt i ->
  multi_same E i = true -> triples_consistent E s (i_caller i) (multi_snd_triples i) ->
  forall x, In x (multi_snd_triples i) ->
    exists t0, tok_at E s (i_caller i) (rt_cell x) = Some t0
      /\ ((0 < rt_nonce x)%N -> exists m, t_meta t0 = Some m)
      /\ (forall t', tok_at E s' (multi_dst i) (rt_cell x) = Some t' -> t_meta t' = t_meta t0)
      /\ (forall t', tok_at E s' (i_caller i) (rt_cell x) = Some t' -> t_meta t' = t_meta t0).
Proof. exact hop_same_multi. Qed.

(* what travels for one triple x: y = (token id, entry) with the entry = the sender's pre-state entry of the cell with
   Value = the requested quantity *)
Example C08_pin_travels : forall E s0 caller dl x y,
  c08_travels E s0 caller dl x y =
  (exists t0, tok_at E s0 caller (rt_cell x) = Some t0 /\ wf_token t0 /\ tok_nonce t0 = rt_nonce x
    /\ ((0 < rt_nonce x)%N -> exists m, t_meta t0 = Some m) /\ (rt_nonce x = 0%N -> t_meta t0 = None)
    /\ fst y = rt_tok x /\ snd y = set_value t0 (t_value (snd y))
    /\ (dl = false -> t_value (snd y) = Some (rt_qty x)) /\ (0 < rt_qty x)%Z).
Proof. reflexivity. Qed.
(* multi transfer, cross shard, sender side *)
Theorem C08_hop_cross_multi_sender : forall (E : env), codec_ok (cdc E) -> forall i s o s',
  exec E C.BuiltInFunctionMultiESDTNFTTransfer i s = (Ok o, s') -> i_caller i = i_rcpt i ->
  multi_same E i = false -> triples_consistent E s (i_caller i) (multi_snd_triples i) ->
  exists lst tr,
    Forall2 (c08_travels E s (i_caller i) false) (multi_snd_triples i) lst
    /\ length lst = N.to_nat (multi_n_snd i)
    /\ o_accounts o = [{| oc_addr := multi_dst i; oc_delta := 0; oc_transfers := [tr] |}]
    /\ tr_data tr = msg_data C.BuiltInFunctionMultiESDTNFTTransfer (multi_out_list E i lst)
    /\ tr_data tr = encode_message C.BuiltInFunctionMultiESDTNFTTransfer (multi_out_list E i lst)
    /\ parse_call_data (tr_data tr) = Some (C.BuiltInFunctionMultiESDTNFTTransfer, multi_out_list E i lst)
    /\ tr_sender tr = i_caller i /\ tr_callType tr = i_callType i
    /\ (forall x t', In x (multi_snd_triples i) -> tok_at E s' (i_caller i) (rt_cell x) = Some t' ->
          exists t0, tok_at E s (i_caller i) (rt_cell x) = Some t0 /\ t_meta t' = t_meta t0).
Proof. exact hop_cross_multi_sender. Qed.

(* multi transfer, destination side.  [dst_cell E x]: the cell a delivered triple writes (NFT triple: token id + the
   nonce INSIDE the decoded payload; fungible triple: the token-level key), [dst_meta E x] the payload's metadata.
   If every delivered triple that writes cell k carries metadata mo, and at least one does, then whatever the recipient
   holds in k afterwards carries mo. *)
Example C08_pin_dst_cell : forall E x,
  dst_cell E x = (if (0 <? rt_nonce x)%N then
                    match dec_tok (cdc E) (rt_third x) with Some tp => Some (nft_key (P ++ rt_tok x) (tok_nonce tp)) | None => None end
                  else Some (P ++ rt_tok x))
  /\ dst_meta E x = (if (0 <? rt_nonce x)%N then
                       match dec_tok (cdc E) (rt_third x) with Some tp => t_meta tp | None => None end
                     else None).
Proof. intros. split; reflexivity. Qed.
Theorem C08_hop_multi_dest : forall (E : env), codec_ok (cdc E) -> forall i s o s' k mo,
  exec E C.BuiltInFunctionMultiESDTNFTTransfer i s = (Ok o, s') -> i_caller i <> i_rcpt i ->
  (forall x, In x (multi_dst_triples i) -> dst_cell E x = Some k -> (0 < rt_nonce x)%N /\ dst_meta E x = mo) ->
  (exists x, In x (multi_dst_triples i) /\ dst_cell E x = Some k) ->
  forall t', tok_at E s' (i_rcpt i) k = Some t' -> t_meta t' = mo.
Proof. exact hop_multi_dest. Qed.

(* multi transfer, cross shard, composed through the wire: for every NFT triple of the sender-side call, whatever the
   destination holds afterwards in the cell the triple names carries the metadata of the sender's pre-state entry *)
Theorem C08_hop_cross_multi : forall (EA EB : env), codec_ok (cdc EA) -> cdc EB = cdc EA ->
  forall iA sA oA sA' iB sB oB sB' tr fn,
  exec EA C.BuiltInFunctionMultiESDTNFTTransfer iA sA = (Ok oA, sA') -> i_caller iA = i_rcpt iA -> multi_same EA iA = false ->
  triples_consistent EA sA (i_caller iA) (multi_snd_triples iA) ->
  o_accounts oA = [{| oc_addr := i_rcpt iB; oc_delta := 0; oc_transfers := [tr] |}] ->
  parse_call_data (tr_data tr) = Some (fn, i_args iB) ->
  exec EB fn iB sB = (Ok oB, sB') -> i_caller iB <> i_rcpt iB ->
  fn = C.BuiltInFunctionMultiESDTNFTTransfer /\ i_rcpt iB = multi_dst iA
  /\ forall x, In x (multi_snd_triples iA) -> (0 < rt_nonce x)%N ->
       exists t0 m, tok_at EA sA (i_caller iA) (rt_cell x) = Some t0 /\ t_meta t0 = Some m
         /\ forall t', tok_at EB sB' (i_rcpt iB) (rt_cell x) = Some t' -> t_meta t' = Some m.
Proof. exact hop_cross_multi. Qed.

(* ================================================================ *)
(* 3. routes                                                          *)
(* ================================================================ *)
(* [place] = (environment, shard state, account); [pl_meta k p] the metadata of p's entry under k.  [hop cd k p q]
   (LedgerProofs/C08_Route.v): q's state results from p's by one of: an idle step (the holder's metadata under k is
   unchanged: see part 5 for which calls do that), a same-shard single / multi transfer of cell k from p's account to
   q's, or a cross-shard single / multi transfer = sender-side execution + parse of the emitted data + destination
   side execution under an environment with the same codec cd -- exactly the hypotheses of the four one-hop theorems
   above plus "the destination holds an entry afterwards".  [route] = any list of hops. *)
Example C08_pin_place : forall k E s a, pl_meta k (pl E s a) = meta_at E s a k.
Proof. reflexivity. Qed.
Example C08_pin_hop_idle : forall cd k E s s' a, meta_at E s' a k = meta_at E s a k -> hop cd k (pl E s a) (pl E s' a).
Proof. intros. apply hop_idle. assumption. Qed.
Example C08_pin_route : forall cd k p q r, (route cd k p p) /\ (hop cd k p q -> route cd k q r -> route cd k p r).
Proof. intros. split; [apply route_nil|apply route_cons]. Qed.
Theorem C08_hop_preserves_metadata : forall (cd : codec) (k : bytes), codec_ok cd ->
  forall p q, hop cd k p q -> pl_meta k q = pl_meta k p.
Proof. exact hop_preserves_metadata. Qed.
Theorem C08_route_preserves_metadata : forall (cd : codec) (k : bytes), codec_ok cd ->
  forall p q, route cd k p q -> pl_meta k q = pl_meta k p.
Proof. exact route_preserves_metadata. Qed.
(* creation followed by any route: the last holder holds exactly the metadata recorded at creation *)
Theorem C08_created_metadata_arrives : forall (E : env), codec_ok (cdc E) -> forall i s o s' q,
  exec E C.BuiltInFunctionESDTNFTCreate i s = (Ok o, s') ->
  route (cdc E) (nft_key (P ++ argn i 0) (create_nonce i s)) (pl E s' (i_caller i)) q ->
  pl_meta (nft_key (P ++ argn i 0) (create_nonce i s)) q = t_meta (created_token i s).
Proof. exact created_metadata_arrives. Qed.

(* the hops are what the world model (Ledger/World.v) does: a successful origin call towards another shard puts exactly
   one message in flight (function name and arguments = what the parser reads from the emitted data); executing the
   delivery input of that message on the destination's shard, in ANY later world w2, is the second half of a [hop] *)
Theorem C08_world_nft_cross_is_hop : forall (c : wcfg), codec_ok (wc_cdc c) -> forall w sh i o s',
  (sh <? wc_nshards c)%N = true ->
  exec (env_at c sh) C.BuiltInFunctionESDTNFTTransfer i (mk_state (shard_accts w sh)) = (Ok o, s') ->
  i_caller i = i_rcpt i -> wc_shard_of c (i_caller i) = sh -> wc_shard_of c (nft_dst i) <> sh ->
  lookup_consistent (env_at c sh) (mk_state (shard_accts w sh)) (i_caller i) (nft_tkey i) (nft_nonce i) ->
  exists m,
    inflight (wstep c w (OCall sh C.BuiltInFunctionESDTNFTTransfer i)) = inflight w ++ [m]
    /\ m_id m = next_id w /\ m_fn m = C.BuiltInFunctionESDTNFTTransfer /\ m_dest m = nft_dst i /\ m_caller m = i_caller i
    /\ forall w2 gas oB sB',
         let shB := wc_shard_of c (m_dest m) in
         exec (env_at c shB) (m_fn m) (deliver_input c m shB gas) (mk_state (shard_accts w2 shB)) = (Ok oB, sB') ->
         tok_at (env_at c shB) sB' (nft_dst i) (nft_cell i) <> None ->
         hop (wc_cdc c) (nft_cell i) (wplace c w sh (i_caller i)) (pl (env_at c shB) sB' (nft_dst i)).
Proof. exact world_nft_cross_is_hop. Qed.
Theorem C08_world_multi_cross_is_hop : forall (c : wcfg), codec_ok (wc_cdc c) -> forall w sh i o s' x,
  (sh <? wc_nshards c)%N = true ->
  exec (env_at c sh) C.BuiltInFunctionMultiESDTNFTTransfer i (mk_state (shard_accts w sh)) = (Ok o, s') ->
  i_caller i = i_rcpt i -> wc_shard_of c (i_caller i) = sh -> wc_shard_of c (multi_dst i) <> sh ->
  triples_consistent (env_at c sh) (mk_state (shard_accts w sh)) (i_caller i) (multi_snd_triples i) ->
  In x (multi_snd_triples i) -> (0 < rt_nonce x)%N ->
  exists m,
    inflight (wstep c w (OCall sh C.BuiltInFunctionMultiESDTNFTTransfer i)) = inflight w ++ [m]
    /\ m_id m = next_id w /\ m_fn m = C.BuiltInFunctionMultiESDTNFTTransfer /\ m_dest m = multi_dst i /\ m_caller m = i_caller i
    /\ forall w2 gas oB sB',
         let shB := wc_shard_of c (m_dest m) in
         exec (env_at c shB) (m_fn m) (deliver_input c m shB gas) (mk_state (shard_accts w2 shB)) = (Ok oB, sB') ->
         tok_at (env_at c shB) sB' (multi_dst i) (rt_cell x) <> None ->
         hop (wc_cdc c) (rt_cell x) (wplace c w sh (i_caller i)) (pl (env_at c shB) sB' (multi_dst i)).
Proof. exact world_multi_cross_is_hop. Qed.
Theorem C08_world_nft_same_is_hop : forall (c : wcfg) w sh i o s',
  (sh <? wc_nshards c)%N = true -> (N.to_nat sh < nshards w)%nat ->
  exec (env_at c sh) C.BuiltInFunctionESDTNFTTransfer i (mk_state (shard_accts w sh)) = (Ok o, s') ->
  i_caller i = i_rcpt i -> wc_shard_of c (nft_dst i) = sh ->
  lookup_consistent (env_at c sh) (mk_state (shard_accts w sh)) (i_caller i) (nft_tkey i) (nft_nonce i) ->
  tok_at (env_at c sh) s' (nft_dst i) (nft_cell i) <> None ->
  shard_accts (wstep c w (OCall sh C.BuiltInFunctionESDTNFTTransfer i)) sh = accts s'
  /\ hop (wc_cdc c) (nft_cell i) (wplace c w sh (i_caller i)) (pl (env_at c sh) s' (nft_dst i)).
Proof. exact world_nft_same_is_hop. Qed.
Example C08_pin_wplace : forall c w sh a, wplace c w sh a = pl (env_at c sh) (mk_state (shard_accts w sh)) a.
Proof. reflexivity. Qed.

(* ================================================================ *)
(* 4. hash mismatch                                                   *)
(* ================================================================ *)
(* the destination already holds an entry with metadata in the cell the transfer writes, and its hash differs from
   the hash of the incoming copy: the transfer is not Ok (single: same shard / destination side; multi: same shard for
   any triple / destination side for the first delivered triple that writes the cell) *)
Theorem C08_hash_mismatch_rejected_same : forall (E : env), codec_ok (cdc E) -> forall i s o s' cur cm t m,
  i_caller i = i_rcpt i -> nft_same E i = true ->
  lookup_consistent E s (i_caller i) (nft_tkey i) (nft_nonce i) ->
  tok_at E s (i_caller i) (nft_cell i) = Some t -> t_meta t = Some m ->
  tok_at E s (nft_dst i) (nft_cell i) = Some cur -> t_meta cur = Some cm -> md_hash cm <> md_hash m ->
  exec E C.BuiltInFunctionESDTNFTTransfer i s <> (Ok o, s').
Proof. exact hash_mismatch_rejected_same. Qed.
Theorem C08_hash_mismatch_rejected_dest : forall (E : env), codec_ok (cdc E) -> forall i s o s' cur cm tp mp,
  i_caller i <> i_rcpt i ->
  dec_tok (cdc E) (argn i 3) = Some tp -> t_meta tp = Some mp ->
  tok_at E s (i_rcpt i) (nft_full i tp) = Some cur -> t_meta cur = Some cm -> md_hash cm <> md_hash mp ->
  exec E C.BuiltInFunctionESDTNFTTransfer i s <> (Ok o, s').
Proof. exact hash_mismatch_rejected_dest. Qed.
(* a payload without metadata is rejected on the destination side of the single transfer *)
Theorem C08_no_metadata_payload_rejected_dest : forall (E : env), codec_ok (cdc E) -> forall i s o s' tp,
  i_caller i <> i_rcpt i -> dec_tok (cdc E) (argn i 3) = Some tp -> t_meta tp = None ->
  exec E C.BuiltInFunctionESDTNFTTransfer i s <> (Ok o, s').
Proof. exact no_metadata_payload_rejected_dest. Qed.
Theorem C08_hash_mismatch_rejected_multi_same : forall (E : env), codec_ok (cdc E) -> forall i s o s' x cur cm t0 m,
  i_caller i = i_rcpt i -> multi_same E i = true ->
  triples_consistent E s (i_caller i) (multi_snd_triples i) -> In x (multi_snd_triples i) ->
  tok_at E s (i_caller i) (rt_cell x) = Some t0 -> t_meta t0 = Some m ->
  tok_at E s (multi_dst i) (rt_cell x) = Some cur -> t_meta cur = Some cm -> md_hash cm <> md_hash m ->
  exec E C.BuiltInFunctionMultiESDTNFTTransfer i s <> (Ok o, s').
Proof. exact hash_mismatch_rejected_multi_same. Qed.
Theorem C08_hash_mismatch_rejected_multi_dest : forall (E : env), codec_ok (cdc E) -> forall i s o s' pre x post cur cm tp mp,
  i_caller i <> i_rcpt i ->
  multi_dst_triples i = pre ++ x :: post ->
  (forall y, In y pre -> dst_cell E y <> Some (nft_key (P ++ rt_tok x) (tok_nonce tp))) ->
  (0 < rt_nonce x)%N -> dec_tok (cdc E) (rt_third x) = Some tp -> t_meta tp = Some mp ->
  tok_at E s (i_rcpt i) (nft_key (P ++ rt_tok x) (tok_nonce tp)) = Some cur -> t_meta cur = Some cm ->
  md_hash cm <> md_hash mp ->
  exec E C.BuiltInFunctionMultiESDTNFTTransfer i s <> (Ok o, s').
Proof. exact hash_mismatch_rejected_multi_dest. Qed.

(* ================================================================ *)
(* 5. only ESDTNFTAddURI and ESDTNFTUpdateAttributes alter metadata   *)
(* ================================================================ *)
(* hypotheses (F4b; a delivered multi transfer carries no negative quantity), exclusions and conclusion *)
Example C08_pin_regular : forall E f i s,
  c08_regular E f i s =
  ((f = C.BuiltInFunctionESDTNFTAddQuantity \/ f = C.BuiltInFunctionESDTNFTBurn ->
      lookup_consistent E s (i_caller i) (P ++ argn i 0) (bigU64 (argn i 1)))
   /\ (f = C.BuiltInFunctionESDTNFTTransfer -> i_caller i = i_rcpt i -> lookup_consistent E s (i_caller i) (nft_tkey i) (nft_nonce i))
   /\ (f = C.BuiltInFunctionMultiESDTNFTTransfer -> i_caller i = i_rcpt i -> triples_consistent E s (i_caller i) (multi_snd_triples i))
   /\ (f = C.BuiltInFunctionMultiESDTNFTTransfer -> i_caller i <> i_rcpt i -> credits_nonneg E (multi_dst_triples i))).
Proof. reflexivity. Qed.
Example C08_pin_excluded : forall f i s a k t,
  c08_excluded f i s a k t =
  ((f = C.BuiltInFunctionESDTNFTCreate /\ a = i_caller i /\ k = nft_key (P ++ argn i 0) (create_nonce i s))
   \/ ((f = C.BuiltInFunctionESDTPause \/ f = C.BuiltInFunctionESDTUnPause) /\ a = SYS /\ k = P ++ argn i 0)
   \/ (f = C.BuiltInFunctionESDTTransfer /\ i_caller i = i_rcpt i /\ a = i_caller i /\ k = esdt_key i /\ t_type t = C.Fungible)
   \/ (f = C.BuiltInFunctionMultiESDTNFTTransfer /\ (val_or_0 t <= 0)%Z)).
Proof. reflexivity. Qed.
Example C08_pin_concl : forall f i a m t',
  c08_concl f i a m t' =
  (t_meta t' = Some m
   \/ (is_transfer_fn f = true /\ a = c09_dest f i /\ a <> i_caller i
       /\ exists m', t_meta t' = Some m' /\ md_hash m' = md_hash m)).
Proof. reflexivity. Qed.
(* For EVERY function name f other than the two (unknown names never return Ok), every account a and every key with the
   ESDT prefix: if a holds an entry t with metadata m there before the call and still holds an entry t' there after it,
   then t' carries m -- or a is the destination of the transfer (not its caller) and t' carries metadata with the SAME
   HASH as m (the destination adopts the incoming copy: parts 2 and 4 say which copy).  Not covered, each a known
   finding or a corner spelled out in [c08_excluded]: the cell ESDTNFTCreate writes (it overwrites: F9), the system
   account's cell of a paused key (F8), ESDTTransfer to oneself of a Fungible-typed entry that has metadata, and a
   multi transfer into an entry with a non-positive stored quantity. *)
Theorem C08_only_adduri_updateattr_change_metadata : forall (E : env), codec_ok (cdc E) ->
  forall f i s o s' a x t m t',
  exec E f i s = (Ok o, s') ->
  f <> C.BuiltInFunctionESDTNFTAddURI -> f <> C.BuiltInFunctionESDTNFTUpdateAttributes ->
  c08_regular E f i s ->
  tok_at E s a (P ++ x) = Some t -> t_meta t = Some m ->
  tok_at E s' a (P ++ x) = Some t' ->
  ~ c08_excluded f i s a (P ++ x) t ->
  c08_concl f i a m t'.
Proof. exact only_adduri_updateattr_change_metadata. Qed.

(* exact effect of the two: executed by a holder of the respective role, addressed to itself, on its OWN entry: URIs :=
   old ++ given / attributes := argument 2; type, value, properties, reserved and every other metadata field as they were
   ([set_uris] / [set_attributes] / [set_meta] are single-field record updates); no other cell of any account and no
   account field changes.  (An entry whose stored value is not positive is deleted instead.) *)
Theorem C08_add_uri_effect : forall (E : env), codec_ok (cdc E) -> forall i s o s',
  exec E C.BuiltInFunctionESDTNFTAddURI i s = (Ok o, s') ->
  lookup_consistent E s (i_caller i) (P ++ argn i 0) (bigU64 (argn i 1)) ->
  let key := nft_key (P ++ argn i 0) (bigU64 (argn i 1)) in
  has_role E s (i_caller i) (argn i 0) C.ESDTRoleNFTAddURI = true
  /\ i_caller i = i_rcpt i /\ i_snd i = true /\ bigU64 (argn i 1) <> 0%N
  /\ exists t m v,
       tok_at E s (i_caller i) key = Some t /\ t_meta t = Some m /\ t_value t = Some v
       /\ tok_at E s' (i_caller i) key =
          (if (v <=? 0)%Z then None else Some (set_meta t (Some (set_uris m (md_uris m ++ skipn 2 (i_args i))))))
       /\ (forall a k, ~ (a = i_caller i /\ k = key) -> cell s' a k = cell s a k)
       /\ (forall a, acct_fields_eq (acct s' a) (acct s a)).
Proof. exact add_uri_effect_exec. Qed.
Theorem C08_update_attributes_effect : forall (E : env), codec_ok (cdc E) -> forall i s o s',
  exec E C.BuiltInFunctionESDTNFTUpdateAttributes i s = (Ok o, s') ->
  lookup_consistent E s (i_caller i) (P ++ argn i 0) (bigU64 (argn i 1)) ->
  let key := nft_key (P ++ argn i 0) (bigU64 (argn i 1)) in
  has_role E s (i_caller i) (argn i 0) C.ESDTRoleNFTUpdateAttributes = true
  /\ i_caller i = i_rcpt i /\ i_snd i = true /\ bigU64 (argn i 1) <> 0%N
  /\ exists t m v,
       tok_at E s (i_caller i) key = Some t /\ t_meta t = Some m /\ t_value t = Some v
       /\ tok_at E s' (i_caller i) key =
          (if (v <=? 0)%Z then None else Some (set_meta t (Some (set_attributes m (argn i 2)))))
       /\ (forall a k, ~ (a = i_caller i /\ k = key) -> cell s' a k = cell s a k)
       /\ (forall a, acct_fields_eq (acct s' a) (acct s a)).
Proof. exact update_attributes_effect_exec. Qed.
Example C08_pin_set_uris : forall t m u a,
  set_meta t (Some (set_uris m u)) =
    {| t_type := t_type t; t_value := t_value t; t_props := t_props t;
       t_meta := Some {| md_nonce := md_nonce m; md_name := md_name m; md_creator := md_creator m; md_royalties := md_royalties m;
                         md_hash := md_hash m; md_uris := u; md_attributes := md_attributes m |};
       t_reserved := t_reserved t |}
  /\ set_meta t (Some (set_attributes m a)) =
    {| t_type := t_type t; t_value := t_value t; t_props := t_props t;
       t_meta := Some {| md_nonce := md_nonce m; md_name := md_name m; md_creator := md_creator m; md_royalties := md_royalties m;
                         md_hash := md_hash m; md_uris := md_uris m; md_attributes := a |};
       t_reserved := t_reserved t |}.
Proof. intros. split; reflexivity. Qed.

Print Assumptions C08_create_records_metadata.
Print Assumptions C08_hop_same_single.
Print Assumptions C08_hop_cross_single_sender.
Print Assumptions C08_hop_single_dest.
Print Assumptions C08_hop_cross_single.
Print Assumptions C08_hop_same_multi.
Print Assumptions C08_hop_cross_multi_sender.
Print Assumptions C08_hop_multi_dest.
Print Assumptions C08_hop_cross_multi.
Print Assumptions C08_hop_preserves_metadata.
Print Assumptions C08_route_preserves_metadata.
Print Assumptions C08_created_metadata_arrives.
Print Assumptions C08_world_nft_cross_is_hop.
Print Assumptions C08_world_multi_cross_is_hop.
Print Assumptions C08_world_nft_same_is_hop.
Print Assumptions C08_hash_mismatch_rejected_same.
Print Assumptions C08_hash_mismatch_rejected_dest.
Print Assumptions C08_no_metadata_payload_rejected_dest.
Print Assumptions C08_hash_mismatch_rejected_multi_same.
Print Assumptions C08_hash_mismatch_rejected_multi_dest.
Print Assumptions C08_only_adduri_updateattr_change_metadata.
Print Assumptions C08_add_uri_effect.
Print Assumptions C08_update_attributes_effect.

(* ================================================================ *)
(* non-vacuity (ideal_codec: satisfies codec_ok; same encoder as the production codec model, same decoder on every byte
   string of Go length).  Shard 0 (C08_E) and shard 1 (C08_E1, where bob lives).  alice holds the roles for NFT-d4e5f6.
   ESDTNFTCreate with quantity 5, name, royalties, hash, attributes and two URIs; then the metadata is read back at the
   creator, after a same-shard single transfer, after a cross-shard single transfer (sender side on shard 0, the emitted
   data parsed by the call-data parser, destination side on shard 1 from an empty state), and the same for the multi
   transfer.  Royalties 10000 accepted, 10001 rejected, 2^32 + 1 accepted and STORED AS 1 ("royalties <= 10000" is a
   statement about the stored uint32 value).  The three [_refuted] examples are the witnesses for the exclusions /
   hypotheses of part 5 that are not already pinned elsewhere (F8: C04/C03; F9 proper: C07). *)
Definition C08_alice : bytes := repeat x01 32.
Definition C08_bob : bytes := repeat x02 32.      (* lives on shard 1 *)
Definition C08_carol : bytes := repeat x03 32.
Definition C08_nft : bytes := str "NFT-d4e5f6"%string.
Definition C08_cfg : xcfg :=
  {| xc_shards := [(C08_bob, 1%N)]; xc_shard_default := 0%N; xc_pay := []; xc_pay_default := 0%N;
     xc_dns := []; xc_enable := false; xc_gas := repeat 10%N 22 |}.
Definition C08_env (self : N) : env :=
  let E0 := env_of C08_cfg self None in
  {| plan := plan E0; cdc := ideal_codec; shard_of := shard_of E0; self_shard := self_shard E0;
     payable := payable E0; dns := dns E0; enable_change := enable_change E0; gas := gas E0 |}.
Definition C08_E := C08_env 0.
Definition C08_E1 := C08_env 1.
Definition C08_acct (st : list (bytes * bytes)) : acctl :=
  {| al_store := st; al_balance := 100; al_owner := []; al_username := []; al_reward := 0 |}.
Definition C08_s0 : mstate :=
  state_of [(C08_alice, C08_acct [(RP ++ C08_nft, enc_roles [C.ESDTRoleNFTCreate; C.ESDTRoleNFTAddQuantity; C.ESDTRoleNFTAddURI; C.ESDTRoleNFTUpdateAttributes])])].
Definition C08_in (caller rcpt : bytes) (args : list bytes) (snd dst : bool) : input :=
  {| i_caller := caller; i_rcpt := rcpt; i_args := args; i_value := 0; i_gas := 1000000; i_gasLocked := 0;
     i_callType := C.DirectCall; i_rae := false; i_snd := snd; i_dst := dst |}.
Definition C08_create_args (royalties : N) : list bytes :=
  [C08_nft; u64_bytes 5; str "name"%string; u64_bytes royalties; str "hash"%string; str "attr"%string; str "uri1"%string; str "uri2"%string].
Definition C08_md (royalties : N) : metadata :=
  {| md_nonce := 1; md_name := str "name"%string; md_creator := C08_alice; md_royalties := royalties; md_hash := str "hash"%string;
     md_uris := [str "uri1"%string; str "uri2"%string]; md_attributes := str "attr"%string |}.
Definition C08_key : bytes := nft_key (P ++ C08_nft) 1.
Definition C08_run (E : env) f i s : option mstate := match exec E f i s with (Ok _, s') => Some s' | _ => None end.
Definition C08_err (E : env) f i s : option err := match exec E f i s with (Err e, _) => Some e | _ => None end.
Definition C08_s1 (roy : N) := C08_run C08_E C.BuiltInFunctionESDTNFTCreate (C08_in C08_alice C08_alice (C08_create_args roy) true true) C08_s0.
Definition C08_meta_opt (E : env) (s : option mstate) a k := match s with Some s => meta_at E s a k | None => None end.

Example C08_create_then_read_metadata : C08_meta_opt C08_E (C08_s1 10000) C08_alice C08_key = Some (C08_md 10000).
Proof. vm_compute. reflexivity. Qed.
Example C08_royalties_10001_rejected : C08_err C08_E C.BuiltInFunctionESDTNFTCreate (C08_in C08_alice C08_alice (C08_create_args 10001) true true) C08_s0 = Some EInvalidArguments.
Proof. vm_compute. reflexivity. Qed.
Example C08_royalties_truncated_to_uint32 : C08_meta_opt C08_E (C08_s1 4294967297) C08_alice C08_key = Some (C08_md 1).
Proof. vm_compute. reflexivity. Qed.
(* same-shard transfer *)
Definition C08_s2 := match C08_s1 10000 with Some s => C08_run C08_E C.BuiltInFunctionESDTNFTTransfer (C08_in C08_alice C08_alice [C08_nft; u64_bytes 1; u64_bytes 2; C08_carol] true true) s | None => None end.
Example C08_same_shard_transfer_keeps_metadata : C08_meta_opt C08_E C08_s2 C08_carol C08_key = Some (C08_md 10000) /\ C08_meta_opt C08_E C08_s2 C08_alice C08_key = Some (C08_md 10000).
Proof. vm_compute. split; reflexivity. Qed.
(* cross-shard: carol -> bob, through the wire *)
Definition C08_wire : option (bytes * list bytes) :=
  match C08_s2 with
  | Some s => match exec C08_E C.BuiltInFunctionESDTNFTTransfer (C08_in C08_carol C08_carol [C08_nft; u64_bytes 1; u64_bytes 1; C08_bob] true true) s with
              | (Ok o, _) => match o_accounts o with [oa] => match oc_transfers oa with [tr] => parse_call_data (tr_data tr) | _ => None end | _ => None end
              | _ => None
              end
  | None => None
  end.
Definition C08_s3 := match C08_wire with
  | Some (fn, args) => C08_run C08_E1 fn (C08_in C08_carol C08_bob args false true) (state_of [])
  | None => None end.
Example C08_cross_shard_transfer_keeps_metadata : C08_meta_opt C08_E1 C08_s3 C08_bob C08_key = Some (C08_md 10000).
Proof. vm_compute. reflexivity. Qed.
(* multi transfer, same shard then cross shard through the wire *)
Definition C08_s4 := match C08_s1 10000 with Some s => C08_run C08_E C.BuiltInFunctionMultiESDTNFTTransfer (C08_in C08_alice C08_alice [C08_carol; u64_bytes 1; C08_nft; u64_bytes 1; u64_bytes 2] true true) s | None => None end.
Example C08_multi_same_shard_keeps_metadata : C08_meta_opt C08_E C08_s4 C08_carol C08_key = Some (C08_md 10000).
Proof. vm_compute. reflexivity. Qed.
Definition C08_wire_multi : option (bytes * list bytes) :=
  match C08_s4 with
  | Some s => match exec C08_E C.BuiltInFunctionMultiESDTNFTTransfer (C08_in C08_carol C08_carol [C08_bob; u64_bytes 1; C08_nft; u64_bytes 1; u64_bytes 1] true true) s with
              | (Ok o, _) => match o_accounts o with [oa] => match oc_transfers oa with [tr] => parse_call_data (tr_data tr) | _ => None end | _ => None end
              | _ => None
              end
  | None => None
  end.
Definition C08_s5 := match C08_wire_multi with
  | Some (fn, args) => C08_run C08_E1 fn (C08_in C08_carol C08_bob args false true) (state_of [])
  | None => None end.
Example C08_multi_cross_shard_keeps_metadata : C08_meta_opt C08_E1 C08_s5 C08_bob C08_key = Some (C08_md 10000).
Proof. vm_compute. reflexivity. Qed.
(* add URI, update attributes *)
Definition C08_s6 := match C08_s1 10000 with Some s => C08_run C08_E C.BuiltInFunctionESDTNFTAddURI (C08_in C08_alice C08_alice [C08_nft; u64_bytes 1; str "uri3"%string] true true) s | None => None end.
Example C08_add_uri_appends : C08_meta_opt C08_E C08_s6 C08_alice C08_key = Some (set_uris (C08_md 10000) [str "uri1"%string; str "uri2"%string; str "uri3"%string]).
Proof. vm_compute. reflexivity. Qed.
Definition C08_s7 := match C08_s1 10000 with Some s => C08_run C08_E C.BuiltInFunctionESDTNFTUpdateAttributes (C08_in C08_alice C08_alice [C08_nft; u64_bytes 1; str "new"%string] true true) s | None => None end.
Example C08_update_attributes_replaces : C08_meta_opt C08_E C08_s7 C08_alice C08_key = Some (set_attributes (C08_md 10000) (str "new"%string)).
Proof. vm_compute. reflexivity. Qed.
(* hash mismatch: carol already holds nonce 1 of the same token with another hash *)
Definition C08_other : token :=
  {| t_type := C.NonFungible; t_value := Some 1%Z; t_props := []; t_meta := Some (set_attributes {| md_nonce := 1; md_name := str "name"%string; md_creator := C08_alice; md_royalties := 10000; md_hash := str "HASH"%string;
     md_uris := []; md_attributes := [] |} []); t_reserved := [] |}.
Definition C08_s0' : mstate :=
  state_of [(C08_alice, C08_acct [(RP ++ C08_nft, enc_roles [C.ESDTRoleNFTCreate; C.ESDTRoleNFTAddQuantity])]);
            (C08_carol, C08_acct [(C08_key, enc_token C08_other)])].
Definition C08_s1' := C08_run C08_E C.BuiltInFunctionESDTNFTCreate (C08_in C08_alice C08_alice (C08_create_args 10000) true true) C08_s0'.
Example C08_hash_mismatch_rejected_example : match C08_s1' with Some s => C08_err C08_E C.BuiltInFunctionESDTNFTTransfer (C08_in C08_alice C08_alice [C08_nft; u64_bytes 1; u64_bytes 2; C08_carol] true true) s | None => None end = Some EWrongNFTOnDestination
  /\ match C08_s1' with Some s => C08_err C08_E C.BuiltInFunctionMultiESDTNFTTransfer (C08_in C08_alice C08_alice [C08_carol; u64_bytes 1; C08_nft; u64_bytes 1; u64_bytes 2] true true) s | None => None end = Some EWrongNFTOnDestination.
Proof. vm_compute. split; reflexivity. Qed.
(* refuted: ESDTTransfer to oneself of a Fungible-typed entry that has metadata loses the metadata *)
Definition C08_tokF : bytes := str "TOK-a1b2c3"%string.
Definition C08_weird : token := {| t_type := C.Fungible; t_value := Some 3%Z; t_props := []; t_meta := Some (C08_md 5); t_reserved := [] |}.
Definition C08_sw : mstate := state_of [(C08_alice, C08_acct [(P ++ C08_tokF, enc_token C08_weird)])].
Example C08_esdt_self_transfer_refuted : meta_at C08_E C08_sw C08_alice (P ++ C08_tokF) = Some (C08_md 5)
  /\ C08_meta_opt C08_E (C08_run C08_E C.BuiltInFunctionESDTTransfer (C08_in C08_alice C08_alice [C08_tokF; u64_bytes 3] true true) C08_sw) C08_alice (P ++ C08_tokF) = None
  /\ match C08_run C08_E C.BuiltInFunctionESDTTransfer (C08_in C08_alice C08_alice [C08_tokF; u64_bytes 3] true true) C08_sw with Some s => balance C08_E s C08_alice (P ++ C08_tokF) | None => 0%Z end = 3%Z.
Proof. vm_compute. repeat split. Qed.
(* refuted without the F9 exclusion: create overwrites an entry already stored under the next nonce *)
Definition C08_sc : mstate :=
  state_of [(C08_alice, C08_acct [(RP ++ C08_nft, enc_roles [C.ESDTRoleNFTCreate; C.ESDTRoleNFTAddQuantity]); (C08_key, enc_token C08_other)])].
Example C08_create_overwrites_refuted : meta_at C08_E C08_sc C08_alice C08_key = t_meta C08_other
  /\ C08_meta_opt C08_E (C08_run C08_E C.BuiltInFunctionESDTNFTCreate (C08_in C08_alice C08_alice (C08_create_args 7) true true) C08_sc) C08_alice C08_key = Some (C08_md 7).
Proof. vm_compute. split; reflexivity. Qed.
(* refuted without F4b consistency: an entry stored under nonce 2 whose metadata nonce is 1; ESDTNFTAddQuantity on (token, 2) rewrites the cell of nonce 1, replacing the metadata of the entry stored there *)
Definition C08_alias : token := {| t_type := C.NonFungible; t_value := Some 1%Z; t_props := []; t_meta := Some (C08_md 9); t_reserved := [] |}.
Definition C08_sa : mstate :=
  state_of [(C08_alice, C08_acct [(RP ++ C08_nft, enc_roles [C.ESDTRoleNFTAddQuantity]); (C08_key, enc_token C08_other); (nft_key (P ++ C08_nft) 2, enc_token C08_alias)])].
Example C08_alias_refuted : meta_at C08_E C08_sa C08_alice C08_key = t_meta C08_other
  /\ C08_meta_opt C08_E (C08_run C08_E C.BuiltInFunctionESDTNFTAddQuantity (C08_in C08_alice C08_alice [C08_nft; u64_bytes 2; u64_bytes 1] true true) C08_sa) C08_alice C08_key = Some (C08_md 9).
Proof. vm_compute. split; reflexivity. Qed.
(* ---- the theorems' hypotheses are satisfiable ---- *)
Lemma C08_E_ok : codec_ok (cdc C08_E). Proof. exact ideal_codec_ok. Qed.
Definition C08_i_create : input := C08_in C08_alice C08_alice (C08_create_args 10000) true true.
Definition C08_i_move : input := C08_in C08_alice C08_alice [C08_nft; u64_bytes 1; u64_bytes 2; C08_carol] true true.
Definition C08_dummy_out : output := mk_out 0 0.
Definition C08_o1 : output := Eval vm_compute in match exec C08_E C.BuiltInFunctionESDTNFTCreate C08_i_create C08_s0 with (Ok o, _) => o | _ => C08_dummy_out end.
Definition C08_s1v : mstate := Eval vm_compute in snd (exec C08_E C.BuiltInFunctionESDTNFTCreate C08_i_create C08_s0).
Lemma C08_exec1 : exec C08_E C.BuiltInFunctionESDTNFTCreate C08_i_create C08_s0 = (Ok C08_o1, C08_s1v).
Proof. vm_compute. reflexivity. Qed.
Definition C08_o2 : output := Eval vm_compute in match exec C08_E C.BuiltInFunctionESDTNFTTransfer C08_i_move C08_s1v with (Ok o, _) => o | _ => C08_dummy_out end.
Definition C08_s2v : mstate := Eval vm_compute in snd (exec C08_E C.BuiltInFunctionESDTNFTTransfer C08_i_move C08_s1v).
Lemma C08_exec2 : exec C08_E C.BuiltInFunctionESDTNFTTransfer C08_i_move C08_s1v = (Ok C08_o2, C08_s2v).
Proof. vm_compute. reflexivity. Qed.
Lemma C08_consistent2 : lookup_consistent C08_E C08_s1v (i_caller C08_i_move) (nft_tkey C08_i_move) (nft_nonce C08_i_move).
Proof. intros t Ht. vm_compute in Ht. inversion Ht; subst. reflexivity. Qed.
Example C08_route_instance :
  let k := nft_key (P ++ argn C08_i_create 0) (create_nonce C08_i_create C08_s0) in
  route (cdc C08_E) k (pl C08_E C08_s1v C08_alice) (pl C08_E C08_s2v C08_carol)
  /\ pl_meta k (pl C08_E C08_s2v C08_carol) = Some (C08_md 10000).
Proof.
  cbv zeta.
  assert (Hr : route (cdc C08_E) (nft_key (P ++ argn C08_i_create 0) (create_nonce C08_i_create C08_s0))
                 (pl C08_E C08_s1v C08_alice) (pl C08_E C08_s2v C08_carol)).
  { eapply route_cons; [|apply route_nil].
    apply (hop_nft_same (cdc C08_E) _ C08_E C08_i_move C08_s1v C08_o2 C08_s2v).
    - reflexivity.
    - exact C08_exec2.
    - reflexivity.
    - vm_compute. reflexivity.
    - exact C08_consistent2.
    - vm_compute. reflexivity.
    - vm_compute. discriminate. }
  split; [exact Hr|].
  rewrite (created_metadata_arrives C08_E C08_E_ok C08_i_create C08_s0 C08_o1 C08_s1v _ C08_exec1 Hr).
  vm_compute. reflexivity.
Qed.
Print Assumptions C08_route_instance.
