(* Property C07 — NFT nonces are unique and strictly increasing per token.
   Only statements, each closed by [exact] of a lemma of LedgerProofs/C07_*.v, their assumptions, pins and
   non-vacuity examples.  (Exec-level part; the history-level part is added below as it is closed.) *)
From Coq.Strings Require Import String.
From EV Require Import Base.Bytes Base.Store Base.Monad gen.Consts Codec.Types Codec.CodecOk Helpers.Helpers
  Ledger.Types Ledger.Env Ledger.Funcs Ledger.Transfers Ledger.World
  LedgerProofs.Defs LedgerProofs.EnvSpec LedgerProofs.WorldDefs
  LedgerProofs.Spec_Transfers_Base LedgerProofs.Spec_System LedgerProofs.C07_Exec.

Local Open Scope N_scope.

(* ---- one call ---- *)
Theorem C07_create_returns_counter_succ : forall (E : env), codec_ok (cdc E) -> forall i s o s',
  exec E C.BuiltInFunctionESDTNFTCreate i s = (Ok o, s') ->
  let tok := argn i 0 in
  let n := u64 (counter_at s (i_caller i) tok + 1) in
  has_role E s (i_caller i) tok C.ESDTRoleNFTCreate = true
  /\ o_returnData o = [u64_bytes n]
  /\ bigU64 (hd [] (o_returnData o)) = n
  /\ (exists t md, tok_at E s' (i_caller i) (nft_key (P ++ tok) n) = Some t
                   /\ t_meta t = Some md /\ md_nonce md = n /\ md_creator md = i_caller i)
  /\ counter_at s' (i_caller i) tok = n
  /\ (counter_at s (i_caller i) tok + 1 < two64 -> n = counter_at s (i_caller i) tok + 1).
Proof. exact create_returns_counter_succ. Qed.

Print Assumptions C07_create_returns_counter_succ.
