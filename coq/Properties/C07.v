(* Property C07 — NFT nonces are unique and strictly increasing per token.
   Only statements, each closed by [exact] of a lemma of LedgerProofs/C07_Exec.v (one call), C07_Emit.v (emitted
   messages), C07_World.v (histories, at-most-once delivery), C07_Redelivery.v (histories with repeated deliveries) and
   C07_Histories.v (checkers, re-delivery, concrete histories), their assumptions, pins and non-vacuity examples.

   Reading guide.
   ONE CALL.  [E : env] is arbitrary with [codec_ok (cdc E)]; [counter_at s a tok] is the big-endian counter under
   ELRONDnonce ++ tok in account a, [roles_at E s a tok] the decoded role list under ELRONDroleesdt ++ tok,
   [has_role ... C.ESDTRoleNFTCreate] membership.  SetESDTRole appends without deduplicating and the hand-over
   removes ONE occurrence, so "holds the create role once" is [cnt CR roles <= 1] ([cnt] counts occurrences).
   Go's uint64 wrap of the counter is modelled ([u64]); the hypothesis counter + 1 < 2^64 is explicit wherever
   "= counter + 1" is claimed.
   HISTORIES.  The world model is Ledger/World.v: [wrun c w ops] over operations OCall (a transaction or a
   system-contract call executed on one shard), ODeliver (consuming delivery of an in-flight message), ORedeliver
   (delivery that leaves the message in flight: at-least-once transport), ORefund (return of a message whose delivery
   failed).  [op_exec c w op] is the call (shard, function, input) the operation attempts; [wrun_log] is [wrun]
   instrumented with the log of the successful executions (C07_wrun_log_world: same final world); [issued tok log]
   is the history variable: the nonces returned by the successful ESDTNFTCreate executions for tok, in issue order.
   THE DISCIPLINE ([disciplined c tok g w ops], spelled out in C07_discipline_unfolded; g = "a grant of the create
   role for tok has already been attempted") constrains only what concerns tok's create role and is otherwise
   satisfied by ARBITRARY operations (transfers, burns, freezes, SaveKeyValue, other tokens, other roles of tok,
   deliveries, re-deliveries and refunds of other messages, failing calls):
     (1) an ESDTSetRole by the system contract for tok whose role list contains ESDTRoleNFTCreate is attempted at
         most once in the history, and that list contains the role exactly once;
     (2) no ESDTUnSetRole by the system contract for tok whose role list contains ESDTRoleNFTCreate is attempted;
     (3) an ESDTNFTCreateRoleTransfer for tok with i_snd = false (no caller account on the executing shard) is
         executed only (a) as an OCall whose caller is the ESDT system contract and whose recipient currently holds
         the create role, or (b) by the consuming delivery or the refund of an in-flight message — never by
         ORedeliver, never as an OCall by anybody else (the destination branch of the function has no authorisation
         of its own: C07_forged_handover_refuted);
         [calls that cannot succeed are not constrained: role calls by anybody but the system contract, and every
         ESDTNFTCreateRoleTransfer with i_snd = true, i.e. every ordinary transaction naming that function:
         C07_failing_attempts_are_disciplined]
     (4) the recipient-presence flag of every OCall of one of the three TRANSFER functions is truthful,
         i_dst = (recipient's shard = executing shard) — which a node guarantees by construction
         (C07_lying_presence_flag_refuted shows what a lying flag allows: a forged hand-over message).
   THE PERMISSIVE DISCIPLINE ([disciplined_r], C07_discipline_r_unfolded) replaces (3b) by: a hand-over message for tok
   may be delivered by ODeliver, ORedeliver or ORefund any number of times, provided each such delivery is either the
   first effective one (nobody holds the create role and the message is the latest hand-over message in flight) or
   finds the carried counter and the create role in place at its destination.  (3b) is the special case
   (C07_disciplined_r_of_disciplined); what it still excludes is exactly F9.
   [nowrap c tok w ops]: every attempted ESDTNFTCreate for tok finds counter + 1 < 2^64.
   [init_ok]: the start world has the configured number of shards, nobody holds the create role for tok and no
   ESDTNFTCreateRoleTransfer message for tok is in flight (e.g. the empty world: C07_init_ok_empty).
   KNOWN FINDING F9 (not excluded by weakening anything: the theorems assume (3), the witnesses violate only it):
   C07_nonces_unique_redelivery_refuted, C07_two_holders_redelivery_refuted. *)
From Coq.Strings Require Import String.
From Coq Require Import List Sorted.
From EV Require Import Base.Bytes Base.Store Base.Monad gen.Consts Codec.Types Codec.CodecOk Helpers.Helpers
  Ledger.Types Ledger.Env Ledger.Funcs Ledger.Transfers Ledger.World
  LedgerProofs.Defs LedgerProofs.EnvSpec LedgerProofs.WorldDefs LedgerProofs.WorldSpec
  LedgerProofs.Spec_Transfers_Base LedgerProofs.Spec_System
  LedgerProofs.C07_Exec LedgerProofs.C07_Emit LedgerProofs.C07_World LedgerProofs.C07_Redelivery LedgerProofs.C07_Histories.
Import ListNotations.

Local Open Scope N_scope.

(* ---- pins: the names and keys the property text mentions ---- *)
Example C07_pinned_constants :
  C.BuiltInFunctionESDTNFTCreate = str "ESDTNFTCreate"%string
  /\ C.BuiltInFunctionESDTNFTCreateRoleTransfer = str "ESDTNFTCreateRoleTransfer"%string
  /\ C.BuiltInFunctionSetESDTRole = str "ESDTSetRole"%string
  /\ C.BuiltInFunctionUnSetESDTRole = str "ESDTUnSetRole"%string
  /\ C.ESDTRoleNFTCreate = str "ESDTRoleNFTCreate"%string
  /\ NP = str "ELRONDnonce"%string /\ RP = str "ELRONDroleesdt"%string /\ P = str "ELRONDesdt"%string
  /\ two64 = 2 ^ 64 /\ zlen SC = 32.
Proof. repeat split. Qed.
(* the observables *)
Example C07_observables_unfolded : forall (E : env) s a tok r,
  counter_at s a tok = match cell s a (NP ++ tok) with [] => 0 | b => bigU64 b end
  /\ has_role E s a tok r = bytes_in r (roles_at E s a tok)
  /\ cnt r (roles_at E s a tok) = length (filter (beqb r) (roles_at E s a tok)).
Proof. intros. repeat split. Qed.

(* ================================================================== *)
(* one call                                                             *)
(* ================================================================== *)
(* ESDTNFTCreate needs the create role, returns and stores nonce = u64 (counter + 1) and persists it as the new
   counter; = counter + 1 when that does not wrap *)
Theorem C07_create_returns_counter_succ : forall (E : env), codec_ok (cdc E) -> forall i s o s',
  exec E C.BuiltInFunctionESDTNFTCreate i s = (Ok o, s') ->
  let tok := argn i 0 in
  let n := u64 (counter_at s (i_caller i) tok + 1) in
  has_role E s (i_caller i) tok C.ESDTRoleNFTCreate = true
  /\ o_returnData o = [u64_bytes n]
  /\ bigU64 (hd [] (o_returnData o)) = n
  /\ (exists t md, tok_at E s' (i_caller i) (nft_key (P ++ tok) n) = Some t
                   /\ t_meta t = Some md /\ md_nonce md = n /\ md_creator md = i_caller i)
  /\ counter_at s' (i_caller i) tok = n
  /\ (counter_at s (i_caller i) tok + 1 < two64 -> n = counter_at s (i_caller i) tok + 1).
Proof. exact create_returns_counter_succ. Qed.

(* the system contract's hand-over at the current owner, new owner on the same shard: the new owner gets the old
   counter and the role; the old owner's counter is 0 and one occurrence of the role is removed (none left if it
   held the role once) *)
Theorem C07_handover_moves_counter_same_shard : forall (E : env), codec_ok (cdc E) -> forall i s o s',
  exec E C.BuiltInFunctionESDTNFTCreateRoleTransfer i s = (Ok o, s') -> i_caller i = SC ->
  (shard_of E (argn i 1) =? self_shard E) = true ->
  let tok := argn i 0 in let old := i_rcpt i in let new := argn i 1 in
  i_args i = [tok; new]
  /\ counter_at s' new tok = counter_at s old tok
  /\ has_role E s' new tok C.ESDTRoleNFTCreate = true
  /\ (new <> old -> counter_at s' old tok = 0
                    /\ roles_at E s' old tok = del_create (roles_at E s old tok)
                    /\ ((cnt C.ESDTRoleNFTCreate (roles_at E s old tok) <= 1)%nat ->
                        has_role E s' old tok C.ESDTRoleNFTCreate = false))
  /\ roles_at E s' new tok = add_create (if beqb new old then del_create (roles_at E s old tok) else roles_at E s new tok)
  /\ unchanged_except (fun a k => (a = old \/ a = new) /\ (k = NP ++ tok \/ k = RP ++ tok)) (fun _ => False) s s'.
Proof. exact handover_moves_counter_same_shard. Qed.

(* ... new owner on another shard: the old owner loses counter and role, the counter leaves in the message *)
Theorem C07_handover_moves_counter_cross_shard : forall (E : env), codec_ok (cdc E) -> forall i s o s',
  exec E C.BuiltInFunctionESDTNFTCreateRoleTransfer i s = (Ok o, s') -> i_caller i = SC ->
  (shard_of E (argn i 1) =? self_shard E) = false ->
  let tok := argn i 0 in let old := i_rcpt i in let new := argn i 1 in
  i_args i = [tok; new]
  /\ o_accounts o = [{| oc_addr := new; oc_delta := 0;
                        oc_transfers := [handover_msg SC tok (counter_at s old tok)] |}]
  /\ counter_at s' old tok = 0
  /\ roles_at E s' old tok = del_create (roles_at E s old tok)
  /\ ((cnt C.ESDTRoleNFTCreate (roles_at E s old tok) <= 1)%nat -> has_role E s' old tok C.ESDTRoleNFTCreate = false)
  /\ unchanged_except (fun a k => a = old /\ (k = NP ++ tok \/ k = RP ++ tok)) (fun _ => False) s s'.
Proof. exact handover_moves_counter_cross_shard. Qed.

(* the in-flight message built from that output transfer by the node (World.collect) *)
Theorem C07_collect_handover : forall (c : wcfg) sh i id o new tk n,
  o_accounts o = [{| oc_addr := new; oc_delta := 0; oc_transfers := [handover_msg SC tk n] |}] ->
  collect c sh C.BuiltInFunctionESDTNFTCreateRoleTransfer i id o =
  if (wc_shard_of c new =? sh) then []
  else [{| m_id := id; m_fn := C.BuiltInFunctionESDTNFTCreateRoleTransfer;
           m_caller := if (wc_shard_of c SC =? sh) then SC else i_rcpt i;
           m_dest := new; m_args := [tk; u64_bytes n];
           m_callType := C.DirectCall; m_gasLimit := 0; m_locked := 0; m_origin := sh; m_sender := i_caller i |}].
Proof. exact collect_handover. Qed.

(* at the next owner (any caller other than the system contract): counter := carried value, role added *)
Theorem C07_handover_delivered : forall (E : env), codec_ok (cdc E) -> forall i s o s',
  exec E C.BuiltInFunctionESDTNFTCreateRoleTransfer i s = (Ok o, s') -> i_caller i <> SC ->
  let tok := argn i 0 in let new := i_rcpt i in
  i_args i = [tok; argn i 1]
  /\ o = mk_out rcOk 0
  /\ counter_at s' new tok = bigU64 (argn i 1)
  /\ roles_at E s' new tok = add_create (roles_at E s new tok)
  /\ has_role E s' new tok C.ESDTRoleNFTCreate = true
  /\ unchanged_except (fun a k => a = new /\ (k = NP ++ tok \/ k = RP ++ tok)) (fun _ => False) s s'.
Proof. exact handover_delivered. Qed.

(* frame: outside these writers no built-in function changes a role cell / a counter cell *)
Example C07_writers_unfolded : forall (E : env) f i a tok,
  (role_writer E f i a tok <->
     tok = argn i 0
     /\ (((f = C.BuiltInFunctionSetESDTRole \/ f = C.BuiltInFunctionUnSetESDTRole) /\ a = i_rcpt i)
         \/ (f = C.BuiltInFunctionESDTNFTCreateRoleTransfer
             /\ (a = i_rcpt i \/ (a = argn i 1 /\ i_caller i = SC /\ shard_of E (argn i 1) = self_shard E)))))
  /\ (counter_writer E f i a tok <->
     tok = argn i 0
     /\ ((f = C.BuiltInFunctionESDTNFTCreate /\ a = i_caller i)
         \/ (f = C.BuiltInFunctionESDTNFTCreateRoleTransfer
             /\ (a = i_rcpt i \/ (a = argn i 1 /\ i_caller i = SC /\ shard_of E (argn i 1) = self_shard E))))).
Proof. intros. split; reflexivity. Qed.
Theorem C07_exec_rn_frame : forall (E : env), codec_ok (cdc E) -> forall f i s o s',
  exec E f i s = (Ok o, s') ->
  forall a tok,
    (~ role_writer E f i a tok -> cell s' a (RP ++ tok) = cell s a (RP ++ tok))
    /\ (~ counter_writer E f i a tok -> cell s' a (NP ++ tok) = cell s a (NP ++ tok)).
Proof. exact exec_rn_frame. Qed.
(* ESDTSetRole appends the given roles, ESDTUnSetRole removes one occurrence of each; system contract only *)
Theorem C07_set_role_effect : forall (E : env), codec_ok (cdc E) -> forall (set : bool) i s o s',
  exec E (if set then C.BuiltInFunctionSetESDTRole else C.BuiltInFunctionUnSetESDTRole) i s = (Ok o, s') ->
  i_caller i = SC /\ i_args i = argn i 0 :: tl (i_args i) /\ o = mk_out rcOk 0
  /\ roles_at E s' (i_rcpt i) (argn i 0) =
     (if set then roles_at E s (i_rcpt i) (argn i 0) ++ tl (i_args i)
      else delete_roles (roles_at E s (i_rcpt i) (argn i 0)) (tl (i_args i))).
Proof. exact set_role_effect. Qed.
(* no other function puts a message NAMED ESDTNFTCreateRoleTransfer in flight, provided the recipient-presence flag
   of the input of a transfer function is truthful ([is_transfer_fn]: ESDTTransfer, ESDTNFTTransfer, MultiESDTNFTTransfer) *)
Theorem C07_collect_not_handover : forall (c : wcfg) sh f i id o s s',
  exec (env_at c sh) f i s = (Ok o, s') ->
  (is_transfer_fn f = true -> i_dst i = (wc_shard_of c (i_rcpt i) =? sh)) ->
  f <> C.BuiltInFunctionESDTNFTCreateRoleTransfer ->
  forall m, In m (collect c sh f i id o) -> m_fn m <> C.BuiltInFunctionESDTNFTCreateRoleTransfer.
Proof. exact collect_not_handover. Qed.

(* ================================================================== *)
(* histories: definitions spelled out                                   *)
(* ================================================================== *)
Example C07_op_exec_unfolded : forall (c : wcfg) w sh fn i id gas,
  op_exec c w (OCall sh fn i) = (if (sh <? wc_nshards c) then Some (sh, fn, i) else None)
  /\ op_exec c w (ODeliver id gas) = op_exec c w (ORedeliver id gas)
  /\ op_exec c w (ODeliver id gas) =
     match find_msg (inflight w) id with
     | None => None
     | Some m => let sh := wc_shard_of c (m_dest m) in
                 if (sh <? wc_nshards c) then Some (sh, m_fn m, deliver_input c m sh gas) else None
     end
  /\ op_exec c w (ORefund id gas) =
     match find_msg (inflight w) id with
     | None => None
     | Some m => let sh := wc_shard_of c (m_sender m) in
                 if (nat_in id (failed w) && (sh <? wc_nshards c))%bool
                 then Some (sh, m_fn m, refund_input c m sh gas) else None
     end.
Proof. intros. repeat split. Qed.
Example C07_discipline_unfolded : forall (c : wcfg) tok g w op ops,
  (step_ok c tok g w op <->
     (match op with
      | OCall sh fn i => is_transfer_fn fn = true -> i_dst i = (wc_shard_of c (i_rcpt i) =? sh)
      | _ => True end)
     /\ match op_exec c w op with
        | None => True
        | Some (sh, fn, i) =>
          ((fn = C.BuiltInFunctionSetESDTRole /\ i_caller i = SC /\ argn i 0 = tok /\ In C.ESDTRoleNFTCreate (tl (i_args i))) ->
             g = false /\ cnt C.ESDTRoleNFTCreate (tl (i_args i)) = 1%nat)
          /\ ~ (fn = C.BuiltInFunctionUnSetESDTRole /\ i_caller i = SC /\ argn i 0 = tok
                /\ In C.ESDTRoleNFTCreate (tl (i_args i)))
          /\ (((fn = C.BuiltInFunctionESDTNFTCreateRoleTransfer /\ argn i 0 = tok) /\ i_snd i = false) ->
                match op with
                | OCall _ _ _ => i_caller i = SC /\ holder c w tok sh (i_rcpt i)
                | ODeliver _ _ | ORefund _ _ => True
                | ORedeliver _ _ => False
                end)
        end)
  /\ (disciplined c tok g w (op :: ops) <->
        step_ok c tok g w op /\ disciplined c tok (g || grant_attempt c tok w op) (wstep c w op) ops)
  /\ (disciplined c tok g w [] <-> True)
  /\ grant_attempt c tok w op =
       match op_exec c w op with
       | Some (_, fn, i) => (beqb fn C.BuiltInFunctionSetESDTRole && beqb (i_caller i) SC && beqb (argn i 0) tok
                             && bytes_in C.ESDTRoleNFTCreate (tl (i_args i)))%bool
       | None => false
       end
  /\ (nowrap c tok w (op :: ops) <->
        match op_exec c w op with
        | Some (sh, fn, i) => fn = C.BuiltInFunctionESDTNFTCreate -> argn i 0 = tok ->
                              wcounter w tok sh (i_caller i) + 1 < two64
        | None => True
        end /\ nowrap c tok (wstep c w op) ops).
Proof. intros. split; [reflexivity|]. split; [reflexivity|]. split; [reflexivity|]. split; reflexivity. Qed.
Example C07_world_observables_unfolded : forall (c : wcfg) w tok sh a m,
  wcounter w tok sh a = counter_at (mk_state (shard_accts w sh)) a tok
  /\ wroles c w tok sh a = roles_at (env_at c sh) (mk_state (shard_accts w sh)) a tok
  /\ (holder c w tok sh a <-> has_role (env_at c sh) (mk_state (shard_accts w sh)) a tok C.ESDTRoleNFTCreate = true)
  /\ (init_ok c tok w <->
        (N.to_nat (wc_nshards c) <= length (shards w))%nat
        /\ filter (is_hmsg tok) (inflight w) = [] /\ forall sh a, ~ holder c w tok sh a)
  /\ is_hmsg tok m = (beqb (m_fn m) C.BuiltInFunctionESDTNFTCreateRoleTransfer && beqb (nth 0 (m_args m) []) tok)%bool.
Proof. intros. split; [reflexivity|]. split; [reflexivity|]. split; [apply holder_has_role|]. split; reflexivity. Qed.
(* the instrumented run: one record per successful execution; same final world as [wrun] *)
Example C07_wrun_log_unfolded : forall (c : wcfg) w op ops tok x,
  wrun_log c w [] = (w, [])
  /\ wrun_log c w (op :: ops) = (fst (wrun_log c (wstep c w op) ops),
                                 opt_list (step_log c w op) ++ snd (wrun_log c (wstep c w op) ops))
  /\ step_log c w op =
       match op_exec c w op with
       | None => None
       | Some (sh, fn, i) =>
         match exec (env_at c sh) fn i (mk_state (shard_accts w sh)) with
         | (Ok o, _) => Some {| x_sh := sh; x_fn := fn; x_in := i; x_out := o |}
         | _ => None
         end
       end
  /\ issued tok (x :: nil) =
       (if (beqb (x_fn x) C.BuiltInFunctionESDTNFTCreate && beqb (argn (x_in x) 0) tok)%bool
        then [bigU64 (hd [] (o_returnData (x_out x)))] else []) ++ [].
Proof. intros. repeat split. Qed.
Theorem C07_wrun_log_world : forall (c : wcfg) w ops, fst (wrun_log c w ops) = wrun c w ops.
Proof. exact wrun_log_world. Qed.
(* [op_exec] and [step_log] describe [wstep]: nothing changes unless the attempted call succeeds, and then exactly
   the executing shard is replaced and the messages are the kept ones plus the collected ones *)
Theorem C07_wstep_shape : forall (c : wcfg) w op,
  match op_exec c w op with
  | None => shards (wstep c w op) = shards w /\ inflight (wstep c w op) = inflight w
  | Some (sh, fn, i) =>
    (sh <? wc_nshards c) = true /\
    match exec (env_at c sh) fn i (mk_state (shard_accts w sh)) with
    | (Ok o, s') => shards (wstep c w op) = set_nth (N.to_nat sh) (accts s') (shards w)
                    /\ inflight (wstep c w op) = kept w op ++ emitted c op sh fn i (next_id w) o
    | _ => shards (wstep c w op) = shards w /\ inflight (wstep c w op) = inflight w
    end
  end.
Proof. exact wstep_shape. Qed.

(* ================================================================== *)
(* histories: the invariant                                             *)
(* ================================================================== *)
(* CInv g w L: at most one holder of the create role OR one in-flight hand-over message for tok, never both; the
   holder has the role exactly once; the holder's counter (the counter carried by the message) is >= every issued
   nonce; the issued nonces are strictly increasing; before the grant nothing exists *)
Example C07_CInv_unfolded : forall (c : wcfg) tok g w L, CInv c tok g w L ->
  (N.to_nat (wc_nshards c) <= length (shards w))%nat
  /\ (forall sh a, (ncreate c w tok sh a <= 1)%nat)
  /\ (forall sh a sh' a', holder c w tok sh a -> holder c w tok sh' a' -> sh = sh' /\ a = a')
  /\ (forall sh a, holder c w tok sh a -> Forall (fun n => n <= wcounter w tok sh a) L)
  /\ match filter (is_hmsg tok) (inflight w) with
     | [] => True
     | [m] => (forall sh a, ~ holder c w tok sh a)
              /\ exists n, m_args m = [tok; u64_bytes n] /\ n < two64 /\ Forall (fun k => k <= n) L
     | _ => False
     end
  /\ (g = false -> L = [] /\ filter (is_hmsg tok) (inflight w) = [] /\ forall sh a, ~ holder c w tok sh a)
  /\ StronglySorted N.lt L.
Proof.
  intros c tok g w L H. destruct H as [H1 H2 H3 H4 H5 H6 H7].
  exact (conj H1 (conj H2 (conj H3 (conj H4 (conj H5 (conj H6 H7)))))).
Qed.
Theorem C07_CInv_init : forall (c : wcfg) tok w, init_ok c tok w -> CInv c tok false w [].
Proof. exact CInv_init. Qed.
(* preserved by EVERY disciplined step, whatever the step executes *)
Theorem C07_CInv_step : forall (c : wcfg), codec_ok (wc_cdc c) -> forall tok g w op L,
  CInv c tok g w L -> step_ok c tok g w op -> step_nowrap c tok w op ->
  CInv c tok (g || grant_attempt c tok w op) (wstep c w op) (L ++ issued tok (opt_list (step_log c w op))).
Proof. exact CInv_step. Qed.
Theorem C07_CInv_run : forall (c : wcfg), codec_ok (wc_cdc c) -> forall tok ops g w L,
  CInv c tok g w L -> disciplined c tok g w ops -> nowrap c tok w ops ->
  exists g', CInv c tok g' (wrun c w ops) (L ++ issued tok (snd (wrun_log c w ops))).
Proof. exact CInv_run. Qed.
(* after any disciplined history: whoever holds the create role continues after the highest nonce ever issued, there
   is one such account at most, and an undelivered hand-over message excludes a holder and carries such a counter *)
Theorem C07_counter_ge_issued : forall (c : wcfg), codec_ok (wc_cdc c) -> forall tok w0 ops,
  init_ok c tok w0 -> disciplined c tok false w0 ops -> nowrap c tok w0 ops ->
  let w := wrun c w0 ops in let L := issued tok (snd (wrun_log c w0 ops)) in
  (forall sh a, holder c w tok sh a -> Forall (fun n => n <= wcounter w tok sh a) L)
  /\ (forall sh a sh' a', holder c w tok sh a -> holder c w tok sh' a' -> sh = sh' /\ a = a')
  /\ (forall m, In m (inflight w) -> is_hmsg tok m = true ->
        (forall sh a, ~ holder c w tok sh a)
        /\ exists n, m_args m = [tok; u64_bytes n] /\ Forall (fun k => k <= n) L).
Proof. exact counter_ge_issued. Qed.

(* ================================================================== *)
(* histories: uniqueness                                                *)
(* ================================================================== *)
Theorem C07_nonces_unique_histories : forall (c : wcfg), codec_ok (wc_cdc c) -> forall tok w0 ops,
  init_ok c tok w0 -> disciplined c tok false w0 ops -> nowrap c tok w0 ops ->
  let L := issued tok (snd (wrun_log c w0 ops)) in NoDup L /\ StronglySorted N.lt L.
Proof. exact nonces_unique_histories. Qed.

(* delivering a hand-over message again (not consuming it) when the destination still has the carried counter and
   the role changes no counter and no role list of any token on any shard *)
Theorem C07_redelivery_idempotent : forall (c : wcfg), codec_ok (wc_cdc c) -> forall w id gas m,
  wf_world c w -> find_msg (inflight w) id = Some m ->
  m_fn m = C.BuiltInFunctionESDTNFTCreateRoleTransfer -> m_caller m <> SC ->
  let sh := wc_shard_of c (m_dest m) in let t := nth 0 (m_args m) [] in
  wcounter w t sh (m_dest m) = bigU64 (nth 1 (m_args m) []) ->
  holder c w t sh (m_dest m) ->
  let w' := wstep c w (ORedeliver id gas) in
  (forall t' sh' a, wcounter w' t' sh' a = wcounter w t' sh' a)
  /\ (forall t' sh' a, wroles c w' t' sh' a = wroles c w t' sh' a).
Proof. exact redelivery_idempotent. Qed.

(* ================================================================== *)
(* histories with repeated deliveries of hand-over messages             *)
(* ================================================================== *)
Example C07_discipline_r_unfolded : forall (c : wcfg) tok g w op ops,
  (step_ok_r c tok g w op <->
     (match op with
      | OCall sh fn i => is_transfer_fn fn = true -> i_dst i = (wc_shard_of c (i_rcpt i) =? sh)
      | _ => True end)
     /\ match op_exec c w op with
        | None => True
        | Some (sh, fn, i) =>
          ((fn = C.BuiltInFunctionSetESDTRole /\ i_caller i = SC /\ argn i 0 = tok /\ In C.ESDTRoleNFTCreate (tl (i_args i))) ->
             g = false /\ cnt C.ESDTRoleNFTCreate (tl (i_args i)) = 1%nat)
          /\ ~ (fn = C.BuiltInFunctionUnSetESDTRole /\ i_caller i = SC /\ argn i 0 = tok
                /\ In C.ESDTRoleNFTCreate (tl (i_args i)))
          /\ (((fn = C.BuiltInFunctionESDTNFTCreateRoleTransfer /\ argn i 0 = tok) /\ i_snd i = false) ->
                match op with
                | OCall _ _ _ => i_caller i = SC /\ holder c w tok sh (i_rcpt i)
                | ODeliver id _ | ORedeliver id _ | ORefund id _ =>
                  ((forall sh' a, ~ holder c w tok sh' a)
                   /\ forall m, find_msg (inflight w) id = Some m ->
                                exists l, filter (is_hmsg tok) (inflight w) = l ++ [m])
                  \/ (holder c w tok sh (i_rcpt i) /\ wcounter w tok sh (i_rcpt i) = bigU64 (argn i 1))
                end)
        end)
  /\ (disciplined_r c tok g w (op :: ops) <->
        step_ok_r c tok g w op /\ disciplined_r c tok (g || grant_attempt c tok w op) (wstep c w op) ops)
  /\ (disciplined_r c tok g w [] <-> True).
Proof. intros. split; [reflexivity|]. split; reflexivity. Qed.
(* the invariant of this discipline: stale hand-over messages may stay in flight; when nobody holds the role the LAST
   hand-over message in flight carries a counter >= every issued nonce *)
Example C07_RInv_unfolded : forall (c : wcfg) tok g w L, RInv c tok g w L ->
  (forall sh a, (ncreate c w tok sh a <= 1)%nat)
  /\ (forall sh a sh' a', holder c w tok sh a -> holder c w tok sh' a' -> sh = sh' /\ a = a')
  /\ (forall sh a, holder c w tok sh a -> Forall (fun n => n <= wcounter w tok sh a) L)
  /\ Forall (fun m => exists n, n < two64 /\ m_args m = [tok; u64_bytes n]) (filter (is_hmsg tok) (inflight w))
  /\ ((forall sh a, ~ holder c w tok sh a) -> forall l m n,
        filter (is_hmsg tok) (inflight w) = l ++ [m] -> m_args m = [tok; u64_bytes n] -> Forall (fun k => k <= n) L)
  /\ StronglySorted N.lt L.
Proof.
  intros c tok g w L H. destruct H as [H1 H2 H3 H4 H5 H6 H7 H8].
  exact (conj H2 (conj H3 (conj H4 (conj H5 (conj H6 H8))))).
Qed.
Theorem C07_RInv_step : forall (c : wcfg), codec_ok (wc_cdc c) -> forall tok g w op L,
  RInv c tok g w L -> step_ok_r c tok g w op -> step_nowrap c tok w op ->
  RInv c tok (g || grant_attempt c tok w op) (wstep c w op) (L ++ issued tok (opt_list (step_log c w op))).
Proof. exact RInv_step. Qed.
Theorem C07_nonces_unique_histories_redelivery : forall (c : wcfg), codec_ok (wc_cdc c) -> forall tok w0 ops,
  init_ok c tok w0 -> disciplined_r c tok false w0 ops -> nowrap c tok w0 ops ->
  let L := issued tok (snd (wrun_log c w0 ops)) in
  NoDup L /\ StronglySorted N.lt L
  /\ (forall sh a, holder c (wrun c w0 ops) tok sh a -> Forall (fun n => n <= wcounter (wrun c w0 ops) tok sh a) L).
Proof. exact nonces_unique_histories_redelivery. Qed.
(* the at-most-once discipline is a special case of the permissive one *)
Theorem C07_disciplined_r_of_disciplined : forall (c : wcfg), codec_ok (wc_cdc c) -> forall tok ops g w L,
  CInv c tok g w L -> disciplined c tok g w ops -> nowrap c tok w ops -> disciplined_r c tok g w ops.
Proof. exact disciplined_r_of_disciplined. Qed.

(* the disciplines and the no-wrap condition are decidable along a concrete history *)
Theorem C07_disciplinedb_r_ok : forall (c : wcfg) tok ops g w,
  disciplinedb_r c tok g w ops = true -> disciplined_r c tok g w ops.
Proof. exact disciplinedb_r_ok. Qed.
Theorem C07_disciplinedb_ok : forall (c : wcfg) tok ops g w,
  disciplinedb c tok g w ops = true -> disciplined c tok g w ops.
Proof. exact disciplinedb_ok. Qed.
Theorem C07_nowrapb_ok : forall (c : wcfg) tok ops w, nowrapb c tok w ops = true -> nowrap c tok w ops.
Proof. exact nowrapb_ok. Qed.
Theorem C07_init_ok_empty : forall (c : wcfg) tok n, wc_nshards c = N.of_nat n -> init_ok c tok (empty_world n).
Proof. exact init_ok_empty. Qed.

(* ---- non-vacuity: a two-shard world with [ideal_codec] ([codec_ok]), a disciplined history with a grant, creates, a
   burn of the latest, a create for another token, a same-shard and a cross-shard hand-over, a consuming delivery,
   further creates, and creates by the former holders (which fail) ---- *)
Example C07_concrete_config : codec_ok (wc_cdc c7_cfg) /\ wc_nshards c7_cfg = 2
  /\ wc_shard_of c7_cfg c7_alice = 0 /\ wc_shard_of c7_cfg c7_carol = 0 /\ wc_shard_of c7_cfg c7_bob = 1
  /\ wc_shard_of c7_cfg SC = META /\ c7_w0 = empty_world 2.
Proof. split; [exact c7_cfg_ok|]. repeat split. Qed.
Example C07_good_history : c7_good =
  [ c7_set_role 0 c7_alice c7_tok; c7_set_role 0 c7_alice c7_other;
    c7_create 0 c7_alice c7_tok; c7_create 0 c7_alice c7_tok; c7_burn 0 c7_alice c7_tok 2;
    c7_create 0 c7_alice c7_other;
    c7_handover 0 c7_alice c7_tok c7_carol; c7_create 0 c7_carol c7_tok;
    c7_handover 0 c7_carol c7_tok c7_bob; ODeliver 0 1000;
    c7_create 1 c7_bob c7_tok; c7_create 1 c7_bob c7_tok;
    c7_create 0 c7_alice c7_tok; c7_create 0 c7_carol c7_tok ].
Proof. reflexivity. Qed.
Example C07_good_successes :
  length (snd (wrun_log c7_cfg c7_w0 c7_good)) = 12%nat
  /\ length (snd (wrun_log c7_cfg c7_w0 (firstn 12 c7_good))) = 12%nat
  /\ issued c7_other (snd (wrun_log c7_cfg c7_w0 c7_good)) = [1].
Proof. exact c7_good_successes. Qed.
Example C07_nonces_unique_nonvacuous :
  let L := issued c7_tok (snd (wrun_log c7_cfg c7_w0 c7_good)) in
  init_ok c7_cfg c7_tok c7_w0 /\ disciplined c7_cfg c7_tok false c7_w0 c7_good /\ nowrap c7_cfg c7_tok c7_w0 c7_good
  /\ L = [1; 2; 3; 4; 5] /\ NoDup L /\ StronglySorted N.lt L.
Proof. exact nonces_unique_nonvacuous. Qed.

(* attempts that cannot succeed are within the discipline *)
Example C07_failing_attempts_are_disciplined :
  c7_noise =
    [ c7_set_role 0 c7_alice c7_tok; c7_create 0 c7_alice c7_tok;
      OCall 0 C.BuiltInFunctionESDTNFTCreateRoleTransfer (c7_in c7_carol c7_carol [c7_tok; u64_bytes 0] true true);
      OCall 0 C.BuiltInFunctionSetESDTRole (c7_in c7_carol c7_carol [c7_tok; C.ESDTRoleNFTCreate] true true);
      OCall 0 C.BuiltInFunctionUnSetESDTRole (c7_in c7_carol c7_alice [c7_tok; C.ESDTRoleNFTCreate] false true);
      c7_create 0 c7_carol c7_tok; c7_create 0 c7_alice c7_tok ]
  /\ disciplinedb c7_cfg c7_tok false c7_w0 c7_noise = true /\ nowrapb c7_cfg c7_tok c7_w0 c7_noise = true
  /\ length (snd (wrun_log c7_cfg c7_w0 c7_noise)) = 3%nat
  /\ issued c7_tok (snd (wrun_log c7_cfg c7_w0 c7_noise)) = [1; 2].
Proof. split; [reflexivity|]. exact failing_attempts_are_disciplined. Qed.
(* a history with repeated deliveries accepted by the permissive discipline only *)
Example C07_again_history : c7_again =
  [ c7_set_role 0 c7_alice c7_tok; c7_create 0 c7_alice c7_tok; c7_create 0 c7_alice c7_tok;
    c7_handover 0 c7_alice c7_tok c7_bob;
    ORedeliver 0 1000; ORedeliver 0 1000; c7_create 1 c7_bob c7_tok;
    c7_handover 1 c7_bob c7_tok c7_carol; ODeliver 1 1000; c7_create 0 c7_carol c7_tok ].
Proof. reflexivity. Qed.
Example C07_nonces_unique_redelivery_nonvacuous :
  let L := issued c7_tok (snd (wrun_log c7_cfg c7_w0 c7_again)) in
  init_ok c7_cfg c7_tok c7_w0 /\ disciplined_r c7_cfg c7_tok false c7_w0 c7_again /\ nowrap c7_cfg c7_tok c7_w0 c7_again
  /\ disciplinedb c7_cfg c7_tok false c7_w0 c7_again = false
  /\ length (snd (wrun_log c7_cfg c7_w0 c7_again)) = 10%nat
  /\ length (inflight (wrun c7_cfg c7_w0 c7_again)) = 1%nat
  /\ L = [1; 2; 3; 4] /\ NoDup L /\ StronglySorted N.lt L.
Proof. exact nonces_unique_redelivery_nonvacuous. Qed.
Example C07_f9_rejected_by_permissive_discipline :
  disciplinedb_r c7_cfg c7_tok false c7_w0 c7_f9 = false
  /\ disciplinedb_r c7_cfg c7_tok false c7_w0 (firstn 6 c7_f9) = true
  /\ disciplinedb_r c7_cfg c7_tok false c7_w0 c7_f9b = false
  /\ disciplinedb_r c7_cfg c7_tok false c7_w0 c7_good = true.
Proof. exact f9_rejected_by_permissive_discipline. Qed.

(* ---- F9 (known finding): re-delivery after a create regresses the counter ---- *)
Example C07_f9_history : c7_f9 =
  [ c7_set_role 0 c7_alice c7_tok; c7_create 0 c7_alice c7_tok; c7_create 0 c7_alice c7_tok;
    c7_handover 0 c7_alice c7_tok c7_bob;
    ORedeliver 0 1000; c7_create 1 c7_bob c7_tok;
    ORedeliver 0 1000; c7_create 1 c7_bob c7_tok ].
Proof. reflexivity. Qed.
Example C07_nonces_unique_redelivery_refuted :
  let L := issued c7_tok (snd (wrun_log c7_cfg c7_w0 c7_f9)) in
  init_ok c7_cfg c7_tok c7_w0 /\ nowrap c7_cfg c7_tok c7_w0 c7_f9
  /\ L = [1; 2; 3; 3] /\ ~ NoDup L
  /\ disciplinedb c7_cfg c7_tok false c7_w0 c7_f9 = false
  /\ disciplinedb c7_cfg c7_tok false c7_w0 (firstn 4 c7_f9) = true.
Proof. exact nonces_unique_redelivery_refuted. Qed.
(* F9, second shape: two holders after the role has moved on *)
Example C07_two_holders_redelivery_refuted :
  let w := wrun c7_cfg c7_w0 c7_f9b in
  holderb c7_cfg c7_tok w 1 c7_bob = true /\ holderb c7_cfg c7_tok w 0 c7_carol = true
  /\ issued c7_tok (snd (wrun_log c7_cfg c7_w0 c7_f9b)) = [1; 1].
Proof. exact two_holders_redelivery_refuted. Qed.
(* the destination branch accepts any caller without a local account: a forged destination-side call *)
Example C07_forged_handover_refuted :
  issued c7_tok (snd (wrun_log c7_cfg c7_w0 c7_forged)) = [1; 2; 1]
  /\ disciplinedb c7_cfg c7_tok false c7_w0 c7_forged = false
  /\ dst_okb c7_cfg (nth 3 c7_forged (ODeliver 0 0)) = true.
Proof. exact forged_handover_refuted. Qed.
(* a lying recipient-presence flag forges a hand-over MESSAGE through ESDTTransfer's attached call *)
Example C07_lying_presence_flag_refuted :
  issued c7_tok (snd (wrun_log c7_cfg c7_w0 c7_lying)) = [1; 1]
  /\ map (dst_okb c7_cfg) c7_lying = [true; true; true; true; false; true; true]
  /\ length (snd (wrun_log c7_cfg c7_w0 c7_lying)) = 7%nat.
Proof. exact lying_presence_flag_refuted. Qed.
(* re-delivery with nothing created in between on the F9 history: counter stays 2 *)
Example C07_redelivery_idempotent_nonvacuous :
  let w := wrun c7_cfg c7_w0 (firstn 5 c7_f9) in
  exists m, find_msg (inflight w) 0 = Some m /\ m_fn m = C.BuiltInFunctionESDTNFTCreateRoleTransfer
            /\ m_caller m = c7_alice /\ m_dest m = c7_bob /\ m_args m = [c7_tok; u64_bytes 2]
            /\ wcounter w c7_tok 1 c7_bob = 2 /\ holderb c7_cfg c7_tok w 1 c7_bob = true
            /\ wcounter (wstep c7_cfg w (ORedeliver 0 1000)) c7_tok 1 c7_bob = 2.
Proof. exact redelivery_idempotent_nonvacuous. Qed.

Print Assumptions C07_create_returns_counter_succ.
Print Assumptions C07_handover_moves_counter_same_shard.
Print Assumptions C07_handover_moves_counter_cross_shard.
Print Assumptions C07_collect_handover.
Print Assumptions C07_handover_delivered.
Print Assumptions C07_exec_rn_frame.
Print Assumptions C07_set_role_effect.
Print Assumptions C07_collect_not_handover.
Print Assumptions C07_wrun_log_world.
Print Assumptions C07_wstep_shape.
Print Assumptions C07_CInv_init.
Print Assumptions C07_CInv_step.
Print Assumptions C07_CInv_run.
Print Assumptions C07_counter_ge_issued.
Print Assumptions C07_nonces_unique_histories.
Print Assumptions C07_redelivery_idempotent.
Print Assumptions C07_RInv_step.
Print Assumptions C07_nonces_unique_histories_redelivery.
Print Assumptions C07_disciplined_r_of_disciplined.
Print Assumptions C07_disciplinedb_r_ok.
Print Assumptions C07_disciplinedb_ok.
Print Assumptions C07_nowrapb_ok.
Print Assumptions C07_init_ok_empty.
Print Assumptions C07_nonces_unique_nonvacuous.
Print Assumptions C07_nonces_unique_redelivery_nonvacuous.
Print Assumptions C07_f9_rejected_by_permissive_discipline.
Print Assumptions C07_nonces_unique_redelivery_refuted.
Print Assumptions C07_two_holders_redelivery_refuted.
Print Assumptions C07_forged_handover_refuted.
Print Assumptions C07_lying_presence_flag_refuted.
Print Assumptions C07_redelivery_idempotent_nonvacuous.
Print Assumptions C07_pinned_constants.
Print Assumptions C07_observables_unfolded.
Print Assumptions C07_writers_unfolded.
Print Assumptions C07_op_exec_unfolded.
Print Assumptions C07_discipline_unfolded.
Print Assumptions C07_world_observables_unfolded.
Print Assumptions C07_wrun_log_unfolded.
Print Assumptions C07_CInv_unfolded.
Print Assumptions C07_discipline_r_unfolded.
Print Assumptions C07_RInv_unfolded.
Print Assumptions C07_concrete_config.
Print Assumptions C07_good_history.
Print Assumptions C07_good_successes.
Print Assumptions C07_again_history.
Print Assumptions C07_f9_history.
Print Assumptions C07_failing_attempts_are_disciplined.
