(* Property C08, extension: ---- world-level provenance for histories that contain the PAUSE BROADCAST ----
   Only statements, each closed by [exact] of a lemma of LedgerProofs/C08w_Pause.v (two of Capstone_Fresh.v); pins;
   non-vacuity; assumptions.

   Reading guide (vocabulary of Properties/C08_world.v -- MInv, inV, vals_of, step_evs, evs_of, copies_equal, no_updates,
   created_once, fresh -- used unchanged).
   * Properties/C08_world.v proves the provenance invariant for histories of [C08w_World.honest_op], which asks of a
     direct call "recipient-presence flag set => the recipient's address maps to the executing shard".  The system
     contract's ESDTPause / ESDTUnPause is addressed to the system account and executed on EVERY shard with the flag
     set, although the system account's address maps to one shard: on the other shards the broadcast was not an
     honest operation of C08_world.v (its decider refuses it: C08p_example_checked).
   * Here [honest_op_p c op] = C08w_World.honest_op c op  \/  op is a direct call of ESDTPause / ESDTUnPause whose
     argument 0 is a valid identifier -- ANY caller, recipient and presence flags (C08p_vocabulary).  The pause step does
     not read the flag (Capstone_Step.wstep_pause_dst, restated as C08p_pause_step_ignores_flag), it produces no event
     (C08p_pause_no_event) and the history variable is the same on both sides of the rewriting (C08p_step_evs_clear_dst).
   * C08p_provenance_step / _histories, C08p_copies_have_provenance, C08p_route_histories (+ _disciplined),
     C08p_transfer_chain_delivers: the theorems of C08_world.v for histories of honest_op_p.
     C08p_MInv_step_general: one step for an ARBITRARY value predicate V containing what the step produces.
     C08p_capstone_histories_have_provenance: every honest history of the capstone (Properties/C0x_capstone.v) is a
     history of honest_op_p -- the two developments now speak about the same histories.
   * NOT covered: as in C08_world.v (updates are events; F4b identifiers and forged destination-side NFT transfers are
     excluded by hypothesis; quantities are not part of the statement). *)
From Coq.Strings Require Import String.
From Coq Require Import List.
From EV Require Import Base.Bytes Base.Store Base.Monad gen.Consts Codec.Types Codec.Proto Codec.Ideal Codec.CodecOk
  Helpers.Helpers Ledger.Types Ledger.Env Ledger.Funcs Ledger.Transfers Ledger.World
  LedgerProofs.Defs LedgerProofs.EnvSpec LedgerProofs.WorldDefs LedgerProofs.WorldSpec
  LedgerProofs.Spec_Transfers_Base LedgerProofs.Spec_Supply LedgerProofs.NoPanicWorld
  LedgerProofs.C01_Consistent LedgerProofs.C02_Effects LedgerProofs.C05_Footprint LedgerProofs.C15_Inv LedgerProofs.C15_World
  LedgerProofs.ValidIds_Id LedgerProofs.ValidIds_Inv LedgerProofs.ValidIds_World
  LedgerProofs.C07_Exec LedgerProofs.C07_World LedgerProofs.C08_Base
  LedgerProofs.C08w_Inv LedgerProofs.C08w_Funcs LedgerProofs.C08w_Transfers LedgerProofs.C08w_World
  LedgerProofs.Capstone_Defs LedgerProofs.Capstone_Step LedgerProofs.Capstone_Histories
  LedgerProofs.Capstone_Examples LedgerProofs.Capstone_Decide
  LedgerProofs.C08w_Pause LedgerProofs.Capstone_Fresh.
Import ListNotations.

(* ================================================================ *)
(* pins                                                               *)
(* ================================================================ *)
Example C08p_vocabulary : forall (c : wcfg) (sh : N) (fn : bytes) (i : input) id gas,
  (honest_op_p c (OCall sh fn i) <-> C08w_World.honest_op c (OCall sh fn i) \/ pause_call fn i)
  /\ (pause_call fn i <->
        (fn = C.BuiltInFunctionESDTPause \/ fn = C.BuiltInFunctionESDTUnPause) /\ Forall valid_id (named_tokens fn i))
  /\ (C08w_World.honest_op c (OCall sh fn i) <->
        (i_dst i = true -> wc_shard_of c (i_rcpt i) = sh) /\ Forall valid_id (named_tokens fn i)
        /\ (fn = C.BuiltInFunctionESDTNFTTransfer \/ fn = C.BuiltInFunctionMultiESDTNFTTransfer -> i_snd i = true))
  /\ (honest_op_p c (ODeliver id gas) <-> True \/ False) /\ (honest_op_p c (ORedeliver id gas) <-> True \/ False)
  /\ (honest_op_p c (ORefund id gas) <-> True \/ False)
  /\ named_tokens C.BuiltInFunctionESDTPause i = [argn i 0] /\ named_tokens C.BuiltInFunctionESDTUnPause i = [argn i 0]
  /\ clear_dst i = {| i_caller := i_caller i; i_rcpt := i_rcpt i; i_args := i_args i; i_value := i_value i; i_gas := i_gas i;
                      i_gasLocked := i_gasLocked i; i_callType := i_callType i; i_rae := i_rae i; i_snd := i_snd i;
                      i_dst := false |}.
Proof. intros. repeat (split; [reflexivity|]). reflexivity. Qed.

(* ================================================================ *)
(* the theorems                                                       *)
(* ================================================================ *)
(* the operations of C08_world.v are included *)
Theorem C08p_honest_op_included : forall (c : wcfg) (op : wop), C08w_World.honest_op c op -> honest_op_p c op.
Proof. exact honest_op_p_of. Qed.

(* the pause step is the same step with the recipient-presence flag cleared (no hypothesis at all) ... *)
Theorem C08p_pause_step_ignores_flag : forall (c : wcfg) (w : world) (sh : N) (fn : bytes) (i : input),
  fn = C.BuiltInFunctionESDTPause \/ fn = C.BuiltInFunctionESDTUnPause ->
  wstep c w (OCall sh fn i) = wstep c w (OCall sh fn (clear_dst i)).
Proof. exact wstep_pause_dst. Qed.
(* ... with the flag cleared it is an honest operation of C08_world.v ... *)
Theorem C08p_pause_clear_dst_honest : forall (c : wcfg) (sh : N) (fn : bytes) (i : input),
  pause_call fn i -> C08w_World.honest_op c (OCall sh fn (clear_dst i)).
Proof. exact pause_clear_dst_honest. Qed.
(* ... it produces no event, and the history variable does not see the rewriting *)
Theorem C08p_pause_no_event : forall (c : wcfg) (w : world) (sh : N) (fn : bytes) (i : input),
  fn = C.BuiltInFunctionESDTPause \/ fn = C.BuiltInFunctionESDTUnPause -> step_evs c w (OCall sh fn i) = [].
Proof. exact step_evs_pause. Qed.
Theorem C08p_step_evs_clear_dst : forall (c : wcfg) (w : world) (sh : N) (fn : bytes) (i : input),
  fn = C.BuiltInFunctionESDTPause \/ fn = C.BuiltInFunctionESDTUnPause ->
  step_evs c w (OCall sh fn (clear_dst i)) = step_evs c w (OCall sh fn i).
Proof. exact step_evs_clear_dst. Qed.

(* one step, for an arbitrary value predicate V: MInv is kept as soon as V contains what the executed call produces *)
Theorem C08p_MInv_step_general : forall (c : wcfg), codec_ok (wc_cdc c) -> flag_undec (wc_cdc c) ->
  forall (V : bytes -> N -> metadata -> Prop) (w : world) (op : wop),
  MInv c V w -> honest_op_p c op ->
  (forall sh fn i o s', op_exec c w op = Some (sh, fn, i) ->
     exec (env_at c sh) fn i (mk_state (shard_accts w sh)) = (Ok o, s') ->
     forall tok n m, In (tok, n, m) (produced (env_at c sh) fn i (mk_state (shard_accts w sh))) -> V tok n m) ->
  MInv c V (wstep c w op).
Proof. exact MInv_step_gen_p. Qed.

Theorem C08p_provenance_step : forall (c : wcfg), codec_ok (wc_cdc c) -> flag_undec (wc_cdc c) ->
  forall (L : list (bytes * N * metadata)) (w : world) (op : wop),
  MInv c (inV L) w -> honest_op_p c op -> MInv c (inV (vals_of L (step_evs c w op))) (wstep c w op).
Proof. exact provenance_step_p. Qed.

Theorem C08p_provenance_histories : forall (c : wcfg), codec_ok (wc_cdc c) -> flag_undec (wc_cdc c) ->
  forall (ops : list wop) (L : list (bytes * N * metadata)) (w : world),
  MInv c (inV L) w -> Forall (honest_op_p c) ops ->
  MInv c (inV (vals_of L (evs_of c w ops))) (wrun c w ops).
Proof. exact provenance_histories_p. Qed.

Theorem C08p_copies_have_provenance : forall (c : wcfg), codec_ok (wc_cdc c) -> flag_undec (wc_cdc c) ->
  forall (L : list (bytes * N * metadata)) (w : world) (ops : list wop),
  MInv c (inV L) w -> Forall (honest_op_p c) ops ->
  let w' := wrun c w ops in
  let Vals := vals_of L (evs_of c w ops) in
  (forall sh a x t m, tok_at (env_at c sh) (mk_state (shard_accts w' sh)) a (P ++ x) = Some t -> t_meta t = Some m ->
     exists tok, valid_id tok /\ x = tok ++ u64_bytes (md_nonce m) /\ In (tok, md_nonce m, m) Vals)
  /\ (forall sh a tok n t m, valid_id tok ->
        tok_at (env_at c sh) (mk_state (shard_accts w' sh)) a (nft_key (P ++ tok) n) = Some t -> t_meta t = Some m ->
        In (tok, n, m) Vals /\ md_nonce m = n)
  /\ (forall msg, In msg (inflight w') -> args_prov (inV Vals) (wc_cdc c) (m_fn msg) (m_args msg)).
Proof. exact copies_have_provenance_p. Qed.

Theorem C08p_route_histories : forall (c : wcfg), codec_ok (wc_cdc c) -> flag_undec (wc_cdc c) ->
  forall (L : list (bytes * N * metadata)) (w : world) (ops : list wop) (tok : bytes) (n : N) (m0 : metadata),
  MInv c (inV L) w -> Forall (honest_op_p c) ops -> valid_id tok -> fresh tok n L ->
  no_updates tok n (evs_of c w ops) -> created_once tok n (evs_of c w ops) ->
  In (C.BuiltInFunctionESDTNFTCreate, (tok, n, m0)) (evs_of c w ops) ->
  copies_equal c tok n m0 (wrun c w ops).
Proof. exact route_histories_p. Qed.

Theorem C08p_route_histories_disciplined : forall (c : wcfg), codec_ok (wc_cdc c) -> flag_undec (wc_cdc c) ->
  forall (L : list (bytes * N * metadata)) (w : world) (ops : list wop) (tok : bytes) (n : N) (m0 : metadata),
  MInv c (inV L) w -> Forall (honest_op_p c) ops -> valid_id tok -> fresh tok n L ->
  init_ok c tok w -> disciplined c tok false w ops -> nowrap c tok w ops ->
  no_updates tok n (evs_of c w ops) -> In (C.BuiltInFunctionESDTNFTCreate, (tok, n, m0)) (evs_of c w ops) ->
  copies_equal c tok n m0 (wrun c w ops).
Proof. exact route_histories_disciplined_p. Qed.

Theorem C08p_transfer_chain_delivers : forall (c : wcfg), codec_ok (wc_cdc c) -> flag_undec (wc_cdc c) ->
  forall (L : list (bytes * N * metadata)) (w : world) (ops : list wop) (tok : bytes) (n : N)
         shA A tA m shB B tB m',
  MInv c (inV L) w -> single_valued tok n L -> Forall (honest_op_p c) ops -> valid_id tok ->
  no_events tok n (evs_of c w ops) ->
  tok_at (env_at c shA) (mk_state (shard_accts w shA)) A (nft_key (P ++ tok) n) = Some tA -> t_meta tA = Some m ->
  tok_at (env_at c shB) (mk_state (shard_accts (wrun c w ops) shB)) B (nft_key (P ++ tok) n) = Some tB -> t_meta tB = Some m' ->
  m' = m.
Proof. exact transfer_chain_delivers_p. Qed.

(* the capstone's honest operations (user transactions, the system contract's nine calls INCLUDING the broadcast,
   deliveries, refunds) are operations of these histories: with the freshness clause, and without it *)
Theorem C08p_capstone_histories_have_provenance : forall (c : wcfg) (ops : list wop) (w : world),
  honest_ops c w ops -> Forall (honest_op_p c) ops.
Proof. exact honest_ops_c08w. Qed.
Theorem C08p_capstone_histories_have_provenance' : forall (c : wcfg) (ops : list wop) (w : world),
  honest_ops' c w ops -> Forall (honest_op_p c) ops.
Proof. exact honest_ops'_c08w. Qed.

(* the hypothesis decided by computation *)
Theorem C08p_decider_sound : forall (c : wcfg) (ops : list wop),
  forallb (honest_op_pb c) ops = true -> Forall (honest_op_p c) ops.
Proof. exact honest_ops_pb_ok. Qed.

(* ================================================================ *)
(* non-vacuity: the 34-operation history with the broadcast on both shards *)
(* ================================================================ *)
(* two shards, ideal_codec, the EMPTY start world; operations 12, 13 = ESDTPause, 16, 17 = ESDTUnPause, each executed on
   shard 0 (where the system account's address lives) and on shard 1 with the recipient-presence flag set (the whole
   history is listed in Properties/C02_capstone.v, C02c_example_history) *)
Example C08p_example_config :
  wc_cdc kc = ideal_codec /\ wc_nshards kc = 2%N /\ kw0 = C15_World.empty_world 2
  /\ codec_ok (wc_cdc kc) /\ flag_undec (wc_cdc kc) /\ MInv kc (inV []) kw0 /\ valid_id k_nft /\ valid_id k_tok.
Proof.
  repeat (split; [reflexivity|]). exact (conj kc_ok (conj kc_flag (conj (MInv_empty kc (inV []) 2) pause_example_valid))).
Qed.
Example C08p_example_ops :
  nth 12 k_history2 (ODeliver 0 0) = OCall 0 C.BuiltInFunctionESDTPause (k_in SC SYS [k_tok] false true)
  /\ nth 13 k_history2 (ODeliver 0 0) = OCall 1 C.BuiltInFunctionESDTPause (k_in SC SYS [k_tok] false true)
  /\ nth 16 k_history2 (ODeliver 0 0) = OCall 0 C.BuiltInFunctionESDTUnPause (k_in SC SYS [k_tok] false true)
  /\ nth 17 k_history2 (ODeliver 0 0) = OCall 1 C.BuiltInFunctionESDTUnPause (k_in SC SYS [k_tok] false true)
  /\ wc_shard_of kc SYS = 0%N /\ length k_history2 = 34%nat.
Proof. exact pause_example_ops. Qed.
(* the hypothesis, decided by vm_compute; the decider of C08_world.v refuses exactly operations 13 and 17 *)
Example C08p_example_checked :
  forallb (honest_op_pb kc) k_history2 = true
  /\ map (fun n => honest_opb kc (nth n k_history2 (ODeliver 0 0))) [12; 13; 16; 17]%nat = [true; false; true; false]
  /\ forallb (honest_opb kc) k_history2 = false.
Proof. exact pause_example_checked. Qed.
Example C08p_example_honest : Forall (honest_op_p kc) k_history2.
Proof. exact pause_example_honest. Qed.
(* the broadcast takes effect on BOTH shards: the pause flag of TOK after operation 13, before 12, after 17; the statuses
   of operations 12..17 (14, 15: transfers refused while paused) *)
Example C08p_example_flags :
  map (fun sh => paused_at (sstate (wrun kc kw0 (firstn 14 k_history2)) sh) (P ++ k_tok)) [0; 1]%N = [true; true]
  /\ map (fun sh => paused_at (sstate (wrun kc kw0 (firstn 12 k_history2)) sh) (P ++ k_tok)) [0; 1]%N = [false; false]
  /\ map (fun sh => paused_at (sstate (wrun kc kw0 (firstn 18 k_history2)) sh) (P ++ k_tok)) [0; 1]%N = [false; false]
  /\ map (fun n => nth n (statuses kc kw0 k_history2) None) [12; 13; 14; 15; 16; 17]%nat
     = [Some SOk; Some SOk; Some SErr; Some SErr; Some SOk; Some SOk].
Proof. exact pause_example_flags. Qed.
(* the events of the run: two creations, two updates of NFT#2 *)
Example C08p_example_events :
  evs_of kc kw0 k_history2 =
  [ (C.BuiltInFunctionESDTNFTCreate, (k_nft, 1%N, p_md1));
    (C.BuiltInFunctionESDTNFTCreate, (k_nft, 2%N, p_md2));
    (C.BuiltInFunctionESDTNFTAddURI, (k_nft, 2%N, p_md2'));
    (C.BuiltInFunctionESDTNFTUpdateAttributes, (k_nft, 2%N, p_md2'')) ]
  /\ p_md1 = {| md_nonce := 1; md_name := str "name"%string; md_creator := k_alice; md_royalties := 5;
                md_hash := str "hash"%string; md_uris := [str "uri"%string]; md_attributes := str "attr"%string |}
  /\ p_md2'' = {| md_nonce := 2; md_name := str "name"%string; md_creator := k_bob; md_royalties := 5;
                  md_hash := str "hash"%string; md_uris := [str "uri"%string; str "uri2"%string];
                  md_attributes := str "attr2"%string |}.
Proof. split; [exact pause_example_events|split; reflexivity]. Qed.
(* the conclusions *)
Example C08p_example_provenance :
  MInv kc (inV (vals_of [] (evs_of kc kw0 k_history2))) (wrun kc kw0 k_history2).
Proof. exact pause_example_provenance. Qed.
Example C08p_example_route_hypotheses :
  fresh k_nft 1 [] /\ no_updates k_nft 1 (evs_of kc kw0 k_history2)
  /\ created_once k_nft 1 (evs_of kc kw0 k_history2)
  /\ In (C.BuiltInFunctionESDTNFTCreate, (k_nft, 1%N, p_md1)) (evs_of kc kw0 k_history2).
Proof. exact pause_example_route_hypotheses. Qed.
Example C08p_example_route : copies_equal kc k_nft 1 p_md1 (wrun kc kw0 k_history2).
Proof. exact pause_example_route. Qed.
(* ... evaluated: bob (shard 1) holds the remaining 3 units of NFT#1 with the creation metadata and NFT#2 with the value of
   the last update event; alice holds no entry any more; nothing in flight *)
Example C08p_example_computed :
  let w' := wrun kc kw0 k_history2 in
  k_meta w' 1 k_bob 1 = Some p_md1 /\ k_bal w' 1 k_bob k_kN1 = 3%Z /\ k_meta w' 0 k_alice 1 = None
  /\ k_meta w' 1 k_bob 2 = Some p_md2'' /\ inflight w' = [].
Proof. exact pause_example_computed. Qed.

Print Assumptions C08p_vocabulary.
Print Assumptions C08p_honest_op_included.
Print Assumptions C08p_pause_step_ignores_flag.
Print Assumptions C08p_pause_clear_dst_honest.
Print Assumptions C08p_pause_no_event.
Print Assumptions C08p_step_evs_clear_dst.
Print Assumptions C08p_MInv_step_general.
Print Assumptions C08p_provenance_step.
Print Assumptions C08p_provenance_histories.
Print Assumptions C08p_copies_have_provenance.
Print Assumptions C08p_route_histories.
Print Assumptions C08p_route_histories_disciplined.
Print Assumptions C08p_transfer_chain_delivers.
Print Assumptions C08p_capstone_histories_have_provenance.
Print Assumptions C08p_capstone_histories_have_provenance'.
Print Assumptions C08p_decider_sound.
Print Assumptions C08p_example_config.
Print Assumptions C08p_example_ops.
Print Assumptions C08p_example_checked.
Print Assumptions C08p_example_honest.
Print Assumptions C08p_example_flags.
Print Assumptions C08p_example_events.
Print Assumptions C08p_example_provenance.
Print Assumptions C08p_example_route_hypotheses.
Print Assumptions C08p_example_route.
Print Assumptions C08p_example_computed.
