(* Property C11 — built-in functions are total on transaction-reachable input: the WORLD-level statement.
   Only statements, each closed by [exact] of a lemma of LedgerProofs/NoPanicWorld*.v, their assumptions and the
   non-vacuity examples.  (Properties/C11.v holds the statements about a single call.)

   Reading guide.  Ledger/World.v [wstep c w op] performs at most one execution of a built-in function and rolls back
   an error and a panic alike, so the world model itself cannot tell them apart.  [wstep_target c w op] names the
   execution a step performs (shard, function, input) -- None when the step executes nothing: shard out of range,
   unknown message id, refund of a message that was not rejected; [wstep_result] is its result
   [exec (env_at c sh) fn i (state of shard sh)], [wstep_status] the class Ok / Err / Panic of that result.
   C11w_wstep_spec says that [wstep] is exactly: nothing / [commit] when that execution is Ok / [reject] otherwise.
   The invariant [PInv c w]: every shard state is StoreOK (C11.v) and every in-flight message satisfies the payload
   hypothesis of the destination side ([msg_pok]: NFT payloads that decode carry a value (and metadata for
   ESDTNFTTransfer); a MultiESDTNFTTransfer message has fewer than 2^40 arguments).  Nothing is assumed about ids,
   callers, destinations, gas of messages.  Transaction-reachable operations [tx_op]: direct calls that are a user
   transaction executed on the shard of its caller with the presence flags the shard table implies, or a
   system-contract call (caller = the ESDT system contract, no caller account, recipient account present, not the
   destination side of the two NFT transfers), with fewer than 2^40 arguments; deliveries, re-deliveries and refunds
   of ANY id with ANY gas.  C11w_world_no_panic: from any PInv world (the empty one is: C11w_PInv_empty), along every
   list of such operations, no step has status Panic; C11w_world_total: every executed call returns Ok with return
   code Ok, or an error.  Hypotheses on the codec as in C11.v ([codec_ok], [flag_ok]). *)
From Coq.Strings Require Import String.
From Coq Require Import List.
From EV Require Import Base.Bytes Base.Store Base.Monad gen.Consts Codec.Types Codec.CodecOk Helpers.Helpers
  Ledger.Types Ledger.Env Ledger.Funcs Ledger.Transfers Ledger.World
  LedgerProofs.Defs LedgerProofs.EnvSpec LedgerProofs.WorldDefs LedgerProofs.WorldSpec
  LedgerProofs.NoPanic LedgerProofs.NoPanicFuncs LedgerProofs.NoPanicTransfers LedgerProofs.NoPanicEmit
  LedgerProofs.NoPanicWitness LedgerProofs.NoPanicWorldEmit LedgerProofs.NoPanicWorld LedgerProofs.NoPanicWorldWitness.
Import ListNotations.

Local Open Scope N_scope.

(* ---- the definitions, written out ---- *)
Example C11w_definitions_unfolded : forall (c : wcfg) (w : world) (m : msg) (sh : N) (fn : bytes) (i : input),
  (PInv c w <->
     (forall sh, StoreOK (env_at c sh) (mk_state (shard_accts w sh))) /\ (forall m, In m (inflight w) -> msg_pok c m))
  /\ (msg_pok c m <->
        ((m_fn m = C.BuiltInFunctionESDTNFTTransfer -> nft_payload_ok (env_at c 0) (m_args m))
         /\ (m_fn m = C.BuiltInFunctionMultiESDTNFTTransfer -> multi_payload_ok (env_at c 0) (m_args m)))
        /\ (m_fn m = C.BuiltInFunctionMultiESDTNFTTransfer -> alen (m_args m) < 2 ^ 40))
  /\ (tx_op c (OCall sh fn i) <->
        ((wc_shard_of c (i_caller i) = sh
          /\ i_snd i = (wc_shard_of c (i_caller i) =? sh) /\ i_dst i = (wc_shard_of c (i_rcpt i) =? sh))
         \/ (i_caller i = SC /\ i_snd i = false /\ i_dst i = true /\ i_rcpt i <> SC
             /\ fn <> C.BuiltInFunctionESDTNFTTransfer /\ fn <> C.BuiltInFunctionMultiESDTNFTTransfer
             /\ (is_transfer_fn fn = true -> wc_shard_of c (i_rcpt i) = sh)))
        /\ alen (i_args i) < 2 ^ 40)
  /\ (forall id gas, tx_op c (ODeliver id gas) /\ tx_op c (ORedeliver id gas) /\ tx_op c (ORefund id gas)).
Proof.
  intros. split; [reflexivity|]. split; [reflexivity|]. split; [reflexivity|]. intros. repeat split.
Qed.
(* the execution a step performs, and its status *)
Example C11w_instrumentation_unfolded : forall (c : wcfg) (w : world) (op : wop),
  wstep_result c w op =
    match wstep_target c w op with
    | Some (sh, fn, i) => Some (exec (env_at c sh) fn i (mk_state (shard_accts w sh)))
    | None => None
    end
  /\ wstep_status c w op =
    match wstep_result c w op with
    | Some (Ok _, _) => Some SOk | Some (Err _, _) => Some SErr | Some (Panic, _) => Some SPanic | None => None
    end
  /\ (forall sh fn i, wstep_target c w (OCall sh fn i) = if sh <? wc_nshards c then Some (sh, fn, i) else None)
  /\ (forall id gas, wstep_target c w (ODeliver id gas) = wstep_target c w (ORedeliver id gas)
      /\ wstep_target c w (ODeliver id gas) =
         match find_msg (inflight w) id with
         | Some m => if wc_shard_of c (m_dest m) <? wc_nshards c
                     then Some (wc_shard_of c (m_dest m), m_fn m, deliver_input c m (wc_shard_of c (m_dest m)) gas) else None
         | None => None
         end
      /\ wstep_target c w (ORefund id gas) =
         match find_msg (inflight w) id with
         | Some m => if nat_in id (failed w)
                     then if wc_shard_of c (m_sender m) <? wc_nshards c
                          then Some (wc_shard_of c (m_sender m), m_fn m, refund_input c m (wc_shard_of c (m_sender m)) gas) else None
                     else None
         | None => None
         end).
Proof.
  intros. split; [|split; [|split; [reflexivity|intros; repeat split; reflexivity]]].
  - unfold wstep_result. destruct (wstep_target c w op) as [[[sh fn] i]|]; reflexivity.
  - unfold wstep_status. destruct (wstep_result c w op) as [[[o|e|] s]|]; reflexivity.
Qed.

(* ---- 1. the instrumented step agrees with wstep ---- *)
(* wstep = nothing / commit on Ok / reject otherwise, for exactly the instrumented execution *)
Theorem C11w_wstep_spec : forall (c : wcfg) (w : world) (op : wop),
  wstep c w op =
  match wstep_target c w op with
  | None => w
  | Some (sh, fn, i) =>
    match exec (env_at c sh) fn i (mk_state (shard_accts w sh)) with
    | (Ok o, s') => commit c w op sh fn i o s'
    | _ => reject w op
    end
  end.
Proof. exact wstep_spec. Qed.
(* no execution: the world is unchanged *)
Theorem C11w_wstep_none : forall (c : wcfg) (w : world) (op : wop), wstep_status c w op = None -> wstep c w op = w.
Proof. exact wstep_none. Qed.
(* status Ok <-> the step commits that execution *)
Theorem C11w_wstep_status_ok : forall (c : wcfg) (w : world) (op : wop),
  wstep_status c w op = Some SOk <->
  exists sh fn i o s', wstep_target c w op = Some (sh, fn, i)
    /\ exec (env_at c sh) fn i (mk_state (shard_accts w sh)) = (Ok o, s')
    /\ wstep c w op = commit c w op sh fn i o s'.
Proof. exact wstep_status_ok. Qed.
(* status Err or Panic: rolled back (a delivery is marked as rejected); shards and messages untouched *)
Theorem C11w_wstep_status_not_ok : forall (c : wcfg) (w : world) (op : wop) (st : status),
  wstep_status c w op = Some st -> st <> SOk -> wstep c w op = reject w op.
Proof. exact wstep_status_not_ok. Qed.
Theorem C11w_reject_frame : forall (w : world) (op : wop),
  shards (reject w op) = shards w /\ inflight (reject w op) = inflight w /\ next_id (reject w op) = next_id w.
Proof. exact reject_frame. Qed.

(* ---- 2. what a successful execution puts in flight ---- *)
(* every message [collect] makes of the output of a successful execution of f is named f and satisfies the payload
   hypothesis; needs only a truthful recipient-presence flag (transfer functions) and < 2^40 arguments (multi) *)
Theorem C11w_emitted_messages_ok : forall (c : wcfg), codec_ok (wc_cdc c) ->
  forall sh f i s o s' id,
  (is_transfer_fn f = true -> i_dst i = (wc_shard_of c (i_rcpt i) =? sh)) ->
  (f = C.BuiltInFunctionMultiESDTNFTTransfer -> alen (i_args i) < 2 ^ 40) ->
  exec (env_at c sh) f i s = (Ok o, s') ->
  forall m, In m (collect c sh f i id o) -> m_fn m = f /\ msg_pok c m.
Proof. exact exec_collect_pok. Qed.
(* the input of a delivery / refund of such a message is covered by C11_exec_no_panic: it is an origin input (the
   caller resp. the destination lives on the executing shard) or a delivered input *)
Theorem C11w_deliver_covered : forall (c : wcfg) (m : msg) (gas : N), msg_pok c m ->
  let sh := wc_shard_of c (m_dest m) in
  origin_input (deliver_input c m sh gas) \/ delivered_input (env_at c sh) (m_fn m) (deliver_input c m sh gas).
Proof. intros c m gas H. exact (proj1 (proj2 (deliver_call_ok c m gas H))). Qed.
Theorem C11w_refund_covered : forall (c : wcfg) (m : msg) (gas : N), msg_pok c m ->
  let sh := wc_shard_of c (m_sender m) in
  origin_input (refund_input c m sh gas) \/ delivered_input (env_at c sh) (m_fn m) (refund_input c m sh gas).
Proof. intros c m gas H. exact (proj1 (proj2 (refund_call_ok c m gas H))). Qed.

(* ---- 3. the invariant ---- *)
Theorem C11w_PInv_empty : forall (c : wcfg) (n : nat), PInv c (empty_world n).
Proof. exact PInv_empty. Qed.
Theorem C11w_PInv_step : forall (c : wcfg), codec_ok (wc_cdc c) -> flag_ok (wc_cdc c) ->
  forall (w : world) (op : wop), PInv c w -> tx_op c op -> PInv c (wstep c w op).
Proof. exact PInv_step. Qed.
Theorem C11w_PInv_every_prefix : forall (c : wcfg), codec_ok (wc_cdc c) -> flag_ok (wc_cdc c) ->
  forall (ops : list wop) (w0 : world) (n : nat),
  PInv c w0 -> Forall (tx_op c) ops -> PInv c (wrun c w0 (firstn n ops)).
Proof. exact PInv_every_prefix. Qed.

(* ---- 4. no execution performed by the node panics ---- *)
Theorem C11w_wstep_no_panic : forall (c : wcfg), codec_ok (wc_cdc c) -> flag_ok (wc_cdc c) ->
  forall (w : world) (op : wop), PInv c w -> tx_op c op -> wstep_status c w op <> Some SPanic.
Proof. exact wstep_no_panic. Qed.
(* along every history: the list of statuses contains no Panic *)
Theorem C11w_world_no_panic : forall (c : wcfg), codec_ok (wc_cdc c) -> flag_ok (wc_cdc c) ->
  forall (ops : list wop) (w0 : world), PInv c w0 -> Forall (tx_op c) ops ->
  Forall (fun st => st <> Some SPanic) (statuses c w0 ops).
Proof. exact world_no_panic. Qed.
(* the result shape of the property text, for every execution performed: Ok with return code Ok, or an error *)
Theorem C11w_world_total : forall (c : wcfg), codec_ok (wc_cdc c) -> flag_ok (wc_cdc c) ->
  forall (ops : list wop) (w0 : world), PInv c w0 -> Forall (tx_op c) ops ->
  Forall (fun r => match r with
                   | None => True
                   | Some (Ok o, _) => o_rc o = C.Ok
                   | Some (Err _, _) => True
                   | Some (Panic, _) => False
                   end) (results c w0 ops).
Proof. exact world_total. Qed.
(* pointwise: the n-th operation, executed in the world the first n operations lead to *)
Theorem C11w_world_no_panic_at : forall (c : wcfg), codec_ok (wc_cdc c) -> flag_ok (wc_cdc c) ->
  forall (ops : list wop) (w0 : world) (n : nat) (op : wop),
  PInv c w0 -> Forall (tx_op c) ops -> nth_error ops n = Some op ->
  wstep_status c (wrun c w0 (firstn n ops)) op <> Some SPanic
  /\ step_total (wstep_result c (wrun c w0 (firstn n ops)) op).
Proof. exact world_no_panic_at. Qed.
(* the lists are what they should be *)
Example C11w_statuses_unfolded : forall (c : wcfg) (w : world) (op : wop) (ops : list wop),
  statuses c w [] = [] /\ statuses c w (op :: ops) = wstep_status c w op :: statuses c (wstep c w op) ops
  /\ results c w [] = [] /\ results c w (op :: ops) = wstep_result c w op :: results c (wstep c w op) ops.
Proof. intros. repeat split. Qed.

(* ---- 5. non-vacuity: a two-shard history from the EMPTY world, ideal codec ---- *)
(* role grant by the system contract, NFT create, cross-shard NFT transfer, its delivery, a hostile multi-transfer
   (count = wrap residue), a hostile NFT transfer, a multi-transfer to a non-payable contract, its rejected delivery, its
   refund, an unknown id, a re-delivery of a consumed message *)
Example C11w_history_reachable : Forall (tx_op pw_cfg) pw_history /\ length pw_history = 11%nat.
Proof. exact (conj pw_history_reachable eq_refl). Qed.
Example C11w_statuses :
  statuses pw_cfg (empty_world 2) pw_history
  = [Some SOk; Some SOk; Some SOk; Some SOk; Some SErr; Some SErr; Some SOk; Some SErr; Some SOk; None; None].
Proof. exact pw_statuses. Qed.
Example C11w_no_panic_instance : Forall (fun st => st <> Some SPanic) (statuses pw_cfg (empty_world 2) pw_history).
Proof. exact pw_no_panic. Qed.
Example C11w_messages_travel :
  map m_fn (inflight (wrun pw_cfg (empty_world 2) (firstn 3 pw_history))) = [C.BuiltInFunctionESDTNFTTransfer]
  /\ failed (wrun pw_cfg (empty_world 2) (firstn 8 pw_history)) = [1%nat]
  /\ inflight (wrun pw_cfg (empty_world 2) pw_history) = [] /\ failed (wrun pw_cfg (empty_world 2) pw_history) = [].
Proof. exact pw_messages. Qed.

(* ---- 6. the presence condition of tx_op is necessary ---- *)
(* an origin-side ESDTTransfer that is handed a recipient account that does not live on the executing shard turns the
   user-chosen attached call "ESDTNFTTransfer@..@<payload without value>" into a cross-shard message; its delivery panics *)
Example C11w_untruthful_presence_refuted :
  (exists t, dec_tok ideal_codec pw_bad_payload = Some t /\ t_value t = None)
  /\ origin_input (pw_in pw_carol pw_erin [] true true) /\ wc_shard_of pw_cfg pw_carol = 0
  /\ wc_shard_of pw_cfg pw_erin = 1 /\ ~ tx_op pw_cfg pw_bad_op
  /\ statuses pw_cfg pw_w1 [pw_bad_op; ODeliver 0 100000000] = [Some SOk; Some SPanic]
  /\ map m_fn (inflight (wstep pw_cfg pw_w1 pw_bad_op)) = [C.BuiltInFunctionESDTNFTTransfer].
Proof. exact untruthful_presence_refuted. Qed.

Print Assumptions C11w_wstep_spec.
Print Assumptions C11w_wstep_none.
Print Assumptions C11w_wstep_status_ok.
Print Assumptions C11w_wstep_status_not_ok.
Print Assumptions C11w_reject_frame.
Print Assumptions C11w_emitted_messages_ok.
Print Assumptions C11w_deliver_covered.
Print Assumptions C11w_refund_covered.
Print Assumptions C11w_PInv_empty.
Print Assumptions C11w_PInv_step.
Print Assumptions C11w_PInv_every_prefix.
Print Assumptions C11w_wstep_no_panic.
Print Assumptions C11w_world_no_panic.
Print Assumptions C11w_world_total.
Print Assumptions C11w_world_no_panic_at.
Print Assumptions C11w_definitions_unfolded.
Print Assumptions C11w_instrumentation_unfolded.
Print Assumptions C11w_statuses_unfolded.
Print Assumptions C11w_history_reachable.
Print Assumptions C11w_statuses.
Print Assumptions C11w_no_panic_instance.
Print Assumptions C11w_messages_travel.
Print Assumptions C11w_untruthful_presence_refuted.
