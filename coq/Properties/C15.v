(* Property C15 — the token state is well-formed after every history.
   Only statements, each closed by [exact] of a lemma of LedgerProofs/C15_*.v, their assumptions, pins and
   non-vacuity examples.

   Reading guide.
   * [Inv E s] is the representation invariant of ONE shard state s, a predicate on every non-empty storage
     cell (account a, key k) of s, written out in [C15_invariant_unfolded]:
       (I1) a key with the prefix "ELROND" is P ++ x = "ELRONDesdt"+x, RP ++ x = "ELRONDroleesdt"+x or
            NP ++ x = "ELRONDnonce"+x (the x of an NFT entry is token id ++ big-endian nonce);
       (I2) a cell under P ++ x decodes as a token entry -- or, in the system account SYS only, is the raw
            2-byte pause flag 01 00 / 00 00 that ESDTPause stores under the same key (a fourth entry kind;
            known finding F8: the flag overwrites a holding of the address SYS itself, which this clause covers);
       (I3) the entry's value is > 0, or it is 0 and the entry is fungible, without metadata and frozen;
       (I4) type = Fungible <-> no metadata; an entry with metadata m sits under nft_key (P ++ tok) (md_nonce m)
            for some tok (its key ends with the big-endian bytes of its own nonce);
       (I5) properties are absent, 00 00 or 01 00;
       (I6) a cell under RP ++ x decodes as a non-empty role list without duplicates;
       (I7) a cell under NP ++ x is the canonical big-endian encoding of a counter n, 0 < n < 2^64.
     The same clauses in terms of the observables of LedgerProofs/Defs.v: C15_key_layout ... C15_counter.
     "md_nonce m > 0" is NOT part of (I4): it is not an invariant of the code (C15_counter_wrap_issues_nonce_zero:
     with the counter at 2^64 - 1 ESDTNFTCreate issues nonce 0 and stores the entry under the bare token key;
     confirmed on the real code) -- reachable only by 2^64 - 1 creates or a forged hand-over message.
   * Hypotheses on the codec: [codec_ok] (decode after encode; satisfied by [ideal_codec], which equals the
     protobuf model on every byte string of Go length) and [flag_undec] (the 2-byte pause flag does not decode
     as a token: true of the protobuf codec and of the ideal one, C15_flag_undec_proto / _ideal).
   * [C15_Inv_exec]: ONE successful call of ANY of the 23 functions, on an arbitrary input (either side, any
     presence pattern, hostile arguments, any fault plan), from an Inv state ends in an Inv state, provided the
     call is [disciplined]:
       - [roles_disciplined] (system-contract discipline, only for f = ESDTSetRole): the roles given are pairwise
         different and not yet held (without it: C15_duplicate_role_refuted);
       - [payload_disciplined] (only for the DESTINATION side of ESDTNFTTransfer / MultiESDTNFTTransfer, i.e.
         caller account absent and caller <> recipient): an NFT payload that decodes is well-shaped (type/metadata
         agree, properties in range).  Value and key are NOT assumed: the receiving code deletes a non-positive
         sum and keys by the metadata nonce.  Without it: C15_crafted_payload_refuted.  Payloads emitted by
         successful sender-side executions are well-shaped: that is [out_ok] in C15_Inv_exec_out.
     Known findings: F4a/F4b (token id + nonce aliasing) do not break the invariant (save_nft keys by the
     metadata nonce; see the hostile sequence); F8 is covered by (I2); SaveKeyValue never writes a protected key.
   * World level (Ledger/World.v): [WInv c w] = every shard state is Inv and every in-flight message is [msg_ok]
     (its NFT payloads are well-shaped; it is not an ESDTSetRole call).  [C15_Inv_step], [C15_Inv_histories],
     [C15_Inv_every_prefix]: deliveries, RE-deliveries and refunds need no hypothesis; a direct call needs
     [call_ok]: the recipient account is present only if it lives on the executing shard, and the call is
     disciplined.  C15_origin_call_ok / C15_plain_call_ok: every transaction of an account of the executing
     shard, and every call of a function other than the two NFT transfers (e.g. by the system contract), is
     call_ok as soon as it respects the role discipline; what is excluded is a forged destination-side NFT /
     multi transfer with an ill-shaped payload.
   * NOT here: the counter clause of the property text ("the counter held with the create role is never below
     any nonce ever issued") needs the history of issued nonces: it is C07's theorem.  The harness monitor
     checks it (and metadata nonce > 0) on the real storage after every step. *)
From Coq.Strings Require Import String.
From EV Require Import Base.Bytes Base.Store Base.Monad gen.Consts Codec.Types Codec.CodecOk Helpers.Helpers
  Ledger.Types Ledger.Env Ledger.Funcs Ledger.Transfers Ledger.World Corr.Exec
  LedgerProofs.Defs LedgerProofs.EnvSpec LedgerProofs.WorldDefs LedgerProofs.WorldSpec
  LedgerProofs.C15_Inv LedgerProofs.C15_Funcs LedgerProofs.C15_Transfers LedgerProofs.C15_World
  LedgerProofs.C15_Clauses LedgerProofs.C15_Examples.

(* ---- pins: the constants the property text names ---- *)
Example C15_pinned_prefixes :
  C.ElrondProtectedKeyPrefix = str "ELROND"%string
  /\ P = str "ELRONDesdt"%string /\ RP = str "ELRONDroleesdt"%string /\ NP = str "ELRONDnonce"%string
  /\ (forall key n, nft_key key n = key ++ N_to_be n)
  /\ flag_bytes true = [x01; x00] /\ flag_bytes false = [x00; x00]
  /\ C.Fungible = 0%N /\ C.NonFungible = 1%N /\ SYS = repeat xff 32
  /\ length builtin_names = 23%nat.
Proof. repeat split. Qed.

(* ---- the invariant, written out (definition unfolded) ---- *)
Theorem C15_invariant_unfolded : forall E s,
  Inv E s <->
  forall a k, cell s a k <> [] ->
    (prefix_of C.ElrondProtectedKeyPrefix k = true ->
       (exists x, k = P ++ x) \/ (exists x, k = RP ++ x) \/ (exists x, k = NP ++ x))
    /\ (forall x, k = P ++ x ->
          (a = SYS /\ exists f, cell s a k = flag_bytes f)
          \/ (exists t, dec_tok (cdc E) (cell s a k) = Some t
                /\ (exists v, t_value t = Some v
                      /\ ((0 < v)%Z \/ (v = 0%Z /\ t_type t = C.Fungible /\ t_meta t = None
                                        /\ frozen_props (t_props t) = true)))
                /\ ((t_type t = C.Fungible <-> t_meta t = None)
                    /\ (t_props t = [] \/ t_props t = flag_bytes false \/ t_props t = flag_bytes true))
                /\ (forall m, t_meta t = Some m -> exists tok, k = nft_key (P ++ tok) (md_nonce m))))
    /\ (forall x, k = RP ++ x -> exists r, dec_rol (cdc E) (cell s a k) = Some r /\ r <> [] /\ NoDup r)
    /\ (forall x, k = NP ++ x -> exists n, cell s a k = u64_bytes n /\ (n < two64)%N).
Proof. exact Inv_unfold. Qed.

(* the hypotheses, written out *)
Example C15_hypotheses_unfolded : forall (E : env) (s : mstate) (f : bytes) (i : input),
  (flag_undec (cdc E) <-> forall fl, dec_tok (cdc E) (flag_bytes fl) = None)
  /\ (disciplined E s f i <-> roles_disciplined E s f i /\ payload_disciplined E f i)
  /\ (roles_disciplined E s f i <->
        (f = C.BuiltInFunctionSetESDTRole -> forall tok, nth_error (i_args i) 0 = Some tok ->
           NoDup (roles_at E s (i_rcpt i) tok ++ skipn 1 (i_args i))))
  /\ (payload_disciplined E f i <->
        (i_snd i = false /\ i_caller i <> i_rcpt i ->
           (f = C.BuiltInFunctionESDTNFTTransfer ->
              forall b, nth_error (i_args i) 3 = Some b -> forall t, dec_tok (cdc E) b = Some t -> shape_ok t)
           /\ (f = C.BuiltInFunctionMultiESDTNFTTransfer ->
                 forall a0, nth_error (i_args i) 0 = Some a0 ->
                   triples_shaped (cdc E) (N.to_nat (bigU64 a0)) (skipn 1 (i_args i)))))
  /\ (forall t, shape_ok t <->
        (t_type t = C.Fungible <-> t_meta t = None)
        /\ (t_props t = [] \/ t_props t = flag_bytes false \/ t_props t = flag_bytes true))
  /\ (forall cd n tok nb b r, triples_shaped cd (S n) (tok :: nb :: b :: r) <->
        ((0 < bigU64 nb)%N -> forall t, dec_tok cd b = Some t -> shape_ok t) /\ triples_shaped cd n r).
Proof. intros. repeat apply conj; try (intro H; exact H); intros; split; intro H; exact H. Qed.

(* ---- the clauses with the observables of Defs.v ---- *)
(* (I1) keys have exactly the three layouts *)
Theorem C15_key_layout : forall E s, Inv E s -> forall a k,
  cell s a k <> [] -> prefix_of C.ElrondProtectedKeyPrefix k = true ->
  (exists x, k = P ++ x) \/ (exists x, k = RP ++ x) \/ (exists x, k = NP ++ x).
Proof. exact inv_key_layout. Qed.
(* (I2) every protocol entry decodes; the pause flags of the system account are the one other kind *)
Theorem C15_entry_decodes : forall E s, Inv E s -> forall a x,
  cell s a (P ++ x) <> [] ->
  (a = SYS /\ exists f, cell s a (P ++ x) = flag_bytes f /\ paused_at s (P ++ x) = f)
  \/ (exists t, tok_at E s a (P ++ x) = Some t).
Proof. exact inv_entry_decodes. Qed.
(* (I3)-(I5) value, kind, key and properties of a decoded entry *)
Theorem C15_entry : forall E, flag_undec (cdc E) -> forall s, Inv E s -> forall a x t,
  tok_at E s a (P ++ x) = Some t ->
  (exists v, t_value t = Some v /\ balance E s a (P ++ x) = v
     /\ ((0 < v)%Z \/ (v = 0%Z /\ t_type t = C.Fungible /\ t_meta t = None /\ frozen_at E s a (P ++ x) = true)))
  /\ (t_type t = C.Fungible <-> t_meta t = None)
  /\ (forall m, t_meta t = Some m -> exists tok, P ++ x = nft_key (P ++ tok) (md_nonce m))
  /\ (t_props t = [] \/ t_props t = flag_bytes false \/ t_props t = flag_bytes true).
Proof. exact inv_entry. Qed.
(* corollaries used by other properties *)
Theorem C15_balance_nonneg : forall E, flag_undec (cdc E) -> forall s, Inv E s -> forall a x,
  (0 <= balance E s a (P ++ x))%Z.
Proof. exact inv_balance_nonneg. Qed.
Theorem C15_zero_balance_entry : forall E, flag_undec (cdc E) -> forall s, Inv E s -> forall a x t,
  tok_at E s a (P ++ x) = Some t -> balance E s a (P ++ x) = 0%Z ->
  t_type t = C.Fungible /\ t_meta t = None /\ frozen_at E s a (P ++ x) = true.
Proof. exact inv_zero_balance_entry. Qed.
(* (I6) role lists decode, are non-empty and hold no duplicates *)
Theorem C15_roles : forall E s, Inv E s -> forall a x, cell s a (RP ++ x) <> [] ->
  exists r, dec_rol (cdc E) (cell s a (RP ++ x)) = Some r /\ roles_at E s a x = r /\ r <> [] /\ NoDup r.
Proof. exact inv_roles. Qed.
Theorem C15_roles_nodup : forall E s, Inv E s -> forall a x, NoDup (roles_at E s a x).
Proof. exact inv_roles_nodup. Qed.
(* (I7) counters *)
Theorem C15_counter : forall E s, Inv E s -> forall a x, cell s a (NP ++ x) <> [] ->
  exists n, cell s a (NP ++ x) = u64_bytes n /\ (0 < n < two64)%N /\ counter_at s a x = n.
Proof. exact inv_counter. Qed.

(* ---- one call: all 23 functions, arbitrary input ---- *)
Theorem C15_Inv_exec : forall E f i s o s',
  codec_ok (cdc E) -> flag_undec (cdc E) -> Inv E s -> disciplined E s f i ->
  exec E f i s = (Ok o, s') -> Inv E s'.
Proof. exact Inv_exec. Qed.
(* ... and the transfers of its output are local, or protocol messages whose NFT payloads are well-shaped *)
Theorem C15_Inv_exec_out : forall E f i s o s',
  codec_ok (cdc E) -> flag_undec (cdc E) -> Inv E s -> disciplined E s f i ->
  exec E f i s = (Ok o, s') -> Inv E s' /\ out_ok E i o.
Proof. exact Inv_exec_out. Qed.
Theorem C15_Inv_empty : forall E, Inv E (mk_state []).
Proof. exact Inv_empty. Qed.
(* which calls are disciplined for free *)
Theorem C15_origin_payload_disciplined : forall E f i, i_snd i = true -> payload_disciplined E f i.
Proof. exact origin_payload_disciplined. Qed.
Theorem C15_other_roles_disciplined : forall E s f i, f <> C.BuiltInFunctionSetESDTRole -> roles_disciplined E s f i.
Proof. exact other_roles_disciplined. Qed.

(* ---- histories of the world model ---- *)
Example C15_world_definitions : forall (c : wcfg) (w : world) (sh : N) (fn : bytes) (i : input) (op : wop) (ops : list wop),
  (WInv c w <-> (forall sh, Inv (env_at c sh) (mk_state (shard_accts w sh)))
                /\ (forall m, In m (inflight w) -> msg_ok (wc_cdc c) (m_fn m) (m_args m)))
  /\ (forall F A, msg_ok (wc_cdc c) F A <->
        F <> C.BuiltInFunctionSetESDTRole
        /\ (F = C.BuiltInFunctionESDTNFTTransfer -> nft_args_shaped (wc_cdc c) A)
        /\ (F = C.BuiltInFunctionMultiESDTNFTTransfer -> multi_args_shaped (wc_cdc c) A))
  /\ (call_ok c w sh fn i <->
        (i_dst i = true -> wc_shard_of c (i_rcpt i) = sh)
        /\ disciplined (env_at c sh) (mk_state (shard_accts w sh)) fn i)
  /\ (reachable_op c w op <-> match op with OCall sh fn i => call_ok c w sh fn i | _ => True end)
  /\ (reachable_ops c w (op :: ops) <-> reachable_op c w op /\ reachable_ops c (wstep c w op) ops)
  /\ (reachable_ops c w [] <-> True).
Proof. intros. repeat apply conj; try (intro H; exact H); intros; split; intro H; exact H. Qed.

Theorem C15_Inv_step : forall c, codec_ok (wc_cdc c) -> flag_undec (wc_cdc c) -> forall w op,
  WInv c w -> reachable_op c w op -> WInv c (wstep c w op).
Proof. exact Inv_step. Qed.
Theorem C15_Inv_histories : forall c, codec_ok (wc_cdc c) -> flag_undec (wc_cdc c) -> forall ops w0,
  WInv c w0 -> reachable_ops c w0 ops -> WInv c (wrun c w0 ops).
Proof. exact Inv_histories. Qed.
Theorem C15_Inv_every_prefix : forall c, codec_ok (wc_cdc c) -> flag_undec (wc_cdc c) -> forall ops w0 n,
  WInv c w0 -> reachable_ops c w0 ops -> WInv c (wrun c w0 (firstn n ops)).
Proof. exact Inv_every_prefix. Qed.
Theorem C15_WInv_empty : forall c n, WInv c (empty_world n).
Proof. exact WInv_empty. Qed.
(* messages emitted by a successful execution are [msg_ok] *)
Theorem C15_emitted_messages_ok : forall c sh fn i id o,
  (i_dst i = true -> wc_shard_of c (i_rcpt i) = sh) -> out_ok (env_at c sh) i o ->
  forall m, In m (collect c sh fn i id o) -> msg_ok (wc_cdc c) (m_fn m) (m_args m).
Proof. exact collect_ok. Qed.
(* transactions of accounts of the executing shard / calls of functions other than the two NFT transfers *)
Theorem C15_origin_call_ok : forall c w sh fn i,
  origin_call c sh i -> roles_disciplined (env_at c sh) (mk_state (shard_accts w sh)) fn i -> call_ok c w sh fn i.
Proof. exact origin_call_ok. Qed.
Theorem C15_plain_call_ok : forall c w sh fn i,
  presence_ok c sh i -> fn <> C.BuiltInFunctionESDTNFTTransfer -> fn <> C.BuiltInFunctionMultiESDTNFTTransfer ->
  roles_disciplined (env_at c sh) (mk_state (shard_accts w sh)) fn i -> call_ok c w sh fn i.
Proof. exact plain_call_ok. Qed.

(* ---- the codec hypotheses are satisfiable; the checker ---- *)
Theorem C15_codec_instance : codec_ok ideal_codec /\ flag_undec ideal_codec.
Proof. exact (conj ideal_codec_ok flag_undec_ideal). Qed.
Theorem C15_flag_undec_proto : flag_undec the_codec.
Proof. exact flag_undec_proto. Qed.
Theorem C15_inv_check_sound : forall E s, inv_check E s = true -> Inv E s.
Proof. exact inv_check_sound. Qed.

(* ---- non-vacuity ---- *)
(* a state with a fungible entry, a frozen zero entry, an NFT entry, role lists, a counter and a pause flag *)
Example C15_example_state_inv : Inv EI sGood.
Proof. exact sGood_inv. Qed.
(* a zero-balance entry that is not frozen is not well-formed *)
Example C15_zero_unfrozen_not_inv : ~ Inv EI sZero.
Proof. exact sZero_not_inv. Qed.
(* 23 hostile calls (aliasing ids, zero quantity, freeze of an NFT key, refund spending a frozen entry, the system
   account as holder + pause (F8), hand-over, SaveKeyValue): every call succeeds, checker true after every step *)
Example C15_hostile_sequence : run_seq EI sGood hostile_ops = (length hostile_ops, true) /\ length hostile_ops = 23%nat.
Proof. exact (conj hostile_sequence_keeps_checker eq_refl). Qed.
Example C15_counter_wrap_issues_nonce_zero :
  Inv EI sWrap /\
  match exec EI C.BuiltInFunctionESDTNFTCreate create_in sWrap with
  | (Ok o, s') => o_returnData o = [[]] /\ inv_check EI s' = true
                  /\ (match tok_at EI s' alice (P ++ tokN) with Some t => tok_nonce t = 0%N | None => False end)
                  /\ cell s' alice (NP ++ tokN) = []
  | _ => False
  end.
Proof. exact counter_wrap_issues_nonce_zero. Qed.
(* the two disciplines are necessary *)
Example C15_crafted_payload_refuted :
  Inv EI sGood /\ roles_disciplined EI sGood C.BuiltInFunctionESDTNFTTransfer forged_in
  /\ ~ payload_disciplined EI C.BuiltInFunctionESDTNFTTransfer forged_in
  /\ match exec EI C.BuiltInFunctionESDTNFTTransfer forged_in sGood with
     | (Ok _, s') => ~ Inv EI s'
     | _ => False
     end.
Proof. exact crafted_payload_refuted. Qed.
Example C15_duplicate_role_refuted :
  Inv EI sGood /\ payload_disciplined EI C.BuiltInFunctionSetESDTRole dup_in
  /\ ~ roles_disciplined EI sGood C.BuiltInFunctionSetESDTRole dup_in
  /\ match exec EI C.BuiltInFunctionSetESDTRole dup_in sGood with
     | (Ok _, s') => ~ Inv EI s'
     | _ => False
     end.
Proof. exact duplicate_role_refuted. Qed.
(* the theorems instantiated *)
Example C15_inst_Inv_exec :
  exists o s', exec EI C.BuiltInFunctionSetESDTRole set_in sGood = (Ok o, s') /\ Inv EI s'
               /\ roles_at EI s' carol tokN = [C.ESDTRoleNFTBurn; C.ESDTRoleLocalMint].
Proof. exact inst_Inv_exec. Qed.
Example C15_inst_Inv_histories :
  WInv cfgW (wrun cfgW w0 ops0)
  /\ balance (env_at cfgW 1) (mk_state (shard_accts (wrun cfgW w0 ops0) 1)) bob (nft_key (P ++ tokN) 68) = 2%Z
  /\ balance (env_at cfgW 0) (mk_state (shard_accts (wrun cfgW w0 ops0) 0)) alice (nft_key (P ++ tokN) 68) = 5%Z
  /\ inflight (wrun cfgW w0 ops0) = [].
Proof. exact inst_Inv_histories. Qed.

Print Assumptions C15_pinned_prefixes.
Print Assumptions C15_invariant_unfolded.
Print Assumptions C15_hypotheses_unfolded.
Print Assumptions C15_key_layout.
Print Assumptions C15_entry_decodes.
Print Assumptions C15_entry.
Print Assumptions C15_balance_nonneg.
Print Assumptions C15_zero_balance_entry.
Print Assumptions C15_roles.
Print Assumptions C15_roles_nodup.
Print Assumptions C15_counter.
Print Assumptions C15_Inv_exec.
Print Assumptions C15_Inv_exec_out.
Print Assumptions C15_Inv_empty.
Print Assumptions C15_origin_payload_disciplined.
Print Assumptions C15_other_roles_disciplined.
Print Assumptions C15_world_definitions.
Print Assumptions C15_Inv_step.
Print Assumptions C15_Inv_histories.
Print Assumptions C15_Inv_every_prefix.
Print Assumptions C15_WInv_empty.
Print Assumptions C15_emitted_messages_ok.
Print Assumptions C15_origin_call_ok.
Print Assumptions C15_plain_call_ok.
Print Assumptions C15_codec_instance.
Print Assumptions C15_flag_undec_proto.
Print Assumptions C15_inv_check_sound.
Print Assumptions C15_example_state_inv.
Print Assumptions C15_zero_unfrozen_not_inv.
Print Assumptions C15_hostile_sequence.
Print Assumptions C15_counter_wrap_issues_nonce_zero.
Print Assumptions C15_crafted_payload_refuted.
Print Assumptions C15_duplicate_role_refuted.
Print Assumptions C15_inst_Inv_exec.
Print Assumptions C15_inst_Inv_histories.
