(* Property C17 — a failing dependency is never reported as success.
   Only statements, each closed by [exact] of a lemma proved in LedgerProofs/Faults.v and
   LedgerProofs/FaultsSim.v, their assumptions, pins and non-vacuity examples.

   Reading guide.  [E : env] is ARBITRARY (any fault plan, any codec, coordinator, oracle, gas
   schedule): no [no_faults], no [codec_ok].  [plan E n] says whether the n-th call to an injected
   dependency fails; [calls s] is the number of dependency calls made so far, so the calls made by a
   run from s to s' are exactly the indices of the window [calls s, calls s').  The fault points are
   SaveKeyValue, LoadAccount/SaveAccount of an account the call modifies, Marshal, Unmarshal,
   IsPayable and the account operations ChangeOwnerAddress / ClaimDeveloperRewards / AddToBalance;
   storage reads and the pause lookup are not fault points (fail-soft by interface design). *)
From Coq.Strings Require Import String.
From EV Require Import Base.Bytes Base.Store Base.Monad gen.Consts Codec.Types
  Ledger.Types Ledger.Env Ledger.Funcs Ledger.Transfers Corr.Exec
  LedgerProofs.Faults LedgerProofs.FaultsSim LedgerProofs.FaultsSaved.

(* ---- pins: what a fault point is in the model ---- *)
Example C17_dep_is_the_fault_point : forall E s,
  dep E s = (if plan E (calls s) then Err EFault else Ok tt,
             {| accts := accts s; calls := S (calls s); allocs := allocs s |}).
Proof. intros E s. unfold dep. destruct (plan E (calls s)); reflexivity. Qed.
Example C17_fault_points : forall E a k v t b r (i : input),
  save_kv E a k v = (dep E ;;; write_kv a k v) /\
  load_account E a = dep E /\ save_account E a = dep E /\
  marshal_tok E t = (dep E ;;; ret (enc_tok (cdc E) t)) /\
  unmarshal_tok E b = (dep E ;;; lift_opt (dec_tok (cdc E) b) EDecode) /\
  marshal_rol E r = (dep E ;;; ret (enc_rol (cdc E) r)) /\
  unmarshal_rol E b = (dep E ;;; lift_opt (dec_rol (cdc E) b) EDecode) /\
  is_payable E a = (dep E ;;; match payable E a with PayYes => ret true | PayNo => ret false | PayErr => fail EPayableOracle end).
Proof. intros. repeat split. Qed.

(* ---- main theorem: Ok implies that no call of the window was planned to fail ---- *)
Theorem C17_ok_implies_clean : forall (E : env) f i s o s',
  exec E f i s = (Ok o, s') -> forall n, calls s <= n < calls s' -> plan E n = false.
Proof. exact ok_implies_clean. Qed.

(* stronger: a planned fault inside the window ends the run with the injected error right after
   that call: not Ok, not a panic, not some other error, and no further dependency call *)
Theorem C17_fault_in_window_stops : forall (E : env) f i s r s' k,
  exec E f i s = (r, s') -> calls s <= k < calls s' -> plan E k = true ->
  r = Err EFault /\ calls s' = S k.
Proof. exact fault_in_window_stops. Qed.

Theorem C17_fault_in_window_not_ok : forall (E : env) f i s r s' k,
  plan E k = true -> calls s <= k < calls s' -> exec E f i s = (r, s') -> forall o, r <> Ok o.
Proof. exact fault_in_window_not_ok. Qed.

Theorem C17_calls_monotone : forall (E : env) f i s r s', exec E f i s = (r, s') -> calls s <= calls s'.
Proof. exact calls_monotone. Qed.

(* the compositional invariant itself, for every built-in function *)
Theorem C17_clean_exec : forall (E : env) f i s r s', exec E f i s = (r, s') ->
  calls s <= calls s' /\
  forall n, calls s <= n < calls s' -> plan E n = true -> r = Err EFault /\ calls s' = S n.
Proof. exact clean_exec. Qed.

(* ---- "the k-th dependency call fails": reachability of call k is defined by a reference run ---- *)
(* E1 differs from E0 only in the plan, agrees with it below k and makes call k fail.  If the run in
   E0 makes call number k (whatever its own outcome), the run in E1 returns the injected error
   immediately after call k. *)
Theorem C17_fault_reached_err : forall E0 E1 k f i s r s',
  same_but_plan E0 E1 -> (forall n, n < k -> plan E1 n = plan E0 n) -> plan E1 k = true ->
  exec E0 f i s = (r, s') -> calls s <= k < calls s' ->
  exists s1, exec E1 f i s = (Err EFault, s1) /\ calls s1 = S k.
Proof. exact fault_reached_err. Qed.

(* determinism up to the first differing plan index *)
Theorem C17_prefix_deterministic : forall E0 E1 k f i s r s',
  same_but_plan E0 E1 -> (forall n, n < k -> plan E1 n = plan E0 n) -> plan E1 k = true ->
  exec E0 f i s = (r, s') -> calls s' <= k -> exec E1 f i s = (r, s').
Proof. exact prefix_deterministic. Qed.

(* the fault enumeration of the harness as a theorem: a successful fault-free call with D dependency
   calls; for EVERY k < D, failing exactly the k-th call turns it into an error after k+1 calls *)
Theorem C17_single_fault_err : forall E0 k f i s o s',
  no_faults E0 -> exec E0 f i s = (Ok o, s') -> calls s <= k < calls s' ->
  exists s1, exec (with_plan E0 (fun n => Nat.eqb n k)) f i s = (Err EFault, s1) /\ calls s1 = S k.
Proof. exact single_fault_err. Qed.
Theorem C17_single_fault_not_ok : forall E0 k f i s o s',
  no_faults E0 -> exec E0 f i s = (Ok o, s') -> calls s <= k < calls s' ->
  forall o1 s1, exec (with_plan E0 (fun n => Nat.eqb n k)) f i s <> (Ok o1, s1).
Proof. exact single_fault_not_ok. Qed.
(* and a fault planned at an index the call never reaches changes nothing *)
Theorem C17_unreached_fault_harmless : forall E0 k f i s r s',
  no_faults E0 -> exec E0 f i s = (r, s') -> calls s' <= k ->
  exec (with_plan E0 (fun n => Nat.eqb n k)) f i s = (r, s').
Proof. exact unreached_fault_harmless. Qed.

(* ---- saved_if_modified: an account obtained through LoadAccount is saved before Ok, and nothing
   touches the accounts after the save ---- *)
Theorem C17_saved_if_modified_pause : forall (E : env) p i s o s',
  f_pause E p i s = (Ok o, s') ->
  exists tok s1 s2,
    load_account E SYS s = (Ok tt, s1) /\
    save_kv E SYS (P ++ tok) (flag_bytes p) s1 = (Ok tt, s2) /\
    save_account E SYS s2 = (Ok tt, s').
Proof. exact saved_if_modified_pause. Qed.
Theorem C17_saved_if_modified_nft_transfer : forall (E : env) i s o s',
  f_nft_transfer_sender E i s = (Ok o, s') ->
  forall dst, nth_error (i_args i) 3 = Some dst -> (self_shard E =? shard_of E dst)%N = true ->
  exists sl sl' s1 s2,
    load_account E dst sl = (Ok tt, sl') /\ calls s <= calls sl /\
    save_account E dst s1 = (Ok tt, s2) /\ calls sl' <= calls s1 /\ accts s' = accts s2.
Proof. exact saved_if_modified_nft_transfer. Qed.
Theorem C17_saved_if_modified_multi_transfer : forall (E : env) i s o s',
  f_multi_transfer_sender E i s = (Ok o, s') ->
  forall dst, nth_error (i_args i) 0 = Some dst -> (self_shard E =? shard_of E dst)%N = true ->
  exists sl sl' s1 s2,
    load_account E dst sl = (Ok tt, sl') /\ accts sl = accts s /\
    save_account E dst s1 = (Ok tt, s2) /\ calls sl' <= calls s1 /\ accts s' = accts s2.
Proof. exact saved_if_modified_multi_transfer. Qed.
Theorem C17_saved_if_modified_role_transfer : forall (E : env) i s o s',
  f_create_role_transfer E i s = (Ok o, s') -> beqb (i_caller i) SC = true ->
  forall newOwner, nth_error (i_args i) 1 = Some newOwner -> (shard_of E newOwner =? self_shard E)%N = true ->
  exists sl sl' s1,
    load_account E newOwner sl = (Ok tt, sl') /\ calls s <= calls sl /\
    save_account E newOwner s1 = (Ok tt, s') /\ calls sl' <= calls s1.
Proof. exact saved_if_modified_role_transfer. Qed.

Print Assumptions C17_ok_implies_clean.
Print Assumptions C17_fault_in_window_stops.
Print Assumptions C17_fault_in_window_not_ok.
Print Assumptions C17_clean_exec.
Print Assumptions C17_fault_reached_err.
Print Assumptions C17_prefix_deterministic.
Print Assumptions C17_single_fault_err.
Print Assumptions C17_single_fault_not_ok.
Print Assumptions C17_unreached_fault_harmless.
Print Assumptions C17_saved_if_modified_pause.
Print Assumptions C17_saved_if_modified_nft_transfer.
Print Assumptions C17_saved_if_modified_multi_transfer.
Print Assumptions C17_saved_if_modified_role_transfer.

(* ---- non-vacuity: ESDTPause on the system account with the concrete protobuf codec makes three
   dependency calls (LoadAccount, SaveKeyValue, SaveAccount) and succeeds; failing call 0, 1 or 2
   makes it an error after 1, 2, 3 calls; failing call 3 (never reached) changes nothing ---- *)
Definition C17_cfg : xcfg :=
  {| xc_shards := []; xc_shard_default := 0; xc_pay := []; xc_pay_default := 0; xc_dns := []; xc_enable := false; xc_gas := [] |}.
Definition C17_in : input :=
  {| i_caller := C.ESDTSCAddress; i_rcpt := C.SystemAccountAddress; i_args := [str "TKA-a1b2c3"%string]; i_value := 0;
     i_gas := 0; i_gasLocked := 0; i_callType := 0; i_rae := false; i_snd := false; i_dst := true |}.
(* 0 ok, 1 injected error, 2 panic, 3 another error; with the number of dependency calls made *)
Definition C17_obs (r : res err output * mstate) : N * nat :=
  (match fst r with Ok _ => 0 | Err EFault => 1 | Err _ => 3 | Panic => 2 end%N, calls (snd r)).
Definition C17_run (failAt : option nat) : N * nat :=
  C17_obs (exec (env_of C17_cfg 0 failAt) C.BuiltInFunctionESDTPause C17_in (state_of [])).
Example C17_nonvacuous :
  C17_run None = (0%N, 3) /\ C17_run (Some 0) = (1%N, 1) /\ C17_run (Some 1) = (1%N, 2)
  /\ C17_run (Some 2) = (1%N, 3) /\ C17_run (Some 3) = (0%N, 3).
Proof. vm_compute. repeat split. Qed.
(* the hypotheses of the theorems are met by this run: Ok with a window of 3 calls, fault-free plan *)
Example C17_nonvacuous_hyps :
  no_faults (env_of C17_cfg 0 None) /\
  (exists o s', exec (env_of C17_cfg 0 None) C.BuiltInFunctionESDTPause C17_in (state_of []) = (Ok o, s')
                /\ calls (state_of []) <= 1 < calls s') /\
  plan (env_of C17_cfg 0 (Some 1)) 1 = true /\ same_but_plan (env_of C17_cfg 0 None) (env_of C17_cfg 0 (Some 1)).
Proof.
  split; [intros n; reflexivity|]. split; [|split; [reflexivity|repeat split]].
  destruct (exec (env_of C17_cfg 0 None) C.BuiltInFunctionESDTPause C17_in (state_of [])) as [r s'] eqn:X.
  assert (Y : C17_obs (r, s') = (0%N, 3)) by (rewrite <- X; vm_compute; reflexivity).
  unfold C17_obs in Y. cbn [fst snd] in Y. destruct r as [o|e|]; [|destruct e; discriminate|discriminate].
  exists o, s'. split; [reflexivity|]. inversion Y as [Z]. cbn. lia.
Qed.
