(* Property C04, extension: frozen accounts and paused tokens at WORLD level (the node model Ledger/World.v: several
   shards, in-flight cross-shard messages, calls, deliveries, re-deliveries, return-after-error refunds, whole histories).
   Only statements, each closed by [exact] of a lemma of LedgerProofs/C04_World.v; pins; non-vacuity; assumptions.
   (Properties/C04.v states the gates per execution [exec] on one shard.)

   Reading guide.
   * [c : wcfg] is an arbitrary world configuration (shard function, payability oracle, gas schedule, number of shards)
     with a [codec_ok] codec.  [wstep c w op] / [wrun c w ops] is the node model; [op_exec c w op] is the call
     (shard, function, input) the operation attempts ([OCall sh fn i]: a user transaction or a system-contract call on
     shard sh; [ODeliver] / [ORedeliver id gas]: the in-flight message id on the shard of its destination;
     [ORefund id gas]: a message whose delivery was refused, on the shard of the debited account, with the
     return-after-error flag SET): C04w_op_exec_unfolded.  A step changes accounts only if that call succeeds, and then
     only on that shard: C04w_wstep_exec_cases.
   * Observables of one shard of a world: [shbal c w sh a k] (decoded balance of account a under the full storage key k
     on shard sh), [shfrozen c w sh a k], [shpaused w sh k] (the flag under k in the system account OF THAT SHARD),
     [shcell w sh a k]: C04w_observables_unfolded.
   * ONE STEP.  C04w_wstep_paused_no_balance_change / C04w_wstep_frozen_no_balance_change (and the byte-identity forms
     *_entry_untouched) are C04_paused_no_balance_change / C04_frozen_no_balance_change for every kind of operation: the
     hypotheses are asked of the call the step executes, if it succeeds (same exception list: the return-after-error
     flag, the account SC, ESDTWipe of that entry, F8, F4b, the create slot); the conclusion holds on EVERY shard.
     C04w_wstep_paused_delivery: a delivered input is never flagged, so for ODeliver / ORedeliver the flag hypothesis
     disappears.  REFUNDS are executed with the flag set, so no gate applies to them; C04w_wstep_refund_effect says
     exactly what a refund of a transfer message does instead: the debited account gets back exactly what the message
     carries ([qty c k m], WorldDefs), whatever is frozen or paused on its shard, and no other balance of any shard
     moves (witness C04w_ex_refund_bypasses_pause: 3 -> 5 on a paused shard).
   * HISTORIES.  [along c Q sh w ops]: every call that SUCCEEDS on shard sh along the run of ops from w satisfies
     Q (pre-state of the shard, function, input) -- calls on other shards, failed calls and skipped operations are
     unrestricted; [along_b] decides it (C04w_along_unfolded, C04w_deciders_sound).
       C04w_wrun_paused_interval      tok paused on sh in w, every successful call on sh [pause_quiet a (tok ++ r) tok]:
                                      tok is STILL paused on sh and the balance of a under P ++ tok ++ r is unchanged
                                      (r = []: the fungible entry; r = nonce bytes: an NFT entry of tok)
       C04w_wrun_paused_interval_all  every account at once ([pause_quiet_all])
       C04w_wrun_paused_interval_valid_ids   identifiers of the protocol's shape: no aliasing hypothesis, every
                                      key nft_key (P ++ tok) n
       C04w_wrun_frozen_interval      the same for an entry frozen on its shard ([freeze_quiet])
       C04w_pause_interval_unpause    pause ; quiet history ; unpause: paused all along, not paused at the end, the
                                      balance after the unpause is the balance before the pause
     [pause_quiet a x tok f i] (C04w_pause_quiet_unfolded) excludes exactly: the return-after-error flag (so: no refund
     executing ON sh, no flagged call), ESDTUnPause of tok, ESDTWipe of the entry (a, x), F8 (ESDTPause / ESDTUnPause of
     x itself when a is the system account), the system account's own flag cell as the TARGET of ESDTWipe / ESDTFreeze /
     ESDTUnFreeze (it would be read as a token entry), and identifier aliasing ([alias_free]: a named identifier other
     than tok that is a prefix of x; impossible among valid identifiers, C04w_valid_ids_alias_free).  A second
     ESDTPause of tok, ESDTFreeze / ESDTUnFreeze of user entries, transfers by the system contract, and every operation
     on OTHER shards (in particular refunds there) are allowed.
   * NOT covered: the behavioural half of "unpausing restores exactly the earlier behaviour" at world level (the
     per-shard statement is C04_props_irrelevance_history; lifting it needs a simulation of [collect] and is not done:
     C04w_pause_interval_unpause gives the observable half: flags and balances). *)
From Coq.Strings Require Import String.
From Coq Require Import List.
From EV Require Import Base.Bytes Base.Store Base.Monad gen.Consts Codec.Types Codec.Ideal Codec.CodecOk Helpers.Helpers
  Ledger.Types Ledger.Env Ledger.Funcs Ledger.Transfers Ledger.World
  LedgerProofs.Defs LedgerProofs.EnvSpec LedgerProofs.WorldDefs LedgerProofs.WorldSpec
  LedgerProofs.Spec_Transfers_Base LedgerProofs.Spec_Supply
  LedgerProofs.C01_World LedgerProofs.C01_Consistent LedgerProofs.C01_Examples
  LedgerProofs.C04_Core LedgerProofs.C07_World LedgerProofs.C04_World.
Import ListNotations.

(* ================================================================ *)
(* pins                                                               *)
(* ================================================================ *)
Example C04w_observables_unfolded : forall (c : wcfg) w sh a k,
  wst w sh = mk_state (shard_accts w sh)
  /\ shbal c w sh a k = balance (env_at c sh) (wst w sh) a k
  /\ shfrozen c w sh a k = frozen_at (env_at c sh) (wst w sh) a k
  /\ shpaused w sh k = paused_at (wst w sh) k
  /\ shcell w sh a k = cell (wst w sh) a k.
Proof. intros. repeat split. Qed.
Example C04w_op_exec_unfolded : forall (c : wcfg) w sh fn i id gas,
  op_exec c w (OCall sh fn i) = (if (sh <? wc_nshards c)%N then Some (sh, fn, i) else None)
  /\ op_exec c w (ORedeliver id gas) = op_exec c w (ODeliver id gas)
  /\ op_exec c w (ODeliver id gas) =
     match find_msg (inflight w) id with
     | None => None
     | Some m => if (wc_shard_of c (m_dest m) <? wc_nshards c)%N
                 then Some (wc_shard_of c (m_dest m), m_fn m, deliver_input c m (wc_shard_of c (m_dest m)) gas) else None
     end
  /\ op_exec c w (ORefund id gas) =
     match find_msg (inflight w) id with
     | None => None
     | Some m => if (nat_in id (failed w) && (wc_shard_of c (m_sender m) <? wc_nshards c)%N)%bool
                 then Some (wc_shard_of c (m_sender m), m_fn m, refund_input c m (wc_shard_of c (m_sender m)) gas) else None
     end
  /\ (forall m, i_rae (deliver_input c m sh gas) = false /\ i_rae (refund_input c m sh gas) = true).
Proof. intros. repeat split. Qed.
Example C04w_pause_quiet_unfolded : forall a x tok f i,
  (alias_free x tok f i <-> forall tok2 r, In tok2 (named_tokens f i) -> x = tok2 ++ r -> tok2 = tok)
  /\ (pause_quiet_core a x tok f i <->
        i_rae i = false
        /\ ~ (f = C.BuiltInFunctionESDTUnPause /\ argn i 0 = tok)
        /\ ~ (f = C.BuiltInFunctionESDTWipe /\ ((a = i_rcpt i /\ x = argn i 0) \/ (i_rcpt i = SYS /\ argn i 0 = tok)))
        /\ ~ ((f = C.BuiltInFunctionESDTPause \/ f = C.BuiltInFunctionESDTUnPause) /\ a = SYS /\ x = argn i 0)
        /\ ~ ((f = C.BuiltInFunctionESDTFreeze \/ f = C.BuiltInFunctionESDTUnFreeze) /\ i_rcpt i = SYS /\ argn i 0 = tok))
  /\ (pause_quiet a x tok f i <-> pause_quiet_core a x tok f i /\ alias_free x tok f i)
  /\ (pause_quiet_all x tok f i <->
        i_rae i = false
        /\ ~ (f = C.BuiltInFunctionESDTUnPause /\ argn i 0 = tok)
        /\ ~ (f = C.BuiltInFunctionESDTWipe /\ (argn i 0 = x \/ argn i 0 = tok))
        /\ ~ ((f = C.BuiltInFunctionESDTPause \/ f = C.BuiltInFunctionESDTUnPause) /\ argn i 0 = x)
        /\ ~ ((f = C.BuiltInFunctionESDTFreeze \/ f = C.BuiltInFunctionESDTUnFreeze) /\ i_rcpt i = SYS /\ argn i 0 = tok)
        /\ alias_free x tok f i).
Proof. intros. split; [reflexivity|]. split; [reflexivity|]. split; reflexivity. Qed.
Example C04w_freeze_quiet_unfolded : forall (E : env) a x s f i,
  freeze_quiet E a x s f i <->
    i_rae i = false
    /\ lookups_consistent E f i s
    /\ ~ ((f = C.BuiltInFunctionESDTUnFreeze \/ f = C.BuiltInFunctionESDTWipe) /\ a = i_rcpt i /\ x = argn i 0)
    /\ ~ ((f = C.BuiltInFunctionESDTPause \/ f = C.BuiltInFunctionESDTUnPause) /\ a = SYS /\ x = argn i 0)
    /\ ~ (f = C.BuiltInFunctionESDTNFTCreate /\ a = i_caller i /\ x = argn i 0 ++ u64_bytes (create_nonce i s)).
Proof. intros. reflexivity. Qed.
Example C04w_along_unfolded : forall (c : wcfg) (Q : mstate -> bytes -> input -> Prop) sh w op r,
  (step_sat c Q sh w op <->
     forall fn i o s', op_exec c w op = Some (sh, fn, i) -> exec (env_at c sh) fn i (wst w sh) = (Ok o, s') -> Q (wst w sh) fn i)
  /\ (along c Q sh w [] <-> True)
  /\ (along c Q sh w (op :: r) <-> step_sat c Q sh w op /\ along c Q sh (wstep c w op) r).
Proof. intros. split; [reflexivity|]. split; reflexivity. Qed.
(* the boolean deciders are sound *)
Theorem C04w_deciders_sound : forall (c : wcfg) (Q : mstate -> bytes -> input -> Prop) Qb sh,
  (forall s fn i, Qb s fn i = true -> Q s fn i) ->
  (forall ops w, along_b c Qb sh w ops = true -> along c Q sh w ops)
  /\ (forall a x tok f i, pause_quiet_b a x tok f i = true -> pause_quiet a x tok f i)
  /\ (forall x tok f i, pause_quiet_all_b x tok f i = true -> pause_quiet_all x tok f i)
  /\ (forall E a x s f i, freeze_quiet_b E a x s f i = true -> freeze_quiet E a x s f i).
Proof.
  intros c Q Qb sh H. split; [exact (along_b_ok c Q Qb sh H)|]. split; [exact pause_quiet_b_ok|].
  split; [exact pause_quiet_all_b_ok|exact freeze_quiet_b_ok].
Qed.
Theorem C04w_pause_quiet_all_each : forall x tok f i, pause_quiet_all x tok f i -> forall a, pause_quiet a x tok f i.
Proof. exact pause_quiet_all_each. Qed.
(* among identifiers of the protocol's shape (ticker '-' 6 bytes) no aliasing *)
Theorem C04w_valid_ids_alias_free : forall tok r f i,
  valid_id tok -> Forall valid_id (named_tokens f i) -> alias_free (tok ++ r) tok f i.
Proof. exact valid_ids_alias_free. Qed.

(* ================================================================ *)
(* exec level: what keeps a paused token paused / a frozen entry frozen *)
(* ================================================================ *)
Theorem C04w_paused_interval_exec : forall (E : env), codec_ok (cdc E) -> forall f i s o s' a tok r,
  exec E f i s = (Ok o, s') -> a <> SC -> paused_at s (P ++ tok) = true ->
  pause_quiet a (tok ++ r) tok f i ->
  paused_at s' (P ++ tok) = true /\ balance E s' a (P ++ tok ++ r) = balance E s a (P ++ tok ++ r).
Proof. exact paused_interval_exec. Qed.
Theorem C04w_frozen_interval_exec : forall (E : env), codec_ok (cdc E) -> forall f i s o s' a x,
  exec E f i s = (Ok o, s') -> a <> SC -> frozen_at E s a (P ++ x) = true ->
  freeze_quiet E a x s f i ->
  frozen_at E s' a (P ++ x) = true /\ balance E s' a (P ++ x) = balance E s a (P ++ x).
Proof. exact frozen_interval_exec. Qed.

(* ================================================================ *)
(* one step of the node model                                         *)
(* ================================================================ *)
(* a step leaves the accounts of shard sh alone, or commits the post-state of the ONE call it executes there *)
Theorem C04w_wstep_exec_cases : forall (c : wcfg) w op sh,
  shard_accts (wstep c w op) sh = shard_accts w sh
  \/ exists fn i o s', op_exec c w op = Some (sh, fn, i)
       /\ exec (env_at c sh) fn i (wst w sh) = (Ok o, s')
       /\ shard_accts (wstep c w op) sh = accts s'.
Proof. exact wstep_exec_cases. Qed.

(* PAUSED: if every identifier the executed call names that is a prefix of x is paused on the executing shard, no
   account's balance under P ++ x changes on any shard -- calls, deliveries, re-deliveries, refunds *)
Theorem C04w_wstep_paused_no_balance_change : forall (c : wcfg), codec_ok (wc_cdc c) -> forall w op a x,
  a <> SC ->
  (forall sh fn i o s', op_exec c w op = Some (sh, fn, i) -> exec (env_at c sh) fn i (wst w sh) = (Ok o, s') ->
     i_rae i = false
     /\ ~ (fn = C.BuiltInFunctionESDTWipe /\ a = i_rcpt i /\ x = argn i 0)
     /\ ~ ((fn = C.BuiltInFunctionESDTPause \/ fn = C.BuiltInFunctionESDTUnPause) /\ a = SYS /\ x = argn i 0)
     /\ all_paused (named_tokens fn i) (wst w sh) x) ->
  forall sh, shbal c (wstep c w op) sh a (P ++ x) = shbal c w sh a (P ++ x).
Proof. exact wstep_paused_no_balance_change. Qed.
Theorem C04w_wstep_paused_entry_untouched : forall (c : wcfg), codec_ok (wc_cdc c) -> forall w op a x,
  a <> SC ->
  (forall sh fn i o s', op_exec c w op = Some (sh, fn, i) -> exec (env_at c sh) fn i (wst w sh) = (Ok o, s') ->
     i_rae i = false
     /\ fn <> C.BuiltInFunctionESDTFreeze /\ fn <> C.BuiltInFunctionESDTUnFreeze
     /\ ~ (fn = C.BuiltInFunctionESDTWipe /\ a = i_rcpt i /\ x = argn i 0)
     /\ ~ ((fn = C.BuiltInFunctionESDTPause \/ fn = C.BuiltInFunctionESDTUnPause) /\ a = SYS /\ x = argn i 0)
     /\ all_paused (named_tokens fn i) (wst w sh) x) ->
  forall sh, shcell (wstep c w op) sh a (P ++ x) = shcell w sh a (P ++ x).
Proof. exact wstep_paused_entry_untouched. Qed.
(* a step whose call names only tokens that are paused on the executing shard changes no token balance anywhere *)
Theorem C04w_wstep_paused_call_changes_nothing : forall (c : wcfg), codec_ok (wc_cdc c) -> forall w op,
  (forall sh fn i o s', op_exec c w op = Some (sh, fn, i) -> exec (env_at c sh) fn i (wst w sh) = (Ok o, s') ->
     i_rae i = false /\ fn <> C.BuiltInFunctionESDTWipe
     /\ fn <> C.BuiltInFunctionESDTPause /\ fn <> C.BuiltInFunctionESDTUnPause
     /\ forall tok, In tok (named_tokens fn i) -> paused_at (wst w sh) (P ++ tok) = true) ->
  forall sh a x, a <> SC -> shbal c (wstep c w op) sh a (P ++ x) = shbal c w sh a (P ++ x).
Proof. exact wstep_paused_call_changes_nothing. Qed.
(* deliveries and re-deliveries: the executed input is never flagged return-after-error *)
Theorem C04w_wstep_paused_delivery : forall (c : wcfg), codec_ok (wc_cdc c) -> forall w id gas (re : bool) a x,
  a <> SC ->
  (forall m, find_msg (inflight w) id = Some m ->
     let sh := wc_shard_of c (m_dest m) in
     let i := deliver_input c m sh gas in
     ~ (m_fn m = C.BuiltInFunctionESDTWipe /\ a = m_dest m /\ x = argn i 0)
     /\ ~ ((m_fn m = C.BuiltInFunctionESDTPause \/ m_fn m = C.BuiltInFunctionESDTUnPause) /\ a = SYS /\ x = argn i 0)
     /\ all_paused (named_tokens (m_fn m) i) (wst w sh) x) ->
  forall sh, shbal c (wstep c w (if re then ORedeliver id gas else ODeliver id gas)) sh a (P ++ x) = shbal c w sh a (P ++ x).
Proof. exact wstep_paused_delivery. Qed.

(* FROZEN: the entry frozen on its shard in the pre-state of the step *)
Theorem C04w_wstep_frozen_no_balance_change : forall (c : wcfg), codec_ok (wc_cdc c) -> forall w op sh a x,
  shfrozen c w sh a (P ++ x) = true -> a <> SC ->
  (forall fn i o s', op_exec c w op = Some (sh, fn, i) -> exec (env_at c sh) fn i (wst w sh) = (Ok o, s') ->
     i_rae i = false
     /\ lookups_consistent (env_at c sh) fn i (wst w sh)
     /\ ~ (fn = C.BuiltInFunctionESDTWipe /\ a = i_rcpt i /\ x = argn i 0)
     /\ ~ ((fn = C.BuiltInFunctionESDTPause \/ fn = C.BuiltInFunctionESDTUnPause) /\ a = SYS /\ x = argn i 0)
     /\ ~ (fn = C.BuiltInFunctionESDTNFTCreate /\ a = i_caller i
           /\ x = argn i 0 ++ u64_bytes (create_nonce i (wst w sh)))) ->
  shbal c (wstep c w op) sh a (P ++ x) = shbal c w sh a (P ++ x).
Proof. exact wstep_frozen_no_balance_change. Qed.
Theorem C04w_wstep_frozen_entry_untouched : forall (c : wcfg), codec_ok (wc_cdc c) -> forall w op sh a x,
  shfrozen c w sh a (P ++ x) = true -> a <> SC ->
  (forall fn i o s', op_exec c w op = Some (sh, fn, i) -> exec (env_at c sh) fn i (wst w sh) = (Ok o, s') ->
     i_rae i = false
     /\ lookups_consistent (env_at c sh) fn i (wst w sh)
     /\ fn <> C.BuiltInFunctionESDTFreeze /\ fn <> C.BuiltInFunctionESDTUnFreeze
     /\ ~ (fn = C.BuiltInFunctionESDTWipe /\ a = i_rcpt i /\ x = argn i 0)
     /\ ~ ((fn = C.BuiltInFunctionESDTPause \/ fn = C.BuiltInFunctionESDTUnPause) /\ a = SYS /\ x = argn i 0)
     /\ ~ (fn = C.BuiltInFunctionESDTNFTCreate /\ a = i_caller i
           /\ x = argn i 0 ++ u64_bytes (create_nonce i (wst w sh)))) ->
  shcell (wstep c w op) sh a (P ++ x) = shcell w sh a (P ++ x).
Proof. exact wstep_frozen_entry_untouched. Qed.

(* REFUNDS run with the flag: no gate.  For a transfer message (msg_ok, kept by C01's world invariant) and a shard
   without negative stored balances: [ran] says whether the refund was executed and committed; then the debited
   account gets back exactly what the message carries, under every key, and nothing else moves on any shard *)
Theorem C04w_wstep_refund_effect : forall (c : wcfg), codec_ok (wc_cdc c) -> forall w id gas m,
  find_msg (inflight w) id = Some m -> msg_ok c m -> accts_nonneg c (shard_accts w (wc_shard_of c (m_sender m))) ->
  exists ran : bool,
    (ran = true -> nat_in id (failed w) = true)
    /\ forall sh a k, shbal c (wstep c w (ORefund id gas)) sh a k =
         (shbal c w sh a k
          + (if (ran && (sh =? wc_shard_of c (m_sender m))%N && beqb a (m_sender m))%bool then qty c k m else 0))%Z.
Proof. exact wstep_refund_effect. Qed.

(* ================================================================ *)
(* histories                                                          *)
(* ================================================================ *)
Theorem C04w_wrun_paused_interval : forall (c : wcfg), codec_ok (wc_cdc c) -> forall sh tok r a ops w,
  a <> SC -> shpaused w sh (P ++ tok) = true ->
  along c (fun _ => pause_quiet a (tok ++ r) tok) sh w ops ->
  shpaused (wrun c w ops) sh (P ++ tok) = true
  /\ shbal c (wrun c w ops) sh a (P ++ tok ++ r) = shbal c w sh a (P ++ tok ++ r).
Proof. exact wrun_paused_interval. Qed.
Theorem C04w_wrun_paused_interval_all : forall (c : wcfg), codec_ok (wc_cdc c) -> forall sh tok r ops w,
  shpaused w sh (P ++ tok) = true ->
  along c (fun _ => pause_quiet_all (tok ++ r) tok) sh w ops ->
  shpaused (wrun c w ops) sh (P ++ tok) = true
  /\ forall a, a <> SC -> shbal c (wrun c w ops) sh a (P ++ tok ++ r) = shbal c w sh a (P ++ tok ++ r).
Proof. exact wrun_paused_interval_all. Qed.
Theorem C04w_wrun_paused_interval_valid_ids : forall (c : wcfg), codec_ok (wc_cdc c) -> forall sh tok n a ops w,
  valid_id tok -> a <> SC -> shpaused w sh (P ++ tok) = true ->
  along c (fun _ fn i => pause_quiet_core a (tok ++ u64_bytes n) tok fn i /\ Forall valid_id (named_tokens fn i)) sh w ops ->
  shpaused (wrun c w ops) sh (P ++ tok) = true
  /\ shbal c (wrun c w ops) sh a (nft_key (P ++ tok) n) = shbal c w sh a (nft_key (P ++ tok) n).
Proof. exact wrun_paused_interval_valid_ids. Qed.
Theorem C04w_wrun_frozen_interval : forall (c : wcfg), codec_ok (wc_cdc c) -> forall sh a x ops w,
  a <> SC -> shfrozen c w sh a (P ++ x) = true ->
  along c (freeze_quiet (env_at c sh) a x) sh w ops ->
  shfrozen c (wrun c w ops) sh a (P ++ x) = true
  /\ shbal c (wrun c w ops) sh a (P ++ x) = shbal c w sh a (P ++ x).
Proof. exact wrun_frozen_interval. Qed.
(* pause ; quiet history ; unpause, as three pieces of one history of the node model *)
Theorem C04w_pause_interval_unpause : forall (c : wcfg), codec_ok (wc_cdc c) -> forall sh tok r a i1 i2 ops w,
  a <> SC -> ~ (a = SYS /\ r = []) ->
  (sh <? wc_nshards c)%N = true -> (N.to_nat sh < length (shards w))%nat ->
  let w1 := wstep c w (OCall sh C.BuiltInFunctionESDTPause i1) in
  let w2 := wrun c w1 ops in
  let w3 := wstep c w2 (OCall sh C.BuiltInFunctionESDTUnPause i2) in
  (exists o s', exec (env_at c sh) C.BuiltInFunctionESDTPause i1 (wst w sh) = (Ok o, s')) -> argn i1 0 = tok ->
  along c (fun _ => pause_quiet a (tok ++ r) tok) sh w1 ops ->
  (exists o s', exec (env_at c sh) C.BuiltInFunctionESDTUnPause i2 (wst w2 sh) = (Ok o, s')) -> argn i2 0 = tok ->
  shpaused w1 sh (P ++ tok) = true /\ shpaused w2 sh (P ++ tok) = true /\ shpaused w3 sh (P ++ tok) = false
  /\ shbal c w1 sh a (P ++ tok ++ r) = shbal c w sh a (P ++ tok ++ r)
  /\ shbal c w2 sh a (P ++ tok ++ r) = shbal c w sh a (P ++ tok ++ r)
  /\ shbal c w3 sh a (P ++ tok ++ r) = shbal c w sh a (P ++ tok ++ r).
Proof. exact pause_interval_unpause. Qed.

(* ================================================================ *)
(* non-vacuity: two shards, ideal_codec                               *)
(* ================================================================ *)
Example C04w_ex_history :
  codec_ok (wc_cdc c0) /\ h4_pause = OCall 1 C.BuiltInFunctionESDTPause (sysin4 SYS [tokA])
  /\ h4_mid =
     [ OCall 0 C.BuiltInFunctionESDTTransfer (mkin alice bob [tokA; u64_bytes 2] true false);
       ODeliver 0 100000;
       ORefund 0 100000;
       OCall 1 C.BuiltInFunctionESDTTransfer (mkin bob alice [tokA; u64_bytes 1] true false);
       OCall 1 C.BuiltInFunctionESDTTransfer (mkin bob dave [tokA; u64_bytes 1] true true);
       ORedeliver 0 100000;
       OCall 0 C.BuiltInFunctionESDTTransfer (mkin alice carol [tokA; u64_bytes 1] true true) ]
  /\ h4_unpause = OCall 1 C.BuiltInFunctionESDTUnPause (sysin4 SYS [tokA])
  /\ h4_after = [ OCall 1 C.BuiltInFunctionESDTTransfer (mkin bob alice [tokA; u64_bytes 1] true false); ODeliver 1 100000 ]
  /\ w4_1 = wstep c0 w0 h4_pause /\ w4_2 = wrun c0 w4_1 h4_mid /\ w4_3 = wstep c0 w4_2 h4_unpause
  /\ w4_4 = wrun c0 w4_3 h4_after
  /\ wc_cdc c0 = ideal_codec /\ wc_nshards c0 = 2%N
  /\ wc_shard_of c0 alice = 0%N /\ wc_shard_of c0 carol = 0%N /\ wc_shard_of c0 bob = 1%N /\ wc_shard_of c0 dave = 1%N
  /\ shbal c0 w0 0 alice (P ++ tokA) = 5%Z /\ shbal c0 w0 0 carol (P ++ tokA) = 2%Z /\ shbal c0 w0 1 bob (P ++ tokA) = 7%Z
  /\ kTok = P ++ tokA.
Proof. split; [exact c0_ok|]. repeat split; vm_compute; reflexivity. Qed.
Example C04w_ex_hypotheses :
  shpaused w4_1 1 (P ++ tokA) = true /\ shpaused w4_1 0 (P ++ tokA) = false
  /\ along_b c0 (fun _ => pause_quiet_all_b tokA tokA) 1 w4_1 h4_mid = true
  /\ along_b c0 (fun _ => pause_quiet_b bob (tokA ++ []) tokA) 1 w4_1 h4_mid = true
  /\ valid_id tokA.
Proof. exact ex4_hypotheses. Qed.
(* (alice, carol, bob, messages in flight, failed ids) after every step *)
Example C04w_ex_run :
  trace4 w4_1 h4_mid =
    [(3, 2, 7, 1%nat, []); (3, 2, 7, 1%nat, [0%nat]); (5, 2, 7, 0%nat, []); (5, 2, 7, 0%nat, []); (5, 2, 7, 0%nat, []);
     (5, 2, 7, 0%nat, []); (4, 3, 7, 0%nat, [])]%Z
  /\ status4 (wstep c0 w4_1 (nth 0 h4_mid h4_pause)) (ODeliver 0 100000) = Some (Err ETokenIsPaused)
  /\ status4 w4_1 (nth 3 h4_mid h4_pause) = Some (Err ETokenIsPaused)
  /\ status4 w4_1 (nth 4 h4_mid h4_pause) = Some (Err ETokenIsPaused)
  /\ status4 w4_2 h4_unpause = Some (Ok tt)
  /\ trace4 w4_3 h4_after = [(4, 3, 6, 1%nat, []); (5, 3, 6, 0%nat, [])]%Z
  /\ shpaused w4_2 1 (P ++ tokA) = true /\ shpaused w4_3 1 (P ++ tokA) = false.
Proof. exact ex4_run. Qed.
Example C04w_ex_interval :
  shpaused w4_2 1 (P ++ tokA) = true
  /\ forall a, a <> SC -> shbal c0 w4_2 1 a (P ++ tokA) = shbal c0 w4_1 1 a (P ++ tokA).
Proof. exact ex4_interval. Qed.
Example C04w_ex_pause_unpause :
  shbal c0 w4_3 1 bob (P ++ tokA) = shbal c0 w0 1 bob (P ++ tokA) /\ shbal c0 w0 1 bob (P ++ tokA) = 7%Z
  /\ shpaused w4_3 1 (P ++ tokA) = false.
Proof. exact ex4_pause_unpause. Qed.
(* the return-after-error exception is real at world level: a refund credits alice on a shard where TOK is paused, while
   an ordinary transfer there is refused; the history is (rightly) not quiet for that shard *)
Example C04w_ex_refund_bypasses_pause :
  h4_rae = [ OCall 0 C.BuiltInFunctionESDTTransfer (mkin alice bob [tokA; u64_bytes 2] true false);
             OCall 0 C.BuiltInFunctionESDTPause (sysin4 SYS [tokA]); ODeliver 0 100000 ]
  /\ w4_r = wrun c0 w4_1 h4_rae
  /\ shpaused w4_r 0 (P ++ tokA) = true /\ failed w4_r = [0%nat]
  /\ shbal c0 w4_r 0 alice (P ++ tokA) = 3%Z
  /\ shbal c0 (wstep c0 w4_r (ORefund 0 100000)) 0 alice (P ++ tokA) = 5%Z
  /\ shpaused (wstep c0 w4_r (ORefund 0 100000)) 0 (P ++ tokA) = true
  /\ along_b c0 (fun _ => pause_quiet_b alice (tokA ++ []) tokA) 0 w4_r [ORefund 0 100000] = false
  /\ status4 w4_r (OCall 0 C.BuiltInFunctionESDTTransfer (mkin alice carol [tokA; u64_bytes 1] true true)) = Some (Err ETokenIsPaused).
Proof. split; [reflexivity|]. split; [reflexivity|]. exact ex4_refund_bypasses_pause. Qed.
Example C04w_ex_refund_effect : exists m,
  find_msg (inflight w4_r) 0 = Some m /\ msg_ok c0 m /\ accts_nonneg c0 (shard_accts w4_r (wc_shard_of c0 (m_sender m)))
  /\ m_sender m = alice /\ qty c0 (P ++ tokA) m = 2%Z.
Proof. exact ex4_refund_effect. Qed.

Print Assumptions C04w_observables_unfolded.
Print Assumptions C04w_op_exec_unfolded.
Print Assumptions C04w_pause_quiet_unfolded.
Print Assumptions C04w_freeze_quiet_unfolded.
Print Assumptions C04w_along_unfolded.
Print Assumptions C04w_deciders_sound.
Print Assumptions C04w_pause_quiet_all_each.
Print Assumptions C04w_valid_ids_alias_free.
Print Assumptions C04w_paused_interval_exec.
Print Assumptions C04w_frozen_interval_exec.
Print Assumptions C04w_wstep_exec_cases.
Print Assumptions C04w_wstep_paused_no_balance_change.
Print Assumptions C04w_wstep_paused_entry_untouched.
Print Assumptions C04w_wstep_paused_call_changes_nothing.
Print Assumptions C04w_wstep_paused_delivery.
Print Assumptions C04w_wstep_frozen_no_balance_change.
Print Assumptions C04w_wstep_frozen_entry_untouched.
Print Assumptions C04w_wstep_refund_effect.
Print Assumptions C04w_wrun_paused_interval.
Print Assumptions C04w_wrun_paused_interval_all.
Print Assumptions C04w_wrun_paused_interval_valid_ids.
Print Assumptions C04w_wrun_frozen_interval.
Print Assumptions C04w_pause_interval_unpause.
Print Assumptions C04w_ex_history.
Print Assumptions C04w_ex_hypotheses.
Print Assumptions C04w_ex_run.
Print Assumptions C04w_ex_interval.
Print Assumptions C04w_ex_pause_unpause.
Print Assumptions C04w_ex_refund_bypasses_pause.
Print Assumptions C04w_ex_refund_effect.
