(* Property C02, extension: ---- supply accounting over honest histories WITHOUT the create-freshness hypothesis ----
   Only statements, each closed by [exact] of a lemma of LedgerProofs/Capstone_Fresh.v; pins; non-vacuity; assumptions.

   Reading guide (vocabulary of Properties/C02_capstone.v / C07_capstone.v -- honest_op, user_call, system_call, JInv,
   creator_ok, granted_after, honest_ops7, supply_sum, total -- used unchanged).
   * Properties/C02_capstone.v proves the accounting equation for histories of [honest_op], which asks of every user's
     ESDTNFTCreate the STATE condition [create_fresh]: the caller holds nothing under the nonce counter + 1 about to be
     issued (otherwise the create overwrites the entry: F4c / F5).  Here that clause is removed:
     [honest_op'] = honest_op without it (C02f_vocabulary), [honest_ops7' G w ops] = honest_op' and C07's [creator_ok]
     (the system contract sets a token's create role at most once, never unsets it, hands it over only from the holder;
     creates below 2^64 - 1) at every step.
   * The additional invariant [FInv G w] (C02f_FInv_unfolded): for every token identifier there is a list L of nonces
     with C07's CInv (at most one holder of the create role; its counter, or the counter carried by the hand-over message
     in flight, is >= every element of L) and C08's provenance invariant MInv for "the nonce is in L" (every stored
     entry and every in-flight NFT payload of the token has its nonce in L).  The empty world satisfies it.
     C02f_stored_nonce_le_counter: every stored nonce <= the holder's counter.
   * C02f_holder_create_fresh: under FInv the HOLDER of the create role is fresh -- create_fresh is a theorem.
     C02f_honest_step: one honest_op' obeying creator_ok keeps JInv and FInv and moves every protocol-key total by the
     stated supply change (a create that succeeds is made by the holder; a create that fails changes nothing).
     C02f_histories, C02f_supply_accounting (+ _nonneg), C02f_wellformed (+ _from), C02f_conservation_from, C02f_no_panic: the capstone
     theorems for honest_ops7', from the EMPTY world resp. from any JInv /\ FInv world.
   * The literal implication honest_ops7' -> honest_ops7 is FALSE (C02f_literal_implication_refuted): honest_op asks
     freshness also of a create that is REFUSED because the caller does not hold the role, and an account with counter 0
     that received NFT #1 is not fresh.  C02f_honest7'_implies_honest7_partial is the exact relation: honest_ops7' plus
     freshness of the creates of NON-holders is honest_ops7 (and conversely, C02f_honest7_implies_honest7',
     C02f_honest7_nonholder_fresh).  The primed theorems need no such hypothesis.
   * NOT covered: what creator_ok excludes (a second grant or an unset of the create role by the system contract, counter
     wrap), re-delivery (F9), F4b identifiers, pause over a system-account holding (F8: still the hypothesis pause_clear). *)
From Coq.Strings Require Import String.
From Coq Require Import List Sorted.
From EV Require Import Base.Bytes Base.Store Base.Monad gen.Consts Codec.Types Codec.Proto Codec.Ideal Codec.CodecOk
  Helpers.Helpers Ledger.Types Ledger.Env Ledger.Funcs Ledger.Transfers Ledger.World
  LedgerProofs.Defs LedgerProofs.EnvSpec LedgerProofs.WorldDefs LedgerProofs.WorldSpec
  LedgerProofs.Spec_Transfers_Base LedgerProofs.Spec_Transfers_Multi LedgerProofs.Spec_Supply
  LedgerProofs.C01_World LedgerProofs.C01_Step LedgerProofs.C01_Consistent
  LedgerProofs.C02_Effects LedgerProofs.C02_NonNeg LedgerProofs.C02_World LedgerProofs.C05_Footprint
  LedgerProofs.C07_Exec LedgerProofs.C07_World
  LedgerProofs.C15_Inv LedgerProofs.C15_World LedgerProofs.NoPanic LedgerProofs.NoPanicWorldEmit LedgerProofs.NoPanicWorld
  LedgerProofs.Supply_Base LedgerProofs.Supply_Calls LedgerProofs.Supply_Step
  LedgerProofs.ValidIds_Id LedgerProofs.ValidIds_Inv LedgerProofs.ValidIds_World
  LedgerProofs.C08w_Inv LedgerProofs.C08w_World
  LedgerProofs.Capstone_Defs LedgerProofs.Capstone_Step LedgerProofs.Capstone_Histories LedgerProofs.Capstone_Check
  LedgerProofs.Capstone_Examples LedgerProofs.Capstone_Decide LedgerProofs.Capstone_Fresh.
Import ListNotations.

(* ================================================================ *)
(* pins                                                               *)
(* ================================================================ *)
Example C02f_vocabulary : forall (c : wcfg) (G : list bytes) (w : world) (op : wop) (r : list wop) (sh : N) (fn : bytes) (i : input) id gas,
  (honest_op' c w (OCall sh fn i) <-> (alen (i_args i) < 2 ^ 40)%N /\ (user_call' c sh fn i \/ system_call c w sh fn i))
  /\ (honest_op' c w (ODeliver id gas) <-> True) /\ (honest_op' c w (ORefund id gas) <-> True)
  /\ (honest_op' c w (ORedeliver id gas) <-> False)
  (* the user transaction of Capstone_Defs WITHOUT its fourth clause *)
  /\ (user_call' c sh fn i <->
        (wc_shard_of c (i_caller i) = sh /\ i_snd i = (wc_shard_of c (i_caller i) =? sh)%N
         /\ i_dst i = (wc_shard_of c (i_rcpt i) =? sh)%N)
        /\ i_caller i <> SC
        /\ (Forall valid_id (named_tokens fn i)
            /\ (fn = C.BuiltInFunctionMultiESDTNFTTransfer -> Forall (fun x => valid_id (rt_tok x)) (multi_snd_triples i))))
  /\ (user_call c w sh fn i <->
        (wc_shard_of c (i_caller i) = sh /\ i_snd i = (wc_shard_of c (i_caller i) =? sh)%N
         /\ i_dst i = (wc_shard_of c (i_rcpt i) =? sh)%N)
        /\ i_caller i <> SC
        /\ (Forall valid_id (named_tokens fn i)
            /\ (fn = C.BuiltInFunctionMultiESDTNFTTransfer -> Forall (fun x => valid_id (rt_tok x)) (multi_snd_triples i)))
        /\ (fn = C.BuiltInFunctionESDTNFTCreate -> create_fresh c w sh i))
  /\ (create_fresh c w sh i <->
        balance (env_at c sh) (mk_state (shard_accts w sh)) (i_caller i)
                (nft_key (P ++ argn i 0) (create_nonce i (mk_state (shard_accts w sh)))) = 0%Z)
  /\ create_nonce i (mk_state (shard_accts w sh)) = u64 (counter_at (mk_state (shard_accts w sh)) (i_caller i) (argn i 0) + 1)
  /\ (honest_ops7' c G w [] <-> True)
  /\ (honest_ops7' c G w (op :: r) <->
        honest_op' c w op /\ creator_ok c G w op /\ honest_ops7' c (granted_after G op) (wstep c w op) r)
  /\ (honest_ops7 c G w (op :: r) <->
        honest_op c w op /\ creator_ok c G w op /\ honest_ops7 c (granted_after G op) (wstep c w op) r).
Proof. intros. repeat (split; [reflexivity|]). reflexivity. Qed.

(* the additional invariant *)
Example C02f_FInv_unfolded : forall (c : wcfg) (G : list bytes) (w : world) (Lf : bytes -> list N) (tok : bytes) (n : N) (m : metadata),
  (FInv c G w <->
     exists Lf : bytes -> list N,
       (forall tok, CInv c tok (bytes_in tok G) w (Lf tok)) /\ MInv c (nonce_rec Lf) w)
  /\ (nonce_rec Lf tok n m <-> In n (Lf tok))
  /\ (MInv c (nonce_rec Lf) w <->
        (forall sh, C08w_Inv.PInv (nonce_rec Lf) (env_at c sh) (mk_state (shard_accts w sh)))
        /\ Forall (msg_good c (nonce_rec Lf)) (inflight w)).
Proof. intros. repeat (split; [reflexivity|]). reflexivity. Qed.

(* ================================================================ *)
(* the theorems                                                       *)
(* ================================================================ *)
(* the empty world satisfies the invariant, for any ghost list *)
Theorem C02f_FInv_empty : forall (c : wcfg) (G : list bytes) (n : nat),
  (wc_nshards c <= N.of_nat n)%N -> FInv c G (C15_World.empty_world n).
Proof. exact FInv_empty. Qed.

(* what the invariant says about stored entries: the nonce of every stored NFT entry of a valid identifier is at most
   the counter of whoever holds the create role *)
Theorem C02f_stored_nonce_le_counter : forall (c : wcfg) (G : list bytes) (w : world) (tok : bytes) (sh : N) (a : bytes)
    (n : N) (t : token) (m : metadata) (sh' : N) (a' : bytes),
  FInv c G w -> valid_id tok ->
  tok_at (env_at c sh) (mk_state (shard_accts w sh)) a (nft_key (P ++ tok) n) = Some t -> t_meta t = Some m ->
  has_role (env_at c sh') (mk_state (shard_accts w sh')) a' tok C.ESDTRoleNFTCreate = true ->
  (n <= counter_at (mk_state (shard_accts w sh')) a' tok)%N.
Proof.
  intros c G w tok sh a n t m sh' a' HF Hv Ht Hm Hr.
  exact (stored_nonce_le_counter c G w tok sh a n t m sh' a' HF Hv Ht Hm (proj2 (holder_has_role c w tok sh' a') Hr)).
Qed.

(* THE derivation: freshness of the holder of the create role (no hypothesis on operations at all) *)
Theorem C02f_holder_create_fresh : forall (c : wcfg) (G : list bytes) (w : world) (sh : N) (i : input),
  FInv c G w -> valid_id (argn i 0) ->
  has_role (env_at c sh) (mk_state (shard_accts w sh)) (i_caller i) (argn i 0) C.ESDTRoleNFTCreate = true ->
  (counter_at (mk_state (shard_accts w sh)) (i_caller i) (argn i 0) + 1 < two64)%N ->
  balance (env_at c sh) (mk_state (shard_accts w sh)) (i_caller i)
          (nft_key (P ++ argn i 0) (create_nonce i (mk_state (shard_accts w sh)))) = 0%Z.
Proof. exact holder_create_fresh. Qed.
(* ... at an ESDTNFTCreate of the histories: the removed clause holds whenever the caller holds the role *)
Theorem C02f_create_fresh_derived : forall (c : wcfg) (G : list bytes) (w : world) (sh : N) (i : input),
  FInv c G w ->
  honest_op' c w (OCall sh C.BuiltInFunctionESDTNFTCreate i) -> creator_ok c G w (OCall sh C.BuiltInFunctionESDTNFTCreate i) ->
  has_role (env_at c sh) (mk_state (shard_accts w sh)) (i_caller i) (argn i 0) C.ESDTRoleNFTCreate = true ->
  create_fresh c w sh i.
Proof. exact create_fresh_derived. Qed.

(* one step *)
Theorem C02f_honest_step : forall (c : wcfg), codec_ok (wc_cdc c) -> flag_undec (wc_cdc c) ->
  forall (G : list bytes) (w : world) (op : wop),
  JInv c w -> FInv c G w -> honest_op' c w op -> creator_ok c G w op ->
  JInv c (wstep c w op) /\ FInv c (granted_after G op) (wstep c w op)
  /\ forall k, pkey k -> total c k (wstep c w op) = (total c k w + supply_delta c w op k)%Z.
Proof. exact honest_step'. Qed.

(* histories, from any world satisfying both invariants *)
Theorem C02f_histories : forall (c : wcfg), codec_ok (wc_cdc c) -> flag_undec (wc_cdc c) ->
  forall (ops : list wop) (G : list bytes) (w : world), JInv c w -> FInv c G w -> honest_ops7' c G w ops ->
  JInv c (wrun c w ops) /\ FInv c (fold_left granted_after ops G) (wrun c w ops)
  /\ forall k, pkey k -> total c k (wrun c w ops) = (total c k w + supply_sum c w ops k)%Z.
Proof. exact honest7'_histories. Qed.
Theorem C02f_conservation_from : forall (c : wcfg), codec_ok (wc_cdc c) -> flag_undec (wc_cdc c) ->
  forall (G : list bytes) (w : world) (ops : list wop) (k : bytes),
  JInv c w -> FInv c G w -> honest_ops7' c G w ops -> no_supply_ops c w ops -> pkey k ->
  total c k (wrun c w ops) = total c k w.
Proof. exact capstone_conservation'_from. Qed.
Theorem C02f_wellformed_from : forall (c : wcfg), codec_ok (wc_cdc c) -> flag_undec (wc_cdc c) ->
  forall (G : list bytes) (w : world) (ops : list wop) (n : nat) (sh : N),
  JInv c w -> FInv c G w -> honest_ops7' c G w ops ->
  let s := mk_state (shard_accts (wrun c w (firstn n ops)) sh) in
  Inv (env_at c sh) s /\ forall a x, (0 <= balance (env_at c sh) s a (P ++ x))%Z.
Proof. exact capstone_wellformed'_from. Qed.

(* histories from the EMPTY world: no hypothesis on any state *)
Theorem C02f_supply_accounting : forall (c : wcfg), codec_ok (wc_cdc c) -> flag_undec (wc_cdc c) ->
  forall (n : nat), (wc_nshards c <= N.of_nat n)%N -> forall (ops : list wop) (k : bytes),
  honest_ops7' c [] (C15_World.empty_world n) ops -> pkey k ->
  total c k (wrun c (C15_World.empty_world n) ops)
  = (total c k (C15_World.empty_world n) + supply_sum c (C15_World.empty_world n) ops k)%Z.
Proof. exact capstone_supply'. Qed.
Theorem C02f_supply_nonneg : forall (c : wcfg), codec_ok (wc_cdc c) -> flag_undec (wc_cdc c) ->
  forall (n : nat), (wc_nshards c <= N.of_nat n)%N -> forall (ops : list wop) (k : bytes),
  honest_ops7' c [] (C15_World.empty_world n) ops -> pkey k -> (0 <= total c k (wrun c (C15_World.empty_world n) ops))%Z.
Proof. exact capstone_supply_nonneg'. Qed.
Theorem C02f_wellformed : forall (c : wcfg), codec_ok (wc_cdc c) -> flag_undec (wc_cdc c) ->
  forall (n : nat), (wc_nshards c <= N.of_nat n)%N -> forall (ops : list wop) (k : nat) (sh : N),
  honest_ops7' c [] (C15_World.empty_world n) ops ->
  let s := mk_state (shard_accts (wrun c (C15_World.empty_world n) (firstn k ops)) sh) in
  Inv (env_at c sh) s /\ forall a x, (0 <= balance (env_at c sh) s a (P ++ x))%Z.
Proof. exact capstone_wellformed'. Qed.
Theorem C02f_no_panic : forall (c : wcfg), codec_ok (wc_cdc c) -> flag_undec (wc_cdc c) ->
  forall (n : nat), (wc_nshards c <= N.of_nat n)%N -> forall (ops : list wop),
  honest_ops7' c [] (C15_World.empty_world n) ops ->
  Forall (fun st => st <> Some SPanic) (statuses c (C15_World.empty_world n) ops)
  /\ Forall step_total (results c (C15_World.empty_world n) ops).
Proof. exact capstone_no_panic'. Qed.
(* the removed clause, as a theorem along the run: every ESDTNFTCreate of a role holder is fresh *)
Theorem C02f_create_fresh_along : forall (c : wcfg), codec_ok (wc_cdc c) -> flag_undec (wc_cdc c) ->
  forall (n : nat), (wc_nshards c <= N.of_nat n)%N -> forall (ops : list wop) (sh : N) (i : input),
  honest_ops7' c [] (C15_World.empty_world n) (ops ++ [OCall sh C.BuiltInFunctionESDTNFTCreate i]) ->
  let w := wrun c (C15_World.empty_world n) ops in
  has_role (env_at c sh) (mk_state (shard_accts w sh)) (i_caller i) (argn i 0) C.ESDTRoleNFTCreate = true ->
  create_fresh c w sh i.
Proof. exact capstone_create_fresh'. Qed.

(* ---------------- the relation to honest_ops7 ---------------- *)
Theorem C02f_honest7_implies_honest7' : forall (c : wcfg) (ops : list wop) (G : list bytes) (w : world),
  honest_ops7 c G w ops -> honest_ops7' c G w ops.
Proof. exact honest7_implies_honest7'. Qed.
(* FULL statement (false, see C02f_literal_implication_refuted):
     JInv c w -> FInv c G w -> honest_ops7' c G w ops -> honest_ops7 c G w ops.
   Proved: the same with freshness of the creates of NON-holders of the create role (calls that are refused) *)
Example C02f_nonholder_fresh_unfolded : forall (c : wcfg) (w : world) (op : wop) (r : list wop) sh fn i id gas,
  (nonholder_fresh c w [] <-> True)
  /\ (nonholder_fresh c w (op :: r) <-> nonholder_fresh_op c w op /\ nonholder_fresh c (wstep c w op) r)
  /\ (nonholder_fresh_op c w (OCall sh fn i) <->
        (fn = C.BuiltInFunctionESDTNFTCreate -> i_caller i <> SC ->
         has_role (env_at c sh) (mk_state (shard_accts w sh)) (i_caller i) (argn i 0) C.ESDTRoleNFTCreate = false ->
         create_fresh c w sh i))
  /\ (nonholder_fresh_op c w (ODeliver id gas) <-> True) /\ (nonholder_fresh_op c w (ORefund id gas) <-> True)
  /\ (nonholder_fresh_op c w (ORedeliver id gas) <-> True).
Proof. intros. repeat (split; [reflexivity|]). reflexivity. Qed.
Theorem C02f_honest7'_implies_honest7_partial : forall (c : wcfg), codec_ok (wc_cdc c) -> flag_undec (wc_cdc c) ->
  forall (ops : list wop) (G : list bytes) (w : world), JInv c w -> FInv c G w ->
  honest_ops7' c G w ops -> nonholder_fresh c w ops -> honest_ops7 c G w ops.
Proof. exact honest7'_implies_honest7_partial. Qed.
Theorem C02f_honest7_nonholder_fresh : forall (c : wcfg) (ops : list wop) (G : list bytes) (w : world),
  honest_ops7 c G w ops -> nonholder_fresh c w ops.
Proof. exact honest7_nonholder_fresh. Qed.

(* the hypothesis decided by computation, along the run *)
Theorem C02f_decider_sound : forall (c : wcfg) (ops : list wop) (G : list bytes) (w : world),
  honest_ops7'_b c G w ops = true -> honest_ops7' c G w ops.
Proof. exact honest_ops7'_b_ok. Qed.

(* ================================================================ *)
(* non-vacuity and the witness                                        *)
(* ================================================================ *)
(* two shards, ideal_codec, the EMPTY world (Capstone_Examples); alice, carol on shard 0 *)
Example C02f_example_start :
  wc_cdc kc = ideal_codec /\ wc_nshards kc = 2%N /\ kw0 = C15_World.empty_world 2
  /\ wc_shard_of kc k_alice = 0%N /\ wc_shard_of kc k_carol = 0%N
  /\ codec_ok (wc_cdc kc) /\ flag_undec (wc_cdc kc) /\ JInv kc kw0 /\ FInv kc [] kw0.
Proof.
  repeat (split; [reflexivity|]).
  exact (conj kc_ok (conj kc_flag (conj (proj1 honest7'_implies_honest7_refuted) (proj1 (proj2 honest7'_implies_honest7_refuted))))).
Qed.
(* the witness history: grant; alice creates NFT#1 (4 units); 2 units to carol; carol's create (REFUSED: no role; NOT
   fresh: counter 0, holds nonce 1); hand-over to carol; carol creates NFT#2 (fresh, although she holds NFT#1); alice's
   create (refused: role gone; not fresh: counter reset to 0, still holds NFT#1) *)
Example C02f_example_history :
  k_fresh =
  [ OCall 0 C.BuiltInFunctionSetESDTRole (k_in SC k_alice [k_nft; C.ESDTRoleNFTCreate; C.ESDTRoleNFTAddQuantity] false true);
    k_create 0 k_alice 4;
    OCall 0 C.BuiltInFunctionESDTNFTTransfer (k_in k_alice k_alice [k_nft; k_num 1; k_num 2; k_carol] true true);
    k_create 0 k_carol 1;
    OCall 0 C.BuiltInFunctionESDTNFTCreateRoleTransfer (k_in SC k_alice [k_nft; k_carol] false true);
    k_create 0 k_carol 1;
    k_create 0 k_alice 1 ]
  /\ (forall sh a q, k_create sh a q =
        OCall sh C.BuiltInFunctionESDTNFTCreate
          (k_in a a [k_nft; k_num q; str "name"%string; k_num 5; str "hash"%string; str "attr"%string; str "uri"%string] true true)).
Proof. split; reflexivity. Qed.
(* decided along the run: honest without the freshness clause; NOT honest with it; its first three operations are *)
Example C02f_example_checked :
  honest_ops7'_b kc [] kw0 k_fresh = true /\ honest_ops7_b kc [] kw0 k_fresh = false
  /\ honest_ops7_b kc [] kw0 (firstn 3 k_fresh) = true.
Proof. exact fresh_example_checked. Qed.
(* THE WITNESS against the literal implication (the negation is proved, not only computed by the sound decider) *)
Example C02f_literal_implication_refuted :
  JInv kc kw0 /\ FInv kc [] kw0 /\ honest_ops7' kc [] kw0 k_fresh /\ ~ honest_ops7 kc [] kw0 k_fresh.
Proof. exact honest7'_implies_honest7_refuted. Qed.
(* what happened: statuses; issued nonces; create_fresh evaluated before operations 1 (alice, holder), 3 (carol, no role),
   5 (carol, holder), 6 (alice, no role); carol's holding of NFT#1 and her counter when she creates NFT#2 *)
Example C02f_example_computed :
  statuses kc kw0 k_fresh = [Some SOk; Some SOk; Some SOk; Some SErr; Some SOk; Some SOk; Some SErr]
  /\ issued k_nft (snd (wrun_log kc kw0 k_fresh)) = [1; 2]%N
  /\ map (fun n => create_fresh_b kc (wrun kc kw0 (firstn n k_fresh)) 0
                     (k_in (if Nat.eqb n 1 || Nat.eqb n 6 then k_alice else k_carol)
                           (if Nat.eqb n 1 || Nat.eqb n 6 then k_alice else k_carol)
                           [k_nft; k_num 1] true true)) [1; 3; 5; 6]%nat = [true; false; true; false]
  /\ k_bal (wrun kc kw0 (firstn 5 k_fresh)) 0 k_carol k_kN1 = 2%Z
  /\ counter_at (sstate (wrun kc kw0 (firstn 5 k_fresh)) 0) k_carol k_nft = 1%N
  /\ counter_at (sstate (wrun kc kw0 (firstn 3 k_fresh)) 0) k_carol k_nft = 0%N
  /\ k_bal (wrun kc kw0 k_fresh) 0 k_carol k_kN2 = 1%Z.
Proof. exact fresh_example_computed. Qed.
(* the primed theorems on the witness (to which the unprimed ones do not apply): the accounting equation, both sides
   computed; well-formedness after every prefix; the derived freshness at carol's successful create *)
Example C02f_example_conclusions :
  (forall x, total kc (P ++ x) (wrun kc kw0 k_fresh) = (total kc (P ++ x) kw0 + supply_sum kc kw0 k_fresh (P ++ x))%Z)
  /\ (total kc k_kN1 (wrun kc kw0 k_fresh) = 4%Z /\ supply_sum kc kw0 k_fresh k_kN1 = 4%Z
      /\ total kc k_kN2 (wrun kc kw0 k_fresh) = 1%Z /\ supply_sum kc kw0 k_fresh k_kN2 = 1%Z)
  /\ (forall n sh, let s := sstate (wrun kc kw0 (firstn n k_fresh)) sh in
        Inv (env_at kc sh) s /\ forall a x, (0 <= balance (env_at kc sh) s a (P ++ x))%Z)
  /\ create_fresh kc (wrun kc kw0 (firstn 5 k_fresh)) 0
       (k_in k_carol k_carol [k_nft; k_num 1; str "name"%string; k_num 5; str "hash"%string; str "attr"%string; str "uri"%string] true true).
Proof.
  exact (conj fresh_example_supply (conj fresh_example_supply_computed (conj fresh_example_wellformed fresh_example_create_fresh))).
Qed.
(* the 34-operation history of C02_capstone.v, decided WITHOUT the freshness clause; the equation, well-formedness and
   the invariant at the end instantiated *)
Example C02f_history2 :
  honest_ops7'_b kc [] kw0 k_history2 = true /\ length k_history2 = 34%nat
  /\ (forall x, total kc (P ++ x) (wrun kc kw0 k_history2) = (total kc (P ++ x) kw0 + supply_sum kc kw0 k_history2 (P ++ x))%Z)
  /\ (forall n sh, let s := sstate (wrun kc kw0 (firstn n k_history2)) sh in
        Inv (env_at kc sh) s /\ forall a x, (0 <= balance (env_at kc sh) s a (P ++ x))%Z)
  /\ FInv kc (fold_left granted_after k_history2 []) (wrun kc kw0 k_history2).
Proof.
  exact (conj fresh_history2_checked (conj eq_refl (conj fresh_history2_supply (conj fresh_history2_wellformed fresh_history2_invariant)))).
Qed.

Print Assumptions C02f_vocabulary.
Print Assumptions C02f_FInv_unfolded.
Print Assumptions C02f_FInv_empty.
Print Assumptions C02f_stored_nonce_le_counter.
Print Assumptions C02f_holder_create_fresh.
Print Assumptions C02f_create_fresh_derived.
Print Assumptions C02f_honest_step.
Print Assumptions C02f_histories.
Print Assumptions C02f_conservation_from.
Print Assumptions C02f_wellformed_from.
Print Assumptions C02f_supply_accounting.
Print Assumptions C02f_supply_nonneg.
Print Assumptions C02f_wellformed.
Print Assumptions C02f_no_panic.
Print Assumptions C02f_create_fresh_along.
Print Assumptions C02f_honest7_implies_honest7'.
Print Assumptions C02f_nonholder_fresh_unfolded.
Print Assumptions C02f_honest7'_implies_honest7_partial.
Print Assumptions C02f_honest7_nonholder_fresh.
Print Assumptions C02f_decider_sound.
Print Assumptions C02f_example_start.
Print Assumptions C02f_example_history.
Print Assumptions C02f_example_checked.
Print Assumptions C02f_literal_implication_refuted.
Print Assumptions C02f_example_computed.
Print Assumptions C02f_example_conclusions.
Print Assumptions C02f_history2.
