(* Property C07, extension: ---- nonce uniqueness over honest histories WITHOUT the create-freshness hypothesis, and
   "stored nonce <= the holder's counter" ----
   Only statements, each closed by [exact] of a lemma of LedgerProofs/Capstone_Fresh.v; pins; non-vacuity; assumptions.

   Reading guide (vocabulary of Properties/C07.v and C07_capstone.v -- wrun_log, issued, init_ok, CInv, disciplined, nowrap,
   creator_ok, granted_after -- and of Properties/C02_fresh.v -- honest_op', honest_ops7', FInv, nonce_rec -- used unchanged).
   * Properties/C07_capstone.v derives C07's discipline from [honest_ops7], whose operations carry the state hypothesis
     [create_fresh] for every user's ESDTNFTCreate.  [honest_ops7'] drops that hypothesis (C07f_vocabulary).
   * What makes it derivable is C07's own invariant, strengthened by C08's provenance invariant: [FInv G w] = for every
     token identifier a list L of nonces such that CInv holds for L (single holder of the create role, whose counter --
     or the counter in the hand-over message in flight -- bounds L) and every stored entry / in-flight NFT payload of the
     token has its nonce in L.  C07f_stored_nonce_le_counter / C07f_stored_nonce_le_inflight: no entry of the token,
     on any shard, in any account, carries a nonce above the holder's counter resp. above the counter in flight; hence the
     cell under counter + 1 is empty in the holder's account (C07f_holder_create_fresh) -- although received entries of
     the same token may sit in it (C07f_example_computed: carol holds NFT#1 when she creates NFT#2).
   * C07f_honest7'_disciplined: an honest_ops7' history from a JInv /\ FInv world is C07-disciplined and wrap-free for every
     token; C07f_nonces_unique (from the EMPTY world) / _from: issued nonces pairwise distinct and strictly increasing;
     C07f_invariants_kept: JInv and FInv after every prefix.
   * NOT covered: as in C07_capstone.v (re-delivery F9; a system contract that grants twice or unsets; counter wrap). *)
From Coq.Strings Require Import String.
From Coq Require Import List Sorted.
From EV Require Import Base.Bytes Base.Store Base.Monad gen.Consts Codec.Types Codec.Proto Codec.Ideal Codec.CodecOk
  Helpers.Helpers Ledger.Types Ledger.Env Ledger.Funcs Ledger.Transfers Ledger.World
  LedgerProofs.Defs LedgerProofs.EnvSpec LedgerProofs.WorldDefs LedgerProofs.WorldSpec
  LedgerProofs.Spec_Transfers_Base LedgerProofs.Spec_Transfers_Multi LedgerProofs.Spec_Supply
  LedgerProofs.C01_World LedgerProofs.C01_Step LedgerProofs.C01_Consistent
  LedgerProofs.C02_Effects LedgerProofs.C02_NonNeg LedgerProofs.C02_World LedgerProofs.C05_Footprint
  LedgerProofs.C07_Exec LedgerProofs.C07_World
  LedgerProofs.C15_Inv LedgerProofs.C15_World LedgerProofs.NoPanic LedgerProofs.NoPanicWorldEmit LedgerProofs.NoPanicWorld
  LedgerProofs.Supply_Base LedgerProofs.Supply_Calls LedgerProofs.Supply_Step
  LedgerProofs.ValidIds_Id LedgerProofs.ValidIds_Inv LedgerProofs.ValidIds_World
  LedgerProofs.C08w_Inv LedgerProofs.C08w_World
  LedgerProofs.Capstone_Defs LedgerProofs.Capstone_Step LedgerProofs.Capstone_Histories LedgerProofs.Capstone_Check
  LedgerProofs.Capstone_Examples LedgerProofs.Capstone_Decide LedgerProofs.Capstone_Fresh.
Import ListNotations.

(* ================================================================ *)
(* pins                                                               *)
(* ================================================================ *)
Example C07f_vocabulary : forall (c : wcfg) (G : list bytes) (w : world) (op : wop) (r : list wop) (sh : N) (fn : bytes) (i : input)
    (Lf : bytes -> list N) (tok : bytes) (n : N) (m : metadata) (a : bytes),
  (honest_op' c w (OCall sh fn i) <-> (alen (i_args i) < 2 ^ 40)%N /\ (user_call' c sh fn i \/ system_call c w sh fn i))
  /\ (user_call' c sh fn i <-> origin_call c sh i /\ i_caller i <> SC /\ user_ids fn i)
  /\ (user_call c w sh fn i <->
        origin_call c sh i /\ i_caller i <> SC /\ user_ids fn i
        /\ (fn = C.BuiltInFunctionESDTNFTCreate -> create_fresh c w sh i))
  /\ (honest_ops7' c G w (op :: r) <->
        honest_op' c w op /\ creator_ok c G w op /\ honest_ops7' c (granted_after G op) (wstep c w op) r)
  /\ (FInv c G w <->
        exists Lf : bytes -> list N,
          (forall tok, CInv c tok (bytes_in tok G) w (Lf tok)) /\ MInv c (nonce_rec Lf) w)
  /\ (nonce_rec Lf tok n m <-> In n (Lf tok))
  /\ (holder c w tok sh a <-> (0 < cnt C.ESDTRoleNFTCreate (roles_at (env_at c sh) (mk_state (shard_accts w sh)) a tok))%nat)
  /\ wcounter w tok sh a = counter_at (mk_state (shard_accts w sh)) a tok.
Proof. intros. repeat (split; [reflexivity|]). reflexivity. Qed.

(* ================================================================ *)
(* the theorems                                                       *)
(* ================================================================ *)
Theorem C07f_FInv_empty : forall (c : wcfg) (G : list bytes) (n : nat),
  (wc_nshards c <= N.of_nat n)%N -> FInv c G (C15_World.empty_world n).
Proof. exact FInv_empty. Qed.

(* every stored NFT entry of a valid identifier, on any shard, in any account: its nonce is at most the counter of the
   holder of the create role ... *)
Theorem C07f_stored_nonce_le_counter : forall (c : wcfg) (G : list bytes) (w : world) (tok : bytes) (sh : N) (a : bytes)
    (n : N) (t : token) (m : metadata) (sh' : N) (a' : bytes),
  FInv c G w -> valid_id tok ->
  tok_at (env_at c sh) (mk_state (shard_accts w sh)) a (nft_key (P ++ tok) n) = Some t -> t_meta t = Some m ->
  holder c w tok sh' a' -> (n <= wcounter w tok sh' a')%N.
Proof. exact stored_nonce_le_counter. Qed.
(* ... and, while the role is in flight, at most the counter the hand-over message carries *)
Theorem C07f_stored_nonce_le_inflight : forall (c : wcfg) (G : list bytes) (w : world) (tok : bytes) (sh : N) (a : bytes)
    (n : N) (t : token) (m : metadata) (msg : msg),
  FInv c G w -> valid_id tok ->
  tok_at (env_at c sh) (mk_state (shard_accts w sh)) a (nft_key (P ++ tok) n) = Some t -> t_meta t = Some m ->
  In msg (inflight w) -> is_hmsg tok msg = true ->
  exists k, m_args msg = [tok; u64_bytes k] /\ (n <= k)%N.
Proof. exact stored_nonce_le_inflight. Qed.

(* hence the cell under the next nonce is empty in the holder's account: C02's freshness condition is a theorem *)
Theorem C07f_holder_create_fresh : forall (c : wcfg) (G : list bytes) (w : world) (sh : N) (i : input),
  FInv c G w -> valid_id (argn i 0) ->
  has_role (env_at c sh) (mk_state (shard_accts w sh)) (i_caller i) (argn i 0) C.ESDTRoleNFTCreate = true ->
  (counter_at (mk_state (shard_accts w sh)) (i_caller i) (argn i 0) + 1 < two64)%N ->
  create_fresh c w sh i.
Proof. exact holder_create_fresh. Qed.

(* the invariants are kept along honest_ops7' histories (after every prefix; the ghost list threaded) *)
Theorem C07f_invariants_kept : forall (c : wcfg), codec_ok (wc_cdc c) -> flag_undec (wc_cdc c) ->
  forall (G : list bytes) (w : world) (ops : list wop) (n : nat), JInv c w -> FInv c G w -> honest_ops7' c G w ops ->
  JInv c (wrun c w (firstn n ops)) /\ FInv c (fold_left granted_after (firstn n ops) G) (wrun c w (firstn n ops)).
Proof. exact capstone_invariant'_from. Qed.

(* C07's discipline and no-wrap, for EVERY token *)
Theorem C07f_honest7'_disciplined : forall (c : wcfg), codec_ok (wc_cdc c) -> flag_undec (wc_cdc c) ->
  forall (tok : bytes) (ops : list wop) (G : list bytes) (w : world), JInv c w -> FInv c G w -> honest_ops7' c G w ops ->
  C07_World.disciplined c tok (bytes_in tok G) w ops /\ nowrap c tok w ops.
Proof. exact honest7'_disciplined. Qed.

(* nonce uniqueness *)
Theorem C07f_nonces_unique_from : forall (c : wcfg), codec_ok (wc_cdc c) -> flag_undec (wc_cdc c) ->
  forall (tok : bytes) (w : world) (ops : list wop), JInv c w -> FInv c [] w -> init_ok c tok w -> honest_ops7' c [] w ops ->
  let L := issued tok (snd (wrun_log c w ops)) in NoDup L /\ StronglySorted N.lt L.
Proof. exact capstone_nonces_unique'_from. Qed.
Theorem C07f_nonces_unique : forall (c : wcfg), codec_ok (wc_cdc c) -> flag_undec (wc_cdc c) ->
  forall (n : nat), (wc_nshards c <= N.of_nat n)%N -> forall (tok : bytes) (ops : list wop),
  honest_ops7' c [] (C15_World.empty_world n) ops ->
  let L := issued tok (snd (wrun_log c (C15_World.empty_world n) ops)) in NoDup L /\ StronglySorted N.lt L.
Proof. exact capstone_nonces_unique'. Qed.

(* the relation to C07_capstone.v's class of histories *)
Theorem C07f_honest7_implies_honest7' : forall (c : wcfg) (ops : list wop) (G : list bytes) (w : world),
  honest_ops7 c G w ops -> honest_ops7' c G w ops.
Proof. exact honest7_implies_honest7'. Qed.
(* FULL statement (false: C07f_literal_implication_refuted):  JInv c w -> FInv c G w -> honest_ops7' c G w ops -> honest_ops7 c G w ops *)
Theorem C07f_honest7'_implies_honest7_partial : forall (c : wcfg), codec_ok (wc_cdc c) -> flag_undec (wc_cdc c) ->
  forall (ops : list wop) (G : list bytes) (w : world), JInv c w -> FInv c G w ->
  honest_ops7' c G w ops -> nonholder_fresh c w ops -> honest_ops7 c G w ops.
Proof. exact honest7'_implies_honest7_partial. Qed.

(* ================================================================ *)
(* non-vacuity and the witness                                        *)
(* ================================================================ *)
(* the 7-operation witness of Properties/C02_fresh.v (C02f_example_history): grant to alice; alice creates NFT#1; 2 units
   to carol; carol's refused create (not fresh); hand-over to carol; carol creates NFT#2; alice's refused create *)
Example C07f_example_checked :
  honest_ops7'_b kc [] kw0 k_fresh = true /\ honest_ops7_b kc [] kw0 k_fresh = false
  /\ honest_ops7_b kc [] kw0 (firstn 3 k_fresh) = true.
Proof. exact fresh_example_checked. Qed.
Example C07f_literal_implication_refuted :
  JInv kc kw0 /\ FInv kc [] kw0 /\ honest_ops7' kc [] kw0 k_fresh /\ ~ honest_ops7 kc [] kw0 k_fresh.
Proof. exact honest7'_implies_honest7_refuted. Qed.
Example C07f_example_nonces_unique : forall tok,
  let L := issued tok (snd (wrun_log kc kw0 k_fresh)) in NoDup L /\ StronglySorted N.lt L.
Proof. exact fresh_example_nonces_unique. Qed.
(* computed: statuses; the nonces issued (1 by alice, 2 by carol); freshness before the four creates; carol HOLDS 2 units
   of NFT#1 and has counter 1 when she creates NFT#2 under nonce 2 *)
Example C07f_example_computed :
  statuses kc kw0 k_fresh = [Some SOk; Some SOk; Some SOk; Some SErr; Some SOk; Some SOk; Some SErr]
  /\ issued k_nft (snd (wrun_log kc kw0 k_fresh)) = [1; 2]%N
  /\ map (fun n => create_fresh_b kc (wrun kc kw0 (firstn n k_fresh)) 0
                     (k_in (if Nat.eqb n 1 || Nat.eqb n 6 then k_alice else k_carol)
                           (if Nat.eqb n 1 || Nat.eqb n 6 then k_alice else k_carol)
                           [k_nft; k_num 1] true true)) [1; 3; 5; 6]%nat = [true; false; true; false]
  /\ k_bal (wrun kc kw0 (firstn 5 k_fresh)) 0 k_carol k_kN1 = 2%Z
  /\ counter_at (sstate (wrun kc kw0 (firstn 5 k_fresh)) 0) k_carol k_nft = 1%N
  /\ counter_at (sstate (wrun kc kw0 (firstn 3 k_fresh)) 0) k_carol k_nft = 0%N
  /\ k_bal (wrun kc kw0 k_fresh) 0 k_carol k_kN2 = 1%Z.
Proof. exact fresh_example_computed. Qed.
(* the 34-operation history of C07_capstone.v (cross-shard hand-over), decided without the freshness clause *)
Example C07f_history2 :
  honest_ops7'_b kc [] kw0 k_history2 = true
  /\ (forall tok, let L := issued tok (snd (wrun_log kc kw0 k_history2)) in NoDup L /\ StronglySorted N.lt L)
  /\ issued k_nft (snd (wrun_log kc kw0 k_history2)) = [1; 2]%N
  /\ FInv kc (fold_left granted_after k_history2 []) (wrun kc kw0 k_history2)
  /\ fold_left granted_after k_history2 [] = [k_nft].
Proof.
  destruct capstone2_final as (_ & _ & _ & _ & _ & _ & _ & H1 & _ & H3 & _).
  exact (conj fresh_history2_checked (conj fresh_history2_nonces_unique (conj H1 (conj fresh_history2_invariant H3)))).
Qed.

Print Assumptions C07f_vocabulary.
Print Assumptions C07f_FInv_empty.
Print Assumptions C07f_stored_nonce_le_counter.
Print Assumptions C07f_stored_nonce_le_inflight.
Print Assumptions C07f_holder_create_fresh.
Print Assumptions C07f_invariants_kept.
Print Assumptions C07f_honest7'_disciplined.
Print Assumptions C07f_nonces_unique_from.
Print Assumptions C07f_nonces_unique.
Print Assumptions C07f_honest7_implies_honest7'.
Print Assumptions C07f_honest7'_implies_honest7_partial.
Print Assumptions C07f_example_checked.
Print Assumptions C07f_literal_implication_refuted.
Print Assumptions C07f_example_nonces_unique.
Print Assumptions C07f_example_computed.
Print Assumptions C07f_history2.
