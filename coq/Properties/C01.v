(* Property C01 — transfers conserve tokens, on one shard and across shards.
   Only statements, each closed by [exact] of a lemma of LedgerProofs/C01_*.v (which build on the function
   specs LedgerProofs/Spec_Transfers*.v), pins, non-vacuity examples and their assumptions.

   Reading guide.
   * World model (Ledger/World.v): [c : wcfg] = codec, shard table [wc_shard_of], payability oracle, gas schedule,
     number of shards; a [world] = one account map per shard + the list of in-flight cross-shard messages + the ids
     of messages whose delivery was rejected.  [wstep c w op] executes ONE operation with rollback on error:
       OCall sh fn i    built-in [fn] with input [i] on shard [sh]; its output transfers addressed to another shard
                        (and a user's cross-shard ESDTTransfer itself) become in-flight messages ([collect]);
       ODeliver id gas  the destination side of message [id] on the shard of its destination; success removes the
                        message, failure marks it failed;
       ORefund id gas   return-after-error execution toward the debited account, only for a failed message.
     [wrun c w ops] folds [wstep].  The harness replays whole histories through [wrun] and the real code (Corr/World.v).
   * [total c k w] (WorldDefs.v), for ANY byte string k used as storage key: the sum over all shards and accounts of
     the decoded balance stored under k (0 if absent / undecodable / no Value) PLUS, over the in-flight messages, what
     their destination side will credit under k ([credits]: decoded from the message arguments exactly as the
     destination side does).
   * [transfer_op c op]: OCall of one of the three transfer functions where the caller lives on the executing shard and
     the account-presence flags follow the shard table ([origin_call]) — everything else about the input is ARBITRARY:
     any token-id bytes, nonce, quantity, destination, argument count, attached call, repeated tokens — or any ODeliver /
     ORefund (any id, known or not).  ORedeliver (C07's double delivery) is excluded.
   * [WInv c w], the world invariant (C01_world_invariant_unfolded): every shard id below wc_nshards exists; one account
     object per address; no stored balance is negative (save_nft clamps at 0: a negative stored Value would be
     "forgiven"); every in-flight message is [msg_ok]: a message of one of the three transfer functions whose caller
     and debited account live on another shard than its destination, which credits non-negative quantities and, F12,
     whose multi-transfer count fits 64 bits.  It holds of every world without in-flight messages whose balances are
     non-negative, and is PRESERVED by every step (C01_invariant_histories), so the messages the model itself emits
     are always [msg_ok]; the restriction only concerns messages put into the INITIAL world by hand.
   * KNOWN FINDING F4b ([consistent_along]): an NFT lookup  token id ‖ nonce  may hit the entry of ANOTHER (id, nonce)
     whose key is the same byte string ("ABC-12345"‖0x3644 = "ABC-123456"‖0x44); the entry is then re-saved under its
     METADATA nonce and tokens appear from nothing (C01_conservation_refuted_without_consistency: concrete world, the
     total of "ABC-12345"‖0x44 goes 0 -> 5).  The theorems therefore assume, for every OCall of the two NFT functions
     at the world reached so far, that the entries found by the sender-side lookups carry the requested nonce
     ([call_consistent_at]: [lookup_consistent] / [triples_consistent] of Spec_Transfers).  Decidable
     ([consistent_along_b]); implied by well-shaped identifiers (C01_valid_ids_call_consistent).
   * Codec: any [codec_ok] codec; the examples use [ideal_codec] (= the protobuf decoder on every Go-sized input). *)
From Coq.Strings Require Import String.
From EV Require Import Base.Bytes Base.Store Base.Monad gen.Consts Codec.Types Codec.Proto Codec.Ideal Codec.CodecOk
  Helpers.Helpers Ledger.Types Ledger.Env Ledger.Funcs Ledger.Transfers Ledger.World
  LedgerProofs.Defs LedgerProofs.EnvSpec LedgerProofs.WorldDefs LedgerProofs.WorldSpec
  LedgerProofs.Spec_Transfers_Base LedgerProofs.Spec_Transfers_Esdt LedgerProofs.Spec_Transfers_Nft
  LedgerProofs.Spec_Transfers_Multi LedgerProofs.Spec_Transfers
  LedgerProofs.C01_World LedgerProofs.C01_Step LedgerProofs.C01_Exact LedgerProofs.C01_Check
  LedgerProofs.C01_Consistent LedgerProofs.C01_Live LedgerProofs.C01_Examples.

(* ================================================================ *)
(* pins                                                               *)
(* ================================================================ *)
Example C01_pinned_constants :
  C.BuiltInFunctionESDTTransfer = str "ESDTTransfer"%string
  /\ C.BuiltInFunctionESDTNFTTransfer = str "ESDTNFTTransfer"%string
  /\ C.BuiltInFunctionMultiESDTNFTTransfer = str "MultiESDTNFTTransfer"%string
  /\ P = str "ELRONDesdt"%string
  /\ C.MinLenArgumentsESDTTransfer = 2%N /\ C.MinLenArgumentsESDTNFTTransfer = 4%N /\ C.bif_argumentsPerTransfer = 3%N
  /\ two64 = (2 ^ 64)%N.
Proof. repeat split. Qed.
(* the observables: storage key of a (token, nonce), balance, total *)
Example C01_observables_unfolded : forall (c : wcfg) (k : bytes) (w : world) (a : account) (tok : bytes) (n : N),
  nft_key (P ++ tok) n = P ++ tok ++ u64_bytes n
  /\ acct_balance c k a =
       match sget (a_store a) k with
       | [] => 0%Z
       | b => match dec_tok (wc_cdc c) b with Some t => match t_value t with Some v => v | None => 0%Z end | None => 0%Z end
       end
  /\ total c k w = (shards_total c k (shards w) + inflight_total c k (inflight w))%Z
  /\ qty c k = (fun m => qty_list k (credits c m)).
Proof. intros. split; [apply nft_key_app|]. repeat split. Qed.
(* what an in-flight message will credit: mirrors the destination side of the three functions *)
Example C01_credits_unfolded : forall (c : wcfg) (m : msg) tok v rest a1 a2 payload t q,
  (m_fn m = C.BuiltInFunctionESDTTransfer -> m_args m = tok :: v :: rest -> credits c m = [(P ++ tok, bigZ v)])
  /\ (m_fn m = C.BuiltInFunctionESDTNFTTransfer -> m_args m = tok :: a1 :: a2 :: payload :: rest ->
      dec_tok (wc_cdc c) payload = Some t -> t_value t = Some q -> credits c m = [(nft_key (P ++ tok) (tok_nonce t), q)]).
Proof.
  intros. split.
  - intros Hf Ha. unfold credits. rewrite Hf, Ha. reflexivity.
  - intros Hf Ha Hd Hv. unfold credits. rewrite Hf, Ha. cbn. unfold nft_credit. rewrite Hd, Hv. reflexivity.
Qed.
Example C01_operations_unfolded : forall (c : wcfg) sh fn i id gas,
  (transfer_op c (OCall sh fn i) <->
     is_transfer_fn fn = true /\ wc_shard_of c (i_caller i) = sh
     /\ i_snd i = (wc_shard_of c (i_caller i) =? sh)%N /\ i_dst i = (wc_shard_of c (i_rcpt i) =? sh)%N)
  /\ transfer_op c (ODeliver id gas) /\ transfer_op c (ORefund id gas) /\ ~ transfer_op c (ORedeliver id gas)
  /\ (is_transfer_fn fn = true <-> fn = C.BuiltInFunctionESDTTransfer \/ fn = C.BuiltInFunctionESDTNFTTransfer
                                   \/ fn = C.BuiltInFunctionMultiESDTNFTTransfer).
Proof.
  intros. split; [cbn [transfer_op]; unfold origin_call, presence_ok; tauto|]. split; [exact I|]. split; [exact I|].
  split; [intros H; exact H|]. split.
  - intros H. destruct (exec_transfer_cases (env_at c 0) fn i H) as [[? _]|[[? _]|[? _]]]; auto.
  - intros [-> | [-> | ->]]; reflexivity.
Qed.
Example C01_world_invariant_unfolded : forall (c : wcfg) (w : world) (m : msg),
  (WInv c w <->
     (wc_nshards c <= N.of_nat (length (shards w)))%N
     /\ (forall sh, NoDup (map fst (shard_accts w sh)))
     /\ (forall sh a k, (0 <= acct_balance c k (aget empty_account (shard_accts w sh) a))%Z)
     /\ Forall (msg_ok c) (inflight w))
  /\ (msg_ok c m <->
     is_transfer_fn (m_fn m) = true
     /\ wc_shard_of c (m_caller m) <> wc_shard_of c (m_dest m)
     /\ wc_shard_of c (m_sender m) <> wc_shard_of c (m_dest m)
     /\ Forall (fun kv => (0 <= snd kv)%Z) (credits c m)
     /\ (m_fn m = C.BuiltInFunctionMultiESDTNFTTransfer -> (be_to_N (nth 0 (m_args m) []) < two64)%N)).
Proof.
  intros. split; split.
  - intros [H1 H2 H3 H4]. repeat split; assumption.
  - intros (H1 & H2 & H3 & H4). constructor; assumption.
  - intros [H1 H2 H3 H4 H5]. repeat split; assumption.
  - intros (H1 & H2 & H3 & H4 & H5). constructor; assumption.
Qed.
Example C01_consistency_unfolded : forall (c : wcfg) (w : world) sh fn i ops id gas,
  (consistent_along c w [] <-> True)
  /\ (consistent_along c w (OCall sh fn i :: ops) <->
      ((fn = C.BuiltInFunctionESDTNFTTransfer ->
          forall t, tok_at (env_at c sh) (mk_state (shard_accts w sh)) (i_caller i) (nft_key (P ++ argn i 0) (bigU64 (argn i 1))) = Some t ->
                    tok_nonce t = bigU64 (argn i 1))
       /\ (fn = C.BuiltInFunctionMultiESDTNFTTransfer ->
          Forall (fun x => forall t, tok_at (env_at c sh) (mk_state (shard_accts w sh)) (i_caller i) (nft_key (P ++ rt_tok x) (rt_nonce x)) = Some t ->
                                     tok_nonce t = rt_nonce x) (multi_snd_triples i)))
      /\ consistent_along c (wstep c w (OCall sh fn i)) ops)
  /\ (consistent_along c w (ODeliver id gas :: ops) <-> consistent_along c (wstep c w (ODeliver id gas)) ops)
  /\ (consistent_along c w (ORefund id gas :: ops) <-> consistent_along c (wstep c w (ORefund id gas)) ops).
Proof.
  intros. cbn [consistent_along op_consistent].
  unfold call_consistent, call_consistent_at, triples_consistent, lookup_consistent, nft_tkey, nft_nonce. cbv zeta.
  split; [tauto|]. split; [split; intros H; exact H|]. split; tauto.
Qed.

(* ================================================================ *)
(* 1. the flagship: conservation over every history                    *)
(* ================================================================ *)
Theorem C01_conservation_histories : forall (c : wcfg) (Hc : codec_ok (wc_cdc c)) (w : world) (ops : list wop) (k : bytes),
  WInv c w -> Forall (transfer_op c) ops -> consistent_along c w ops ->
  total c k (wrun c w ops) = total c k w.
Proof. exact conservation_histories. Qed.

(* the invariant is preserved, so it holds of every world the history goes through *)
Theorem C01_invariant_histories : forall (c : wcfg) (Hc : codec_ok (wc_cdc c)) (w : world) (ops : list wop),
  WInv c w -> Forall (transfer_op c) ops -> consistent_along c w ops -> WInv c (wrun c w ops).
Proof. exact WInv_histories. Qed.

(* one step: invariant and every total *)
Theorem C01_conservation_step : forall (c : wcfg) (Hc : codec_ok (wc_cdc c)) (w : world) (op : wop),
  WInv c w -> transfer_op c op -> op_consistent c w op ->
  WInv c (wstep c w op) /\ forall k, total c k (wstep c w op) = total c k w.
Proof. exact conservation_step. Qed.

(* the same with every hypothesis decided by computation *)
Theorem C01_conservation_checked : forall (c : wcfg) (Hc : codec_ok (wc_cdc c)) (w : world) (ops : list wop) (k : bytes),
  winv_b c w = true -> forallb (transfer_op_b c) ops = true -> consistent_along_b c w ops = true ->
  total c k (wrun c w ops) = total c k w.
Proof. exact conservation_checked. Qed.

(* F4b: without the consistency hypothesis the step theorem is FALSE (same codec, invariant and class of operations) *)
Theorem C01_conservation_refuted_without_consistency :
  exists c w op k, codec_ok (wc_cdc c) /\ WInv c w /\ transfer_op c op /\ ~ op_consistent c w op
                   /\ total c k (wstep c w op) <> total c k w.
Proof. exact conservation_refuted_without_consistency. Qed.
Theorem C01_conservation_refuted_without_consistency_same_shard :
  exists c w op k, codec_ok (wc_cdc c) /\ WInv c w /\ transfer_op c op /\ inflight (wstep c w op) = []
                   /\ total c k (wstep c w op) <> total c k w.
Proof. exact conservation_refuted_without_consistency_same_shard. Qed.
(* the witness, written out: erin holds 5 of "ABC-123456"#0x44 and asks for 3 of "ABC-12345"#0x3644 *)
Example C01_F4b_witness :
  nft_key (P ++ idShort) (bigU64 [x36; x44]) = nft_key (P ++ idLong) 68
  /\ total c0 kF wF = 0%Z /\ total c0 kF (wstep c0 wF opF_same) = 5%Z /\ total c0 kF (wstep c0 wF opF_cross) = 5%Z
  /\ total c0 (nft_key (P ++ idLong) 68) (wstep c0 wF opF_cross) = 5%Z.
Proof. split; [exact ex_F4b_keys_coincide|exact ex_F4b_totals]. Qed.

(* a sufficient condition for the hypothesis: identifiers of the protocol's shape (ticker '-' 6 bytes) and a sender
   whose entries are keyed by such identifiers and by their own metadata nonce *)
Theorem C01_valid_ids_lookup_consistent : forall (E : env) s a tok n,
  valid_id tok -> keyed_by_own_nonce E s a -> lookup_consistent E s a (P ++ tok) n.
Proof. exact valid_ids_lookup_consistent. Qed.
Theorem C01_valid_ids_call_consistent : forall c m0 sh fn i,
  keyed_by_own_nonce (env_at c sh) (mk_state m0) (i_caller i) ->
  (fn = C.BuiltInFunctionESDTNFTTransfer -> valid_id (argn i 0)) ->
  (fn = C.BuiltInFunctionMultiESDTNFTTransfer -> Forall (fun x => valid_id (rt_tok x)) (multi_snd_triples i)) ->
  call_consistent_at c m0 sh fn i.
Proof. exact valid_ids_call_consistent. Qed.
Example C01_valid_id_unfolded : forall tok,
  valid_id tok <-> exists ticker rnd, tok = ticker ++ x2d :: rnd /\ ~ In x2d ticker /\ length rnd = 6%nat.
Proof. intros. reflexivity. Qed.

(* ================================================================ *)
(* 2. exactness of one execution (any env E with a codec_ok codec)     *)
(* ================================================================ *)
(* every cell, one equation per function and side (Spec_Transfers) *)
Theorem C01_balance_effect_esdt : forall (E : env), codec_ok (cdc E) -> forall i s o s',
  exec E C.BuiltInFunctionESDTTransfer i s = (Ok o, s') ->
  forall a k, balance E s' a k =
    (balance E s a k
     + (if (i_snd i && beqb a (i_caller i) && beqb k (P ++ argn i 0))%bool then - bigZ (argn i 1) else 0)
     + (if (i_dst i && beqb a (i_rcpt i) && beqb k (P ++ argn i 0))%bool then bigZ (argn i 1) else 0))%Z.
Proof.
  intros E Hc i s o s' H a k. rewrite exec_esdt_transfer in H.
  rewrite (transfer_balance_effect_esdt E Hc _ _ _ _ H). unfold esdt_delta, esdt_key, esdt_val. lia.
Qed.
Theorem C01_balance_effect_nft_sender : forall (E : env), codec_ok (cdc E) -> forall i s o s',
  exec E C.BuiltInFunctionESDTNFTTransfer i s = (Ok o, s') -> i_caller i = i_rcpt i ->
  lookup_consistent E s (i_caller i) (nft_tkey i) (nft_nonce i) ->
  (nft_same E i = true -> (0 <= balance E s (nft_dst i) (nft_cell i))%Z) ->
  forall a k, balance E s' a k = (balance E s a k + nft_snd_delta E i a k)%Z.
Proof. intros E Hc i s o s' H. rewrite exec_nft_transfer in H. exact (transfer_balance_effect_nft_sender E Hc i s o s' H). Qed.
Theorem C01_balance_effect_multi_sender : forall (E : env), codec_ok (cdc E) -> forall i s o s',
  exec E C.BuiltInFunctionMultiESDTNFTTransfer i s = (Ok o, s') -> i_caller i = i_rcpt i ->
  triples_consistent E s (i_caller i) (multi_snd_triples i) ->
  (multi_same E i = true -> nonneg_balances E s (multi_dst i)) ->
  forall a k, balance E s' a k =
    (balance E s a k + snd_delta (i_caller i) (multi_dst i) (multi_same E i) (multi_snd_triples i) a k)%Z.
Proof. intros E Hc i s o s' H. rewrite exec_multi_transfer in H. exact (transfer_balance_effect_multi_sender E Hc i s o s' H). Qed.
Example C01_deltas_unfolded : forall (E : env) i a k x r caller dst dl,
  nft_snd_delta E i a k =
    ((if (beqb a (i_caller i) && beqb k (nft_key (P ++ argn i 0) (bigU64 (argn i 1))))%bool then - bigZ (argn i 2) else 0)
     + (if (nft_same E i && beqb a (argn i 3) && beqb k (nft_key (P ++ argn i 0) (bigU64 (argn i 1))))%bool then bigZ (argn i 2) else 0))%Z
  /\ snd_delta caller dst dl (x :: r) a k =
    ((if (beqb a caller && beqb k (rt_cell x))%bool then - rt_qty x else 0)
     + (if (dl && beqb a dst && beqb k (rt_cell x))%bool then rt_qty x else 0) + snd_delta caller dst dl r a k)%Z
  /\ snd_delta caller dst dl [] a k = 0%Z
  /\ nft_same E i = (self_shard E =? shard_of E (argn i 3))%N /\ multi_same E i = (self_shard E =? shard_of E (argn i 0))%N.
Proof. intros. repeat split. Qed.

(* the sender loses exactly the requested quantity (and had it) *)
Theorem C01_sender_debits_exact_esdt : forall (E : env), codec_ok (cdc E) -> forall i s o s',
  exec E C.BuiltInFunctionESDTTransfer i s = (Ok o, s') -> i_snd i = true ->
  (0 < esdt_val i <= balance E s (i_caller i) (esdt_key i))%Z
  /\ balance E s' (i_caller i) (esdt_key i) =
     (balance E s (i_caller i) (esdt_key i) - esdt_val i
      + (if (i_dst i && beqb (i_caller i) (i_rcpt i))%bool then esdt_val i else 0))%Z.
Proof. exact sender_debits_exact_esdt. Qed.
Theorem C01_sender_debits_exact_nft : forall (E : env), codec_ok (cdc E) -> forall i s o s',
  exec E C.BuiltInFunctionESDTNFTTransfer i s = (Ok o, s') -> i_caller i = i_rcpt i ->
  lookup_consistent E s (i_caller i) (nft_tkey i) (nft_nonce i) ->
  (0 <= nft_qty i <= balance E s (i_caller i) (nft_cell i))%Z
  /\ balance E s' (i_caller i) (nft_cell i) = (balance E s (i_caller i) (nft_cell i) - nft_qty i)%Z.
Proof. exact sender_debits_exact_nft. Qed.
(* repeated tokens accumulate: the debit of cell k is the SUM of the quantities of the triples addressing k *)
Theorem C01_sender_debits_exact_multi : forall (E : env), codec_ok (cdc E) -> forall i s o s',
  exec E C.BuiltInFunctionMultiESDTNFTTransfer i s = (Ok o, s') -> i_caller i = i_rcpt i ->
  triples_consistent E s (i_caller i) (multi_snd_triples i) ->
  (multi_same E i = true -> nonneg_balances E s (multi_dst i)) ->
  forall k, (qty_list k (debit_list (multi_snd_triples i)) <= balance E s (i_caller i) k
             \/ qty_list k (debit_list (multi_snd_triples i)) = 0)%Z
            /\ balance E s' (i_caller i) k = (balance E s (i_caller i) k - qty_list k (debit_list (multi_snd_triples i)))%Z.
Proof. exact sender_debits_exact_multi. Qed.

(* a destination on the executing shard gains exactly that quantity, on top of what it held *)
Theorem C01_same_shard_credits_exact_esdt : forall (E : env), codec_ok (cdc E) -> forall i s o s',
  exec E C.BuiltInFunctionESDTTransfer i s = (Ok o, s') -> i_dst i = true ->
  balance E s' (i_rcpt i) (esdt_key i) =
    (balance E s (i_rcpt i) (esdt_key i) + esdt_val i
     - (if (i_snd i && beqb (i_rcpt i) (i_caller i))%bool then esdt_val i else 0))%Z.
Proof. exact same_shard_credits_exact_esdt. Qed.
Theorem C01_same_shard_credits_exact_nft : forall (E : env), codec_ok (cdc E) -> forall i s o s',
  exec E C.BuiltInFunctionESDTNFTTransfer i s = (Ok o, s') -> i_caller i = i_rcpt i -> nft_same E i = true ->
  lookup_consistent E s (i_caller i) (nft_tkey i) (nft_nonce i) ->
  (0 <= balance E s (nft_dst i) (nft_cell i))%Z ->
  balance E s' (nft_dst i) (nft_cell i) = (balance E s (nft_dst i) (nft_cell i) + nft_qty i)%Z.
Proof. exact same_shard_credits_exact_nft. Qed.
Theorem C01_same_shard_credits_exact_multi : forall (E : env), codec_ok (cdc E) -> forall i s o s',
  exec E C.BuiltInFunctionMultiESDTNFTTransfer i s = (Ok o, s') -> i_caller i = i_rcpt i -> multi_same E i = true ->
  triples_consistent E s (i_caller i) (multi_snd_triples i) ->
  nonneg_balances E s (multi_dst i) ->
  forall k, balance E s' (multi_dst i) k = (balance E s (multi_dst i) k + qty_list k (debit_list (multi_snd_triples i)))%Z.
Proof. exact same_shard_credits_exact_multi. Qed.

(* no other account changes; and (hypothesis-free, raw storage cells and account fields) the footprints *)
Theorem C01_others_unchanged : forall (E : env), codec_ok (cdc E) -> forall i s o s' fn,
  is_transfer_fn fn = true -> exec E fn i s = (Ok o, s') ->
  forall a k, a <> i_caller i -> a <> i_rcpt i -> a <> transfer_dest fn i -> balance E s' a k = balance E s a k.
Proof. exact others_unchanged. Qed.
Theorem C01_transfer_frame_esdt : forall (E : env), codec_ok (cdc E) -> forall i s o s',
  exec E C.BuiltInFunctionESDTTransfer i s = (Ok o, s') ->
  unchanged_except (fun a k => k = P ++ argn i 0 /\ ((i_snd i = true /\ a = i_caller i) \/ (i_dst i = true /\ a = i_rcpt i)))
                   (fun _ => False) s s'.
Proof. intros E Hc i s o s' H. rewrite exec_esdt_transfer in H. exact (transfer_footprint_esdt E Hc i s o s' H). Qed.
Theorem C01_transfer_frame_nft : forall (E : env), codec_ok (cdc E) -> forall i s o s',
  exec E C.BuiltInFunctionESDTNFTTransfer i s = (Ok o, s') ->
  unchanged_except (fun a k => (a = i_caller i \/ a = i_rcpt i \/ a = argn i 3) /\ exists n, k = nft_key (P ++ argn i 0) n)
                   (fun _ => False) s s'.
Proof. intros E Hc i s o s' H. rewrite exec_nft_transfer in H. exact (transfer_footprint_nft E Hc i s o s' H). Qed.
Theorem C01_transfer_frame_multi : forall (E : env), codec_ok (cdc E) -> forall i s o s',
  exec E C.BuiltInFunctionMultiESDTNFTTransfer i s = (Ok o, s') ->
  let trs := if beqb (i_caller i) (i_rcpt i) then multi_snd_triples i else multi_dst_triples i in
  unchanged_except (fun a k => (a = i_caller i \/ a = i_rcpt i \/ a = argn i 0)
                               /\ exists x n, In x trs /\ k = nft_key (P ++ rt_tok x) n) (fun _ => False) s s'.
Proof. intros E Hc i s o s' H. rewrite exec_multi_transfer in H. exact (proj1 (transfer_footprint_multi E Hc i s o s' H)). Qed.
Example C01_unchanged_except_unfolded : forall F G s s',
  unchanged_except F G s s' <->
  (forall a k, ~ F a k -> cell s' a k = cell s a k)
  /\ (forall a, ~ G a -> a_balance (acct s' a) = a_balance (acct s a) /\ a_owner (acct s' a) = a_owner (acct s a)
                         /\ a_username (acct s' a) = a_username (acct s a) /\ a_devreward (acct s' a) = a_devreward (acct s a)).
Proof. intros. reflexivity. Qed.

(* ================================================================ *)
(* 3. the cross-shard message                                          *)
(* ================================================================ *)
(* destination on the executing shard: nothing is emitted; otherwise EXACTLY ONE message, addressed to the
   destination, refundable to the caller, and what it will credit is exactly what was debited *)
Theorem C01_emitted_message_carries_debit : forall (c : wcfg), codec_ok (wc_cdc c) -> forall sh m0 fn i id o s',
  is_transfer_fn fn = true -> origin_call c sh i -> call_consistent_at c m0 sh fn i ->
  exec (env_at c sh) fn i (mk_state m0) = (Ok o, s') ->
  if (wc_shard_of c (transfer_dest fn i) =? sh)%N then collect c sh fn i id o = []
  else exists m, collect c sh fn i id o = [m] /\ credits c m = transfer_debits fn i
         /\ m_id m = id /\ m_fn m = fn /\ m_dest m = transfer_dest fn i
         /\ m_caller m = i_caller i /\ m_sender m = i_caller i /\ m_origin m = sh.
Proof. exact emitted_message_carries_debit. Qed.
Example C01_dest_debits_unfolded : forall i,
  transfer_dest C.BuiltInFunctionESDTTransfer i = i_rcpt i
  /\ transfer_dest C.BuiltInFunctionESDTNFTTransfer i = argn i 3
  /\ transfer_dest C.BuiltInFunctionMultiESDTNFTTransfer i = argn i 0
  /\ transfer_debits C.BuiltInFunctionESDTTransfer i = [(P ++ argn i 0, bigZ (argn i 1))]
  /\ transfer_debits C.BuiltInFunctionESDTNFTTransfer i = [(nft_key (P ++ argn i 0) (bigU64 (argn i 1)), bigZ (argn i 2))]
  /\ transfer_debits C.BuiltInFunctionMultiESDTNFTTransfer i =
       map (fun x => (nft_key (P ++ rt_tok x) (rt_nonce x), rt_qty x)) (multi_triples (N.to_nat (bigU64 (argn i 1))) i 2 0).
Proof. intros. repeat split. Qed.

(* delivery credits exactly [credits m] to the destination and nothing else, cell by cell; the refund gives the
   same quantities back to the debited account *)
Theorem C01_deliver_credits_exact : forall (c : wcfg), codec_ok (wc_cdc c) -> forall m0 m gas o s',
  let sh := wc_shard_of c (m_dest m) in
  accts_nonneg c m0 -> msg_ok c m ->
  exec (env_at c sh) (m_fn m) (deliver_input c m sh gas) (mk_state m0) = (Ok o, s') ->
  forall a k, balance (env_at c sh) s' a k =
    (balance (env_at c sh) (mk_state m0) a k + (if beqb a (m_dest m) then qty c k m else 0))%Z.
Proof. exact deliver_credits_exact. Qed.
Theorem C01_refund_credits_exact : forall (c : wcfg), codec_ok (wc_cdc c) -> forall m0 m gas o s',
  let sh := wc_shard_of c (m_sender m) in
  accts_nonneg c m0 -> msg_ok c m ->
  exec (env_at c sh) (m_fn m) (refund_input c m sh gas) (mk_state m0) = (Ok o, s') ->
  forall a k, balance (env_at c sh) s' a k =
    (balance (env_at c sh) (mk_state m0) a k + (if beqb a (m_sender m) then qty c k m else 0))%Z.
Proof. exact refund_credits_exact. Qed.

(* ================================================================ *)
(* 4. liveness, ESDTTransfer only                                      *)
(* ================================================================ *)
(* the destination side succeeds unless: not payable (when checked), frozen, paused, a non-fungible / valueless /
   undecodable entry under the key, or a fault *)
Theorem C01_esdt_dest_succeeds : forall (E : env), codec_ok (cdc E) -> no_faults E -> forall i s,
  i_value i = 0%Z -> (2 <= alen (i_args i))%N -> shard_of E (i_rcpt i) <> META -> (0 < esdt_val i)%Z ->
  i_snd i = false -> i_dst i = true ->
  (must_verify_payable i 2 = true -> payable E (i_rcpt i) = PayYes) ->
  fungible_or_absent E s (i_rcpt i) (esdt_key i) ->
  (i_rae i = false -> i_rcpt i <> SC -> frozen_at E s (i_rcpt i) (esdt_key i) = false /\ paused_at s (esdt_key i) = false) ->
  (0 <= balance E s (i_rcpt i) (esdt_key i))%Z ->
  exists o s', f_esdt_transfer E i s = (Ok o, s').
Proof. exact esdt_dest_succeeds. Qed.
(* every ESDTTransfer message the origin side emits has the shape the next two theorems ask for *)
Theorem C01_emitted_esdt_wf : forall (c : wcfg), codec_ok (wc_cdc c) -> forall sh m0 i id o s' m,
  origin_call c sh i -> exec (env_at c sh) C.BuiltInFunctionESDTTransfer i (mk_state m0) = (Ok o, s') ->
  In m (collect c sh C.BuiltInFunctionESDTTransfer i id o) -> esdt_msg c m.
Proof. exact emitted_esdt_wf. Qed.
Theorem C01_deliver_accepted_esdt : forall (c : wcfg), codec_ok (wc_cdc c) -> forall w id gas m,
  let sh := wc_shard_of c (m_dest m) in
  let s := mk_state (shard_accts w sh) in
  WInv c w -> find_msg (inflight w) id = Some m -> esdt_msg c m -> (sh <? wc_nshards c)%N = true ->
  (must_verify_payable (deliver_input c m sh gas) 2 = true -> wc_payable c (m_dest m) = PayYes) ->
  fungible_or_absent (env_at c sh) s (m_dest m) (msg_key m) ->
  (m_dest m <> SC -> frozen_at (env_at c sh) s (m_dest m) (msg_key m) = false /\ paused_at s (msg_key m) = false) ->
  let w' := wstep c w (ODeliver id gas) in
  inflight w' = drop_msg (inflight w) id /\ failed w' = failed w
  /\ wbal c w' (m_dest m) (msg_key m) = (wbal c w (m_dest m) (msg_key m) + msg_val m)%Z.
Proof. exact deliver_accepted_esdt. Qed.
(* a rejected delivery (whatever the reason) leaves accounts and messages alone and marks the message; the refund then
   succeeds, removes message and mark, and restores the debited account; totals unchanged throughout *)
Theorem C01_rejected_then_refund_esdt : forall (c : wcfg), codec_ok (wc_cdc c) -> forall w id gas gas' m,
  let shd := wc_shard_of c (m_dest m) in
  let shs := wc_shard_of c (m_sender m) in
  WInv c w -> find_msg (inflight w) id = Some m -> esdt_msg c m ->
  (shd <? wc_nshards c)%N = true -> (shs <? wc_nshards c)%N = true -> shs <> META ->
  (forall o s', exec (env_at c shd) (m_fn m) (deliver_input c m shd gas) (mk_state (shard_accts w shd)) <> (Ok o, s')) ->
  fungible_or_absent (env_at c shs) (mk_state (shard_accts w shs)) (m_sender m) (msg_key m) ->
  let w1 := wstep c w (ODeliver id gas) in
  let w2 := wstep c w1 (ORefund id gas') in
  shards w1 = shards w /\ inflight w1 = inflight w /\ nat_in id (failed w1) = true
  /\ inflight w2 = drop_msg (inflight w) id /\ nat_in id (failed w2) = false
  /\ wbal c w2 (m_sender m) (msg_key m) = (wbal c w (m_sender m) (msg_key m) + msg_val m)%Z
  /\ forall k, total c k w2 = total c k w.
Proof. exact rejected_then_refund_esdt. Qed.
Example C01_liveness_vocabulary_unfolded : forall (c : wcfg) (E : env) s a k m w,
  (fungible_or_absent E s a k <->
     cell s a k = [] \/ exists t, tok_at E s a k = Some t /\ t_type t = C.Fungible /\ t_value t <> None)
  /\ (esdt_msg c m <->
     m_fn m = C.BuiltInFunctionESDTTransfer /\ (2 <= alen (m_args m))%N /\ (0 < bigZ (nth 1 (m_args m) []))%Z
     /\ wc_shard_of c (m_dest m) <> META)
  /\ msg_key m = P ++ nth 0 (m_args m) [] /\ msg_val m = bigZ (nth 1 (m_args m) [])
  /\ wbal c w a k = acct_balance c k (aget empty_account (shard_accts w (wc_shard_of c a)) a).
Proof. intros. split; [reflexivity|]. split; [reflexivity|]. split; [reflexivity|]. split; reflexivity. Qed.

(* ================================================================ *)
(* 5. non-vacuity                                                      *)
(* ================================================================ *)
(* a two-shard world whose destination already holds both tokens; eleven operations: the three functions cross-shard
   with their deliveries, a same-shard transfer, a delivery rejected because the destination is not payable, its
   refund, a delivery of an unknown id *)
Example C01_example_hypotheses :
  codec_ok (wc_cdc c0) /\ WInv c0 w0 /\ Forall (transfer_op c0) history /\ consistent_along c0 w0 history
  /\ length history = 11%nat.
Proof.
  destruct ex_hypotheses as (H1 & H2 & H3).
  split; [exact c0_ok|]. split; [exact ex_WInv|]. split; [|split; [apply consistent_along_b_ok; exact H3|reflexivity]].
  apply Forall_forall. intros op Hin. apply transfer_op_b_ok. rewrite forallb_forall in H2. apply H2. exact Hin.
Qed.
Example C01_example_run :
  total c0 kTok w0 = 14%Z /\ total c0 kNft w0 = 4%Z
  /\ (let w1 := wrun c0 w0 (firstn 1 history) in
      shards_total c0 kTok (shards w1) = 12%Z /\ inflight_total c0 kTok (inflight w1) = 2%Z /\ length (inflight w1) = 1%nat)
  /\ (let w9 := wrun c0 w0 (firstn 9 history) in
      failed w9 = [3%nat] /\ inflight_total c0 kTok (inflight w9) = 1%Z /\ bal0 w9 0 alice kTok = 0%Z)
  /\ (let w' := wrun c0 w0 history in
      inflight w' = [] /\ failed w' = []
      /\ bal0 w' 0 alice kTok = 1%Z /\ bal0 w' 0 carol kTok = 1%Z /\ bal0 w' 1 bob kTok = 12%Z /\ bal0 w' 1 dave kTok = 0%Z
      /\ bal0 w' 0 alice kNft = 0%Z /\ bal0 w' 1 bob kNft = 4%Z
      /\ total c0 kTok w' = 14%Z /\ total c0 kNft w' = 4%Z).
Proof. vm_compute. repeat split; reflexivity. Qed.
Example C01_example_conserved : forall n k, total c0 k (wrun c0 w0 (firstn n history)) = total c0 k w0.
Proof. exact ex_conserved_prefixes. Qed.

Print Assumptions C01_pinned_constants.
Print Assumptions C01_observables_unfolded.
Print Assumptions C01_credits_unfolded.
Print Assumptions C01_operations_unfolded.
Print Assumptions C01_world_invariant_unfolded.
Print Assumptions C01_consistency_unfolded.
Print Assumptions C01_conservation_histories.
Print Assumptions C01_invariant_histories.
Print Assumptions C01_conservation_step.
Print Assumptions C01_conservation_checked.
Print Assumptions C01_conservation_refuted_without_consistency.
Print Assumptions C01_conservation_refuted_without_consistency_same_shard.
Print Assumptions C01_F4b_witness.
Print Assumptions C01_valid_ids_lookup_consistent.
Print Assumptions C01_valid_ids_call_consistent.
Print Assumptions C01_valid_id_unfolded.
Print Assumptions C01_balance_effect_esdt.
Print Assumptions C01_balance_effect_nft_sender.
Print Assumptions C01_balance_effect_multi_sender.
Print Assumptions C01_deltas_unfolded.
Print Assumptions C01_sender_debits_exact_esdt.
Print Assumptions C01_sender_debits_exact_nft.
Print Assumptions C01_sender_debits_exact_multi.
Print Assumptions C01_same_shard_credits_exact_esdt.
Print Assumptions C01_same_shard_credits_exact_nft.
Print Assumptions C01_same_shard_credits_exact_multi.
Print Assumptions C01_others_unchanged.
Print Assumptions C01_transfer_frame_esdt.
Print Assumptions C01_transfer_frame_nft.
Print Assumptions C01_transfer_frame_multi.
Print Assumptions C01_unchanged_except_unfolded.
Print Assumptions C01_emitted_message_carries_debit.
Print Assumptions C01_dest_debits_unfolded.
Print Assumptions C01_deliver_credits_exact.
Print Assumptions C01_refund_credits_exact.
Print Assumptions C01_esdt_dest_succeeds.
Print Assumptions C01_emitted_esdt_wf.
Print Assumptions C01_deliver_accepted_esdt.
Print Assumptions C01_rejected_then_refund_esdt.
Print Assumptions C01_liveness_vocabulary_unfolded.
Print Assumptions C01_example_hypotheses.
Print Assumptions C01_example_run.
Print Assumptions C01_example_conserved.
