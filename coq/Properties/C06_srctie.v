(* Property C06, extension "source tie": computeGasRemaining (builtInFunctions/changeOwnerAddress.go), the helper
   through which the account-level and ESDT functions report the gas they leave, as REGENERATED from /repo's
   current Go sources on this very run (gen/Pure.v, module P, written by tools/srcgen/pure.go; None = panic).
   The account argument is only tested for nil (check.IfNil): it is modelled by the boolean "is nil"; the model's
   [compute_gas_remaining snd] of Ledger/Env.v takes the opposite flag "the account is present".
   Only statements, each closed by [exact] of lemmas of Helpers/PureTie_*.v, LedgerProofs/EnvSpec.v and
   LedgerProofs/GasSpec.v, and their assumptions. *)
From Coq.Strings Require Import String.
From EV Require Import Base.Bytes gen.Consts Base.GoSem gen.Pure Helpers.Helpers Ledger.Types Ledger.Env
  LedgerProofs.EnvSpec LedgerProofs.GasSpec Helpers.PureTie_Base Helpers.PureTie_Gas.

Local Open Scope N_scope.

(* regenerated definition = hand model, all inputs *)
Theorem C06_src_tie_computeGasRemaining : forall (snd_is_nil : bool) provided cost,
  P.computeGasRemaining snd_is_nil provided cost = Some (compute_gas_remaining (negb snd_is_nil) provided cost).
Proof. exact tie_computeGasRemaining. Qed.

(* the Go function never panics and never returns more than the provided gas *)
Theorem C06_src_gas_remaining_le : forall (snd_is_nil : bool) provided cost,
  exists r, P.computeGasRemaining snd_is_nil provided cost = Some r /\ r <= provided.
Proof.
  exact (fun n p c => P_computeGasRemaining_transport n p c (fun r => r <= p) (compute_gas_remaining_le (negb n) p c)).
Qed.
(* it returns 0 when the charge exceeds the provided gas *)
Theorem C06_src_gas_remaining_underfunded : forall (snd_is_nil : bool) provided cost, provided < cost ->
  exists r, P.computeGasRemaining snd_is_nil provided cost = Some r /\ r = 0.
Proof.
  exact (fun n p c H => P_computeGasRemaining_transport n p c (fun r => r = 0) (c06_cgr_under (negb n) p c H)).
Qed.
(* ... and when the sender account is absent (nil): the gas was consumed in the sender's shard *)
Theorem C06_src_gas_remaining_no_sender : forall provided cost,
  exists r, P.computeGasRemaining true provided cost = Some r /\ r = 0.
Proof.
  exact (fun p c => P_computeGasRemaining_transport true p c (fun r => r = 0) (compute_gas_remaining_nosnd p c)).
Qed.
(* otherwise exactly provided - cost (no wrap-around for uint64 operands) *)
Theorem C06_src_gas_remaining_exact : forall (snd_is_nil : bool) provided cost, provided < two64 ->
  exists r, P.computeGasRemaining snd_is_nil provided cost = Some r
            /\ r = if (negb snd_is_nil && (cost <=? provided))%bool then provided - cost else 0.
Proof.
  exact (fun n p c H => P_computeGasRemaining_transport n p c
           (fun r => r = if (negb n && (c <=? p))%bool then p - c else 0)
           (compute_gas_remaining_exact (negb n) p c H)).
Qed.
Example C06_src_gas_remaining_examples :
  P.computeGasRemaining false 1000 37 = Some 963 /\ P.computeGasRemaining false 36 37 = Some 0
  /\ P.computeGasRemaining true 1000 37 = Some 0 /\ P.computeGasRemaining false 37 37 = Some 0.
Proof. exact (conj eq_refl (conj eq_refl (conj eq_refl eq_refl))). Qed.

Print Assumptions C06_src_tie_computeGasRemaining.
Print Assumptions C06_src_gas_remaining_le.
Print Assumptions C06_src_gas_remaining_underfunded.
Print Assumptions C06_src_gas_remaining_no_sender.
Print Assumptions C06_src_gas_remaining_exact.
