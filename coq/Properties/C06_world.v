(* Property C06, extension: no gas is created at WORLD level (the node model Ledger/World.v: shards, in-flight messages,
   calls, deliveries, re-deliveries, refunds, histories).  Only statements, each closed by [exact] of a lemma of
   LedgerProofs/C06_World.v; pins; non-vacuity; assumptions.  (Properties/C06.v is per execution [exec].)

   Reading guide.
   * [c : wcfg] is ARBITRARY: any codec (no codec_ok needed), shard function, payability oracle, gas schedule.
   * In the world model an in-flight message carries a gas limit [m_gasLimit].  A message made from an output transfer of
     a successful call copies that transfer's GasLimit (C06w_msg_of_transfer_gas).  ONE kind of message is not made from
     an output transfer: a user's ESDTTransfer / ChangeOwnerAddress / ClaimDeveloperRewards addressed to another shard
     TRAVELS there itself ([travels_tx], [travelling_msg]: C06w_vocabulary) and carries the transaction's own limit i_gas.
     [op_exec c w op] is the call (shard, function, input) a step executes; for ODeliver / ORedeliver / ORefund id gas its
     input has i_gas = the gas given to the OPERATION (not the message's limit: that is a hypothesis, [honest_gas_op]).
     [kept w op] / [emitted c op sh fn i id o] (C07_World): the messages a successful step keeps / appends.
   * C06w_wstep_no_gas_created (one step, any of the four kinds): if the executed call succeeds with output o and was
     given i_gas < 2^64, the appended messages carry at most that gas, and - unless the step is the origin side of a
     travelling transaction - GasRemaining o + their limits <= that gas.  For deliveries, re-deliveries and refunds the
     exception cannot occur (C06w_wstep_no_gas_created_delivery).
     C06w_wstep_no_gas_created_naive_refuted: for a travelling transaction the inequality WITH GasRemaining is false in
     the model (the origin shard reports gas - cost as remaining and the whole limit travels: 49990 + 50000 > 50000).
     This is a property of the node model (harness/world.go: collect), not of a built-in function: per execution
     C06_gas_not_created holds, the travelling message is not an output transfer.
   * Histories.  [gas_in] = the gas of a successful origin call; [gas_out] = GasRemaining of a successful execution (0 for
     a travelling origin call); [msgs_gas (inflight w)] = the limits in flight.
     C06w_wrun_gas_ledger: along every history that is [honest_gas] (64-bit gas; each delivery / refund is given at most
     its message's limit; no re-delivery - a message executed twice spends its limit twice, C07 / F9):
         limits in flight at the end + all gas returned <= limits in flight at the start + all gas injected.
     C06w_chain_no_gas_created: nothing in flight, one origin call, then only deliveries and refunds: every remainder
     returned along the chain + every still-undelivered limit <= the gas of the origin call.
   * Not in the ledger: gas handed to an attached smart-contract call on the SAME shard (an output transfer that is no
     message: the VM executes it); it is bounded per execution by C06_gas_not_created. *)
From Coq.Strings Require Import String.
From Coq Require Import List.
From EV Require Import Base.Bytes Base.Store Base.Monad gen.Consts Codec.Types Codec.Ideal Codec.CodecOk Helpers.Helpers
  Ledger.Types Ledger.Env Ledger.Funcs Ledger.Transfers Ledger.World
  LedgerProofs.Defs LedgerProofs.WorldDefs LedgerProofs.WorldSpec LedgerProofs.GasSpec
  LedgerProofs.C07_World LedgerProofs.C01_Examples LedgerProofs.C06_World.
Import ListNotations.

Local Open Scope N_scope.

(* ================================================================ *)
(* pins                                                               *)
(* ================================================================ *)
Example C06w_vocabulary : forall (c : wcfg) (w : world) (op : wop) sh fn i id o m l sh0 fn0 i0 id0 gas0,
  msgs_gas [] = 0 /\ msgs_gas (m :: l) = m_gasLimit m + msgs_gas l
  /\ travels_tx c sh fn i id o =
       match collect_accounts c sh i id (o_accounts o) with
       | [] => (negb (wc_shard_of c (i_rcpt i) =? sh) && negb (wc_shard_of c (i_rcpt i) =? META)
                && (wc_shard_of c (i_caller i) =? sh))%bool && travels fn
       | _ => false
       end
  /\ travels fn = (beqb fn C.BuiltInFunctionESDTTransfer || beqb fn C.BuiltInFunctionChangeOwnerAddress
                   || beqb fn C.BuiltInFunctionClaimDeveloperRewards)%bool
  /\ travelling_msg sh fn i id =
       {| m_id := id; m_fn := fn; m_caller := i_caller i; m_dest := i_rcpt i; m_args := i_args i;
          m_callType := i_callType i; m_gasLimit := i_gas i; m_locked := i_gasLocked i; m_origin := sh; m_sender := i_caller i |}
  /\ op_travels c w (OCall sh0 fn0 i0) o = travels_tx c sh0 fn0 i0 (next_id w) o
  /\ op_travels c w (ODeliver id0 gas0) o = false /\ op_travels c w (ORedeliver id0 gas0) o = false
  /\ op_travels c w (ORefund id0 gas0) o = false
  /\ kept w (OCall sh0 fn0 i0) = inflight w /\ kept w (ORedeliver id0 gas0) = inflight w
  /\ kept w (ODeliver id0 gas0) = drop_msg (inflight w) id0 /\ kept w (ORefund id0 gas0) = drop_msg (inflight w) id0
  /\ emitted c (ORefund id0 gas0) sh fn i id o = [] /\ emitted c (ODeliver id0 gas0) sh fn i id o = collect c sh fn i id o
  /\ emitted c (OCall sh0 fn0 i0) sh fn i id o = collect c sh fn i id o.
Proof. intros. repeat split. Qed.
Example C06w_ledger_unfolded : forall (c : wcfg) (w : world) (op : wop) r sh fn i id gas,
  step_out c w op =
    match op_exec c w op with
    | None => None
    | Some (sh, fn, i) => match exec (env_at c sh) fn i (wst w sh) with (Ok o, _) => Some (i, o) | _ => None end
    end
  /\ gas_in c w (OCall sh fn i) = match step_out c w (OCall sh fn i) with Some (i', _) => i_gas i' | None => 0 end
  /\ gas_in c w (ODeliver id gas) = 0 /\ gas_in c w (ORedeliver id gas) = 0 /\ gas_in c w (ORefund id gas) = 0
  /\ gas_out c w op = match step_out c w op with
                      | Some (_, o) => if op_travels c w op o then 0 else o_gasRemaining o
                      | None => 0
                      end
  /\ gas_in_sum c w [] = 0 /\ gas_in_sum c w (op :: r) = gas_in c w op + gas_in_sum c (wstep c w op) r
  /\ gas_out_sum c w [] = 0 /\ gas_out_sum c w (op :: r) = gas_out c w op + gas_out_sum c (wstep c w op) r
  /\ (honest_gas_op w (OCall sh fn i) <-> i_gas i < two64)
  /\ (honest_gas_op w (ODeliver id gas) <->
        gas < two64 /\ forall m, find_msg (inflight w) id = Some m -> gas <= m_gasLimit m)
  /\ (honest_gas_op w (ORefund id gas) <->
        gas < two64 /\ forall m, find_msg (inflight w) id = Some m -> gas <= m_gasLimit m)
  /\ (honest_gas_op w (ORedeliver id gas) <-> False)
  /\ (honest_gas c w [] <-> True)
  /\ (honest_gas c w (op :: r) <-> honest_gas_op w op /\ honest_gas c (wstep c w op) r)
  /\ (not_call (OCall sh fn i) <-> False) /\ (not_call (ODeliver id gas) <-> True) /\ (not_call (ORefund id gas) <-> True).
Proof.
  intros. split.
  { unfold step_out, step_log. destruct (op_exec c w op) as [[[sh0 fn0] i0]|]; [|reflexivity].
    destruct (exec (env_at c sh0) fn0 i0 (wst w sh0)) as [[o|e|] s']; reflexivity. }
  repeat (split; [reflexivity|]). reflexivity.
Qed.
Theorem C06w_honest_gas_decided : forall (c : wcfg) ops w, honest_gas_b c w ops = true -> honest_gas c w ops.
Proof. exact honest_gas_b_ok. Qed.

(* ================================================================ *)
(* emission copies gas limits                                         *)
(* ================================================================ *)
Theorem C06w_msg_of_transfer_gas : forall (c : wcfg) sh i id dest t m,
  msg_of_transfer c sh i id dest t = Some m -> m_gasLimit m = tr_gasLimit t.
Proof. exact msg_of_transfer_gas. Qed.
Theorem C06w_collect_accounts_gas : forall (c : wcfg) sh i id (o : output),
  msgs_gas (collect_accounts c sh i id (o_accounts o)) <= sum_gasLimit o.
Proof. intros. rewrite sum_gasLimit_accounts. apply collect_accounts_gas. Qed.
Theorem C06w_collect_cases : forall (c : wcfg) sh fn i id o,
  collect c sh fn i id o =
  if travels_tx c sh fn i id o then [travelling_msg sh fn i id] else collect_accounts c sh i id (o_accounts o).
Proof. exact collect_cases. Qed.
(* what the node makes of the output of ONE successful call *)
Theorem C06w_collect_gas_le_provided : forall (c : wcfg) sh fn i id s o s',
  exec (env_at c sh) fn i s = (Ok o, s') -> i_gas i < two64 ->
  msgs_gas (collect c sh fn i id o) <= i_gas i.
Proof. exact collect_gas_le_provided. Qed.
Theorem C06w_collect_gas_with_remaining : forall (c : wcfg) sh fn i id s o s',
  exec (env_at c sh) fn i s = (Ok o, s') -> i_gas i < two64 -> travels_tx c sh fn i id o = false ->
  o_gasRemaining o + msgs_gas (collect c sh fn i id o) <= i_gas i.
Proof. exact collect_gas_with_remaining. Qed.

(* ================================================================ *)
(* one step                                                           *)
(* ================================================================ *)
Theorem C06w_wstep_no_gas_created : forall (c : wcfg) w op sh fn i o s',
  op_exec c w op = Some (sh, fn, i) -> exec (env_at c sh) fn i (wst w sh) = (Ok o, s') -> i_gas i < two64 ->
  let ms := emitted c op sh fn i (next_id w) o in
  inflight (wstep c w op) = kept w op ++ ms
  /\ msgs_gas ms <= i_gas i
  /\ (op_travels c w op o = false -> o_gasRemaining o + msgs_gas ms <= i_gas i)
  /\ (op_travels c w op o = true ->
        ms = [travelling_msg sh fn i (next_id w)] /\ exists sh0 fn0 i0, op = OCall sh0 fn0 i0).
Proof. exact wstep_no_gas_created. Qed.
Theorem C06w_wstep_no_gas_created_delivery : forall (c : wcfg) w op sh fn i o s',
  (forall sh0 fn0 i0, op <> OCall sh0 fn0 i0) ->
  op_exec c w op = Some (sh, fn, i) -> exec (env_at c sh) fn i (wst w sh) = (Ok o, s') -> i_gas i < two64 ->
  inflight (wstep c w op) = kept w op ++ emitted c op sh fn i (next_id w) o
  /\ o_gasRemaining o + msgs_gas (emitted c op sh fn i (next_id w) o) <= i_gas i.
Proof. exact wstep_no_gas_created_delivery. Qed.
(* the naive form is false for a travelling transaction *)
Theorem C06w_wstep_no_gas_created_naive_refuted :
  exists c w op sh fn i o s',
    op_exec c w op = Some (sh, fn, i) /\ exec (env_at c sh) fn i (wst w sh) = (Ok o, s') /\ i_gas i < two64
    /\ inflight (wstep c w op) = kept w op ++ emitted c op sh fn i (next_id w) o
    /\ op_travels c w op o = true
    /\ i_gas i < o_gasRemaining o + msgs_gas (emitted c op sh fn i (next_id w) o).
Proof. exact wstep_no_gas_created_naive_refuted. Qed.

(* ================================================================ *)
(* histories                                                          *)
(* ================================================================ *)
Theorem C06w_wstep_gas_ledger : forall (c : wcfg) w op, honest_gas_op w op ->
  msgs_gas (inflight (wstep c w op)) + gas_out c w op <= msgs_gas (inflight w) + gas_in c w op.
Proof. exact wstep_gas_ledger. Qed.
Theorem C06w_wrun_gas_ledger : forall (c : wcfg) ops w, honest_gas c w ops ->
  msgs_gas (inflight (wrun c w ops)) + gas_out_sum c w ops <= msgs_gas (inflight w) + gas_in_sum c w ops.
Proof. exact wrun_gas_ledger. Qed.
Theorem C06w_chain_no_gas_created : forall (c : wcfg) w sh fn i rest,
  inflight w = [] -> honest_gas c w (OCall sh fn i :: rest) -> Forall not_call rest ->
  msgs_gas (inflight (wrun c w (OCall sh fn i :: rest))) + gas_out_sum c w (OCall sh fn i :: rest) <= i_gas i.
Proof. exact chain_no_gas_created. Qed.

(* ================================================================ *)
(* non-vacuity: two shards, an NFT sent across with an attached call  *)
(* ================================================================ *)
Example C06w_ex_setup :
  op6_nft = OCall 0 C.BuiltInFunctionESDTNFTTransfer
              (in6 alice alice [nftA; u64_bytes 1; u64_bytes 2; kate6; str "doIt"%string; str "arg"%string] true true 50000)
  /\ h6_nft = [op6_nft; ODeliver 0 49440]
  /\ op6_plain = OCall 0 C.BuiltInFunctionESDTNFTTransfer (in6 alice alice [nftA; u64_bytes 1; u64_bytes 1; bob] true true 50000)
  /\ op6_travel = OCall 0 C.BuiltInFunctionESDTTransfer (in6 alice bob [tokA; u64_bytes 2] true false 50000)
  /\ (forall w op, out6 w op = match step_out c6 w op with Some (_, o) => Some (o_gasRemaining o, sum_gasLimit o) | None => None end)
  /\ wc_cdc c6 = ideal_codec /\ wc_nshards c6 = 2 /\ wc_gas c6 = wc_gas c0
  /\ g_ESDTNFTTransfer (wc_gas c6) = 10 /\ g_DataCopyPerByte (wc_gas c6) = 10 /\ g_ESDTTransfer (wc_gas c6) = 10.
Proof. repeat split. Qed.
Example C06w_ex_chain :
  is_sc kate6 = true /\ wc_shard_of c6 kate6 = 1 /\ wc_shard_of c6 alice = 0
  /\ out6 w0 op6_nft = Some (0, 49440)
  /\ map (fun m => (m_id m, m_fn m, m_dest m, m_gasLimit m)) (inflight (wstep c6 w0 op6_nft))
     = [(0%nat, C.BuiltInFunctionESDTNFTTransfer, kate6, 49440)]
  /\ out6 (wstep c6 w0 op6_nft) (ODeliver 0 49440) = Some (0, 49440)
  /\ inflight (wrun c6 w0 h6_nft) = []
  /\ honest_gas_b c6 w0 h6_nft = true
  /\ gas_in_sum c6 w0 h6_nft = 50000 /\ gas_out_sum c6 w0 h6_nft = 0.
Proof. exact ex6_chain. Qed.
Example C06w_ex_chain_theorem :
  msgs_gas (inflight (wrun c6 w0 h6_nft)) + gas_out_sum c6 w0 h6_nft <= 50000.
Proof. exact ex6_chain_theorem. Qed.
Example C06w_ex_plain :
  out6 w0 op6_plain = Some (49440, 0)
  /\ map m_gasLimit (inflight (wstep c6 w0 op6_plain)) = [0]
  /\ honest_gas_b c6 w0 [op6_plain; ODeliver 0 0] = true
  /\ gas_in_sum c6 w0 [op6_plain; ODeliver 0 0] = 50000 /\ gas_out_sum c6 w0 [op6_plain; ODeliver 0 0] = 49440
  /\ inflight (wrun c6 w0 [op6_plain; ODeliver 0 0]) = []
  /\ honest_gas_b c6 w0 [op6_plain; ODeliver 0 1] = false.
Proof. exact ex6_plain. Qed.
Example C06w_ex_travel :
  out6 w0 op6_travel = Some (49990, 0)
  /\ map m_gasLimit (inflight (wstep c6 w0 op6_travel)) = [50000]
  /\ honest_gas_b c6 w0 [op6_travel; ODeliver 0 50000] = true
  /\ gas_in_sum c6 w0 [op6_travel; ODeliver 0 50000] = 50000 /\ gas_out_sum c6 w0 [op6_travel; ODeliver 0 50000] = 0
  /\ inflight (wrun c6 w0 [op6_travel; ODeliver 0 50000]) = [].
Proof. exact ex6_travel. Qed.

Print Assumptions C06w_vocabulary.
Print Assumptions C06w_ledger_unfolded.
Print Assumptions C06w_honest_gas_decided.
Print Assumptions C06w_msg_of_transfer_gas.
Print Assumptions C06w_collect_accounts_gas.
Print Assumptions C06w_collect_cases.
Print Assumptions C06w_collect_gas_le_provided.
Print Assumptions C06w_collect_gas_with_remaining.
Print Assumptions C06w_wstep_no_gas_created.
Print Assumptions C06w_wstep_no_gas_created_delivery.
Print Assumptions C06w_wstep_no_gas_created_naive_refuted.
Print Assumptions C06w_wstep_gas_ledger.
Print Assumptions C06w_wrun_gas_ledger.
Print Assumptions C06w_chain_no_gas_created.
Print Assumptions C06w_ex_setup.
Print Assumptions C06w_ex_chain.
Print Assumptions C06w_ex_chain_theorem.
Print Assumptions C06w_ex_plain.
Print Assumptions C06w_ex_travel.
