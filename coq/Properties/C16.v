(* Property C16 — every function is priced by its own entry of the current gas schedule.
   Only statements, each closed by [exact] of a lemma of LedgerProofs/GasSchedule.v, their assumptions,
   pins against the tables generated from the current sources, and non-vacuity examples. *)
From Coq.Strings Require Import String.
From EV Require Import Base.Bytes Base.Store Base.Monad gen.Consts gen.Registry gen.GasBinding Codec.Types Helpers.Helpers
  Ledger.Types Ledger.Env Ledger.Funcs Ledger.Transfers LedgerProofs.GasSpec LedgerProofs.GasSpecExact
  LedgerProofs.GasSchedule Concurrency.RegistryTable.

Local Open Scope N_scope.

(* ------------------------------------------------------------------ *)
(* pins: the model's schedule shape against the current sources        *)
(* ------------------------------------------------------------------ *)
Example C16_pinned_fields :
  map fst builtin_cost_fields = builtin_names /\ map fst base_operation_cost_fields = base_names
  /\ (forall p, In p (builtin_cost_fields ++ base_operation_cost_fields)%list -> snd p = "uint64"%string)
  /\ gas_cost_fields = [("BaseOperationCost", "BaseOperationCost"); ("BuiltInCost", "BuiltInCost")]%string
  /\ C.BaseOperationCostString = str "BaseOperationCost"%string /\ C.BuiltInCostString = str "BuiltInCost"%string
  /\ List.length entries = 22%nat.
Proof.
  repeat split. intros p Hp. cbn in Hp. repeat (destruct Hp as [<-|Hp]; [reflexivity|]). destruct Hp.
Qed.

(* The bodies of createGasConfig, GasScheduleChange and check.ForZeroUintFields are NOT pinned verbatim (they were, until a blind
   behaviour-preserving refactoring of factory.go raised an alarm: the property does not fix their source text).  What they DO is tied
   by the correspondence run of this check: acceptance of ~hundreds of schedule maps (every field zero / missing in turn, missing /
   empty / nil sections, case variants, values near 2^64) by the real factory vs. create_gas_config, and the charge in force after
   sequences of accepted and rejected changes vs. in_force. *)

(* the own field of each of the 15 priced functions (the 16th field, ESDTNFTChangeCreateOwner, prices nothing) *)
Example C16_pinned_own_fields : forall g,
  own_cost C.BuiltInFunctionClaimDeveloperRewards g = g_ClaimDeveloperRewards g
  /\ own_cost C.BuiltInFunctionChangeOwnerAddress g = g_ChangeOwnerAddress g
  /\ own_cost C.BuiltInFunctionSetUserName g = g_SaveUserName g
  /\ own_cost C.BuiltInFunctionSaveKeyValue g = g_SaveKeyValue g
  /\ own_cost C.BuiltInFunctionESDTTransfer g = g_ESDTTransfer g
  /\ own_cost C.BuiltInFunctionESDTBurn g = g_ESDTBurn g
  /\ own_cost C.BuiltInFunctionESDTLocalMint g = g_ESDTLocalMint g
  /\ own_cost C.BuiltInFunctionESDTLocalBurn g = g_ESDTLocalBurn g
  /\ own_cost C.BuiltInFunctionESDTNFTCreate g = g_ESDTNFTCreate g
  /\ own_cost C.BuiltInFunctionESDTNFTAddQuantity g = g_ESDTNFTAddQuantity g
  /\ own_cost C.BuiltInFunctionESDTNFTBurn g = g_ESDTNFTBurn g
  /\ own_cost C.BuiltInFunctionESDTNFTTransfer g = g_ESDTNFTTransfer g
  /\ own_cost C.BuiltInFunctionMultiESDTNFTTransfer g = g_ESDTNFTMultiTransfer g
  /\ own_cost C.BuiltInFunctionESDTNFTAddURI g = g_ESDTNFTAddURI g
  /\ own_cost C.BuiltInFunctionESDTNFTUpdateAttributes g = g_ESDTNFTUpdateAttributes g
  /\ map (fun b => b_name b) (filter (fun b => match b_gas b with Some _ => false | None => true end) expected)
     = [C.BuiltInFunctionESDTPause; C.BuiltInFunctionESDTUnPause; C.BuiltInFunctionESDTFreeze; C.BuiltInFunctionESDTUnFreeze;
        C.BuiltInFunctionESDTWipe; C.BuiltInFunctionSetESDTRole; C.BuiltInFunctionUnSetESDTRole; C.BuiltInFunctionESDTNFTCreateRoleTransfer]
  /\ map (fun b => b_name b) (filter b_base expected)
     = [C.BuiltInFunctionSaveKeyValue; C.BuiltInFunctionESDTNFTCreate; C.BuiltInFunctionESDTNFTTransfer;
        C.BuiltInFunctionESDTNFTUpdateAttributes; C.BuiltInFunctionESDTNFTAddURI; C.BuiltInFunctionMultiESDTNFTTransfer].
Proof. intros g. repeat split. Qed.

(* ------------------------------------------------------------------ *)
(* (a) the price is the function's own field (+ per-byte fields)       *)
(* ------------------------------------------------------------------ *)
Theorem C16_charge_depends_only_on_own_field : forall (E : env) f g g' i s,
  own_cost f g = own_cost f g' /\ (reads_per_byte f = true -> per_byte_eq g g') ->
  exec (with_sched E g) f i s = exec (with_sched E g') f i s.
Proof. exact charge_depends_only_on_own_field. Qed.

(* [priced i o c]:  c <= GasProvided  /\  GasRemaining + sum GasLimit = GasProvided - c *)
Theorem C16_charge_formula_ClaimDeveloperRewards : forall (E : env) i s o s',
  exec E C.BuiltInFunctionClaimDeveloperRewards i s = (Ok o, s') -> i_gas i < two64 ->
  i_snd i = true -> claim_drops_gas i = false -> g_ClaimDeveloperRewards (gas E) <= i_gas i ->
  priced i o (g_ClaimDeveloperRewards (gas E)).
Proof. exact charge_formula_ClaimDeveloperRewards. Qed.
Theorem C16_charge_formula_ChangeOwnerAddress : forall (E : env) i s o s',
  exec E C.BuiltInFunctionChangeOwnerAddress i s = (Ok o, s') -> i_gas i < two64 -> i_snd i = true ->
  priced i o (g_ChangeOwnerAddress (gas E)).
Proof. exact charge_formula_ChangeOwnerAddress. Qed.
Theorem C16_charge_formula_SetUserName : forall (E : env) i s o s',
  exec E C.BuiltInFunctionSetUserName i s = (Ok o, s') -> i_gas i < two64 ->
  g_SaveUserName (gas E) <= i_gas i
  /\ (i_dst i = true -> priced i o (g_SaveUserName (gas E)))
  /\ (i_dst i = false -> o_gasRemaining o = 0 /\ sum_gasLimit o = i_gas i).
Proof. exact charge_formula_SetUserName. Qed.
Theorem C16_charge_formula_SaveKeyValue : forall (E : env) i s o s',
  exec E C.BuiltInFunctionSaveKeyValue i s = (Ok o, s') -> i_gas i < two64 ->
  exact_save_key_value E i s < two64 -> priced i o (exact_save_key_value E i s).
Proof. exact charge_formula_SaveKeyValue. Qed.
Theorem C16_charge_formula_ESDTTransfer : forall (E : env) i s o s',
  exec E C.BuiltInFunctionESDTTransfer i s = (Ok o, s') -> i_gas i < two64 -> i_snd i = true ->
  priced i o (g_ESDTTransfer (gas E)).
Proof. exact charge_formula_ESDTTransfer. Qed.
Theorem C16_charge_formula_ESDTBurn : forall (E : env) i s o s',
  exec E C.BuiltInFunctionESDTBurn i s = (Ok o, s') -> i_gas i < two64 -> priced i o (g_ESDTBurn (gas E)).
Proof. exact charge_formula_ESDTBurn. Qed.
Theorem C16_charge_formula_ESDTLocalMint : forall (E : env) i s o s',
  exec E C.BuiltInFunctionESDTLocalMint i s = (Ok o, s') -> i_gas i < two64 -> priced i o (g_ESDTLocalMint (gas E)).
Proof. exact charge_formula_ESDTLocalMint. Qed.
Theorem C16_charge_formula_ESDTLocalBurn : forall (E : env) i s o s',
  exec E C.BuiltInFunctionESDTLocalBurn i s = (Ok o, s') -> i_gas i < two64 -> priced i o (g_ESDTLocalBurn (gas E)).
Proof. exact charge_formula_ESDTLocalBurn. Qed.
Theorem C16_charge_formula_ESDTNFTAddQuantity : forall (E : env) i s o s',
  exec E C.BuiltInFunctionESDTNFTAddQuantity i s = (Ok o, s') -> i_gas i < two64 -> priced i o (g_ESDTNFTAddQuantity (gas E)).
Proof. exact charge_formula_ESDTNFTAddQuantity. Qed.
Theorem C16_charge_formula_ESDTNFTBurn : forall (E : env) i s o s',
  exec E C.BuiltInFunctionESDTNFTBurn i s = (Ok o, s') -> i_gas i < two64 -> priced i o (g_ESDTNFTBurn (gas E)).
Proof. exact charge_formula_ESDTNFTBurn. Qed.
Theorem C16_charge_formula_ESDTNFTCreate : forall (E : env) i s o s',
  exec E C.BuiltInFunctionESDTNFTCreate i s = (Ok o, s') -> i_gas i < two64 ->
  total_len (i_args i) * g_StorePerByte (gas E) + g_ESDTNFTCreate (gas E) < two64 ->
  priced i o (total_len (i_args i) * g_StorePerByte (gas E) + g_ESDTNFTCreate (gas E)).
Proof. exact charge_formula_ESDTNFTCreate. Qed.
Theorem C16_charge_formula_ESDTNFTAddURI : forall (E : env) i s o s',
  exec E C.BuiltInFunctionESDTNFTAddURI i s = (Ok o, s') -> i_gas i < two64 ->
  g_ESDTNFTAddURI (gas E) + total_len (skipn 2 (i_args i)) * g_StorePerByte (gas E) < two64 ->
  priced i o (g_ESDTNFTAddURI (gas E) + total_len (skipn 2 (i_args i)) * g_StorePerByte (gas E)).
Proof. exact charge_formula_ESDTNFTAddURI. Qed.
Theorem C16_charge_formula_ESDTNFTUpdateAttributes : forall (E : env) i s o s',
  exec E C.BuiltInFunctionESDTNFTUpdateAttributes i s = (Ok o, s') -> i_gas i < two64 ->
  g_ESDTNFTUpdateAttributes (gas E) + zlen (nth 2 (i_args i) []) * g_StorePerByte (gas E) < two64 ->
  priced i o (g_ESDTNFTUpdateAttributes (gas E) + zlen (nth 2 (i_args i) []) * g_StorePerByte (gas E)).
Proof. exact charge_formula_ESDTNFTUpdateAttributes. Qed.
Theorem C16_charge_formula_ESDTNFTTransfer : forall (E : env) i s o s',
  exec E C.BuiltInFunctionESDTNFTTransfer i s = (Ok o, s') -> i_gas i < two64 ->
  beqb (i_caller i) (i_rcpt i) = true ->
  exists t2, nft_sender_entry E i s = Some t2
             /\ (g_ESDTNFTTransfer (gas E) + zlen (enc_tok (cdc E) t2) * g_DataCopyPerByte (gas E) < two64 ->
                 priced i o (g_ESDTNFTTransfer (gas E) + zlen (enc_tok (cdc E) t2) * g_DataCopyPerByte (gas E))).
Proof. exact charge_formula_ESDTNFTTransfer. Qed.
Theorem C16_charge_formula_MultiESDTNFTTransfer : forall (E : env) i s o s',
  exec E C.BuiltInFunctionMultiESDTNFTTransfer i s = (Ok o, s') -> i_gas i < two64 ->
  beqb (i_caller i) (i_rcpt i) = true ->
  exists lst, multi_payloads E i s = Some lst
              /\ (multi_count i * g_ESDTNFTMultiTransfer (gas E) + payload_len E lst * g_DataCopyPerByte (gas E) < two64 ->
                  priced i o (multi_count i * g_ESDTNFTMultiTransfer (gas E) + payload_len E lst * g_DataCopyPerByte (gas E))).
Proof. exact charge_formula_MultiESDTNFTTransfer. Qed.

(* ------------------------------------------------------------------ *)
(* (b) acceptance and broadcast of schedules                           *)
(* ------------------------------------------------------------------ *)
Theorem C16_create_accepts_iff : forall m g,
  create_gas_config m = Some g <-> g = decode_schedule m /\ forall e, In e entries -> entry_val m e <> 0.
Proof. exact create_accepts_iff. Qed.
Theorem C16_schedule_zero_or_missing_rejected : forall m,
  (exists e, In e entries /\ entry_val m e = 0) -> create_gas_config m = None.
Proof. exact schedule_zero_or_missing_rejected. Qed.
Theorem C16_schedule_missing_entry_rejected : forall m e,
  In e entries -> (forall k v, In (k, v) (lookup_section (fst e) m) -> fold_eqb (snd e) k = false) ->
  create_gas_config m = None.
Proof. exact schedule_missing_entry_rejected. Qed.
Theorem C16_schedule_missing_section_rejected : forall m sname,
  (sname = C.BuiltInCostString \/ sname = C.BaseOperationCostString) ->
  (forall k sec, In (k, sec) m -> k <> sname) -> create_gas_config m = None.
Proof. exact schedule_missing_section_rejected. Qed.
Theorem C16_rejected_change_keeps_prices : forall fac m,
  create_gas_config m = None -> gas_schedule_change fac m = fac.
Proof. exact rejected_change_keeps_prices. Qed.
(* after ANY sequence of changes every registered function prices by the last accepted schedule *)
Theorem C16_change_broadcast_all : forall fac ms,
  wf_factory fac ->
  let fac' := fold_left gas_schedule_change ms fac in
  fac_cfg fac' = in_force (fac_cfg fac) ms
  /\ forall E b i s, In b expected ->
       run fac' E (b_name b) i s = exec (with_sched E (in_force (fac_cfg fac) ms)) (b_name b) i s.
Proof. exact change_broadcast_all. Qed.
Theorem C16_new_factory_wf : forall m fac,
  new_factory m = Some fac -> wf_factory fac /\ create_gas_config m = Some (fac_cfg fac).
Proof. exact new_factory_wf. Qed.
(* the generated registry row of every function: constructor argument and SetNewGasConfig read its own field *)
Theorem C16_gas_binding_ok : forall r, In r registry ->
  exists b, In b expected /\ row_of b = r /\ gas_row_ok b = true /\ lookup_binding (reg_name r) expected = Some b.
Proof. exact gas_binding_ok. Qed.

Print Assumptions C16_charge_depends_only_on_own_field.
Print Assumptions C16_charge_formula_ClaimDeveloperRewards.
Print Assumptions C16_charge_formula_ChangeOwnerAddress.
Print Assumptions C16_charge_formula_SetUserName.
Print Assumptions C16_charge_formula_SaveKeyValue.
Print Assumptions C16_charge_formula_ESDTTransfer.
Print Assumptions C16_charge_formula_ESDTBurn.
Print Assumptions C16_charge_formula_ESDTLocalMint.
Print Assumptions C16_charge_formula_ESDTLocalBurn.
Print Assumptions C16_charge_formula_ESDTNFTAddQuantity.
Print Assumptions C16_charge_formula_ESDTNFTBurn.
Print Assumptions C16_charge_formula_ESDTNFTCreate.
Print Assumptions C16_charge_formula_ESDTNFTAddURI.
Print Assumptions C16_charge_formula_ESDTNFTUpdateAttributes.
Print Assumptions C16_charge_formula_ESDTNFTTransfer.
Print Assumptions C16_charge_formula_MultiESDTNFTTransfer.
Print Assumptions C16_create_accepts_iff.
Print Assumptions C16_schedule_zero_or_missing_rejected.
Print Assumptions C16_schedule_missing_entry_rejected.
Print Assumptions C16_schedule_missing_section_rejected.
Print Assumptions C16_rejected_change_keeps_prices.
Print Assumptions C16_change_broadcast_all.
Print Assumptions C16_new_factory_wf.
Print Assumptions C16_gas_binding_ok.

(* ------------------------------------------------------------------ *)
(* non-vacuity                                                         *)
(* ------------------------------------------------------------------ *)
Definition ex_section (names : list string) (base : N) : section :=
  snd (fold_left (fun acc n => (fst acc + 1, (snd acc ++ [(str n, fst acc)])%list)) names (base, [])).
Definition ex_sched (b c : N) : smap :=
  [(str "BuiltInCost"%string, ex_section builtin_names b); (str "BaseOperationCost"%string, ex_section base_names c)].
(* StorePerByte zero *)
Definition ex_sched_zero : smap :=
  [(str "BuiltInCost"%string, ex_section builtin_names 10); (str "BaseOperationCost"%string, ex_section base_names 0)].
(* ESDTTransfer missing *)
Definition ex_sched_missing : smap :=
  [(str "BuiltInCost"%string, filter (fun kv => negb (beqb (fst kv) (str "ESDTTransfer"%string))) (ex_section builtin_names 10));
   (str "BaseOperationCost"%string, ex_section base_names 2)].
(* a key spelled in another case is found when the exact key is absent *)
Definition ex_sched_case : smap :=
  [(str "BuiltInCost"%string, ex_section builtin_names 10);
   (str "BaseOperationCost"%string, (str "storeperbyte"%string, 77) :: tl (ex_section base_names 2))].

Example C16_ex_acceptance :
  (exists g, create_gas_config (ex_sched 10 2) = Some g /\ g_ESDTTransfer g = 14 /\ g_StorePerByte g = 2 /\ g_DataCopyPerByte g = 4)
  /\ create_gas_config ex_sched_zero = None
  /\ create_gas_config ex_sched_missing = None
  /\ create_gas_config [(str "BuiltInCost"%string, ex_section builtin_names 10)] = None
  /\ create_gas_config [] = None
  /\ (exists g, create_gas_config ex_sched_case = Some g /\ g_StorePerByte g = 77)
  /\ (exists e, In e entries /\ entry_val ex_sched_zero e = 0).
Proof.
  split; [eexists; split; [vm_compute; reflexivity|repeat split]|].
  split; [vm_compute; reflexivity|]. split; [vm_compute; reflexivity|]. split; [vm_compute; reflexivity|].
  split; [vm_compute; reflexivity|].
  split; [eexists; split; [vm_compute; reflexivity|reflexivity]|].
  exists (C.BaseOperationCostString, str "StorePerByte"%string). split; [|vm_compute; reflexivity].
  unfold entries. apply in_or_app. right. left. reflexivity.
Qed.

(* accepted, rejected (keeps the prices), accepted: the schedule in force is the last accepted one *)
Example C16_ex_sequence : forall fac, new_factory (ex_sched 10 2) = Some fac ->
  g_ESDTTransfer (in_force (fac_cfg fac) [ex_sched 100 20; ex_sched_zero]) = 104
  /\ g_StorePerByte (in_force (fac_cfg fac) [ex_sched 100 20; ex_sched_zero; ex_sched_missing]) = 20
  /\ g_ESDTTransfer (in_force (fac_cfg fac) [ex_sched_zero]) = 14.
Proof.
  intros fac H. apply new_factory_wf in H as [_ H].
  assert (Hc : fac_cfg fac = decode_schedule (ex_sched 10 2)).
  { apply create_accepts_iff in H. apply H. }
  rewrite Hc. repeat split; vm_compute; reflexivity.
Qed.

(* a priced execution: NFT create of 3 + 1 + 1 + 1 + 1 + 1 + 2 = 10 argument bytes under (cost 18, StorePerByte 2) is
   rejected at formula - 1 and leaves exactly 0 at the formula: see Properties/C06.v for executions with states;
   here the two schedules of the dependence theorem differ in every OTHER field *)
Definition ex_other (g : gascfg) : gascfg :=
  {| g_ChangeOwnerAddress := 1; g_ClaimDeveloperRewards := 1; g_SaveUserName := 1; g_SaveKeyValue := 1; g_ESDTTransfer := 1;
     g_ESDTBurn := 1; g_ESDTLocalMint := g_ESDTLocalMint g; g_ESDTLocalBurn := 1; g_ESDTNFTCreate := 1; g_ESDTNFTAddQuantity := 1;
     g_ESDTNFTBurn := 1; g_ESDTNFTTransfer := 1; g_ESDTNFTChangeCreateOwner := 1; g_ESDTNFTMultiTransfer := 1;
     g_ESDTNFTAddURI := 1; g_ESDTNFTUpdateAttributes := 1; g_StorePerByte := 1; g_ReleasePerByte := 1;
     g_DataCopyPerByte := 1; g_PersistPerByte := 1; g_CompilePerByte := 1; g_AoTPreparePerByte := 1 |}.
Example C16_ex_same_prices : forall g,
  same_prices_for C.BuiltInFunctionESDTLocalMint g (ex_other g)
  /\ reads_per_byte C.BuiltInFunctionESDTLocalMint = false
  /\ reads_per_byte C.BuiltInFunctionESDTNFTCreate = true.
Proof. intros g. split; [split; [reflexivity|discriminate]|split; reflexivity]. Qed.
