(* Property C02 — supply changes only by the stated amount; no overdraft, never negative.
   Only statements, each closed by [exact] of a lemma of LedgerProofs/C02_Effects.v (1-3), C02_NonNeg.v and
   C02_World.v (4), C02_Examples.v (witnesses, non-vacuity); pins; Print Assumptions.

   Reading guide.  [E : env] is ARBITRARY (any fault plan, coordinator, payability oracle, gas schedule); its codec
   satisfies [codec_ok].  Every statement is about [exec E f i s = (Ok o, s')], the dispatch over the 23 registered
   function names; [s], [s'] are the states of ONE shard before / after the call (a failed call is rolled back by
   the node: World.run_on).  [balance E s a k] is the value of the decoded entry of account [a] under the FULL storage
   key [k]; token cells are [P ++ tok] (fungible) and [nft_key (P ++ tok) nonce = P ++ tok ++ nonce bytes];
   [argn i n] is the n-th call argument, [bigZ] / [bigU64] read it as big.Int / uint64;
   [at_cell a k a0 k0] is the boolean "a = a0 and k = k0".
   Known findings that shape the statements (DESIGN.md section 7):
   - F4b: the four functions that rewrite an NFT entry (AddQuantity, NFTBurn, AddURI, UpdateAttributes) store it back
     under its METADATA nonce.  The account-level statements carry [lookup_consistent] (the entry found under the
     requested nonce carries that nonce); the cell-level statements ([..._cell]) hold without it.
   - F8: ESDTPause / ESDTUnPause write the 2-byte flag under [P ++ tok] in the system account [SYS]; a holding of
     that account under the same key is overwritten.  C02_other_functions_preserve_balances excludes exactly that
     cell, C02_other_functions_preserve_balances_refuted is the witness.
   - ESDTNFTCreate writes the cell of the next nonce unconditionally: "fresh" is an explicit hypothesis
     ([cell s caller key = []]); it can fail when the caller's counter was regressed (F9: re-delivered hand-over;
     role transfer zeroing the old owner's counter, then the create role granted again) or when the token has two
     creators (each account counts on its own) and one received the other's entry: C02_create_not_fresh_overwrites.
   "Never negative" is an INVARIANT: [NonNeg] holds of a state without token cells and is preserved by every
   successful call of every function on EVERY input (no F4b / F8 / payload / presence hypothesis), hence by every
   world step and every operation list ([wrun], all of OCall / ODeliver / ORedeliver / ORefund, any arguments).
   It needs one more fact about the codec, [flag_nonneg]: if the 2-byte pause flag decodes as a token at all, its
   value is not negative (it does not decode: C02_flag_facts). *)
From Coq.Strings Require Import String.
From EV Require Import Base.Bytes Base.Store Base.Monad gen.Consts Codec.Types Codec.CodecOk Helpers.Helpers
  Ledger.Types Ledger.Env Ledger.Funcs Ledger.Transfers Ledger.World Corr.Exec
  LedgerProofs.Defs LedgerProofs.EnvSpec LedgerProofs.WorldDefs LedgerProofs.WorldSpec
  LedgerProofs.Spec_Transfers_Base LedgerProofs.Spec_Transfers_Esdt LedgerProofs.Spec_Transfers_Nft
  LedgerProofs.Spec_Transfers_Multi LedgerProofs.Spec_Transfers LedgerProofs.Spec_Supply LedgerProofs.Spec_System
  LedgerProofs.C02_Effects LedgerProofs.C02_NonNeg LedgerProofs.C02_World LedgerProofs.C02_Examples.

(* ---- pins ---- *)
(* the function names of the property text, and the three-way split of the 23 registered names *)
Example C02_pinned_names :
  C.BuiltInFunctionESDTLocalMint = str "ESDTLocalMint"%string
  /\ C.BuiltInFunctionESDTNFTAddQuantity = str "ESDTNFTAddQuantity"%string
  /\ C.BuiltInFunctionESDTNFTCreate = str "ESDTNFTCreate"%string
  /\ C.BuiltInFunctionESDTLocalBurn = str "ESDTLocalBurn"%string
  /\ C.BuiltInFunctionESDTBurn = str "ESDTBurn"%string
  /\ C.BuiltInFunctionESDTNFTBurn = str "ESDTNFTBurn"%string
  /\ C.BuiltInFunctionESDTWipe = str "ESDTWipe"%string
  /\ length builtin_names = 23%nat /\ length supply_changing_funs = 7%nat
  /\ length transfer_funs = 3%nat /\ length other_funs = 13%nat.
Proof. repeat split. Qed.
Example C02_function_partition : forall f,
  In f builtin_names <-> In f supply_changing_funs \/ In f transfer_funs \/ In f other_funs.
Proof. exact funs_partition. Qed.
Example C02_other_funs :
  other_funs =
  [C.BuiltInFunctionESDTFreeze; C.BuiltInFunctionESDTUnFreeze; C.BuiltInFunctionESDTPause; C.BuiltInFunctionESDTUnPause;
   C.BuiltInFunctionSetESDTRole; C.BuiltInFunctionUnSetESDTRole; C.BuiltInFunctionESDTNFTCreateRoleTransfer;
   C.BuiltInFunctionChangeOwnerAddress; C.BuiltInFunctionClaimDeveloperRewards; C.BuiltInFunctionSetUserName;
   C.BuiltInFunctionSaveKeyValue; C.BuiltInFunctionESDTNFTAddURI; C.BuiltInFunctionESDTNFTUpdateAttributes].
Proof. reflexivity. Qed.
(* the vocabulary, written out *)
Example C02_definitions_unfolded : forall (E : env) (s : mstate) (a key : bytes) (nonce : N) (i : input) (c : codec),
  (NonNeg E s <-> forall a x t, tok_at E s a (P ++ x) = Some t -> (0 <= val_or_0 t)%Z)
  /\ (StoredPositive E s <-> forall a x t, tok_at E s a (P ++ x) = Some t ->
        (0 < val_or_0 t)%Z \/ (t_value t = Some 0%Z /\ t_type t = C.Fungible /\ all_zero (t_props t) = false))
  /\ (lookup_consistent E s a key nonce <-> forall t, tok_at E s a (nft_key key nonce) = Some t -> tok_nonce t = nonce)
  /\ (flag_nonneg c <-> forall f t, dec_tok c (flag_bytes f) = Some t -> (0 <= val_or_0 t)%Z)
  /\ create_nonce i s = u64 (counter_at s (i_caller i) (argn i 0) + 1)
  /\ nft_key key nonce = key ++ u64_bytes nonce
  /\ (forall a0 k0, at_cell a key a0 k0 = true <-> a = a0 /\ key = k0).
Proof.
  intros. split; [reflexivity|]. split; [reflexivity|]. split; [reflexivity|]. split; [reflexivity|].
  split; [reflexivity|]. split; [reflexivity|]. intros. apply at_cell_true.
Qed.
(* the codec fact: the 2-byte pause flag does not decode as a token, for the protobuf codec and the ideal codec *)
Theorem C02_flag_facts :
  flag_nonneg the_codec /\ flag_positive the_codec /\ flag_nonneg ideal_codec /\ flag_positive ideal_codec.
Proof. exact (conj flag_nonneg_proto (conj flag_positive_proto (conj flag_nonneg_ideal flag_positive_ideal))). Qed.

(* ================================================================ *)
(* 1. the exact effect of the seven supply functions                  *)
(* ================================================================ *)
(* ESDTLocalMint: the caller's fungible cell grows by exactly the amount; every other cell of every account is unchanged *)
Theorem C02_local_mint_effect : forall (E : env), codec_ok (cdc E) -> forall i s o s',
  exec E C.BuiltInFunctionESDTLocalMint i s = (Ok o, s') ->
  forall a k, balance E s' a k =
    (balance E s a k + (if at_cell a k (i_caller i) (P ++ argn i 0) then bigZ (argn i 1) else 0))%Z.
Proof. exact supply_balance_effect_exec_local_mint. Qed.

(* ESDTLocalBurn and ESDTBurn: shrinks by exactly the amount *)
Theorem C02_local_burn_effect : forall (E : env), codec_ok (cdc E) -> forall i s o s',
  exec E C.BuiltInFunctionESDTLocalBurn i s = (Ok o, s') ->
  forall a k, balance E s' a k =
    (balance E s a k + (if at_cell a k (i_caller i) (P ++ argn i 0) then - bigZ (argn i 1) else 0))%Z.
Proof. exact supply_balance_effect_exec_local_burn. Qed.
Theorem C02_esdt_burn_effect : forall (E : env), codec_ok (cdc E) -> forall i s o s',
  exec E C.BuiltInFunctionESDTBurn i s = (Ok o, s') ->
  forall a k, balance E s' a k =
    (balance E s a k + (if at_cell a k (i_caller i) (P ++ argn i 0) then - bigZ (argn i 1) else 0))%Z.
Proof. exact supply_balance_effect_exec_esdt_burn. Qed.

(* ESDTNFTCreate, unconditional part: the next nonce is u64(counter + 1); afterwards its cell holds EXACTLY the
   (positive) quantity, the counter is that nonce and is returned; no other balance cell changed *)
Theorem C02_nft_create_cell : forall (E : env), codec_ok (cdc E) -> forall i s o s',
  exec E C.BuiltInFunctionESDTNFTCreate i s = (Ok o, s') ->
  let fresh := nft_key (P ++ argn i 0) (create_nonce i s) in
  create_nonce i s = u64 (counter_at s (i_caller i) (argn i 0) + 1)
  /\ (0 < bigZ (argn i 1))%Z
  /\ balance E s' (i_caller i) fresh = bigZ (argn i 1)
  /\ counter_at s' (i_caller i) (argn i 0) = create_nonce i s
  /\ o_returnData o = [u64_bytes (create_nonce i s)]
  /\ forall a k, ~ (a = i_caller i /\ (k = fresh \/ k = NP ++ argn i 0)) -> balance E s' a k = balance E s a k.
Proof. exact supply_balance_effect_exec_nft_create_cell. Qed.
(* ... and under the freshness hypothesis (nothing stored under the next nonce) the supply under that cell grows by
   exactly the quantity (k <> NP ++ tok: the counter cell is not a token cell) *)
Theorem C02_nft_create_effect : forall (E : env), codec_ok (cdc E) -> forall i s o s',
  exec E C.BuiltInFunctionESDTNFTCreate i s = (Ok o, s') ->
  cell s (i_caller i) (nft_key (P ++ argn i 0) (create_nonce i s)) = [] ->
  forall a k, k <> NP ++ argn i 0 ->
    balance E s' a k =
    (balance E s a k + (if at_cell a k (i_caller i) (nft_key (P ++ argn i 0) (create_nonce i s))
                        then bigZ (argn i 1) else 0))%Z.
Proof. exact supply_balance_effect_exec_nft_create. Qed.

(* ESDTNFTAddQuantity / ESDTNFTBurn, account level (F4b hypothesis; add quantity: the holding is not negative,
   which is NonNeg) *)
Theorem C02_nft_add_quantity_effect : forall (E : env), codec_ok (cdc E) -> forall i s o s',
  exec E C.BuiltInFunctionESDTNFTAddQuantity i s = (Ok o, s') ->
  lookup_consistent E s (i_caller i) (P ++ argn i 0) (bigU64 (argn i 1)) ->
  (0 <= balance E s (i_caller i) (nft_key (P ++ argn i 0) (bigU64 (argn i 1))))%Z ->
  forall a k, balance E s' a k =
    (balance E s a k + (if at_cell a k (i_caller i) (nft_key (P ++ argn i 0) (bigU64 (argn i 1)))
                        then bigZ (argn i 2) else 0))%Z.
Proof. exact supply_balance_effect_exec_nft_add_quantity. Qed.
Theorem C02_nft_burn_effect : forall (E : env), codec_ok (cdc E) -> forall i s o s',
  exec E C.BuiltInFunctionESDTNFTBurn i s = (Ok o, s') ->
  lookup_consistent E s (i_caller i) (P ++ argn i 0) (bigU64 (argn i 1)) ->
  forall a k, balance E s' a k =
    (balance E s a k + (if at_cell a k (i_caller i) (nft_key (P ++ argn i 0) (bigU64 (argn i 1)))
                        then - bigZ (argn i 2) else 0))%Z.
Proof. exact supply_balance_effect_exec_nft_burn. Qed.
(* the same two, cell level, no F4b hypothesis: the entry found under the requested nonce (value v) is stored back
   under its metadata nonce with value v + amount (deleted if that is <= 0) resp. v - amount (amount <= v) *)
Theorem C02_nft_add_quantity_cell : forall (E : env), codec_ok (cdc E) -> forall i s o s',
  exec E C.BuiltInFunctionESDTNFTAddQuantity i s = (Ok o, s') ->
  exists t m v, tok_at E s (i_caller i) (nft_key (P ++ argn i 0) (bigU64 (argn i 1))) = Some t
    /\ t_meta t = Some m /\ t_value t = Some v
    /\ balance E s' (i_caller i) (nft_key (P ++ argn i 0) (md_nonce m)) = Z.max 0 (v + bigZ (argn i 2))
    /\ forall a k, ~ (a = i_caller i /\ k = nft_key (P ++ argn i 0) (md_nonce m)) -> balance E s' a k = balance E s a k.
Proof. exact supply_balance_effect_exec_nft_add_quantity_cell. Qed.
Theorem C02_nft_burn_cell : forall (E : env), codec_ok (cdc E) -> forall i s o s',
  exec E C.BuiltInFunctionESDTNFTBurn i s = (Ok o, s') ->
  exists t m v, tok_at E s (i_caller i) (nft_key (P ++ argn i 0) (bigU64 (argn i 1))) = Some t
    /\ t_meta t = Some m /\ t_value t = Some v /\ (bigZ (argn i 2) <= v)%Z
    /\ balance E s' (i_caller i) (nft_key (P ++ argn i 0) (md_nonce m)) = (v - bigZ (argn i 2))%Z
    /\ forall a k, ~ (a = i_caller i /\ k = nft_key (P ++ argn i 0) (md_nonce m)) -> balance E s' a k = balance E s a k.
Proof. exact supply_balance_effect_exec_nft_burn_cell. Qed.

(* ESDTWipe: the recipient's entry was frozen, its fungible holding is removed entirely, nothing else changes *)
Theorem C02_wipe_effect : forall (E : env), codec_ok (cdc E) -> forall i s o s',
  exec E C.BuiltInFunctionESDTWipe i s = (Ok o, s') ->
  i_args i = [argn i 0]
  /\ frozen_at E s (i_rcpt i) (P ++ argn i 0) = true
  /\ balance E s' (i_rcpt i) (P ++ argn i 0) = 0%Z
  /\ forall a k, balance E s' a k =
       (balance E s a k - (if at_cell a k (i_rcpt i) (P ++ argn i 0) then balance E s (i_rcpt i) (P ++ argn i 0) else 0))%Z.
Proof. exact supply_balance_effect_exec_wipe. Qed.

(* all eight functions of Spec_Supply in one statement (tables supply_name / supply_key / supply_delta /
   supply_consistent / supply_balance_pre of LedgerProofs/Spec_Supply.v) *)
Theorem C02_supply_balance_effect : forall (E : env), codec_ok (cdc E) -> forall f i s o s',
  exec E (supply_name f) i s = (Ok o, s') -> supply_consistent E f i s -> supply_balance_pre E f i s ->
  forall a k, (f = SNftCreate -> k <> NP ++ argn i 0) ->
    balance E s' a k =
    (balance E s a k + (if at_cell a k (i_caller i) (supply_key f i s) then supply_delta f i else 0))%Z.
Proof. exact supply_balance_effect_exec. Qed.

(* ================================================================ *)
(* 2. every other function leaves every token balance unchanged       *)
(* ================================================================ *)
(* the 13 functions of [other_funs], every account, every protocol token key P ++ x; F8 exclusion for pause/unpause;
   F4b + non-negative holding for the two functions that rewrite the caller's NFT entry *)
Theorem C02_other_functions_preserve_balances : forall (E : env), codec_ok (cdc E) -> forall f i s o s',
  exec E f i s = (Ok o, s') -> In f other_funs ->
  (f = C.BuiltInFunctionESDTNFTAddURI \/ f = C.BuiltInFunctionESDTNFTUpdateAttributes ->
     lookup_consistent E s (i_caller i) (P ++ argn i 0) (bigU64 (argn i 1))
     /\ (0 <= balance E s (i_caller i) (nft_key (P ++ argn i 0) (bigU64 (argn i 1))))%Z) ->
  forall a x,
    (f = C.BuiltInFunctionESDTPause \/ f = C.BuiltInFunctionESDTUnPause -> ~ (a = SYS /\ x = argn i 0)) ->
    balance E s' a (P ++ x) = balance E s a (P ++ x).
Proof. exact other_functions_preserve_balances. Qed.
(* F8, exactly: what the excluded cell holds afterwards is whatever the flag bytes decode to *)
Theorem C02_pause_overwrites_system_holding : forall (E : env) f i s o s',
  exec E f i s = (Ok o, s') -> f = C.BuiltInFunctionESDTPause \/ f = C.BuiltInFunctionESDTUnPause ->
  i_args i = [argn i 0]
  /\ balance E s' SYS (P ++ argn i 0) = bal_of_bytes E (flag_bytes (beqb f C.BuiltInFunctionESDTPause)).
Proof. exact pause_overwrites_system_holding. Qed.
(* FINDING F8 (known): witness that the exclusion cannot be dropped -- the system account holds 6 units, ESDTPause
   succeeds, the holding reads 0 afterwards; all other hypotheses hold *)
Theorem C02_other_functions_preserve_balances_refuted :
  exists E f i s o s' a x,
    codec_ok (cdc E) /\ exec E f i s = (Ok o, s') /\ In f other_funs
    /\ (rewrites_entry_fn f -> lookup_consistent E s (i_caller i) (P ++ argn i 0) (bigU64 (argn i 1))
                               /\ (0 <= balance E s (i_caller i) (nft_key (P ++ argn i 0) (bigU64 (argn i 1))))%Z)
    /\ NonNeg E s
    /\ is_pause_fn f /\ a = SYS /\ x = argn i 0
    /\ balance E s a (P ++ x) = 6%Z /\ balance E s' a (P ++ x) = 0%Z.
Proof. exact other_functions_preserve_balances_refuted. Qed.

(* ================================================================ *)
(* 3. overdraft                                                       *)
(* ================================================================ *)
(* [overdrawn E f i s]: f is one of the six debiting functions and the amount asked for exceeds the holding of the
   debited cell (unfolded in C02_overdrawn_unfolded); such a call is never Ok *)
Theorem C02_overdraft_fails : forall (E : env), codec_ok (cdc E) -> forall f i s,
  overdrawn E f i s -> forall o s', exec E f i s <> (Ok o, s').
Proof. exact overdraft_fails. Qed.
Example C02_overdrawn_unfolded : forall (E : env) f i s,
  overdrawn E f i s <->
  (f = C.BuiltInFunctionESDTLocalBurn /\ (balance E s (i_caller i) (P ++ argn i 0) < bigZ (argn i 1))%Z)
  \/ (f = C.BuiltInFunctionESDTBurn /\ (balance E s (i_caller i) (P ++ argn i 0) < bigZ (argn i 1))%Z)
  \/ (f = C.BuiltInFunctionESDTNFTBurn
      /\ (balance E s (i_caller i) (nft_key (P ++ argn i 0) (bigU64 (argn i 1))) < bigZ (argn i 2))%Z)
  \/ (f = C.BuiltInFunctionESDTTransfer /\ i_snd i = true
      /\ (balance E s (i_caller i) (P ++ argn i 0) < bigZ (argn i 1))%Z)
  \/ (f = C.BuiltInFunctionESDTNFTTransfer /\ i_caller i = i_rcpt i
      /\ (balance E s (i_caller i) (nft_key (P ++ argn i 0) (bigU64 (argn i 1))) < bigZ (argn i 2))%Z)
  \/ (f = C.BuiltInFunctionMultiESDTNFTTransfer /\ i_caller i = i_rcpt i
      /\ Forall (fun x => lookup_consistent E s (i_caller i) (P ++ rt_tok x) (rt_nonce x)) (multi_snd_triples i)
      /\ (multi_same E i = true -> forall k, (0 <= balance E s (multi_dst i) k)%Z)
      /\ exists x, In x (multi_snd_triples i)
           /\ (balance E s (i_caller i) (rt_cell x) < qty_list (rt_cell x) (debit_list (multi_snd_triples i)))%Z).
Proof. intros. reflexivity. Qed.
(* single-function readings *)
Theorem C02_overdraft_fails_local_burn : forall (E : env), codec_ok (cdc E) -> forall i s o s',
  (balance E s (i_caller i) (P ++ argn i 0) < bigZ (argn i 1))%Z ->
  exec E C.BuiltInFunctionESDTLocalBurn i s <> (Ok o, s').
Proof. exact overdraft_fails_local_burn. Qed.
Theorem C02_overdraft_fails_esdt_burn : forall (E : env), codec_ok (cdc E) -> forall i s o s',
  (balance E s (i_caller i) (P ++ argn i 0) < bigZ (argn i 1))%Z ->
  exec E C.BuiltInFunctionESDTBurn i s <> (Ok o, s').
Proof. exact overdraft_fails_esdt_burn. Qed.
Theorem C02_overdraft_fails_nft_burn : forall (E : env), codec_ok (cdc E) -> forall i s o s',
  (balance E s (i_caller i) (nft_key (P ++ argn i 0) (bigU64 (argn i 1))) < bigZ (argn i 2))%Z ->
  exec E C.BuiltInFunctionESDTNFTBurn i s <> (Ok o, s').
Proof. exact overdraft_fails_nft_burn. Qed.
Theorem C02_overdraft_fails_esdt_transfer : forall (E : env), codec_ok (cdc E) -> forall i s o s',
  i_snd i = true -> (balance E s (i_caller i) (P ++ argn i 0) < bigZ (argn i 1))%Z ->
  exec E C.BuiltInFunctionESDTTransfer i s <> (Ok o, s').
Proof. exact overdraft_fails_esdt_transfer. Qed.
Theorem C02_overdraft_fails_nft_transfer : forall (E : env), codec_ok (cdc E) -> forall i s o s',
  i_caller i = i_rcpt i ->
  (balance E s (i_caller i) (nft_key (P ++ argn i 0) (bigU64 (argn i 1))) < bigZ (argn i 2))%Z ->
  exec E C.BuiltInFunctionESDTNFTTransfer i s <> (Ok o, s').
Proof. exact overdraft_fails_nft_transfer. Qed.

(* ================================================================ *)
(* 4. no stored balance is ever negative                              *)
(* ================================================================ *)
(* per call: NonNeg is preserved by every successful call of every function, for every input *)
Theorem C02_balances_nonneg_exec : forall (E : env) f i s o s',
  codec_ok (cdc E) -> flag_nonneg (cdc E) -> NonNeg E s -> exec E f i s = (Ok o, s') -> NonNeg E s'.
Proof. exact NonNeg_exec. Qed.
(* the same on the observable: all balances of protocol token cells *)
Theorem C02_balances_nonneg : forall (E : env) f i s o s',
  codec_ok (cdc E) -> flag_nonneg (cdc E) ->
  (forall a x, (0 <= balance E s a (P ++ x))%Z) -> exec E f i s = (Ok o, s') ->
  forall a x, (0 <= balance E s' a (P ++ x))%Z.
Proof. exact balances_nonneg. Qed.
(* stronger: a stored value is positive unless the entry is fungible with property bytes set (kept for the frozen
   flag) -- a non-positive NFT value is deleted, never stored *)
Theorem C02_stored_positive_exec : forall (E : env) f i s o s',
  codec_ok (cdc E) -> flag_positive (cdc E) -> StoredPositive E s -> exec E f i s = (Ok o, s') -> StoredPositive E s'.
Proof. exact StoredPositive_exec. Qed.
Theorem C02_stored_positive_nonneg : forall (E : env) s, StoredPositive E s -> NonNeg E s.
Proof. exact StoredPositive_NonNeg. Qed.
(* the general principle both are instances of: any per-entry predicate closed under the four ways a token cell is
   written is an invariant of exec *)
Theorem C02_token_invariant_exec : forall (E : env) (good : token -> Prop) f i s o s',
  codec_ok (cdc E) -> good_closed E good -> TokInv E good s -> exec E f i s = (Ok o, s') -> TokInv E good s'.
Proof. exact TokInv_exec. Qed.

(* histories: every shard of the world stays NonNeg under one world step and under ALL operation lists *)
Theorem C02_balances_nonneg_wstep : forall (c : wcfg) w op,
  codec_ok (wc_cdc c) -> flag_nonneg (wc_cdc c) ->
  (forall sh, NonNeg (env_at c sh) (mk_state (shard_accts w sh))) ->
  forall sh, NonNeg (env_at c sh) (mk_state (shard_accts (wstep c w op) sh)).
Proof. exact balances_nonneg_wstep. Qed.
Theorem C02_balances_nonneg_histories : forall (c : wcfg) ops w,
  codec_ok (wc_cdc c) -> flag_nonneg (wc_cdc c) ->
  (forall sh, NonNeg (env_at c sh) (mk_state (shard_accts w sh))) ->
  forall sh, NonNeg (env_at c sh) (mk_state (shard_accts (wrun c w ops) sh)).
Proof. exact balances_nonneg_histories. Qed.
Theorem C02_stored_positive_histories : forall (c : wcfg) ops w,
  codec_ok (wc_cdc c) -> flag_positive (wc_cdc c) ->
  (forall sh, StoredPositive (env_at c sh) (mk_state (shard_accts w sh))) ->
  forall sh, StoredPositive (env_at c sh) (mk_state (shard_accts (wrun c w ops) sh)).
Proof. exact stored_positive_histories. Qed.
(* from the empty world: no reachable balance is negative *)
Theorem C02_balances_nonneg_reachable : forall (c : wcfg) n ops,
  codec_ok (wc_cdc c) -> flag_nonneg (wc_cdc c) ->
  forall sh a x, (0 <= balance (env_at c sh) (mk_state (shard_accts (wrun c (empty_world n) ops) sh)) a (P ++ x))%Z.
Proof. exact balances_nonneg_reachable. Qed.

(* a failed call changes nothing: the node keeps the shard's accounts when exec does not return Ok *)
Theorem C02_failed_call_rolled_back : forall (c : wcfg) w sh fn i r m',
  run_on c w sh fn i = (r, m') -> (forall o, r <> Ok o) -> m' = shard_accts w sh.
Proof. exact run_on_not_ok. Qed.

(* ================================================================ *)
(* 5. non-vacuity (ideal_codec, concrete state cS: alice 5 TOK + 3 of NFT#7, carol 4 TOK frozen, SYS 6 TOK)       *)
(* ================================================================ *)
Example C02_nonvacuous_state : codec_ok (cdc cE) /\ flag_nonneg (cdc cE) /\ flag_positive (cdc cE)
  /\ NonNeg cE cS /\ StoredPositive cE cS.
Proof. exact (conj cE_ok (conj cE_flag_nonneg (conj cE_flag_positive (conj cS_nonneg cS_positive)))). Qed.
(* mint 7: 5 -> 12, and the post-state is NonNeg again *)
Example C02_nonvacuous_mint : exists o s', exec cE C.BuiltInFunctionESDTLocalMint in_mint cS = (Ok o, s')
  /\ balance cE s' alice (P ++ tokA) = (balance cE cS alice (P ++ tokA) + 7)%Z /\ NonNeg cE s'.
Proof. exact inst_mint. Qed.
(* burn exactly the holding: Ok, 5 -> 0; one more: overdrawn, error *)
Example C02_nonvacuous_local_burn : exists o s', exec cE C.BuiltInFunctionESDTLocalBurn (in_lburn 5) cS = (Ok o, s')
  /\ balance cE s' alice (P ++ tokA) = (balance cE cS alice (P ++ tokA) - 5)%Z.
Proof. exact inst_local_burn. Qed.
Example C02_nonvacuous_overdraft :
  overdrawn cE C.BuiltInFunctionESDTLocalBurn (in_lburn 6) cS
  /\ fst (exec cE C.BuiltInFunctionESDTLocalBurn (in_lburn 6) cS) = Err EInsufficientFunds
  /\ overdrawn cE C.BuiltInFunctionESDTTransfer (in_xfer_out 6) cS
  /\ fst (exec cE C.BuiltInFunctionESDTTransfer (in_xfer_out 6) cS) = Err EInsufficientFunds
  /\ overdrawn cE C.BuiltInFunctionMultiESDTNFTTransfer (in_mxfer 2 2) cS
  /\ fst (exec cE C.BuiltInFunctionMultiESDTNFTTransfer (in_mxfer 2 2) cS) = Err EInvalidNFTQuantity
  /\ fst (exec cE C.BuiltInFunctionESDTNFTBurn (in_nburn 4) cS) = Err EInvalidNFTQuantity
  /\ fst (exec cE C.BuiltInFunctionESDTNFTTransfer (in_nxfer 4) cS) = Err EInvalidNFTQuantity.
Proof.
  exact (conj inst_overdraft_local_burn (conj ex_local_burn_overdraft (conj inst_overdraft_transfer
        (conj ex_transfer_overdraft (conj inst_overdraft_multi (conj ex_multi_transfer_overdraft
        (conj ex_nft_burn_overdraft ex_nft_transfer_overdraft))))))).
Qed.
(* create under a fresh nonce (counter 9 -> nonce 10, quantity 2) *)
Example C02_nonvacuous_create : exists o s', exec cE C.BuiltInFunctionESDTNFTCreate in_create cS = (Ok o, s')
  /\ create_nonce in_create cS = 10%N
  /\ cell cS alice (nft_key (P ++ tokN) (create_nonce in_create cS)) = []
  /\ balance cE s' alice (nft_key (P ++ tokN) 10) = (balance cE cS alice (nft_key (P ++ tokN) 10) + 2)%Z.
Proof. exact inst_create. Qed.
(* the freshness hypothesis is needed: counter regressed to 6, nonce 7 occupied by 3 units, create(2) leaves 2 *)
Example C02_create_not_fresh_overwrites :
  okI (exec cE C.BuiltInFunctionESDTNFTCreate in_create) (cS_with 6)
    (fun _ s' => (bal (cS_with 6) alice (nft_key (P ++ tokN) 7) =? 3)%Z && (bal s' alice (nft_key (P ++ tokN) 7) =? 2)%Z
                 && (counter_at s' alice tokN =? 7)%N) = true.
Proof. exact create_not_fresh_overwrites. Qed.
Example C02_nonvacuous_add_quantity : exists o s', exec cE C.BuiltInFunctionESDTNFTAddQuantity in_addq cS = (Ok o, s')
  /\ balance cE s' alice (nft_key (P ++ tokN) 7) = (balance cE cS alice (nft_key (P ++ tokN) 7) + 4)%Z.
Proof. exact inst_add_quantity. Qed.
Example C02_nonvacuous_wipe : exists o s', exec cE C.BuiltInFunctionESDTWipe (in_wipe carol) cS = (Ok o, s')
  /\ balance cE cS carol (P ++ tokA) = 4%Z /\ balance cE s' carol (P ++ tokA) = 0%Z
  /\ balance cE s' alice (P ++ tokA) = balance cE cS alice (P ++ tokA).
Proof. exact inst_wipe. Qed.
(* other functions: pause (outside the excluded cell), freeze, update attributes *)
Example C02_nonvacuous_other :
  (exists o s', exec cE C.BuiltInFunctionESDTPause in_pause cS = (Ok o, s')
     /\ balance cE s' alice (P ++ tokA) = balance cE cS alice (P ++ tokA)
     /\ balance cE s' carol (P ++ tokA) = balance cE cS carol (P ++ tokA))
  /\ (exists o s', exec cE C.BuiltInFunctionESDTFreeze in_freeze cS = (Ok o, s')
     /\ frozen_at cE s' alice (P ++ tokA) = true
     /\ forall a x, balance cE s' a (P ++ x) = balance cE cS a (P ++ x))
  /\ (exists o s', exec cE C.BuiltInFunctionESDTNFTUpdateAttributes in_upd cS = (Ok o, s')
     /\ forall a x, balance cE s' a (P ++ x) = balance cE cS a (P ++ x)).
Proof. exact (conj inst_other_pause inst_other_freeze_update). Qed.
(* invariants after a call that deletes an entry; and over a two-shard history from the empty world (grant role,
   mint 10, send 4 cross-shard, an overdraft attempt that is rolled back, re-delivery and delivery of the message) *)
Example C02_nonvacuous_invariants :
  (exists o s', exec cE C.BuiltInFunctionESDTLocalBurn (in_lburn 5) cS = (Ok o, s') /\ NonNeg cE s' /\ StoredPositive cE s')
  /\ (let w := wrun cW (empty_world 2) cOps in
      (wbal w 0 alice (P ++ tokA) =? 6)%Z && (wbal w 1 bob (P ++ tokA) =? 8)%Z && Nat.eqb (length (inflight w)) 0 = true)
  /\ WNonNeg cW (wrun cW (empty_world 2) cOps) /\ WStoredPositive cW (wrun cW (empty_world 2) cOps).
Proof. exact (conj inst_nonneg_exec (conj ex_history inst_history)). Qed.

(* adversarial input: a delivered NFT payload with value -5 meets a holding of 3: Ok, the entry is deleted, nothing
   negative is stored *)
Example C02_nonvacuous_forged_payload : exists o s', exec cE C.BuiltInFunctionESDTNFTTransfer in_forged cS = (Ok o, s')
  /\ NonNeg cE s' /\ balance cE s' alice (nft_key (P ++ tokN) 7) = 0%Z.
Proof. exact inst_forged_negative_payload. Qed.

Print Assumptions C02_failed_call_rolled_back.
Print Assumptions C02_local_mint_effect.
Print Assumptions C02_local_burn_effect.
Print Assumptions C02_esdt_burn_effect.
Print Assumptions C02_nft_create_cell.
Print Assumptions C02_nft_create_effect.
Print Assumptions C02_nft_add_quantity_effect.
Print Assumptions C02_nft_burn_effect.
Print Assumptions C02_nft_add_quantity_cell.
Print Assumptions C02_nft_burn_cell.
Print Assumptions C02_wipe_effect.
Print Assumptions C02_supply_balance_effect.
Print Assumptions C02_other_functions_preserve_balances.
Print Assumptions C02_pause_overwrites_system_holding.
Print Assumptions C02_other_functions_preserve_balances_refuted.
Print Assumptions C02_overdraft_fails.
Print Assumptions C02_overdraft_fails_local_burn.
Print Assumptions C02_overdraft_fails_esdt_burn.
Print Assumptions C02_overdraft_fails_nft_burn.
Print Assumptions C02_overdraft_fails_esdt_transfer.
Print Assumptions C02_overdraft_fails_nft_transfer.
Print Assumptions C02_balances_nonneg_exec.
Print Assumptions C02_balances_nonneg.
Print Assumptions C02_stored_positive_exec.
Print Assumptions C02_stored_positive_nonneg.
Print Assumptions C02_token_invariant_exec.
Print Assumptions C02_balances_nonneg_wstep.
Print Assumptions C02_balances_nonneg_histories.
Print Assumptions C02_stored_positive_histories.
Print Assumptions C02_balances_nonneg_reachable.
Print Assumptions C02_flag_facts.
Print Assumptions C02_nonvacuous_invariants.
