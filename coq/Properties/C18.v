(* Property C18 — activation follows confirmed epochs; registry complete and correctly bound.
   Only statements, each closed by [exact] of a lemma proved elsewhere, and their assumptions. *)
From Coq.Strings Require Import String.
From EV Require Import Base.Bytes gen.Consts gen.Registry Concurrency.Activation Concurrency.RegistryTable.

(* the 23 protocol names of the property text, pinned against the generated constants *)
Example C18_pinned_names :
  List.length protocol_names = 23%nat
  /\ protocol_names = [
    C.BuiltInFunctionClaimDeveloperRewards; C.BuiltInFunctionChangeOwnerAddress; C.BuiltInFunctionSetUserName;
    C.BuiltInFunctionSaveKeyValue; C.BuiltInFunctionESDTTransfer; C.BuiltInFunctionESDTBurn;
    C.BuiltInFunctionESDTFreeze; C.BuiltInFunctionESDTUnFreeze; C.BuiltInFunctionESDTWipe;
    C.BuiltInFunctionESDTPause; C.BuiltInFunctionESDTUnPause; C.BuiltInFunctionSetESDTRole;
    C.BuiltInFunctionUnSetESDTRole; C.BuiltInFunctionESDTLocalMint; C.BuiltInFunctionESDTLocalBurn;
    C.BuiltInFunctionESDTNFTTransfer; C.BuiltInFunctionESDTNFTCreate; C.BuiltInFunctionESDTNFTAddQuantity;
    C.BuiltInFunctionESDTNFTCreateRoleTransfer; C.BuiltInFunctionESDTNFTBurn; C.BuiltInFunctionESDTNFTAddURI;
    C.BuiltInFunctionESDTNFTUpdateAttributes; C.BuiltInFunctionMultiESDTNFTTransfer ]
  /\ C.BuiltInFunctionESDTFreeze = str "ESDTFreeze"%string
  /\ C.BuiltInFunctionESDTPause = str "ESDTPause"%string
  /\ C.BuiltInFunctionSetESDTRole = str "ESDTSetRole"%string
  /\ C.BuiltInFunctionMultiESDTNFTTransfer = str "MultiESDTNFTTransfer"%string.
Proof. repeat split. Qed.

(* a function with an activation epoch is inactive until the first notification ... *)
Theorem C18_inactive_before_first_notification : forall a, is_active (init (Enabled a)) = false.
Proof. exact inactive_before_first_notification. Qed.

(* ... and afterwards active exactly when the most recently confirmed epoch is >= its activation
   epoch, for every sequence (regressions and repeats included); N covers every uint32 *)
Theorem C18_active_iff_last_epoch : forall (a : N) (es : list N) (d : N),
  es <> [] -> is_active (fold_left confirm es (init (Enabled a))) = (a <=? last es d)%N.
Proof. exact active_iff_last_epoch. Qed.

(* the same after every single notification of the sequence *)
Theorem C18_trace_spec : forall a es, trace (init (Enabled a)) es = map (fun e => (a <=? e)%N) es.
Proof. intros a es. apply trace_spec. reflexivity. Qed.

(* every other function is always active *)
Theorem C18_always_active : forall es, is_active (fold_left confirm es (init AlwaysActive)) = true.
Proof. exact always_active. Qed.

(* non-vacuity of the hypothesis es <> [] and a regression *)
Example C18_nonvacuous :
  [7; 2]%N <> [] /\ is_active (fold_left confirm [7; 2]%N (init (Enabled 3))) = false
  /\ is_active (fold_left confirm [2; 7]%N (init (Enabled 3))) = true.
Proof. repeat split. discriminate. Qed.

(* the generated registry: names NoDup, exactly the protocol's 23, every row equal to a row of the
   hand-written binding table, whose rows are consistent with ctor_types / gas_setters
   (own gas field in the constructor call AND in SetNewGasConfig, literal flags, activation epoch) *)
Theorem C18_registry_exact :
  NoDup (map reg_name registry)
  /\ List.length registry = 23%nat /\ List.length protocol_names = 23%nat
  /\ (forall n, In n (map reg_name registry) <-> In n protocol_names)
  /\ (forall r, In r registry <-> exists b, In b expected /\ row_of b = r)
  /\ (forall b, In b expected -> binding_ok b = true).
Proof. exact registry_exact. Qed.

Example C18_literal_bindings :
  In (str "ESDTFreeze", "NewESDTFreezeWipeFunc", ["b.marshalizer"; "true"; "false"])%string registry
  /\ In (str "ESDTUnFreeze", "NewESDTFreezeWipeFunc", ["b.marshalizer"; "false"; "false"])%string registry
  /\ In (str "ESDTWipe", "NewESDTFreezeWipeFunc", ["b.marshalizer"; "false"; "true"])%string registry
  /\ In (str "ESDTPause", "NewESDTPauseFunc", ["b.accounts"; "true"])%string registry
  /\ In (str "ESDTUnPause", "NewESDTPauseFunc", ["b.accounts"; "false"])%string registry
  /\ In (str "ESDTSetRole", "NewESDTRolesFunc", ["b.marshalizer"; "true"])%string registry
  /\ In (str "ESDTUnSetRole", "NewESDTRolesFunc", ["b.marshalizer"; "false"])%string registry.
Proof. exact freeze_binding. Qed.

Example C18_activation_epoch_carriers :
  map b_name (filter b_epoch expected)
  = [str "ESDTNFTUpdateAttributes"; str "ESDTNFTAddURI"; str "MultiESDTNFTTransfer"]%string.
Proof. exact activation_epoch_carriers. Qed.

Print Assumptions C18_pinned_names.
Print Assumptions C18_inactive_before_first_notification.
Print Assumptions C18_active_iff_last_epoch.
Print Assumptions C18_trace_spec.
Print Assumptions C18_always_active.
Print Assumptions C18_nonvacuous.
Print Assumptions C18_registry_exact.
Print Assumptions C18_literal_bindings.
Print Assumptions C18_activation_epoch_carriers.
