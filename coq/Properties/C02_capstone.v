(* Property C02, extension: ---- supply accounting over histories of HONEST operations: no F4b hypothesis ----
   Only statements, each closed by [exact] of a lemma of LedgerProofs/Capstone_*.v; pins; non-vacuity; assumptions.

   Reading guide (the vocabulary of Properties/C02.v and C02_supply.v -- [total], [pkey], [supply_delta], [supply_sum],
   [WInv'] -- is used unchanged).
   * C02_supply.v accounts for every history of [ok_op]s: that predicate asks F4b-consistency of every NFT lookup,
     freshness of every created nonce and the F8 exclusion of EVERY executed call, a delivered one included.  Here the
     hypothesis is [honest_ops] (C02c_vocabulary): conditions on the call -- executed on the caller's shard with the
     presence flags the shard table implies, naming VALID identifiers (ticker '-' 6 bytes), or one of the nine calls
     the system contract makes -- plus the freshness of the nonce an ESDTNFTCreate is about to issue and F8 for the
     pause calls; deliveries and refunds unconditionally; no re-delivery.  F4b-consistency is derived from the joint
     invariant [JInv] (= WInv' /\ C15's WInv /\ C11's PInv /\ VInv /\ WNonNeg /\ names of in-flight messages), which
     holds of the empty world and is kept by every honest operation.
   * C02c_supply_honest_histories: total k after = total k before + the sum of the stated supply changes, for every
     protocol key k.  C02c_supply_nonneg_honest_histories: no total is ever negative.
     C02c_balances_nonneg_honest_histories: after every prefix, no stored balance under a protocol key is negative, on
     any shard, for any account.
   * NOT covered: re-deliveries (F9); identifiers outside the protocol's shape (F4b); a create over an occupied nonce
     (F5 / counter wrap); pause over a holding of the system account (F8); forged presence flags; non-protocol keys. *)
From Coq.Strings Require Import String.
From Coq Require Import List.
From EV Require Import Base.Bytes Base.Store Base.Monad gen.Consts Codec.Types Codec.Proto Codec.Ideal Codec.CodecOk
  Helpers.Helpers Ledger.Types Ledger.Env Ledger.Funcs Ledger.Transfers Ledger.World Corr.Exec
  LedgerProofs.Defs LedgerProofs.EnvSpec LedgerProofs.WorldDefs LedgerProofs.WorldSpec
  LedgerProofs.Spec_Transfers_Base LedgerProofs.Spec_Transfers_Multi LedgerProofs.Spec_Supply
  LedgerProofs.C01_World LedgerProofs.C01_Step LedgerProofs.C01_Consistent
  LedgerProofs.C02_Effects LedgerProofs.C02_NonNeg LedgerProofs.C02_World LedgerProofs.C05_Footprint
  LedgerProofs.C15_Inv LedgerProofs.C15_World LedgerProofs.NoPanic LedgerProofs.NoPanicWorldEmit LedgerProofs.NoPanicWorld
  LedgerProofs.Supply_Base LedgerProofs.Supply_Calls LedgerProofs.Supply_Step
  LedgerProofs.ValidIds_Id LedgerProofs.ValidIds_Inv LedgerProofs.ValidIds_World
  LedgerProofs.Capstone_Defs LedgerProofs.Capstone_Step LedgerProofs.Capstone_Histories LedgerProofs.Capstone_Check
  LedgerProofs.Capstone_Examples LedgerProofs.Capstone_Decide.
Import ListNotations.

(* ================================================================ *)
(* pins: honest operations and the joint invariant, written out       *)
(* ================================================================ *)
Example C02c_vocabulary : forall (c : wcfg) (w : world) (op : wop) (r : list wop) (sh : N) (fn : bytes) (i : input) id gas,
  (honest_op c w (OCall sh fn i) <-> (alen (i_args i) < 2 ^ 40)%N /\ (user_call c w sh fn i \/ system_call c w sh fn i))
  /\ (honest_op c w (ODeliver id gas) <-> True) /\ (honest_op c w (ORefund id gas) <-> True)
  /\ (honest_op c w (ORedeliver id gas) <-> False)
  /\ (user_call c w sh fn i <->
        (wc_shard_of c (i_caller i) = sh /\ i_snd i = (wc_shard_of c (i_caller i) =? sh)%N
         /\ i_dst i = (wc_shard_of c (i_rcpt i) =? sh)%N)
        /\ i_caller i <> SC
        /\ (Forall valid_id (named_tokens fn i)
            /\ (fn = C.BuiltInFunctionMultiESDTNFTTransfer -> Forall (fun x => valid_id (rt_tok x)) (multi_snd_triples i)))
        /\ (fn = C.BuiltInFunctionESDTNFTCreate ->
            balance (env_at c sh) (mk_state (shard_accts w sh)) (i_caller i)
                    (nft_key (P ++ argn i 0) (create_nonce i (mk_state (shard_accts w sh)))) = 0%Z))
  /\ (system_call c w sh fn i <->
        In fn sys_fns /\ i_caller i = SC /\ i_snd i = false /\ i_dst i = true /\ Forall valid_id (named_tokens fn i)
        /\ (fn = C.BuiltInFunctionESDTPause \/ fn = C.BuiltInFunctionESDTUnPause ->
            i_rcpt i = SYS /\ balance (env_at c sh) (mk_state (shard_accts w sh)) SYS (P ++ argn i 0) = 0%Z)
        /\ (~ (fn = C.BuiltInFunctionESDTPause \/ fn = C.BuiltInFunctionESDTUnPause) ->
            wc_shard_of c (i_rcpt i) = sh /\ i_rcpt i <> SC)
        /\ (fn = C.BuiltInFunctionSetESDTRole -> forall tok, nth_error (i_args i) 0 = Some tok ->
            NoDup (roles_at (env_at c sh) (mk_state (shard_accts w sh)) (i_rcpt i) tok ++ skipn 1 (i_args i))))
  /\ sys_fns = [C.BuiltInFunctionESDTFreeze; C.BuiltInFunctionESDTUnFreeze; C.BuiltInFunctionESDTWipe;
                C.BuiltInFunctionESDTPause; C.BuiltInFunctionESDTUnPause; C.BuiltInFunctionSetESDTRole;
                C.BuiltInFunctionUnSetESDTRole; C.BuiltInFunctionESDTNFTCreateRoleTransfer; C.BuiltInFunctionESDTTransfer]
  /\ (honest_ops c w [] <-> True)
  /\ (honest_ops c w (op :: r) <-> honest_op c w op /\ honest_ops c (wstep c w op) r)
  /\ (JInv c w <->
        WInv' c w /\ C15_World.WInv c w /\ PInv c w /\ VInv c w /\ WNonNeg c w
        /\ Forall (fun m => ~ In (m_fn m) silent_fns) (inflight w))
  /\ silent_fns = [C.BuiltInFunctionESDTNFTAddQuantity; C.BuiltInFunctionESDTNFTBurn; C.BuiltInFunctionESDTNFTAddURI;
                   C.BuiltInFunctionESDTNFTUpdateAttributes; C.BuiltInFunctionESDTNFTCreate;
                   C.BuiltInFunctionESDTPause; C.BuiltInFunctionESDTUnPause; C.BuiltInFunctionUnSetESDTRole]
  /\ (WNonNeg c w <-> forall sh' a x t,
        tok_at (env_at c sh') (mk_state (shard_accts w sh')) a (P ++ x) = Some t -> (0 <= val_or_0 t)%Z).
Proof.
  intros. repeat (split; [reflexivity|]). split; [|split; reflexivity].
  split; [intros [H1 H2 H3 H4 H5 H6]; auto 10|intros (H1 & H2 & H3 & H4 & H5 & H6); constructor; assumption].
Qed.

(* ================================================================ *)
(* the theorems                                                       *)
(* ================================================================ *)
(* supply accounting, all 23 functions, deliveries and refunds: no F4b / ok_op hypothesis *)
Theorem C02c_supply_honest_histories : forall (c : wcfg), codec_ok (wc_cdc c) -> flag_undec (wc_cdc c) ->
  forall (w : world) (ops : list wop) (k : bytes), JInv c w -> honest_ops c w ops -> pkey k ->
  total c k (wrun c w ops) = (total c k w + supply_sum c w ops k)%Z.
Proof. exact capstone_supply. Qed.

(* no total is ever negative *)
Theorem C02c_supply_nonneg_honest_histories : forall (c : wcfg), codec_ok (wc_cdc c) -> flag_undec (wc_cdc c) ->
  forall (w : world) (ops : list wop) (k : bytes), JInv c w -> honest_ops c w ops -> pkey k ->
  (0 <= total c k (wrun c w ops))%Z.
Proof. exact capstone_supply_nonneg. Qed.

(* after every prefix: no stored balance under a protocol key is negative, any shard, any account *)
Theorem C02c_balances_nonneg_honest_histories : forall (c : wcfg), codec_ok (wc_cdc c) -> flag_undec (wc_cdc c) ->
  forall (w : world) (ops : list wop) (n : nat) (sh : N) (a x : bytes), JInv c w -> honest_ops c w ops ->
  (0 <= balance (env_at c sh) (mk_state (shard_accts (wrun c w (firstn n ops)) sh)) a (P ++ x))%Z.
Proof. intros c Hc Hf w ops n sh a x HJ Hops. exact (proj2 (capstone_wellformed c Hc Hf w ops n sh HJ Hops) a x). Qed.

(* one honest operation: invariant kept, every protocol-key total moves by exactly the stated supply change *)
Theorem C02c_honest_step : forall (c : wcfg), codec_ok (wc_cdc c) -> flag_undec (wc_cdc c) ->
  forall (w : world) (op : wop), JInv c w -> honest_op c w op ->
  JInv c (wstep c w op)
  /\ forall k, pkey k -> total c k (wstep c w op) = (total c k w + supply_delta c w op k)%Z.
Proof. exact honest_step. Qed.

(* the codec hypothesis implies the flag hypotheses of C02.v / C02_supply.v / C11.v *)
Theorem C02c_flag_undec_implies : forall (cd : codec), flag_undec cd -> flag_neutral cd /\ flag_nonneg cd /\ flag_ok cd.
Proof. intros cd H. exact (conj (flag_undec_neutral cd H) (conj (flag_undec_nonneg cd H) (flag_undec_ok cd H))). Qed.

(* ================================================================ *)
(* non-vacuity                                                        *)
(* ================================================================ *)
(* (a) the joint invariant holds of the empty world with enough shards *)
Theorem C02c_JInv_empty : forall (c : wcfg) (n : nat), (wc_nshards c <= N.of_nat n)%N -> JInv c (C15_World.empty_world n).
Proof. exact JInv_empty. Qed.

(* (b) a mixed history of 34 operations on a two-shard world, from the EMPTY world, under the ideal codec *)
Example C02c_example_history :
  k_history2 =
  [ (* 0 *) OCall 0 C.BuiltInFunctionESDTTransfer (k_in SC k_alice [k_tok; k_num 100] false true);      (* issue: +100 TOK *)
    (* 1 *) OCall 0 C.BuiltInFunctionSetESDTRole (k_in SC k_alice [k_tok; C.ESDTRoleLocalMint; C.ESDTRoleLocalBurn] false true);
    (* 2 *) OCall 0 C.BuiltInFunctionESDTLocalMint (k_in k_alice k_alice [k_tok; k_num 10] true true);  (* +10 *)
    (* 3 *) OCall 0 C.BuiltInFunctionSetESDTRole
              (k_in SC k_alice [k_nft; C.ESDTRoleNFTCreate; C.ESDTRoleNFTAddQuantity; C.ESDTRoleNFTBurn] false true);
    (* 4 *) k_create 0 k_alice 4;                                                                       (* NFT#1: +4 *)
    (* 5 *) OCall 0 C.BuiltInFunctionESDTTransfer (k_in k_alice k_bob [k_tok; k_num 30] true false);    (* message 0 *)
    (* 6 *) ODeliver 0 k_gas;
    (* 7 *) OCall 0 C.BuiltInFunctionESDTNFTTransfer (k_in k_alice k_alice [k_nft; k_num 1; k_num 2; k_bob] true true);
    (* 8 *) ODeliver 1 k_gas;
    (* 9 *) OCall 0 C.BuiltInFunctionESDTTransfer (k_in k_alice k_dave [k_tok; k_num 5] true false);    (* message 2 *)
    (* 10 *) ODeliver 2 k_gas;                                                                          (* REJECTED: not payable *)
    (* 11 *) ORefund 2 k_gas;
    (* 12 *) OCall 0 C.BuiltInFunctionESDTPause (k_in SC SYS [k_tok] false true);
    (* 13 *) OCall 1 C.BuiltInFunctionESDTPause (k_in SC SYS [k_tok] false true);                       (* the broadcast *)
    (* 14 *) OCall 0 C.BuiltInFunctionESDTTransfer (k_in k_alice k_carol [k_tok; k_num 1] true true);   (* refused: paused *)
    (* 15 *) OCall 1 C.BuiltInFunctionESDTTransfer (k_in k_bob k_alice [k_tok; k_num 1] true false);    (* refused: paused *)
    (* 16 *) OCall 0 C.BuiltInFunctionESDTUnPause (k_in SC SYS [k_tok] false true);
    (* 17 *) OCall 1 C.BuiltInFunctionESDTUnPause (k_in SC SYS [k_tok] false true);
    (* 18 *) OCall 0 C.BuiltInFunctionESDTLocalBurn (k_in k_alice k_alice [k_tok; k_num 5] true true);  (* -5 *)
    (* 19 *) OCall 0 C.BuiltInFunctionESDTNFTBurn (k_in k_alice k_alice [k_nft; k_num 1; k_num 1] true true);  (* NFT#1: -1 *)
    (* 20 *) OCall 0 C.BuiltInFunctionMultiESDTNFTTransfer
               (k_in k_alice k_alice [k_bob; k_num 2; k_nft; k_num 1; k_num 1; k_tok; []; k_num 3] true true);  (* message 3 *)
    (* 21 *) ODeliver 3 k_gas;
    (* 22 *) OCall 0 C.BuiltInFunctionESDTNFTCreateRoleTransfer (k_in SC k_alice [k_nft; k_bob] false true);   (* message 4 *)
    (* 23 *) ODeliver 4 k_gas;
    (* 24 *) k_create 1 k_bob 1;                                                                        (* NFT#2: +1 *)
    (* 25 *) k_create 0 k_alice 1;                                                                      (* refused: role gone *)
    (* 26 *) OCall 1 C.BuiltInFunctionESDTBurn (k_in k_bob SC [k_tok; k_num 2] true false);             (* -2 *)
    (* 27 *) ODeliver 77 k_gas;                                                                         (* unknown id: skipped *)
    (* 28 *) ORefund 0 k_gas;                                                                           (* consumed id: skipped *)
    (* 29 *) OCall 0 C.BuiltInFunctionSetESDTRole (k_in k_alice k_alice [k_tok; C.ESDTRoleLocalMint] true true);  (* refused *)
    (* 30 *) OCall 0 C.BuiltInFunctionSaveKeyValue (k_in k_alice k_alice [str "key"%string; str "value"%string] true true);
    (* 31 *) OCall 1 C.BuiltInFunctionSetESDTRole
               (k_in SC k_bob [k_nft; C.ESDTRoleNFTAddURI; C.ESDTRoleNFTUpdateAttributes] false true);
    (* 32 *) OCall 1 C.BuiltInFunctionESDTNFTAddURI (k_in k_bob k_bob [k_nft; k_num 2; str "uri2"%string] true true);
    (* 33 *) OCall 1 C.BuiltInFunctionESDTNFTUpdateAttributes (k_in k_bob k_bob [k_nft; k_num 2; str "attr2"%string] true true) ]
  /\ (forall sh a q, k_create sh a q =
        OCall sh C.BuiltInFunctionESDTNFTCreate
          (k_in a a [k_nft; k_num q; str "name"%string; k_num 5; str "hash"%string; str "attr"%string; str "uri"%string] true true))
  /\ wc_cdc kc = ideal_codec /\ wc_nshards kc = 2%N /\ kw0 = C15_World.empty_world 2
  /\ wc_shard_of kc k_alice = 0%N /\ wc_shard_of kc k_carol = 0%N /\ wc_shard_of kc k_bob = 1%N
  /\ wc_shard_of kc k_dave = 1%N /\ wc_shard_of kc SYS = 0%N /\ wc_payable kc k_dave = PayNo
  /\ k_tok = str "TOK-a1b2c3"%string /\ k_nft = str "NFT-d4e5f6"%string
  /\ k_kTok = P ++ k_tok /\ k_kN1 = nft_key (P ++ k_nft) 1 /\ k_kN2 = nft_key (P ++ k_nft) 2.
Proof. repeat split. Qed.
(* the hypotheses; [honest_ops] is decided ALONG the run by the boolean checker (vm_compute) *)
Example C02c_example_checked : honest_ops_b kc kw0 k_history2 = true.
Proof. exact (proj1 capstone2_checked). Qed.
Example C02c_example_hypotheses :
  codec_ok (wc_cdc kc) /\ flag_undec (wc_cdc kc) /\ JInv kc kw0 /\ honest_ops kc kw0 k_history2.
Proof. exact (conj kc_ok (conj kc_flag (conj capstone2_start (proj1 capstone2_honest)))). Qed.
(* the conclusions, for every protocol key *)
Example C02c_example_accounted : forall x,
  total kc (P ++ x) (wrun kc kw0 k_history2) = (total kc (P ++ x) kw0 + supply_sum kc kw0 k_history2 (P ++ x))%Z.
Proof. exact capstone2_supply. Qed.
Example C02c_example_nonneg : forall x, (0 <= total kc (P ++ x) (wrun kc kw0 k_history2))%Z.
Proof. exact capstone2_supply_nonneg. Qed.
(* the stated change of each of the 34 steps, for TOK, NFT#1 and NFT#2 *)
Example C02c_example_deltas :
  k_deltas kw0 k_history2 k_kTok
    = [100; 0; 10; 0; 0; 0; 0; 0; 0; 0; 0; 0; 0; 0; 0; 0; 0; 0; -5; 0; 0; 0; 0; 0; 0; 0; -2; 0; 0; 0; 0; 0; 0; 0]%Z
  /\ k_deltas kw0 k_history2 k_kN1
    = [0; 0; 0; 0; 4; 0; 0; 0; 0; 0; 0; 0; 0; 0; 0; 0; 0; 0; 0; -1; 0; 0; 0; 0; 0; 0; 0; 0; 0; 0; 0; 0; 0; 0]%Z
  /\ k_deltas kw0 k_history2 k_kN2
    = [0; 0; 0; 0; 0; 0; 0; 0; 0; 0; 0; 0; 0; 0; 0; 0; 0; 0; 0; 0; 0; 0; 0; 0; 1; 0; 0; 0; 0; 0; 0; 0; 0; 0]%Z.
Proof. exact capstone2_deltas. Qed.
(* both sides of the equation computed by vm_compute *)
Example C02c_example_computed :
  total kc k_kTok kw0 = 0%Z /\ total kc k_kN1 kw0 = 0%Z /\ total kc k_kN2 kw0 = 0%Z
  /\ total kc k_kTok (wrun kc kw0 k_history2) = 103%Z /\ supply_sum kc kw0 k_history2 k_kTok = 103%Z
  /\ total kc k_kN1 (wrun kc kw0 k_history2) = 3%Z /\ supply_sum kc kw0 k_history2 k_kN1 = 3%Z
  /\ total kc k_kN2 (wrun kc kw0 k_history2) = 1%Z /\ supply_sum kc kw0 k_history2 k_kN2 = 1%Z.
Proof. exact capstone2_computed. Qed.
(* the status of every execution (10 = the rejected delivery, 14/15 = paused, 25 = role gone, 27/28 = nothing executed,
   29 = not the system contract) *)
Example C02c_example_statuses :
  statuses kc kw0 k_history2 =
  [Some SOk; Some SOk; Some SOk; Some SOk; Some SOk; Some SOk; Some SOk; Some SOk; Some SOk; Some SOk;
   Some SErr; Some SOk; Some SOk; Some SOk; Some SErr; Some SErr; Some SOk; Some SOk; Some SOk; Some SOk;
   Some SOk; Some SOk; Some SOk; Some SOk; Some SOk; Some SErr; Some SOk; None; None; Some SErr; Some SOk;
   Some SOk; Some SOk; Some SOk].
Proof. exact capstone2_statuses. Qed.
(* the nine holdings of the final world are non-negative; nothing is in flight *)
Example C02c_example_balances :
  let w' := wrun kc kw0 k_history2 in
  forallb (fun p => (0 <=? k_bal w' (fst (fst p)) (snd (fst p)) (snd p))%Z)
    [(0%N, k_alice, k_kTok); (1%N, k_bob, k_kTok); (1%N, k_dave, k_kTok); (0%N, k_alice, k_kN1); (1%N, k_bob, k_kN1);
     (1%N, k_bob, k_kN2); (0%N, k_carol, k_kTok); (0%N, SYS, k_kTok); (1%N, SYS, k_kTok)] = true
  /\ length (shards w') = 2%nat.
Proof. exact capstone2_balances_nonneg. Qed.

(* ---------------- the hypotheses cannot be dropped ---------------- *)
Example C02c_example_refused :
  honest_op_b kc kw0 (ORedeliver 0 k_gas) = false
  /\ honest_op_b kc kw0 (OCall 0 C.BuiltInFunctionESDTNFTTransfer
                           (k_in k_alice k_alice [str "ABC-12345"%string; k_num 1; k_num 1; k_bob] true true)) = false.
Proof. exact capstone_example_refused. Qed.

Print Assumptions C02c_vocabulary.
Print Assumptions C02c_supply_honest_histories.
Print Assumptions C02c_supply_nonneg_honest_histories.
Print Assumptions C02c_balances_nonneg_honest_histories.
Print Assumptions C02c_honest_step.
Print Assumptions C02c_flag_undec_implies.
Print Assumptions C02c_JInv_empty.
Print Assumptions C02c_example_history.
Print Assumptions C02c_example_checked.
Print Assumptions C02c_example_hypotheses.
Print Assumptions C02c_example_accounted.
Print Assumptions C02c_example_nonneg.
Print Assumptions C02c_example_deltas.
Print Assumptions C02c_example_computed.
Print Assumptions C02c_example_statuses.
Print Assumptions C02c_example_balances.
Print Assumptions C02c_example_refused.
