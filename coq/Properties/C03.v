(* Property C03 — privileged operations require the right authority.
   Only statements, each closed by [exact] of a lemma of LedgerProofs/C03_*.v, their assumptions, pins and
   non-vacuity examples.

   Reading guide.  [E : env] is ARBITRARY (any fault plan, coordinator, payability oracle, DNS set, gas
   schedule) with a codec satisfying [codec_ok].  "The call" is [exec E f i s = (Ok o, s')]: function name f,
   input i, pre-state s and post-state s' of the executing shard.  [has_role E s a tok r] reads the role list
   stored in account a's OWN storage under "ELRONDroleesdt" ++ tok in the PRE-state; [argn i 0] is the first
   argument (the token identifier).  [i_caller i] is the calling address; [SC] the ESDT system contract address.
   [i_snd]/[i_dst]: the caller's / recipient's account object is on the executing shard.

   Part (2), "roles, freeze state, pause state, wipes and hand-over of the NFT-create role change only through calls
   of the system contract (or the hand-over message)", is stated on observables of the shard state
   (LedgerProofs/Defs.v): [roles_at E s a tok] (decoded list under "ELRONDroleesdt" ++ tok), [counter_at s a tok]
   (the NFT-create counter under "ELRONDnonce" ++ tok), [paused_at s k] (2-byte flag under k in the system account
   0xff..ff), and [fungible_frozen E s a k]: the entry under k decodes, carries NO metadata (the property's
   "fungible entry") and bit 0 of byte 0 of its 2-byte Properties is set.  [privileged_change] is the disjunction of
   the five classes (C03_privileged_change_unfolded); C03_system_only covers all 23 functions.
   Side conditions, each with a witness that it is needed:
   - frozen flag: the observed account is not the system contract's own address (its entries are exempt from the
     frozen check by design, cf. C04), the execution does not carry ReturnCallAfterError (set by the protocol on
     refunds only; C03_frozen_refuted_rae: with it a frozen holding can be moved — confirmed on the Go code; the
     four functions that only go through addToESDTBalance keep every flag even then:
     C03_fungible_functions_keep_frozen), and there is no token-id ‖ nonce key aliasing ([no_alias]: the F4b
     hypothesis [lookup_consistent] for NFT lookups, C03_frozen_refuted_f4b; for ESDTNFTCreate "the cell under the
     next nonce holds no frozen fungible entry", C03_frozen_refuted_create_alias — NEW variant of the F4 family,
     confirmed on the Go code: ESDTNFTCreate(T) with next nonce 1 overwrites the holder's frozen fungible entry
     of the token whose identifier is T ‖ 0x01);
   - pause flag: the system account 0xff..ff is not itself caller / recipient / transfer destination
     ([sys_not_party]; the mirror image of known finding F8: its token cells ARE the pause-flag cells; needed for
     an abstract codec, no witness exists with the protobuf codec because a 2-byte flag does not decode);
   - the counter moves in the caller's own ESDTNFTCreate (excluded in [counter_handed_over]).
   The second disjunct of the conclusion (destination-side ESDTNFTCreateRoleTransfer, caller <> SC, sender account
   not local) has no authorisation of its own (also the shape of known finding F9, re-delivery): authority there
   rests on the environment delivering only protocol messages.  C03_handover_messages_come_from_sc /
   C03_delivered_handover_was_emitted_by_sc show, in the world model (Ledger/World.v), that every in-flight
   message named ESDTNFTCreateRoleTransfer was emitted by a successful ESDTNFTCreateRoleTransfer execution whose
   caller was the system contract (given truthful recipient-presence flags). *)
From Coq.Strings Require Import String.
From EV Require Import Base.Bytes Base.Store Base.Monad gen.Consts Codec.Types Codec.CodecOk Helpers.Helpers
  Ledger.Types Ledger.Env Ledger.Funcs Ledger.Transfers Ledger.World Corr.Exec
  LedgerProofs.Defs LedgerProofs.EnvSpec LedgerProofs.Spec_Transfers_Base LedgerProofs.WorldSpec
  LedgerProofs.Spec_Supply LedgerProofs.Spec_Transfers_Multi LedgerProofs.WorldDefs
  LedgerProofs.C03_Authority LedgerProofs.C03_Frozen LedgerProofs.C03_SystemOnly LedgerProofs.C03_Handover LedgerProofs.C03_Examples.

(* ---- pins: the constants the property text names ---- *)
Example C03_pinned_role_names :
  C.ESDTRoleLocalMint = str "ESDTRoleLocalMint"%string /\ C.ESDTRoleLocalBurn = str "ESDTRoleLocalBurn"%string
  /\ C.ESDTRoleNFTCreate = str "ESDTRoleNFTCreate"%string /\ C.ESDTRoleNFTAddQuantity = str "ESDTRoleNFTAddQuantity"%string
  /\ C.ESDTRoleNFTBurn = str "ESDTRoleNFTBurn"%string /\ C.ESDTRoleNFTAddURI = str "ESDTRoleNFTAddURI"%string
  /\ C.ESDTRoleNFTUpdateAttributes = str "ESDTRoleNFTUpdateAttributes"%string.
Proof. repeat split. Qed.
(* the role table, row by row, on the literal function names *)
Example C03_pinned_role_table :
  role_of (str "ESDTLocalMint"%string) = Some (str "ESDTRoleLocalMint"%string)
  /\ role_of (str "ESDTLocalBurn"%string) = Some (str "ESDTRoleLocalBurn"%string)
  /\ role_of (str "ESDTNFTCreate"%string) = Some (str "ESDTRoleNFTCreate"%string)
  /\ role_of (str "ESDTNFTAddQuantity"%string) = Some (str "ESDTRoleNFTAddQuantity"%string)
  /\ role_of (str "ESDTNFTBurn"%string) = Some (str "ESDTRoleNFTBurn"%string)
  /\ role_of (str "ESDTNFTAddURI"%string) = Some (str "ESDTRoleNFTAddURI"%string)
  /\ role_of (str "ESDTNFTUpdateAttributes"%string) = Some (str "ESDTRoleNFTUpdateAttributes"%string)
  /\ length role_table = 7%nat.
Proof. vm_compute. repeat split. Qed.
(* what "required roles" means: the table's role; ESDTNFTCreate with quantity > 1 AS AN INTEGER adds add-quantity *)
Example C03_required_roles_unfolded : forall f i,
  required_roles f i =
  match role_of f with
  | Some r => r :: (if (beqb f C.BuiltInFunctionESDTNFTCreate && (1 <? bigZ (argn i 1))%Z)%bool
                    then [C.ESDTRoleNFTAddQuantity] else [])
  | None => []
  end.
Proof. reflexivity. Qed.
Example C03_pinned_addresses_and_keys :
  SC = hx "000000000000000000010000000000000000000000000000000000000002ffff"%string
  /\ SYS = hx "ffffffffffffffffffffffffffffffffffffffffffffffffffffffffffffffff"%string
  /\ RP = str "ELRONDroleesdt"%string /\ P = str "ELRONDesdt"%string /\ NP = str "ELRONDnonce"%string.
Proof. repeat split. Qed.
(* the observable the role theorem speaks about *)
Example C03_has_role_unfolded : forall E s a tok r,
  has_role E s a tok r =
  bytes_in r (match cell s a (RP ++ tok) with
              | [] => []
              | b => match dec_rol (cdc E) b with Some l => l | None => [] end
              end).
Proof. reflexivity. Qed.

(* ---- (1) role-gated operations ---- *)
(* a successful LocalMint / LocalBurn / NFTCreate / AddQuantity / NFTBurn / AddURI / UpdateAttributes implies that
   the CALLER's own role list for THAT token (first argument), in the pre-state, contains every required role *)
Theorem C03_role_gated_requires_role : forall (E : env), codec_ok (cdc E) -> forall f i s o s',
  exec E f i s = (Ok o, s') ->
  forall r, In r (required_roles f i) -> has_role E s (i_caller i) (argn i 0) r = true.
Proof. exact role_gated_requires_role. Qed.
(* read through the table *)
Theorem C03_role_gated_row : forall (E : env), codec_ok (cdc E) -> forall f r i s o s',
  exec E f i s = (Ok o, s') -> role_of f = Some r -> has_role E s (i_caller i) (argn i 0) r = true.
Proof. exact role_gated_row. Qed.
(* NFT create with quantity > 1 needs BOTH roles *)
Theorem C03_create_many_requires_add_quantity : forall (E : env), codec_ok (cdc E) -> forall i s o s',
  exec E C.BuiltInFunctionESDTNFTCreate i s = (Ok o, s') -> (1 < bigZ (argn i 1))%Z ->
  has_role E s (i_caller i) (argn i 0) C.ESDTRoleNFTCreate = true
  /\ has_role E s (i_caller i) (argn i 0) C.ESDTRoleNFTAddQuantity = true.
Proof. exact create_many_requires_add_quantity. Qed.
(* contrapositive *)
Theorem C03_role_missing_rejected : forall (E : env), codec_ok (cdc E) -> forall f i s r,
  In r (required_roles f i) -> has_role E s (i_caller i) (argn i 0) r = false ->
  forall o s', exec E f i s <> (Ok o, s').
Proof. exact role_missing_rejected. Qed.

(* ---- (2) system-only state ---- *)
(* the observables and classes, written out *)
Example C03_fungible_frozen_unfolded : forall E s a k,
  fungible_frozen E s a k =
  match tok_at E s a k with
  | Some t => match t_meta t with None => frozen_props (t_props t) | Some _ => false end
  | None => false
  end.
Proof. reflexivity. Qed.
Example C03_privileged_change_unfolded : forall E f i s s',
  privileged_change E f i s s' <->
  (exists a tok, roles_at E s' a tok <> roles_at E s a tok)
  \/ (exists a tok, counter_at s' a tok <> counter_at s a tok
         /\ ~ (f = C.BuiltInFunctionESDTNFTCreate /\ a = i_caller i /\ tok = argn i 0))
  \/ (exists x, paused_at s' (P ++ x) <> paused_at s (P ++ x)
         /\ (f = C.BuiltInFunctionESDTPause \/ f = C.BuiltInFunctionESDTUnPause \/ ~ In SYS (token_parties f i)))
  \/ (exists a x, fungible_frozen E s' a (P ++ x) <> fungible_frozen E s a (P ++ x)
         /\ a <> SC /\ i_rae i = false /\ no_alias E f i s)
  \/ f = C.BuiltInFunctionESDTWipe.
Proof. intros. split; intros H; exact H. Qed.
(* the parties whose token cells a call may write, and the aliasing exclusion, function by function *)
Example C03_token_parties_unfolded : forall i,
  token_parties C.BuiltInFunctionESDTNFTTransfer i = [i_caller i; i_rcpt i; argn i 3]
  /\ token_parties C.BuiltInFunctionMultiESDTNFTTransfer i = [i_caller i; i_rcpt i; argn i 0]
  /\ token_parties C.BuiltInFunctionESDTTransfer i = [i_caller i; i_rcpt i]
  /\ token_parties C.BuiltInFunctionESDTLocalMint i = [i_caller i; i_rcpt i]
  /\ token_parties C.BuiltInFunctionSaveKeyValue i = [i_caller i; i_rcpt i].
Proof. intros. repeat split. Qed.
Example C03_no_alias_unfolded : forall E i s,
  (no_alias E C.BuiltInFunctionESDTNFTAddQuantity i s <-> lookup_consistent E s (i_caller i) (P ++ argn i 0) (bigU64 (argn i 1)))
  /\ (no_alias E C.BuiltInFunctionESDTNFTBurn i s <-> lookup_consistent E s (i_caller i) (P ++ argn i 0) (bigU64 (argn i 1)))
  /\ (no_alias E C.BuiltInFunctionESDTNFTAddURI i s <-> lookup_consistent E s (i_caller i) (P ++ argn i 0) (bigU64 (argn i 1)))
  /\ (no_alias E C.BuiltInFunctionESDTNFTUpdateAttributes i s <-> lookup_consistent E s (i_caller i) (P ++ argn i 0) (bigU64 (argn i 1)))
  /\ (no_alias E C.BuiltInFunctionESDTNFTCreate i s <->
        fungible_frozen E s (i_caller i) (nft_key (P ++ argn i 0) (u64 (counter_at s (i_caller i) (argn i 0) + 1))) = false)
  /\ (no_alias E C.BuiltInFunctionESDTNFTTransfer i s <->
        (i_caller i = i_rcpt i -> lookup_consistent E s (i_caller i) (P ++ argn i 0) (bigU64 (argn i 1))))
  /\ (no_alias E C.BuiltInFunctionMultiESDTNFTTransfer i s <->
        (i_caller i = i_rcpt i ->
         Forall (fun x => lookup_consistent E s (i_caller i) (P ++ rt_tok x) (rt_nonce x)) (multi_snd_triples i)))
  /\ (no_alias E C.BuiltInFunctionESDTTransfer i s <-> True)
  /\ (no_alias E C.BuiltInFunctionESDTLocalMint i s <-> True)
  /\ (no_alias E C.BuiltInFunctionESDTLocalBurn i s <-> True)
  /\ (no_alias E C.BuiltInFunctionESDTBurn i s <-> True)
  /\ (no_alias E C.BuiltInFunctionSaveKeyValue i s <-> True).
Proof. intros. repeat split; intros H; exact H. Qed.
Example C03_lookup_consistent_unfolded : forall E s a key nonce,
  lookup_consistent E s a key nonce <-> forall t, tok_at E s a (nft_key key nonce) = Some t -> tok_nonce t = nonce.
Proof. intros. split; intros H; exact H. Qed.

(* MAIN: any change of a role list, a create counter (other than by the creator's own create), a pause flag, a fungible
   entry's frozen flag, and any successful wipe, happens in an execution whose caller is the ESDT system contract
   address, or in the destination-side execution of ESDTNFTCreateRoleTransfer (the hand-over message: sender account
   not local, caller <> SC).  All 23 functions; the side conditions of the classes are explained in the header.
   The second disjunct has no authorisation of its own: see C03_handover_messages_come_from_sc. *)
Theorem C03_system_only : forall (E : env), codec_ok (cdc E) -> forall f i s o s',
  exec E f i s = (Ok o, s') -> privileged_change E f i s s' ->
  i_caller i = SC
  \/ (f = C.BuiltInFunctionESDTNFTCreateRoleTransfer /\ i_snd i = false /\ i_caller i <> SC).
Proof. exact system_only. Qed.
(* freeze state and pause state: the hand-over never touches them, so the caller IS the system contract *)
Theorem C03_frozen_paused_change_only_by_sc : forall (E : env), codec_ok (cdc E) -> forall f i s o s',
  exec E f i s = (Ok o, s') -> pause_changed f i s s' \/ frozen_changed E f i s s' -> i_caller i = SC.
Proof. exact frozen_paused_change_only_by_sc. Qed.
Theorem C03_wipe_only_by_sc : forall (E : env), codec_ok (cdc E) -> forall i s o s',
  exec E C.BuiltInFunctionESDTWipe i s = (Ok o, s') -> i_caller i = SC.
Proof. exact wipe_only_by_sc. Qed.
Theorem C03_roles_change_only_by_sc : forall (E : env), codec_ok (cdc E) -> forall f i s o s' a tok,
  exec E f i s = (Ok o, s') -> roles_at E s' a tok <> roles_at E s a tok ->
  i_caller i = SC \/ (f = C.BuiltInFunctionESDTNFTCreateRoleTransfer /\ i_snd i = false /\ i_caller i <> SC).
Proof. exact roles_change_only_by_sc. Qed.
(* ESDTTransfer, ESDTBurn, LocalMint, LocalBurn keep the frozen flag of EVERY entry of EVERY account, whoever calls,
   with or without ReturnCallAfterError (covers refunds of ESDTTransfer) *)
Theorem C03_fungible_functions_keep_frozen : forall (E : env), codec_ok (cdc E) -> forall f i s o s',
  exec E f i s = (Ok o, s') ->
  In f [C.BuiltInFunctionESDTTransfer; C.BuiltInFunctionESDTBurn; C.BuiltInFunctionESDTLocalMint;
        C.BuiltInFunctionESDTLocalBurn] ->
  forall a k, fungible_frozen E s' a k = fungible_frozen E s a k.
Proof. exact fungible_functions_keep_frozen. Qed.
(* without the side conditions the frozen clause is false (witness: the create-alias state) *)
Theorem C03_system_only_frozen_unconditional_refuted :
  ~ (forall (E : env), codec_ok (cdc E) -> forall f i s o s' a x,
       exec E f i s = (Ok o, s') -> i_rae i = false -> a <> SC ->
       fungible_frozen E s' a (P ++ x) <> fungible_frozen E s a (P ++ x) ->
       i_caller i = SC \/ (f = C.BuiltInFunctionESDTNFTCreateRoleTransfer /\ i_snd i = false /\ i_caller i <> SC)).
Proof. exact system_only_frozen_unconditional_refuted. Qed.

(* ---- where hand-over messages come from (world model) ---- *)
(* a message named ESDTNFTCreateRoleTransfer among those one successful execution puts in flight: the execution
   was ESDTNFTCreateRoleTransfer and its caller the system contract *)
Theorem C03_handover_messages_come_from_sc : forall (c : wcfg), codec_ok (wc_cdc c) -> forall sh f i id s o s' m,
  exec (env_at c sh) f i s = (Ok o, s') -> i_dst i = (wc_shard_of c (i_rcpt i) =? sh)%N ->
  In m (collect c sh f i id o) -> m_fn m = C.BuiltInFunctionESDTNFTCreateRoleTransfer ->
  f = C.BuiltInFunctionESDTNFTCreateRoleTransfer /\ i_caller i = SC.
Proof. exact handover_messages_come_from_sc. Qed.
(* invariant of histories: every in-flight hand-over message records the system contract as its emitter *)
Theorem C03_handovers_from_sc_run : forall (c : wcfg), codec_ok (wc_cdc c) -> forall ops w,
  (forall m, In m (inflight w) -> m_fn m = C.BuiltInFunctionESDTNFTCreateRoleTransfer -> m_sender m = SC) ->
  Forall (fun op => match op with OCall sh f i => i_dst i = (wc_shard_of c (i_rcpt i) =? sh)%N | _ => True end) ops ->
  forall m, In m (inflight (wrun c w ops)) -> m_fn m = C.BuiltInFunctionESDTNFTCreateRoleTransfer -> m_sender m = SC.
Proof. exact handovers_from_sc_run. Qed.
Theorem C03_delivered_handover_was_emitted_by_sc : forall (c : wcfg), codec_ok (wc_cdc c) -> forall w0 ops id m,
  inflight w0 = [] ->
  Forall (fun op => match op with OCall sh f i => i_dst i = (wc_shard_of c (i_rcpt i) =? sh)%N | _ => True end) ops ->
  find_msg (inflight (wrun c w0 ops)) id = Some m -> m_fn m = C.BuiltInFunctionESDTNFTCreateRoleTransfer ->
  m_sender m = SC.
Proof. exact delivered_handover_was_emitted_by_sc. Qed.

(* ---- (3) owner and DNS guards, over all 23 functions ---- *)
(* the owner, developer-reward or balance field of ANY account changes only in a ChangeOwnerAddress /
   ClaimDeveloperRewards execution on the recipient's shard whose caller is the recipient's owner in the pre-state *)
Theorem C03_owner_only : forall (E : env), codec_ok (cdc E) -> forall f i s o s',
  exec E f i s = (Ok o, s') ->
  forall a,
    a_owner (acct s' a) <> a_owner (acct s a) \/ a_devreward (acct s' a) <> a_devreward (acct s a)
    \/ a_balance (acct s' a) <> a_balance (acct s a) ->
    (f = C.BuiltInFunctionChangeOwnerAddress \/ f = C.BuiltInFunctionClaimDeveloperRewards)
    /\ i_dst i = true /\ i_caller i = a_owner (acct s (i_rcpt i)) /\ (a = i_rcpt i \/ a = i_caller i).
Proof. exact owner_only_all. Qed.
(* the user name of ANY account changes only in a SetUserName execution by a configured DNS address *)
Theorem C03_dns_only : forall (E : env), codec_ok (cdc E) -> forall f i s o s',
  exec E f i s = (Ok o, s') ->
  forall a, a_username (acct s' a) <> a_username (acct s a) ->
    f = C.BuiltInFunctionSetUserName /\ In (i_caller i) (dns E) /\ i_dst i = true /\ a = i_rcpt i.
Proof. exact dns_only_all. Qed.
(* anyone else is refused ... *)
Theorem C03_not_owner_rejected : forall (E : env) f i s,
  f = C.BuiltInFunctionChangeOwnerAddress \/ f = C.BuiltInFunctionClaimDeveloperRewards ->
  i_dst i = true -> i_caller i <> a_owner (acct s (i_rcpt i)) ->
  forall o s', exec E f i s <> (Ok o, s').
Proof. exact not_owner_rejected. Qed.
Theorem C03_not_dns_rejected : forall (E : env) i s,
  ~ In (i_caller i) (dns E) -> forall o s', exec E C.BuiltInFunctionSetUserName i s <> (Ok o, s').
Proof. exact not_dns_rejected. Qed.
(* ... the origin-side execution (recipient on another shard) changes no account (gas only) ... *)
Theorem C03_account_origin_side_same_world : forall (E : env) f i s o s',
  exec E f i s = (Ok o, s') ->
  In f [C.BuiltInFunctionChangeOwnerAddress; C.BuiltInFunctionClaimDeveloperRewards; C.BuiltInFunctionSetUserName] ->
  i_dst i = false -> same_world s s'.
Proof. exact account_origin_side_same_world. Qed.
(* ... and a refused call changes no state on any shard: the node rolls back (world model, Ledger/World.v) *)
Theorem C03_rejected_call_world_unchanged : forall (c : wcfg) w sh fn i,
  (forall o s', exec (env_at c sh) fn i (mk_state (shard_accts w sh)) <> (Ok o, s')) ->
  wstep c w (OCall sh fn i) = w.
Proof. exact rejected_call_world_unchanged. Qed.
Theorem C03_rejected_step_shards_unchanged : forall (c : wcfg) w op,
  match op with
  | OCall sh fn i => forall o s', exec (env_at c sh) fn i (mk_state (shard_accts w sh)) <> (Ok o, s')
  | ODeliver id gas | ORedeliver id gas =>
      forall m, find_msg (inflight w) id = Some m ->
        forall o s', exec (env_at c (wc_shard_of c (m_dest m))) (m_fn m) (deliver_input c m (wc_shard_of c (m_dest m)) gas)
                       (mk_state (shard_accts w (wc_shard_of c (m_dest m)))) <> (Ok o, s')
  | ORefund id gas =>
      forall m, find_msg (inflight w) id = Some m ->
        forall o s', exec (env_at c (wc_shard_of c (m_sender m))) (m_fn m) (refund_input c m (wc_shard_of c (m_sender m)) gas)
                       (mk_state (shard_accts w (wc_shard_of c (m_sender m)))) <> (Ok o, s')
  end ->
  shards (wstep c w op) = shards w.
Proof. exact rejected_step_shards_unchanged. Qed.
Theorem C03_not_owner_world_unchanged : forall (c : wcfg) w sh f i,
  codec_ok (wc_cdc c) ->
  f = C.BuiltInFunctionChangeOwnerAddress \/ f = C.BuiltInFunctionClaimDeveloperRewards ->
  i_dst i = true -> i_caller i <> a_owner (aget empty_account (shard_accts w sh) (i_rcpt i)) ->
  wstep c w (OCall sh f i) = w.
Proof. exact not_owner_world_unchanged. Qed.
Theorem C03_not_dns_world_unchanged : forall (c : wcfg) w sh i,
  ~ In (i_caller i) (wc_dns c) -> wstep c w (OCall sh C.BuiltInFunctionSetUserName i) = w.
Proof. exact not_dns_world_unchanged. Qed.
Theorem C03_role_missing_world_unchanged : forall (c : wcfg) w sh f i r,
  codec_ok (wc_cdc c) -> In r (required_roles f i) ->
  has_role (env_at c sh) (mk_state (shard_accts w sh)) (i_caller i) (argn i 0) r = false ->
  wstep c w (OCall sh f i) = w.
Proof. exact role_missing_world_unchanged. Qed.

Print Assumptions C03_role_gated_requires_role.
Print Assumptions C03_role_gated_row.
Print Assumptions C03_create_many_requires_add_quantity.
Print Assumptions C03_role_missing_rejected.
Print Assumptions C03_system_only.
Print Assumptions C03_frozen_paused_change_only_by_sc.
Print Assumptions C03_wipe_only_by_sc.
Print Assumptions C03_roles_change_only_by_sc.
Print Assumptions C03_fungible_functions_keep_frozen.
Print Assumptions C03_system_only_frozen_unconditional_refuted.
Print Assumptions C03_handover_messages_come_from_sc.
Print Assumptions C03_handovers_from_sc_run.
Print Assumptions C03_delivered_handover_was_emitted_by_sc.
Print Assumptions C03_owner_only.
Print Assumptions C03_dns_only.
Print Assumptions C03_not_owner_rejected.
Print Assumptions C03_not_dns_rejected.
Print Assumptions C03_account_origin_side_same_world.
Print Assumptions C03_rejected_call_world_unchanged.
Print Assumptions C03_rejected_step_shards_unchanged.
Print Assumptions C03_not_owner_world_unchanged.
Print Assumptions C03_not_dns_world_unchanged.
Print Assumptions C03_role_missing_world_unchanged.

(* ---- non-vacuity (ideal_codec, which is codec_ok; E0 = the concrete protobuf codec) ---- *)
(* with exactly the required role for that token each of the seven gated calls succeeds *)
Example C03_with_role_accepted :
  c03_all_status c03_EI (fun r => c03_state [r] [] []) = repeat 0%N 7
  /\ c03_all_status c03_E0 (fun r => c03_state [r] [] []) = repeat 0%N 7.
Proof. exact c03_with_role_accepted. Qed.
(* a caller holding every role EXCEPT the required one is refused (ErrActionNotAllowed) *)
Example C03_all_but_required_rejected :
  c03_all_status c03_EI (fun r => c03_state (c03_all_but r) [] []) = repeat 1%N 7
  /\ c03_all_status c03_E0 (fun r => c03_state (c03_all_but r) [] []) = repeat 1%N 7.
Proof. exact c03_all_but_required_rejected. Qed.
(* a caller holding all seven roles for a DIFFERENT token is refused *)
Example C03_other_token_rejected :
  c03_all_status c03_EI (fun r => c03_state [] c03_all_roles []) = repeat 1%N 7
  /\ c03_all_status c03_EI (fun r => c03_state (c03_all_but r) c03_all_roles []) = repeat 1%N 7.
Proof. exact c03_other_token_rejected. Qed.
(* the roles for that token held by ANOTHER account do not help *)
Example C03_other_account_rejected :
  c03_all_status c03_EI (fun r => c03_state [] [] c03_all_roles) = repeat 1%N 7.
Proof. exact c03_other_account_rejected. Qed.
(* create with quantity 2, and with quantity 2^64+1 (low 64 bits = 1), needs the add-quantity role for that token *)
Example C03_create_many_examples :
  c03_create [x02] [C.ESDTRoleNFTCreate] [] = 1%N
  /\ c03_create [x02] (c03_all_but C.ESDTRoleNFTAddQuantity) [] = 1%N
  /\ c03_create [x02] [C.ESDTRoleNFTCreate] c03_all_roles = 1%N
  /\ c03_create [x02] [C.ESDTRoleNFTCreate; C.ESDTRoleNFTAddQuantity] [] = 0%N
  /\ c03_create [x01] [C.ESDTRoleNFTCreate] [] = 0%N
  /\ c03_create [x01; x00; x00; x00; x00; x00; x00; x00; x01] [C.ESDTRoleNFTCreate] [] = 1%N
  /\ c03_create [x01; x00; x00; x00; x00; x00; x00; x00; x01] [C.ESDTRoleNFTCreate; C.ESDTRoleNFTAddQuantity] [] = 0%N.
Proof. exact c03_create_many. Qed.
(* the role theorem instantiated on a successful call *)
Example C03_inst_role_gated :
  exists o s', exec c03_EI C.BuiltInFunctionESDTLocalMint (c03_in [c03_tokA; [x05]]) (c03_state [C.ESDTRoleLocalMint] [] []) = (Ok o, s')
    /\ has_role c03_EI (c03_state [C.ESDTRoleLocalMint] [] []) c03_alice c03_tokA C.ESDTRoleLocalMint = true.
Proof. exact c03_inst_role_gated. Qed.
(* owner / DNS: the owner (bob) and the DNS address are accepted, others are refused *)
Example C03_owner_dns_examples :
  c03_ok (exec c03_EI C.BuiltInFunctionChangeOwnerAddress (c03_acct_in c03_bob c03_alice [c03_dns] true) (c03_state [] [] [])) = true
  /\ c03_ok (exec c03_EI C.BuiltInFunctionChangeOwnerAddress (c03_acct_in c03_alice c03_alice [c03_dns] true) (c03_state [] [] [])) = false
  /\ c03_ok (exec c03_EI C.BuiltInFunctionClaimDeveloperRewards (c03_acct_in c03_bob c03_alice [] true) (c03_state [] [] [])) = true
  /\ c03_ok (exec c03_EI C.BuiltInFunctionClaimDeveloperRewards (c03_acct_in c03_dns c03_alice [] true) (c03_state [] [] [])) = false
  /\ c03_ok (exec c03_EI C.BuiltInFunctionSetUserName (c03_acct_in c03_dns c03_alice [str "name"%string] true) (c03_state [] [] [])) = true
  /\ c03_ok (exec c03_EI C.BuiltInFunctionSetUserName (c03_acct_in c03_bob c03_alice [str "name"%string] true) (c03_state [] [] [])) = false.
Proof. exact c03_owner_guard. Qed.

(* ---- non-vacuity and witnesses for part (2) ---- *)
(* (ok?, flag before, flag after): the system contract freezes / unfreezes / wipes; other callers are refused *)
Example C03_sc_changes_flags :
  c03_ff_run C.BuiltInFunctionESDTFreeze (c03_call C.BuiltInFunctionESDTFreeze SC c03_alice [c03_tokA] false false true)
             c03_s_plain c03_alice (P ++ c03_tokA) = (true, false, true)
  /\ c03_ff_run C.BuiltInFunctionESDTUnFreeze (c03_call C.BuiltInFunctionESDTUnFreeze SC c03_alice [c03_tokA] false false true)
             c03_s_frozen c03_alice (P ++ c03_tokA) = (true, true, false)
  /\ c03_ff_run C.BuiltInFunctionESDTWipe (c03_call C.BuiltInFunctionESDTWipe SC c03_alice [c03_tokA] false false true)
             c03_s_frozen c03_alice (P ++ c03_tokA) = (true, true, false)
  /\ c03_ok (exec c03_EI C.BuiltInFunctionESDTFreeze (c03_call C.BuiltInFunctionESDTFreeze c03_bob c03_alice [c03_tokA] false false true) c03_s_plain) = false
  /\ c03_ok (exec c03_EI C.BuiltInFunctionESDTWipe (c03_call C.BuiltInFunctionESDTWipe c03_bob c03_alice [c03_tokA] false false true) c03_s_frozen) = false
  /\ c03_ok (exec c03_EI C.BuiltInFunctionESDTPause (c03_call C.BuiltInFunctionESDTPause c03_bob SYS [c03_tokA] false false true) c03_s_plain) = false
  /\ c03_ok (exec c03_EI C.BuiltInFunctionSetESDTRole (c03_call C.BuiltInFunctionSetESDTRole c03_bob c03_alice [c03_tokA; C.ESDTRoleLocalMint] false false true) c03_s_plain) = false.
Proof. exact c03_sc_changes_flags. Qed.
(* the hypotheses of C03_system_only are satisfiable: a successful freeze IS a [frozen_changed] *)
Example C03_inst_system_only :
  exists o s', exec c03_EI C.BuiltInFunctionESDTFreeze (c03_call C.BuiltInFunctionESDTFreeze SC c03_alice [c03_tokA] false false true) c03_s_plain = (Ok o, s')
    /\ frozen_changed c03_EI C.BuiltInFunctionESDTFreeze (c03_call C.BuiltInFunctionESDTFreeze SC c03_alice [c03_tokA] false false true) c03_s_plain s'.
Proof. exact c03_inst_system_only. Qed.
(* F4b (known finding): AddQuantity through an entry whose metadata nonce differs from its key un-freezes the fungible
   entry stored under the aliasing key; caller alice, not the system contract *)
Example C03_frozen_refuted_f4b :
  c03_ff_run C.BuiltInFunctionESDTNFTAddQuantity (c03_in [c03_tokA; [x02]; [x01]]) c03_s_f4b c03_alice c03_alias_key
  = (true, true, false)
  /\ ~ lookup_consistent c03_EI c03_s_f4b c03_alice (P ++ c03_tokA) 2.
Proof. split; [exact c03_frozen_refuted_f4b|exact c03_f4b_not_consistent]. Qed.
(* create-alias (confirmed on the Go code): ESDTNFTCreate(TOK-a1b2c3) with next nonce 1 replaces the frozen fungible
   entry of the token TOK-a1b2c3 ‖ 01 (same storage key) *)
Example C03_frozen_refuted_create_alias :
  c03_alias_key = nft_key (P ++ c03_tokA) 1
  /\ c03_ff_run C.BuiltInFunctionESDTNFTCreate (c03_in ([c03_tokA; [x01]] ++ c03_meta)) c03_s_create_alias c03_alice c03_alias_key
     = (true, true, false).
Proof. split; [exact c03_alias_key_is_nft_key|exact c03_frozen_refuted_create_alias]. Qed.
(* forged ReturnCallAfterError (confirmed on the Go code): the whole frozen holding moves to bob, with its frozen bit;
   the same call without the flag is refused *)
Example C03_frozen_refuted_rae :
  c03_ff_run C.BuiltInFunctionMultiESDTNFTTransfer (c03_in_rae true) c03_s_rae c03_alice (P ++ c03_tokA) = (true, true, false)
  /\ c03_ff_run C.BuiltInFunctionMultiESDTNFTTransfer (c03_in_rae true) c03_s_rae c03_bob (P ++ c03_tokA) = (true, false, true)
  /\ c03_ok (exec c03_EI C.BuiltInFunctionMultiESDTNFTTransfer (c03_in_rae false) c03_s_rae) = false.
Proof. exact c03_frozen_refuted_rae. Qed.
