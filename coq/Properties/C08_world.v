(* Property C08, extension: ---- metadata provenance at WORLD level: histories of the node model ----
   Only statements, each closed by [exact] of a lemma of LedgerProofs/C08w_*.v; pins; non-vacuity; assumptions.

   Reading guide.
   * Properties/C08.v states metadata immutability per call and along one ROUTE of a token (creation, transfers,
     deliveries).  Here the statement is about the whole world (Ledger/World.v: shards, in-flight messages, [wstep] /
     [wrun]) and about ALL entries at once, as an invariant with a history variable.
   * The history variable.  Every SUCCESSFUL execution of ESDTNFTCreate / ESDTNFTAddURI / ESDTNFTUpdateAttributes
     is an event (function name, (token identifier, nonce, produced metadata value)) -- [step_evs], [evs_of]
     (C08w_events_unfolded): the created metadata; the updater's own copy with the URIs appended; the updater's own
     copy with the attributes replaced.  [vals_of L0 evs] = L0 ++ the values of the events: "the metadata values of
     record".  [inV L tok n m] = (tok, n, m) is in L.
   * [MInv c V w] (C08w_vocabulary): on every shard, every stored entry under a protocol key sits under
     identifier ++ its own nonce for a VALID identifier (ticker '-' 6 bytes) and its metadata, if any, is of record (V);
     every in-flight message names valid identifiers, its NFT payloads are of record, and a MultiESDTNFTTransfer
     message goes from its debited sender to another address.  The empty world satisfies it for every V.
   * [honest_op c op]: a direct call names valid identifiers, its recipient account is present only on its own shard,
     and it is not a FORGED destination-side NFT transfer (ESDTNFTTransfer / MultiESDTNFTTransfer called with the
     caller's account absent: such a call stores whatever payload it is given).  Deliveries, RE-DELIVERIES and refunds
     of in-flight messages are honest unconditionally: F9 inflates balances but cannot introduce a metadata value.
     No hypothesis on roles, callers, freshness, pause, F8.
   * C08w_provenance_histories: MInv is kept, for the values computed along the run.  C08w_copies_have_provenance
     unfolds it: every copy of every NFT, stored or in flight, carries a metadata value that was produced by a creation
     or an update event for exactly that (identifier, nonce) -- or was there initially.  C08w_route_histories: if the
     history has no update event for (tok, n), (tok, n) is created once and was not of record before, EVERY copy of
     (tok, n) carries exactly the creation metadata.  C08w_created_once_disciplined: "created once" follows from C07's
     single-creator discipline.  C08w_transfer_chain_delivers: without any event for (tok, n), what B holds at the end
     is what A held at the start.
   * NOT covered: updates are events, not excluded -- after ESDTNFTAddURI / ESDTNFTUpdateAttributes the copies of one
     (tok, n) held by DIFFERENT accounts may differ (each update rewrites the updater's copy only); the theorems then
     say only that every copy carries a value of record.  Identifiers that are not valid (F4b aliasing) and forged
     destination-side calls are excluded by hypothesis.  The pause broadcast with the recipient-presence flag set on
     a shard where the system account does not live is not an [honest_op] here (it is in the capstone,
     Properties/C15_capstone.v): state it with the flag cleared -- the step is the same step. *)
From Coq.Strings Require Import String.
From Coq Require Import List.
From EV Require Import Base.Bytes Base.Store Base.Monad gen.Consts Codec.Types Codec.Proto Codec.Ideal Codec.CodecOk
  Helpers.Helpers Ledger.Types Ledger.Env Ledger.Funcs Ledger.Transfers Ledger.World Corr.Exec
  LedgerProofs.Defs LedgerProofs.EnvSpec LedgerProofs.WorldDefs LedgerProofs.WorldSpec
  LedgerProofs.Spec_Transfers_Base LedgerProofs.Spec_Transfers_Multi LedgerProofs.Spec_Supply
  LedgerProofs.C01_Consistent LedgerProofs.C05_Footprint
  LedgerProofs.C15_Inv LedgerProofs.C15_World LedgerProofs.C15_Examples
  LedgerProofs.ValidIds_Id LedgerProofs.ValidIds_Inv LedgerProofs.ValidIds_Exec LedgerProofs.ValidIds_World
  LedgerProofs.C07_Exec LedgerProofs.C07_World LedgerProofs.C07_Histories LedgerProofs.C08_Base
  LedgerProofs.C08w_Inv LedgerProofs.C08w_Funcs LedgerProofs.C08w_Transfers LedgerProofs.C08w_World.
Import ListNotations.

(* ================================================================ *)
(* pins: the vocabulary, written out                                  *)
(* ================================================================ *)
Example C08w_vocabulary : forall (c : wcfg) (V : bytes -> N -> metadata -> Prop) (E : env) (s : mstate) (w : world) (m : msg)
    (L : list (bytes * N * metadata)) tok n md sh fn i id gas,
  (PInv V E s <->
     forall a k, cell s a k <> [] -> forall x t, k = P ++ x -> dec_tok (cdc E) (cell s a k) = Some t ->
       exists tok', valid_id tok' /\ x = tok' ++ u64_bytes (tok_nonce t)
                    /\ forall m', t_meta t = Some m' -> V tok' (md_nonce m') m')
  /\ (MInv c V w <-> (forall sh', PInv V (env_at c sh') (mk_state (shard_accts w sh'))) /\ Forall (msg_good c V) (inflight w))
  /\ (msg_good c V m <->
        args_ids (m_fn m) (m_args m)
        /\ args_prov V (wc_cdc c) (m_fn m) (m_args m)
        /\ (m_fn m = C.BuiltInFunctionMultiESDTNFTTransfer -> m_caller m <> m_dest m /\ m_dest m <> m_sender m))
  /\ (inV L tok n md <-> In (tok, n, md) L)
  /\ (honest_op c (OCall sh fn i) <->
        (i_dst i = true -> wc_shard_of c (i_rcpt i) = sh)
        /\ Forall valid_id (named_tokens fn i)
        /\ (fn = C.BuiltInFunctionESDTNFTTransfer \/ fn = C.BuiltInFunctionMultiESDTNFTTransfer -> i_snd i = true))
  /\ (honest_op c (ODeliver id gas) <-> True) /\ (honest_op c (ORedeliver id gas) <-> True)
  /\ (honest_op c (ORefund id gas) <-> True).
Proof. intros. repeat (split; [reflexivity|]). reflexivity. Qed.

(* NFT payloads of messages: argument 3 of an ESDTNFTTransfer message, the third component of every triple of a
   MultiESDTNFTTransfer message (destination-side layout: count, then count triples) *)
Example C08w_args_prov_unfolded : forall (V : bytes -> N -> metadata -> Prop) (cd : codec) (F : bytes) (A : list bytes)
    (k : nat) tok nb b r,
  (args_prov V cd F A <->
     (F = C.BuiltInFunctionESDTNFTTransfer ->
        forall tok' b' t, nth_error A 0 = Some tok' -> nth_error A 3 = Some b' -> dec_tok cd b' = Some t ->
          forall m', t_meta t = Some m' -> V tok' (md_nonce m') m')
     /\ (F = C.BuiltInFunctionMultiESDTNFTTransfer ->
        forall a0, nth_error A 0 = Some a0 -> triples_prov V cd (N.to_nat (bigU64 a0)) (skipn 1 A)))
  /\ (triples_prov V cd 0 A <-> True)
  /\ (triples_prov V cd (S k) (tok :: nb :: b :: r) <->
        ((0 < bigU64 nb)%N -> forall t, dec_tok cd b = Some t -> forall m', t_meta t = Some m' -> V tok (md_nonce m') m')
        /\ triples_prov V cd k r).
Proof. intros. repeat (split; [reflexivity|]). reflexivity. Qed.

(* the history variable *)
Example C08w_events_unfolded : forall (c : wcfg) (w : world) (op : wop) (r : list wop) (L0 : list (bytes * N * metadata))
    (evs : list (bytes * (bytes * N * metadata))) (E : env) (f : bytes) (i : input) (s : mstate),
  step_evs c w op =
    match op_exec c w op with
    | None => []
    | Some (sh, fn, i) =>
      match exec (env_at c sh) fn i (mk_state (shard_accts w sh)) with
      | (Ok _, _) => map (pair fn) (produced (env_at c sh) fn i (mk_state (shard_accts w sh)))
      | _ => []
      end
    end
  /\ evs_of c w [] = [] /\ evs_of c w (op :: r) = step_evs c w op ++ evs_of c (wstep c w op) r
  /\ vals_of L0 evs = L0 ++ map snd evs
  /\ produced E f i s =
      (if beqb f C.BuiltInFunctionESDTNFTCreate then
         match t_meta (created_token i s) with Some m => [(argn i 0, create_nonce i s, m)] | None => [] end
       else if beqb f C.BuiltInFunctionESDTNFTAddURI then
         match own_meta E i s with
         | Some m => [(argn i 0, bigU64 (argn i 1), set_uris m (md_uris m ++ skipn 2 (i_args i)))]
         | None => []
         end
       else if beqb f C.BuiltInFunctionESDTNFTUpdateAttributes then
         match own_meta E i s with
         | Some m => [(argn i 0, bigU64 (argn i 1), set_attributes m (argn i 2))]
         | None => []
         end
       else [])
  /\ own_meta E i s =
      match tok_at E s (i_caller i) (nft_key (P ++ argn i 0) (bigU64 (argn i 1))) with
      | Some t => t_meta t
      | None => None
      end
  /\ t_meta (created_token i s) =
      Some {| md_nonce := create_nonce i s; md_name := argn i 2; md_creator := i_caller i;
              md_royalties := u32 (bigU64 (argn i 3)); md_hash := argn i 4;
              md_uris := skipn 6 (i_args i); md_attributes := argn i 5 |}.
Proof. intros. repeat (split; [reflexivity|]). reflexivity. Qed.

(* the hypotheses and conclusions about one (identifier, nonce) *)
Example C08w_route_vocabulary : forall (c : wcfg) (tok : bytes) (n : N) (m0 : metadata) (w : world)
    (L : list (bytes * N * metadata)) (evs : list (bytes * (bytes * N * metadata))),
  (no_updates tok n evs <-> forall fn m, In (fn, (tok, n, m)) evs -> fn = C.BuiltInFunctionESDTNFTCreate)
  /\ (created_once tok n evs <->
        forall m m', In (C.BuiltInFunctionESDTNFTCreate, (tok, n, m)) evs ->
                     In (C.BuiltInFunctionESDTNFTCreate, (tok, n, m')) evs -> m = m')
  /\ (no_events tok n evs <-> forall fn m, ~ In (fn, (tok, n, m)) evs)
  /\ (fresh tok n L <-> forall m, ~ In (tok, n, m) L)
  /\ (single_valued tok n L <-> forall m m', In (tok, n, m) L -> In (tok, n, m') L -> m = m')
  /\ (copies_equal c tok n m0 w <->
        (forall sh a t m, tok_at (env_at c sh) (mk_state (shard_accts w sh)) a (nft_key (P ++ tok) n) = Some t ->
                          t_meta t = Some m -> m = m0)
        /\ (forall msg, In msg (inflight w) ->
              args_prov (fun tok' n' m => tok' = tok -> n' = n -> m = m0) (wc_cdc c) (m_fn msg) (m_args msg))).
Proof. intros. repeat (split; [reflexivity|]). reflexivity. Qed.

(* ================================================================ *)
(* the theorems                                                       *)
(* ================================================================ *)
(* exec level: a successful call of ANY of the 23 functions that names valid identifiers, whose destination-side NFT
   payloads are of record and whose produced values are of record, keeps the provenance invariant of the state *)
Theorem C08w_PInv_exec : forall (V : bytes -> N -> metadata -> Prop) (E : env) f i s o s',
  codec_ok (cdc E) -> flag_undec (cdc E) -> PInv V E s -> call_ids f i -> payload_prov V E f i ->
  produced_ok V E f i s -> exec E f i s = (Ok o, s') -> PInv V E s' /\ outp V E i o.
Proof. exact PInv_exec. Qed.
(* the invariant = valid identifiers + provenance read through the observable tok_at *)
Theorem C08w_PInv_iff : forall (V : bytes -> N -> metadata -> Prop) (E : env) (s : mstate),
  PInv V E s <->
  ids_valid E s
  /\ (forall a tok n t m, valid_id tok -> tok_at E s a (nft_key (P ++ tok) n) = Some t -> t_meta t = Some m -> V tok n m).
Proof. exact PInv_iff. Qed.

(* one honest operation *)
Theorem C08w_provenance_step : forall (c : wcfg), codec_ok (wc_cdc c) -> flag_undec (wc_cdc c) ->
  forall (L : list (bytes * N * metadata)) (w : world) (op : wop), MInv c (inV L) w -> honest_op c op ->
  MInv c (inV (vals_of L (step_evs c w op))) (wstep c w op).
Proof. exact provenance_step. Qed.
(* histories *)
Theorem C08w_provenance_histories : forall (c : wcfg), codec_ok (wc_cdc c) -> flag_undec (wc_cdc c) ->
  forall (ops : list wop) (L : list (bytes * N * metadata)) (w : world), MInv c (inV L) w -> Forall (honest_op c) ops ->
  MInv c (inV (vals_of L (evs_of c w ops))) (wrun c w ops).
Proof. exact provenance_histories. Qed.
(* the instrumented run reaches the world of the plain run *)
Theorem C08w_wrun_evs_world : forall (c : wcfg) (w : world) (ops : list wop), fst (wrun_evs c w ops) = wrun c w ops.
Proof. exact wrun_evs_world. Qed.

(* the statement, unfolded: every copy, stored or in flight, carries a value of record for its own (identifier, nonce) *)
Theorem C08w_copies_have_provenance : forall (c : wcfg), codec_ok (wc_cdc c) -> flag_undec (wc_cdc c) ->
  forall (L : list (bytes * N * metadata)) (w : world) (ops : list wop), MInv c (inV L) w -> Forall (honest_op c) ops ->
  let w' := wrun c w ops in
  let Vals := vals_of L (evs_of c w ops) in
  (forall sh a x t m, tok_at (env_at c sh) (mk_state (shard_accts w' sh)) a (P ++ x) = Some t -> t_meta t = Some m ->
     exists tok, valid_id tok /\ x = tok ++ u64_bytes (md_nonce m) /\ In (tok, md_nonce m, m) Vals)
  /\ (forall sh a tok n t m, valid_id tok ->
        tok_at (env_at c sh) (mk_state (shard_accts w' sh)) a (nft_key (P ++ tok) n) = Some t -> t_meta t = Some m ->
        In (tok, n, m) Vals /\ md_nonce m = n)
  /\ (forall msg, In msg (inflight w') -> args_prov (inV Vals) (wc_cdc c) (m_fn msg) (m_args msg)).
Proof. exact copies_have_provenance. Qed.

(* histories without an update of (tok, n): every copy carries exactly the creation metadata *)
Theorem C08w_route_histories : forall (c : wcfg), codec_ok (wc_cdc c) -> flag_undec (wc_cdc c) ->
  forall (L : list (bytes * N * metadata)) (w : world) (ops : list wop) (tok : bytes) (n : N) (m0 : metadata),
  MInv c (inV L) w -> Forall (honest_op c) ops -> valid_id tok ->
  fresh tok n L ->
  no_updates tok n (evs_of c w ops) -> created_once tok n (evs_of c w ops) ->
  In (C.BuiltInFunctionESDTNFTCreate, (tok, n, m0)) (evs_of c w ops) ->
  copies_equal c tok n m0 (wrun c w ops).
Proof. exact route_histories. Qed.

(* "created once" from C07's single-creator discipline and no counter wrap (C07.v: init_ok, disciplined, nowrap) *)
Theorem C08w_created_once_disciplined : forall (c : wcfg), codec_ok (wc_cdc c) ->
  forall (tok : bytes) (w0 : world) (ops : list wop),
  init_ok c tok w0 -> disciplined c tok false w0 ops -> nowrap c tok w0 ops ->
  forall n, created_once tok n (evs_of c w0 ops).
Proof. exact created_once_disciplined. Qed.
Theorem C08w_route_histories_disciplined : forall (c : wcfg), codec_ok (wc_cdc c) -> flag_undec (wc_cdc c) ->
  forall (L : list (bytes * N * metadata)) (w : world) (ops : list wop) (tok : bytes) (n : N) (m0 : metadata),
  MInv c (inV L) w -> Forall (honest_op c) ops -> valid_id tok ->
  fresh tok n L -> init_ok c tok w -> disciplined c tok false w ops -> nowrap c tok w ops ->
  no_updates tok n (evs_of c w ops) -> In (C.BuiltInFunctionESDTNFTCreate, (tok, n, m0)) (evs_of c w ops) ->
  copies_equal c tok n m0 (wrun c w ops).
Proof. exact route_histories_disciplined. Qed.

(* the user-facing corollary: without any event for (tok, n), what B holds at the end is what A held at the start *)
Theorem C08w_transfer_chain_delivers : forall (c : wcfg), codec_ok (wc_cdc c) -> flag_undec (wc_cdc c) ->
  forall (L : list (bytes * N * metadata)) (w : world) (ops : list wop) (tok : bytes) (n : N)
         (shA : N) (A : bytes) (tA : token) (m : metadata) (shB : N) (B : bytes) (tB : token) (m' : metadata),
  MInv c (inV L) w -> single_valued tok n L -> Forall (honest_op c) ops -> valid_id tok ->
  no_events tok n (evs_of c w ops) ->
  tok_at (env_at c shA) (mk_state (shard_accts w shA)) A (nft_key (P ++ tok) n) = Some tA -> t_meta tA = Some m ->
  tok_at (env_at c shB) (mk_state (shard_accts (wrun c w ops) shB)) B (nft_key (P ++ tok) n) = Some tB ->
  t_meta tB = Some m' ->
  m' = m.
Proof. exact transfer_chain_delivers. Qed.
(* the two chain: after a history as in C08w_route_histories the set of record is single-valued on (tok, n) *)
Theorem C08w_route_single_valued : forall (L : list (bytes * N * metadata)) (evs : list (bytes * (bytes * N * metadata)))
    (tok : bytes) (n : N) (m0 : metadata),
  fresh tok n L -> no_updates tok n evs -> created_once tok n evs ->
  In (C.BuiltInFunctionESDTNFTCreate, (tok, n, m0)) evs -> single_valued tok n (vals_of L evs).
Proof. exact route_single_valued. Qed.

(* the invariant: holds of the empty world for every V; monotone in V; contains the valid-identifier invariant *)
Theorem C08w_MInv_empty : forall (c : wcfg) (V : bytes -> N -> metadata -> Prop) (n : nat), MInv c V (empty_world n).
Proof. exact MInv_empty. Qed.
Theorem C08w_MInv_mono : forall (c : wcfg) (V V' : bytes -> N -> metadata -> Prop) (w : world),
  (forall tok n md, V tok n md -> V' tok n md) -> MInv c V w -> MInv c V' w.
Proof. exact MInv_mono. Qed.
Theorem C08w_MInv_VInv : forall (c : wcfg) (V : bytes -> N -> metadata -> Prop) (w : world), MInv c V w -> VInv c w.
Proof. exact MInv_VInv. Qed.

(* honest operations: a transaction of an account of the executing shard that names valid identifiers is honest; so is
   any call with truthful presence flags of a function other than the two NFT transfers (the system contract's calls);
   the boolean deciders are sound *)
Theorem C08w_origin_call_honest : forall (c : wcfg) sh fn i, origin_call c sh i -> call_ids fn i -> honest_op c (OCall sh fn i).
Proof. exact origin_call_honest. Qed.
Theorem C08w_plain_call_honest : forall (c : wcfg) sh fn i, presence_ok c sh i ->
  fn <> C.BuiltInFunctionESDTNFTTransfer -> fn <> C.BuiltInFunctionMultiESDTNFTTransfer -> call_ids fn i ->
  honest_op c (OCall sh fn i).
Proof. exact plain_call_honest. Qed.
Theorem C08w_honest_opb_ok : forall (c : wcfg) (op : wop), honest_opb c op = true -> honest_op c op.
Proof. exact honest_opb_ok. Qed.
Theorem C08w_honest_opsb_ok : forall (c : wcfg) (ops : list wop), forallb (honest_opb c) ops = true -> Forall (honest_op c) ops.
Proof. exact honest_opsb_ok. Qed.
Example C08w_honest_opb_unfolded : forall (c : wcfg) sh fn i id gas,
  honest_opb c (OCall sh fn i) =
    ((negb (i_dst i) || (wc_shard_of c (i_rcpt i) =? sh)%N)
     && forallb valid_id_b (named_tokens fn i)
     && (negb (beqb fn C.BuiltInFunctionESDTNFTTransfer || beqb fn C.BuiltInFunctionMultiESDTNFTTransfer) || i_snd i))%bool
  /\ honest_opb c (ODeliver id gas) = true /\ honest_opb c (ORedeliver id gas) = true /\ honest_opb c (ORefund id gas) = true.
Proof. intros. repeat split. Qed.

(* ================================================================ *)
(* non-vacuity: a two-shard world under the ideal codec                *)
(* ================================================================ *)
(* alice and carol live on shard 0, bob on shard 1; the history starts from the EMPTY world:
   0 the system contract gives alice the NFT roles; 1 alice creates NFT#1 (4 units); 2 alice creates NFT#2 (1 unit);
   3 alice -> carol, same shard, 1 of NFT#1; 4 alice -> bob, cross shard, 2 of NFT#1 (message 0); 5 message 0 is
   RE-DELIVERED (F9: not consumed); 6 message 0 is delivered; 7 MultiESDTNFTTransfer alice -> bob, 1 of NFT#1
   (message 1); 8 its delivery; 9 ESDTNFTAddURI on NFT#2; 10 ESDTNFTUpdateAttributes on NFT#2; 11 bob -> carol, cross
   shard, 1 of NFT#1 (message 2); 12 its delivery; 13 alice burns NFT#2. *)
Definition w8_alice : bytes := repeat x01 32.
Definition w8_bob : bytes := repeat x02 32.
Definition w8_carol : bytes := repeat x03 32.
Definition w8_nft : bytes := str "NFT-d4e5f6"%string.
Definition w8c : wcfg :=
  {| wc_cdc := ideal_codec;
     wc_shard_of := fun a => if beqb a w8_bob then 1%N else if beqb a SC then META else 0%N;
     wc_payable := fun _ => PayYes;
     wc_dns := []; wc_enable := false; wc_gas := gas_of (repeat 10%N 22); wc_nshards := 2 |}.
Definition w8_in (caller rcpt : bytes) (args : list bytes) (snd dst : bool) : input :=
  {| i_caller := caller; i_rcpt := rcpt; i_args := args; i_value := 0; i_gas := 100000000; i_gasLocked := 0;
     i_callType := C.DirectCall; i_rae := false; i_snd := snd; i_dst := dst |}.
Definition w8_num (n : N) : bytes := u64_bytes n.
Definition w8_gas : N := 100000000.
Definition w8_0 : world := empty_world 2.
Definition w8_history : list wop :=
  [ OCall 0 C.BuiltInFunctionSetESDTRole
      (w8_in SC w8_alice [w8_nft; C.ESDTRoleNFTCreate; C.ESDTRoleNFTAddQuantity; C.ESDTRoleNFTAddURI; C.ESDTRoleNFTUpdateAttributes;
                            C.ESDTRoleNFTBurn] false true);
    OCall 0 C.BuiltInFunctionESDTNFTCreate
      (w8_in w8_alice w8_alice [w8_nft; w8_num 4; str "one"%string; w8_num 5; str "hash1"%string; str "attr1"%string; str "uri1"%string] true true);
    OCall 0 C.BuiltInFunctionESDTNFTCreate
      (w8_in w8_alice w8_alice [w8_nft; w8_num 1; str "two"%string; w8_num 7; str "hash2"%string; str "attr2"%string; str "uri2"%string] true true);
    OCall 0 C.BuiltInFunctionESDTNFTTransfer (w8_in w8_alice w8_alice [w8_nft; w8_num 1; w8_num 1; w8_carol] true true);
    OCall 0 C.BuiltInFunctionESDTNFTTransfer (w8_in w8_alice w8_alice [w8_nft; w8_num 1; w8_num 2; w8_bob] true true);
    ORedeliver 0 w8_gas;
    ODeliver 0 w8_gas;
    OCall 0 C.BuiltInFunctionMultiESDTNFTTransfer
      (w8_in w8_alice w8_alice [w8_bob; w8_num 1; w8_nft; w8_num 1; w8_num 1] true true);
    ODeliver 1 w8_gas;
    OCall 0 C.BuiltInFunctionESDTNFTAddURI (w8_in w8_alice w8_alice [w8_nft; w8_num 2; str "uri2b"%string] true true);
    OCall 0 C.BuiltInFunctionESDTNFTUpdateAttributes (w8_in w8_alice w8_alice [w8_nft; w8_num 2; str "attr2b"%string] true true);
    OCall 1 C.BuiltInFunctionESDTNFTTransfer (w8_in w8_bob w8_bob [w8_nft; w8_num 1; w8_num 1; w8_carol] true true);
    ODeliver 2 w8_gas;
    OCall 0 C.BuiltInFunctionESDTNFTBurn (w8_in w8_alice w8_alice [w8_nft; w8_num 2; w8_num 1] true true) ].

Definition w8_meta (w : world) (sh : N) (a : bytes) (n : N) : option metadata :=
  match tok_at (env_at w8c sh) (wst w sh) a (nft_key (P ++ w8_nft) n) with Some t => t_meta t | None => None end.
Definition w8_qty (w : world) (sh : N) (a : bytes) (n : N) : Z :=
  balance (env_at w8c sh) (wst w sh) a (nft_key (P ++ w8_nft) n).

(* the metadata values the run produces *)
Definition w8_md1 : metadata :=
  {| md_nonce := 1; md_name := str "one"%string; md_creator := w8_alice; md_royalties := 5; md_hash := str "hash1"%string;
     md_uris := [str "uri1"%string]; md_attributes := str "attr1"%string |}.
Definition w8_md2 : metadata :=
  {| md_nonce := 2; md_name := str "two"%string; md_creator := w8_alice; md_royalties := 7; md_hash := str "hash2"%string;
     md_uris := [str "uri2"%string]; md_attributes := str "attr2"%string |}.
Definition w8_md2' : metadata := set_uris w8_md2 [str "uri2"%string; str "uri2b"%string].
Definition w8_md2'' : metadata := set_attributes w8_md2' (str "attr2b"%string).
(* the world after the two creations, and the transfer segment (operations 3..8) *)
Definition w8_3 : world := wrun w8c w8_0 (firstn 3 w8_history).
Definition w8_transfers : list wop := firstn 6 (skipn 3 w8_history).

Example C08w_example_config :
  wc_cdc w8c = ideal_codec /\ wc_nshards w8c = 2%N /\ w8_0 = empty_world 2 /\ length w8_history = 14%nat
  /\ wc_shard_of w8c w8_alice = 0%N /\ wc_shard_of w8c w8_carol = 0%N /\ wc_shard_of w8c w8_bob = 1%N
  /\ valid_id w8_nft /\ codec_ok (wc_cdc w8c) /\ flag_undec (wc_cdc w8c).
Proof.
  repeat (split; [reflexivity|]). split; [apply valid_id_b_sound; vm_compute; reflexivity|].
  exact (conj ideal_codec_ok flag_undec_ideal).
Qed.
(* (a) the invariant holds of the empty world, for the empty set of record *)
Example C08w_example_start : MInv w8c (inV []) w8_0.
Proof. exact (MInv_empty w8c (inV []) 2). Qed.
(* (b) the hypothesis on the history, decided by vm_compute *)
Example C08w_example_checked : forallb (honest_opb w8c) w8_history = true.
Proof. vm_compute. reflexivity. Qed.
Example C08w_example_honest : Forall (honest_op w8c) w8_history.
Proof. exact (honest_opsb_ok w8c w8_history C08w_example_checked). Qed.
(* every one of the 14 operations executes successfully; four of them are events *)
Example C08w_example_events :
  evs_of w8c w8_0 w8_history =
  [ (C.BuiltInFunctionESDTNFTCreate, (w8_nft, 1%N, w8_md1));
    (C.BuiltInFunctionESDTNFTCreate, (w8_nft, 2%N, w8_md2));
    (C.BuiltInFunctionESDTNFTAddURI, (w8_nft, 2%N, w8_md2'));
    (C.BuiltInFunctionESDTNFTUpdateAttributes, (w8_nft, 2%N, w8_md2'')) ].
Proof. vm_compute. reflexivity. Qed.
(* the conclusion of C08w_provenance_histories / C08w_copies_have_provenance *)
Example C08w_example_provenance :
  MInv w8c (inV (vals_of [] (evs_of w8c w8_0 w8_history))) (wrun w8c w8_0 w8_history).
Proof.
  exact (provenance_histories w8c ideal_codec_ok flag_undec_ideal w8_history [] w8_0 C08w_example_start C08w_example_honest).
Qed.
(* the hypotheses of C08w_route_histories for NFT#1: never updated (the two update events are for NFT#2), created
   once -- here through C07's discipline, decided by C07's boolean checkers -- and not of record initially *)
Example C08w_example_route_hypotheses :
  fresh w8_nft 1 [] /\ no_updates w8_nft 1 (evs_of w8c w8_0 w8_history)
  /\ created_once w8_nft 1 (evs_of w8c w8_0 w8_history)
  /\ In (C.BuiltInFunctionESDTNFTCreate, (w8_nft, 1%N, w8_md1)) (evs_of w8c w8_0 w8_history).
Proof.
  split; [intros m []|]. split; [|split].
  - rewrite C08w_example_events. intros fn m [H|[H|[H|[H|[]]]]]; inversion H; reflexivity.
  - apply (created_once_disciplined w8c ideal_codec_ok w8_nft w8_0 w8_history).
    + apply (init_ok_empty w8c w8_nft 2). reflexivity.
    + apply disciplinedb_ok. vm_compute. reflexivity.
    + apply nowrapb_ok. vm_compute. reflexivity.
  - rewrite C08w_example_events. left. reflexivity.
Qed.
(* its conclusion: every copy of NFT#1, on every shard, stored or in flight, carries the creation metadata *)
Example C08w_example_route : copies_equal w8c w8_nft 1 w8_md1 (wrun w8c w8_0 w8_history).
Proof.
  destruct C08w_example_route_hypotheses as (H1 & H2 & H3 & H4).
  exact (route_histories w8c ideal_codec_ok flag_undec_ideal [] w8_0 w8_history w8_nft 1 w8_md1 C08w_example_start
           C08w_example_honest (proj1 (proj2 (proj2 (proj2 (proj2 (proj2 (proj2 (proj2 C08w_example_config)))))))) H1 H2 H3 H4).
Qed.
(* ... evaluated: where the copies are at the end and what they carry.  (The re-delivery has inflated the quantity:
   4 units were created, carol and bob hold 6 -- F9 -- yet every copy carries the creation metadata.)  NFT#2 was
   updated twice and then burnt; before the burn alice's copy carried the last event's value *)
Example C08w_example_computed :
  let w' := wrun w8c w8_0 w8_history in
  inflight w' = []
  /\ w8_qty w' 0 w8_alice 1 = 0%Z /\ w8_qty w' 0 w8_carol 1 = 2%Z /\ w8_qty w' 1 w8_bob 1 = 4%Z
  /\ w8_meta w' 0 w8_carol 1 = Some w8_md1 /\ w8_meta w' 1 w8_bob 1 = Some w8_md1 /\ w8_meta w' 0 w8_alice 1 = None
  /\ w8_meta (wrun w8c w8_0 (firstn 13 w8_history)) 0 w8_alice 2 = Some w8_md2''
  /\ w8_meta w' 0 w8_alice 2 = None
  /\ length (inflight (wrun w8c w8_0 (firstn 6 w8_history))) = 1%nat
  /\ w8_qty (wrun w8c w8_0 (firstn 6 w8_history)) 1 w8_bob 1 = 2%Z
  /\ w8_qty (wrun w8c w8_0 (firstn 7 w8_history)) 1 w8_bob 1 = 4%Z.
Proof. vm_compute. repeat split. Qed.

(* (c) C08w_transfer_chain_delivers from a NON-EMPTY world: [w8_3] (after the two creations) satisfies the invariant for
   the values produced so far; the segment of operations 3..8 (transfers, re-delivery, deliveries) has no event *)
Example C08w_example_chain_hypotheses :
  let L3 := vals_of [] (evs_of w8c w8_0 (firstn 3 w8_history)) in
  L3 = [(w8_nft, 1%N, w8_md1); (w8_nft, 2%N, w8_md2)]
  /\ MInv w8c (inV L3) w8_3 /\ single_valued w8_nft 1 L3 /\ Forall (honest_op w8c) w8_transfers
  /\ evs_of w8c w8_3 w8_transfers = [] /\ no_events w8_nft 1 (evs_of w8c w8_3 w8_transfers).
Proof.
  cbv zeta. assert (HL : vals_of [] (evs_of w8c w8_0 (firstn 3 w8_history)) = [(w8_nft, 1%N, w8_md1); (w8_nft, 2%N, w8_md2)])
    by (vm_compute; reflexivity).
  assert (He : evs_of w8c w8_3 w8_transfers = []) by (vm_compute; reflexivity).
  split; [exact HL|]. split; [|split; [|split; [|split]]].
  - apply (provenance_histories w8c ideal_codec_ok flag_undec_ideal (firstn 3 w8_history) [] w8_0 C08w_example_start).
    apply honest_opsb_ok. vm_compute. reflexivity.
  - rewrite HL. intros m m' [H|[H|[]]] [H'|[H'|[]]]; inversion H; inversion H'; reflexivity.
  - apply honest_opsb_ok. vm_compute. reflexivity.
  - exact He.
  - rewrite He. intros fn m [].
Qed.
Example C08w_example_chain : forall tA m tB m',
  tok_at (env_at w8c 0) (mk_state (shard_accts w8_3 0)) w8_alice (nft_key (P ++ w8_nft) 1) = Some tA -> t_meta tA = Some m ->
  tok_at (env_at w8c 1) (mk_state (shard_accts (wrun w8c w8_3 w8_transfers) 1)) w8_bob (nft_key (P ++ w8_nft) 1) = Some tB ->
  t_meta tB = Some m' ->
  m' = m.
Proof.
  destruct C08w_example_chain_hypotheses as (_ & H1 & H2 & H3 & _ & H4). intros tA m tB m'.
  exact (transfer_chain_delivers w8c ideal_codec_ok flag_undec_ideal _ w8_3 w8_transfers w8_nft 1 0%N w8_alice tA m 1%N w8_bob tB m'
           H1 H2 H3 (proj1 (proj2 (proj2 (proj2 (proj2 (proj2 (proj2 (proj2 C08w_example_config)))))))) H4).
Qed.
(* ... its premises are satisfiable and its conclusion is what the computation shows *)
Example C08w_example_chain_computed :
  w8_meta w8_3 0 w8_alice 1 = Some w8_md1 /\ w8_qty w8_3 0 w8_alice 1 = 4%Z
  /\ w8_meta (wrun w8c w8_3 w8_transfers) 1 w8_bob 1 = Some w8_md1 /\ w8_qty (wrun w8c w8_3 w8_transfers) 1 w8_bob 1 = 5%Z
  /\ wrun w8c w8_3 w8_transfers = wrun w8c w8_0 (firstn 9 w8_history).
Proof. vm_compute. repeat split. Qed.

(* ---------------- the hypothesis is needed / what it excludes ---------------- *)
(* a forged destination-side ESDTNFTTransfer (caller's account absent) and a call naming the F4b identifier are
   refused by the decider; a pause addressed to the system account with the presence flag set on shard 1 (where the
   system account does not live) is refused as well, with the flag cleared it is accepted *)
Example C08w_example_refused :
  honest_opb w8c (OCall 1 C.BuiltInFunctionESDTNFTTransfer
                    (w8_in w8_alice w8_bob [w8_nft; w8_num 1; w8_num 1; str "forged"%string] false true)) = false
  /\ honest_opb w8c (OCall 0 C.BuiltInFunctionESDTNFTTransfer
                    (w8_in w8_alice w8_alice [str "ABC-12345"%string; w8_num 1; w8_num 1; w8_bob] true true)) = false
  /\ honest_opb w8c (OCall 1 C.BuiltInFunctionESDTPause (w8_in SC SYS [w8_nft] false true)) = false
  /\ honest_opb w8c (OCall 1 C.BuiltInFunctionESDTPause (w8_in SC SYS [w8_nft] false false)) = true
  /\ honest_opb w8c (OCall 0 C.BuiltInFunctionESDTPause (w8_in SC SYS [w8_nft] false true)) = true.
Proof. vm_compute. repeat split. Qed.

Print Assumptions C08w_vocabulary.
Print Assumptions C08w_args_prov_unfolded.
Print Assumptions C08w_events_unfolded.
Print Assumptions C08w_route_vocabulary.
Print Assumptions C08w_PInv_exec.
Print Assumptions C08w_PInv_iff.
Print Assumptions C08w_provenance_step.
Print Assumptions C08w_provenance_histories.
Print Assumptions C08w_wrun_evs_world.
Print Assumptions C08w_copies_have_provenance.
Print Assumptions C08w_route_histories.
Print Assumptions C08w_created_once_disciplined.
Print Assumptions C08w_route_histories_disciplined.
Print Assumptions C08w_transfer_chain_delivers.
Print Assumptions C08w_route_single_valued.
Print Assumptions C08w_MInv_empty.
Print Assumptions C08w_MInv_mono.
Print Assumptions C08w_MInv_VInv.
Print Assumptions C08w_origin_call_honest.
Print Assumptions C08w_plain_call_honest.
Print Assumptions C08w_honest_opb_ok.
Print Assumptions C08w_honest_opsb_ok.
Print Assumptions C08w_honest_opb_unfolded.
Print Assumptions C08w_example_config.
Print Assumptions C08w_example_start.
Print Assumptions C08w_example_checked.
Print Assumptions C08w_example_honest.
Print Assumptions C08w_example_events.
Print Assumptions C08w_example_provenance.
Print Assumptions C08w_example_route_hypotheses.
Print Assumptions C08w_example_route.
Print Assumptions C08w_example_computed.
Print Assumptions C08w_example_chain_hypotheses.
Print Assumptions C08w_example_chain.
Print Assumptions C08w_example_chain_computed.
Print Assumptions C08w_example_refused.
