(* Property C05, extension: ---- honest identifiers: the F4b hypothesis discharged ----
   Only statements, each closed by [exact] of a lemma of LedgerProofs/ValidIds_*.v; non-vacuity; assumptions.

   Properties/C05.v proves the sharp, exact-nonce footprint [fp_exact] (C05_exec_frame_exact) under
   [fp_consistent] (= [lookup_consistent] of the NFT lookups: known finding F4b) and refutes it without.  Here the
   hypothesis is replaced by the state invariant [ids_valid E s] (every entry under  P ++ x  sits under
   x = tok ++ u64_bytes (tok_nonce t)  for a valid identifier tok; Properties/C01_validids.v:
   C01_valid_ids_definitions_unfolded) and [call_ids f i] (the identifiers the call names -- [named_tokens], C05_named_def --
   have the protocol's shape  ticker-6bytes, [valid_id]).  [ids_valid] is preserved by every successful call of
   every function that names valid identifiers (C05_ids_valid_exec), holds of a state without token entries, and
   is decided on concrete states by [ids_check]. *)
From Coq.Strings Require Import String.
From EV Require Import Base.Bytes Base.Store Base.Monad gen.Consts Codec.Types Codec.CodecOk Helpers.Helpers
  Ledger.Types Ledger.Env Ledger.Funcs Ledger.Transfers Ledger.World
  LedgerProofs.Defs LedgerProofs.EnvSpec LedgerProofs.WorldSpec
  LedgerProofs.Spec_Transfers_Base LedgerProofs.Spec_Transfers_Multi LedgerProofs.Spec_Supply
  LedgerProofs.C05_Footprint LedgerProofs.C15_Inv LedgerProofs.C01_Consistent LedgerProofs.C01_Examples
  LedgerProofs.ValidIds_Id LedgerProofs.ValidIds_Inv LedgerProofs.ValidIds_Exec LedgerProofs.ValidIds_World
  LedgerProofs.ValidIds_Frame LedgerProofs.ValidIds_Examples.

(* ---- honest identifiers: the F4b hypothesis discharged ---- *)

(* the hypothesis of C05_exec_frame_exact follows from the invariant and the shape of the named identifiers *)
Theorem C05_ids_valid_fp_consistent : forall (E : env) f i s,
  ids_valid E s -> call_ids f i -> fp_consistent E f i s.
Proof. exact ids_valid_fp_consistent. Qed.

(* the sharp footprint: a successful call of ANY function changes no cell outside the computable list [fp_exact]
   (exact nonce) and no account field outside [fp_accts] *)
Theorem C05_exec_frame_exact_valid_ids : forall (E : env), codec_ok (cdc E) -> forall f i s o s',
  exec E f i s = (Ok o, s') -> ids_valid E s -> call_ids f i ->
  unchanged_except (fun a k => In (a, k) (fp_exact E f i s)) (fp_accts (footprint E f i s)) s s'.
Proof. exact exec_frame_exact_valid_ids. Qed.

(* the invariant is preserved, so the sharp frame applies again to the next call *)
Theorem C05_ids_valid_exec : forall (E : env) f i s o s',
  codec_ok (cdc E) -> flag_undec (cdc E) -> ids_valid E s -> call_ids f i ->
  exec E f i s = (Ok o, s') -> ids_valid E s'.
Proof. exact ids_valid_exec. Qed.
Theorem C05_ids_valid_empty : forall (E : env), ids_valid E (mk_state []).
Proof. exact ids_valid_empty. Qed.

(* non-vacuity (ideal codec): alice holds 3 of "NFA-112233" nonce 1 and the add-quantity role; the state is
   [ids_valid], ESDTNFTAddQuantity(NFA-112233, 1, 4) succeeds, the balance effect and the sharp frame hold, the
   sharp footprint is the single cell (alice, P ++ "NFA-112233" ++ 01), and the post-state is [ids_valid] again *)
Example C05_valid_ids_example :
  ids_valid EV0 sV
  /\ exists o s', exec EV0 C.BuiltInFunctionESDTNFTAddQuantity addq_in sV = (Ok o, s')
    /\ (forall a k, balance EV0 s' a k = (balance EV0 sV a k + (if at_cell a k alice kNfa then 4 else 0))%Z)
    /\ balance EV0 s' alice kNfa = 7%Z /\ ids_valid EV0 s'
    /\ unchanged_except (fun a k => In (a, k) (fp_exact EV0 C.BuiltInFunctionESDTNFTAddQuantity addq_in sV))
                        (fp_accts (footprint EV0 C.BuiltInFunctionESDTNFTAddQuantity addq_in sV)) sV s'
    /\ fp_exact EV0 C.BuiltInFunctionESDTNFTAddQuantity addq_in sV = [(alice, kNfa)].
Proof. exact (conj exV_state exV_add_quantity). Qed.

Print Assumptions C05_ids_valid_fp_consistent.
Print Assumptions C05_exec_frame_exact_valid_ids.
Print Assumptions C05_ids_valid_exec.
Print Assumptions C05_ids_valid_empty.
Print Assumptions C05_valid_ids_example.
