(* Property C07, extension: ---- nonce uniqueness over histories of HONEST operations, for every token at once ----
   Only statements, each closed by [exact] of a lemma of LedgerProofs/Capstone_Histories.v; pins; non-vacuity; assumptions.

   Reading guide (the vocabulary of Properties/C07.v -- [wrun_log], [issued], [init_ok], [CInv], [disciplined], [nowrap]
   -- is used unchanged).
   * Properties/C07.v states nonce uniqueness for histories that are [disciplined c tok false w0 ops] and [nowrap]: a
     condition per token, phrased through the call each step EXECUTES (so it speaks about delivered messages too).
     Here the hypothesis is on the OPERATIONS: [honest_ops7 G w ops] = every operation is an [honest_op] (C07c_vocabulary:
     user transactions of the executing shard naming valid identifiers, the system contract's nine calls, deliveries
     and refunds; no re-delivery) and obeys [creator_ok] (C07c_creator_ok_unfolded) at the world it is executed in:
     the system contract sets the create role of a token at most once (ghost list G of tokens whose create role it has
     set or tried to set), never unsets it, hands it over only from the account that holds it; ESDTNFTCreate only while
     the caller's counter is below 2^64 - 1.  Nothing is asked of deliveries and refunds: that no in-flight message is
     named ESDTSetRole / ESDTUnSetRole / ESDTNFTCreate follows from the joint invariant [JInv].
   * C07c_honest7_disciplined: such a history is C07-disciplined and wrap-free for EVERY token.
     C07c_nonces_unique_honest_histories: from a world satisfying JInv and [init_ok] for tok (no holder, no hand-over
     in flight -- the empty world is), the nonces issued for tok are pairwise distinct and strictly increasing.
     C07c_creator_invariant_honest_histories: C07's invariant (at most one holder; its counter, or the counter a
     hand-over message carries, bounds every issued nonce) from any world satisfying it.
   * NOT covered: re-deliveries (F9: see C07_nonces_unique_histories_redelivery in C07.v for the permissive discipline);
     a system contract that grants the create role twice or unsets it; counter wrap at 2^64 - 1. *)
From Coq.Strings Require Import String.
From Coq Require Import List Sorted.
From EV Require Import Base.Bytes Base.Store Base.Monad gen.Consts Codec.Types Codec.Proto Codec.Ideal Codec.CodecOk
  Helpers.Helpers Ledger.Types Ledger.Env Ledger.Funcs Ledger.Transfers Ledger.World Corr.Exec
  LedgerProofs.Defs LedgerProofs.EnvSpec LedgerProofs.WorldDefs LedgerProofs.WorldSpec
  LedgerProofs.Spec_Transfers_Base LedgerProofs.Spec_Transfers_Multi LedgerProofs.Spec_Supply
  LedgerProofs.C01_World LedgerProofs.C01_Step LedgerProofs.C01_Consistent
  LedgerProofs.C02_Effects LedgerProofs.C02_NonNeg LedgerProofs.C02_World LedgerProofs.C05_Footprint
  LedgerProofs.C07_Exec LedgerProofs.C07_World LedgerProofs.C07_Histories
  LedgerProofs.C15_Inv LedgerProofs.C15_World LedgerProofs.NoPanic LedgerProofs.NoPanicWorldEmit LedgerProofs.NoPanicWorld
  LedgerProofs.Supply_Base LedgerProofs.Supply_Calls LedgerProofs.Supply_Step
  LedgerProofs.ValidIds_Id LedgerProofs.ValidIds_Inv LedgerProofs.ValidIds_World
  LedgerProofs.Capstone_Defs LedgerProofs.Capstone_Step LedgerProofs.Capstone_Histories LedgerProofs.Capstone_Check
  LedgerProofs.Capstone_Examples LedgerProofs.Capstone_Decide.
Import ListNotations.

(* ================================================================ *)
(* pins                                                               *)
(* ================================================================ *)
Example C07c_vocabulary : forall (c : wcfg) (w : world) (op : wop) (r : list wop) (sh : N) (fn : bytes) (i : input) id gas,
  (honest_op c w (OCall sh fn i) <-> (alen (i_args i) < 2 ^ 40)%N /\ (user_call c w sh fn i \/ system_call c w sh fn i))
  /\ (honest_op c w (ODeliver id gas) <-> True) /\ (honest_op c w (ORefund id gas) <-> True)
  /\ (honest_op c w (ORedeliver id gas) <-> False)
  /\ (user_call c w sh fn i <->
        (wc_shard_of c (i_caller i) = sh /\ i_snd i = (wc_shard_of c (i_caller i) =? sh)%N
         /\ i_dst i = (wc_shard_of c (i_rcpt i) =? sh)%N)
        /\ i_caller i <> SC
        /\ (Forall valid_id (named_tokens fn i)
            /\ (fn = C.BuiltInFunctionMultiESDTNFTTransfer -> Forall (fun x => valid_id (rt_tok x)) (multi_snd_triples i)))
        /\ (fn = C.BuiltInFunctionESDTNFTCreate ->
            balance (env_at c sh) (mk_state (shard_accts w sh)) (i_caller i)
                    (nft_key (P ++ argn i 0) (create_nonce i (mk_state (shard_accts w sh)))) = 0%Z))
  /\ (system_call c w sh fn i <->
        In fn sys_fns /\ i_caller i = SC /\ i_snd i = false /\ i_dst i = true /\ Forall valid_id (named_tokens fn i)
        /\ (fn = C.BuiltInFunctionESDTPause \/ fn = C.BuiltInFunctionESDTUnPause ->
            i_rcpt i = SYS /\ balance (env_at c sh) (mk_state (shard_accts w sh)) SYS (P ++ argn i 0) = 0%Z)
        /\ (~ (fn = C.BuiltInFunctionESDTPause \/ fn = C.BuiltInFunctionESDTUnPause) ->
            wc_shard_of c (i_rcpt i) = sh /\ i_rcpt i <> SC)
        /\ (fn = C.BuiltInFunctionSetESDTRole -> forall tok, nth_error (i_args i) 0 = Some tok ->
            NoDup (roles_at (env_at c sh) (mk_state (shard_accts w sh)) (i_rcpt i) tok ++ skipn 1 (i_args i))))
  /\ sys_fns = [C.BuiltInFunctionESDTFreeze; C.BuiltInFunctionESDTUnFreeze; C.BuiltInFunctionESDTWipe;
                C.BuiltInFunctionESDTPause; C.BuiltInFunctionESDTUnPause; C.BuiltInFunctionSetESDTRole;
                C.BuiltInFunctionUnSetESDTRole; C.BuiltInFunctionESDTNFTCreateRoleTransfer; C.BuiltInFunctionESDTTransfer]
  /\ (honest_ops c w [] <-> True)
  /\ (honest_ops c w (op :: r) <-> honest_op c w op /\ honest_ops c (wstep c w op) r)
  /\ (JInv c w <->
        WInv' c w /\ C15_World.WInv c w /\ PInv c w /\ VInv c w /\ WNonNeg c w
        /\ Forall (fun m => ~ In (m_fn m) silent_fns) (inflight w))
  /\ silent_fns = [C.BuiltInFunctionESDTNFTAddQuantity; C.BuiltInFunctionESDTNFTBurn; C.BuiltInFunctionESDTNFTAddURI;
                   C.BuiltInFunctionESDTNFTUpdateAttributes; C.BuiltInFunctionESDTNFTCreate;
                   C.BuiltInFunctionESDTPause; C.BuiltInFunctionESDTUnPause; C.BuiltInFunctionUnSetESDTRole].
Proof.
  intros. repeat (split; [reflexivity|]). split; [|reflexivity].
  split; [intros [H1 H2 H3 H4 H5 H6]; auto 10|intros (H1 & H2 & H3 & H4 & H5 & H6); constructor; assumption].
Qed.

(* the single-creator discipline as a condition on one operation, and the ghost list *)
Example C07c_creator_ok_unfolded : forall (c : wcfg) (G : list bytes) (w : world) (op : wop) (r : list wop) sh fn i id gas,
  (creator_ok c G w (OCall sh fn i) <->
     (i_caller i = SC ->
        (* set at most once *)
        (fn = C.BuiltInFunctionSetESDTRole -> In C.ESDTRoleNFTCreate (tl (i_args i)) -> ~ In (argn i 0) G)
        (* never unset *)
        /\ (fn = C.BuiltInFunctionUnSetESDTRole -> ~ In C.ESDTRoleNFTCreate (tl (i_args i)))
        (* handed over only from the account that holds it *)
        /\ (fn = C.BuiltInFunctionESDTNFTCreateRoleTransfer ->
            has_role (env_at c sh) (mk_state (shard_accts w sh)) (i_rcpt i) (argn i 0) C.ESDTRoleNFTCreate = true))
     (* no wrap *)
     /\ (fn = C.BuiltInFunctionESDTNFTCreate ->
         (counter_at (mk_state (shard_accts w sh)) (i_caller i) (argn i 0) + 1 < two64)%N))
  /\ (creator_ok c G w (ODeliver id gas) <-> True) /\ (creator_ok c G w (ORefund id gas) <-> True)
  /\ (creator_ok c G w (ORedeliver id gas) <-> True)
  /\ granted_after G (OCall sh fn i) =
       (if (beqb fn C.BuiltInFunctionSetESDTRole && beqb (i_caller i) SC && bytes_in C.ESDTRoleNFTCreate (tl (i_args i)))%bool
        then argn i 0 :: G else G)
  /\ granted_after G (ODeliver id gas) = G /\ granted_after G (ORefund id gas) = G /\ granted_after G (ORedeliver id gas) = G
  /\ (honest_ops7 c G w [] <-> True)
  /\ (honest_ops7 c G w (op :: r) <->
        honest_op c w op /\ creator_ok c G w op /\ honest_ops7 c (granted_after G op) (wstep c w op) r).
Proof. intros. repeat (split; [reflexivity|]). reflexivity. Qed.

(* ================================================================ *)
(* the theorems                                                       *)
(* ================================================================ *)
(* an honest history obeying [creator_ok] is honest *)
Theorem C07c_honest7_honest : forall (c : wcfg) (ops : list wop) (G : list bytes) (w : world),
  honest_ops7 c G w ops -> honest_ops c w ops.
Proof. exact honest_ops7_honest. Qed.

(* ... and C07-disciplined and wrap-free for EVERY token (the flag of C07's discipline: tok is in the ghost list) *)
Theorem C07c_honest7_disciplined : forall (c : wcfg), codec_ok (wc_cdc c) -> flag_undec (wc_cdc c) ->
  forall (tok : bytes) (ops : list wop) (G : list bytes) (w : world), JInv c w -> honest_ops7 c G w ops ->
  C07_World.disciplined c tok (bytes_in tok G) w ops /\ nowrap c tok w ops.
Proof. exact honest7_disciplined. Qed.

(* nonce uniqueness: the nonces issued for one token are pairwise distinct and strictly increasing, for every token *)
Theorem C07c_nonces_unique_honest_histories : forall (c : wcfg), codec_ok (wc_cdc c) -> flag_undec (wc_cdc c) ->
  forall (tok : bytes) (w : world) (ops : list wop), JInv c w -> init_ok c tok w -> honest_ops7 c [] w ops ->
  let L := issued tok (snd (wrun_log c w ops)) in NoDup L /\ StronglySorted N.lt L.
Proof. exact capstone_nonces_unique. Qed.

(* C07's invariant from any world satisfying it: at most one holder of the create role, whose counter (or the counter
   carried by the hand-over message in flight) bounds every nonce issued (C07_CInv_unfolded in C07.v) *)
Theorem C07c_creator_invariant_honest_histories : forall (c : wcfg), codec_ok (wc_cdc c) -> flag_undec (wc_cdc c) ->
  forall (tok : bytes) (G : list bytes) (w : world) (L : list N) (ops : list wop),
  JInv c w -> CInv c tok (bytes_in tok G) w L -> honest_ops7 c G w ops ->
  exists g', CInv c tok g' (wrun c w ops) (L ++ issued tok (snd (wrun_log c w ops))).
Proof. exact capstone_creator_invariant. Qed.

(* no in-flight message of a JInv world is named after ESDTSetRole / ESDTUnSetRole / ESDTNFTCreate: what a delivery or
   a refund executes cannot grant, revoke or create *)
Theorem C07c_delivered_names : forall (c : wcfg) (w : world) (op : wop) sh fn i, JInv c w -> op_exec c w op = Some (sh, fn, i) ->
  match op with
  | OCall _ _ _ => True
  | _ => fn <> C.BuiltInFunctionSetESDTRole /\ fn <> C.BuiltInFunctionUnSetESDTRole /\ fn <> C.BuiltInFunctionESDTNFTCreate
  end.
Proof. exact op_exec_msg_names. Qed.

(* the hypothesis decided by computation, along the run *)
Theorem C07c_decider_sound : forall (c : wcfg) (ops : list wop) (G : list bytes) (w : world),
  honest_ops7_b c G w ops = true -> honest_ops7 c G w ops.
Proof. exact honest_ops7_b_ok. Qed.

(* ================================================================ *)
(* non-vacuity                                                        *)
(* ================================================================ *)
(* (a) the start: the empty world satisfies the joint invariant and [init_ok] for every token *)
Theorem C07c_JInv_empty : forall (c : wcfg) (n : nat), (wc_nshards c <= N.of_nat n)%N -> JInv c (C15_World.empty_world n).
Proof. exact JInv_empty. Qed.
Example C07c_example_start :
  wc_cdc kc = ideal_codec /\ wc_nshards kc = 2%N /\ kw0 = C15_World.empty_world 2
  /\ wc_shard_of kc k_alice = 0%N /\ wc_shard_of kc k_bob = 1%N
  /\ codec_ok (wc_cdc kc) /\ flag_undec (wc_cdc kc) /\ JInv kc kw0 /\ (forall tok, init_ok kc tok kw0).
Proof.
  repeat (split; [reflexivity|]). exact (conj kc_ok (conj kc_flag (conj capstone2_start capstone2_init))).
Qed.

(* (b) the mixed history of 34 operations (listed in full in Properties/C02_capstone.v, C02c_example_history); the
   operations that matter for the create role: *)
Example C07c_example_history : length k_history2 = 34%nat
  /\ nth 3 k_history2 (ODeliver 0 0) =                      (* the grant: alice, shard 0 *)
       OCall 0 C.BuiltInFunctionSetESDTRole
         (k_in SC k_alice [k_nft; C.ESDTRoleNFTCreate; C.ESDTRoleNFTAddQuantity; C.ESDTRoleNFTBurn] false true)
  /\ nth 4 k_history2 (ODeliver 0 0) = k_create 0 k_alice 4    (* alice creates: nonce 1 *)
  /\ nth 22 k_history2 (ODeliver 0 0) =                     (* the hand-over to bob on shard 1: message 4 *)
       OCall 0 C.BuiltInFunctionESDTNFTCreateRoleTransfer (k_in SC k_alice [k_nft; k_bob] false true)
  /\ nth 23 k_history2 (ODeliver 0 0) = ODeliver 4 k_gas       (* its delivery *)
  /\ nth 24 k_history2 (ODeliver 0 0) = k_create 1 k_bob 1     (* bob creates: nonce 2 *)
  /\ nth 25 k_history2 (ODeliver 0 0) = k_create 0 k_alice 1   (* alice's create is refused: the role is gone *)
  /\ nth 31 k_history2 (ODeliver 0 0) =                     (* a later grant of OTHER roles to bob is allowed *)
       OCall 1 C.BuiltInFunctionSetESDTRole
         (k_in SC k_bob [k_nft; C.ESDTRoleNFTAddURI; C.ESDTRoleNFTUpdateAttributes] false true)
  /\ (forall sh a q, k_create sh a q =
        OCall sh C.BuiltInFunctionESDTNFTCreate
          (k_in a a [k_nft; k_num q; str "name"%string; k_num 5; str "hash"%string; str "attr"%string; str "uri"%string] true true)).
Proof. repeat split. Qed.
(* the hypothesis, decided ALONG the run by the boolean checker (vm_compute) *)
Example C07c_example_checked : honest_ops7_b kc [] kw0 k_history2 = true.
Proof. exact (proj2 capstone2_checked). Qed.
Example C07c_example_hypothesis : honest_ops7 kc [] kw0 k_history2.
Proof. exact (proj2 capstone2_honest). Qed.
(* the conclusions *)
Example C07c_example_nonces_unique : forall tok,
  let L := issued tok (snd (wrun_log kc kw0 k_history2)) in NoDup L /\ StronglySorted N.lt L.
Proof. exact capstone2_nonces_unique. Qed.
Example C07c_example_disciplined : forall tok,
  C07_World.disciplined kc tok false kw0 k_history2 /\ nowrap kc tok kw0 k_history2.
Proof. exact capstone2_disciplined. Qed.
Example C07c_example_creator_invariant : forall tok,
  exists g', CInv kc tok g' (wrun kc kw0 k_history2) ([] ++ issued tok (snd (wrun_log kc kw0 k_history2))).
Proof. exact capstone2_creator_invariant. Qed.
(* ... evaluated: the nonces issued for NFT-d4e5f6 are 1 (by alice on shard 0) and 2 (by bob on shard 1); none for the
   fungible token; the ghost list at the end; the create role sits with bob only; the statuses of the three creations *)
Example C07c_example_computed :
  let w' := wrun kc kw0 k_history2 in
  issued k_nft (snd (wrun_log kc kw0 k_history2)) = [1; 2]%N
  /\ issued k_tok (snd (wrun_log kc kw0 k_history2)) = []
  /\ fold_left granted_after k_history2 [] = [k_nft]
  /\ has_role (env_at kc 1) (mk_state (shard_accts w' 1)) k_bob k_nft C.ESDTRoleNFTCreate = true
  /\ has_role (env_at kc 0) (mk_state (shard_accts w' 0)) k_alice k_nft C.ESDTRoleNFTCreate = false
  /\ map (fun n => nth n (statuses kc kw0 k_history2) None) [4; 24; 25]%nat = [Some SOk; Some SOk; Some SErr].
Proof.
  cbv zeta. destruct capstone2_final as (_ & _ & _ & _ & _ & _ & _ & H1 & H2 & H3 & _ & _ & _ & _ & H4 & H5).
  rewrite capstone2_statuses. exact (conj H1 (conj H2 (conj H3 (conj H4 (conj H5 eq_refl))))).
Qed.

(* ---------------- the discipline is checked, not assumed ---------------- *)
(* a second grant of the create role for the same token is refused by the checker (the ghost list holds it) *)
Example C07c_example_second_grant_refused :
  creator_ok_b kc [k_nft] kw0
    (OCall 1 C.BuiltInFunctionSetESDTRole (k_in SC k_bob [k_nft; C.ESDTRoleNFTCreate] false true)) = false
  /\ creator_ok_b kc [] kw0
    (OCall 1 C.BuiltInFunctionSetESDTRole (k_in SC k_bob [k_nft; C.ESDTRoleNFTCreate] false true)) = true
  /\ honest_op_b kc kw0 (ORedeliver 4 k_gas) = false.
Proof. vm_compute. repeat split. Qed.

Print Assumptions C07c_vocabulary.
Print Assumptions C07c_creator_ok_unfolded.
Print Assumptions C07c_honest7_honest.
Print Assumptions C07c_honest7_disciplined.
Print Assumptions C07c_nonces_unique_honest_histories.
Print Assumptions C07c_creator_invariant_honest_histories.
Print Assumptions C07c_delivered_names.
Print Assumptions C07c_decider_sound.
Print Assumptions C07c_JInv_empty.
Print Assumptions C07c_example_start.
Print Assumptions C07c_example_history.
Print Assumptions C07c_example_checked.
Print Assumptions C07c_example_hypothesis.
Print Assumptions C07c_example_nonces_unique.
Print Assumptions C07c_example_disciplined.
Print Assumptions C07c_example_creator_invariant.
Print Assumptions C07c_example_computed.
Print Assumptions C07c_example_second_grant_refused.
