(* Property C01, extension: ---- honest identifiers: the F4b hypothesis discharged ----
   Only statements, each closed by [exact] of a lemma of LedgerProofs/ValidIds_*.v; pins; non-vacuity; assumptions.

   Reading guide (the vocabulary of Properties/C01.v is used unchanged).
   * [valid_id tok] (LedgerProofs/C01_Consistent.v): tok = ticker ++ "-" ++ rnd, no '-' in ticker, |rnd| = 6.
     It contains every identifier the ESDT system contract issues ([protocol_id_b]: 3..10 characters [A-Z0-9], '-',
     6 lowercase hex characters; C01_protocol_id_valid), is decidable ([valid_id_b]) and is PREFIX-FREE for
     arbitrary tails (C01_valid_id_prefix_free): the first '-' ends the ticker and the identifier ends 6 bytes
     later.  So the storage key  P ++ tok ++ nonce-bytes  determines (tok, nonce) among valid identifiers
     (C01_valid_id_key_injective).  The F4b identifiers "ABC-12345" / "ABC-123456" are not both valid.
   * [ids_valid E s], the state invariant (C01_valid_ids_definitions_unfolded): every entry t stored under a key
     P ++ x  sits under  x = tok ++ u64_bytes (tok_nonce t)  for a VALID tok ([tok_nonce t] = metadata nonce, 0
     without metadata).  It strengthens clause (I4) of C15's [Inv] ("... for SOME tok"; that clause alone does not
     exclude F4b: the aliasing state satisfies it) and is self-contained: no other clause of [Inv] is needed.
     Entries without metadata are covered on purpose: [lookup_consistent] speaks about whatever entry is found.
   * C01_ids_valid_lookup_consistent: under [ids_valid], EVERY lookup under a valid identifier is consistent.
   * C01_ids_valid_exec: [ids_valid] is preserved by a successful call of ANY of the 23 functions, on any input,
     any environment whose codec is [codec_ok] and does not decode the 2-byte pause flag ([flag_undec], true of the
     protobuf and the ideal codec: C01_flag_undec), provided the identifiers the call names are valid
     ([call_ids f i] = Forall valid_id (named_tokens f i): argument 0, resp. the token of every triple of a
     multi-transfer -- C05_named_def); and the messages it emits name valid identifiers only ([outv]).
   * World level: [VInv c w] = every shard [ids_valid] + every in-flight message names valid identifiers
     ([args_ids]); [op_ids op]: a direct call names valid identifiers (argument 0; for MultiESDTNFTTransfer the
     token of every origin-side triple).  C01_conservation_histories_valid_ids: for worlds satisfying C01's [WInv]
     and [VInv] and every history of [transfer_op]s satisfying [op_ids], every total is conserved -- NO
     [consistent_along] hypothesis: it is derived step by step (C01_consistent_along_valid_ids), both invariants
     are preserved (C01_invariants_histories_valid_ids).  C15's [WInv] is NOT needed.
     [VInv] holds of the empty world (C01_VInv_empty) and is decidable on worlds without in-flight messages
     ([vinv_b]). *)
From Coq.Strings Require Import String.
From EV Require Import Base.Bytes Base.Store Base.Monad gen.Consts Codec.Types Codec.Proto Codec.Ideal Codec.CodecOk
  Helpers.Helpers Ledger.Types Ledger.Env Ledger.Funcs Ledger.Transfers Ledger.World Corr.Exec
  LedgerProofs.Defs LedgerProofs.EnvSpec LedgerProofs.WorldDefs LedgerProofs.WorldSpec
  LedgerProofs.Spec_Transfers_Base LedgerProofs.Spec_Transfers_Esdt LedgerProofs.Spec_Transfers_Nft
  LedgerProofs.Spec_Transfers_Multi LedgerProofs.Spec_Transfers
  LedgerProofs.C05_Footprint LedgerProofs.C15_Inv LedgerProofs.C15_World
  LedgerProofs.C01_World LedgerProofs.C01_Step LedgerProofs.C01_Exact LedgerProofs.C01_Check
  LedgerProofs.C01_Consistent LedgerProofs.C01_Examples
  LedgerProofs.ValidIds_Id LedgerProofs.ValidIds_Inv LedgerProofs.ValidIds_Exec LedgerProofs.ValidIds_World
  LedgerProofs.ValidIds_Frame LedgerProofs.ValidIds_Examples.

(* ---- honest identifiers: the F4b hypothesis discharged ---- *)

(* ================================================================ *)
(* pins: the vocabulary, written out                                  *)
(* ================================================================ *)
Example C01_valid_ids_definitions_unfolded :
  forall (E : env) (s : mstate) (c : wcfg) (w : world) (tok x : bytes) (t : token) (f : bytes) (i : input)
         (A : list bytes),
  (valid_id tok <-> exists ticker rnd, tok = ticker ++ x2d :: rnd /\ ~ In x2d ticker /\ length rnd = 6%nat)
  /\ tok_nonce t = match t_meta t with Some m => md_nonce m | None => 0%N end
  /\ (idk x t <-> exists tok', valid_id tok' /\ x = tok' ++ u64_bytes (tok_nonce t))
  /\ (ids_valid E s <-> forall a x t, tok_at E s a (P ++ x) = Some t -> idk x t)
  /\ (call_ids f i <-> Forall valid_id (named_tokens f i))
  /\ (args_ids f A <-> forall i', i_args i' = A -> i_caller i' <> i_rcpt i' -> call_ids f i')
  /\ (VInv c w <-> (forall sh, ids_valid (env_at c sh) (mk_state (shard_accts w sh)))
                   /\ Forall (fun m => args_ids (m_fn m) (m_args m)) (inflight w))
  /\ (origin_ids f i <->
        (f <> C.BuiltInFunctionMultiESDTNFTTransfer -> valid_id (argn i 0))
        /\ (f = C.BuiltInFunctionMultiESDTNFTTransfer -> Forall (fun x => valid_id (rt_tok x)) (multi_snd_triples i)))
  /\ (forall sh, op_ids (OCall sh f i) = origin_ids f i)
  /\ (forall id g, op_ids (ODeliver id g) = True /\ op_ids (ORefund id g) = True)
  /\ (flag_undec (cdc E) <-> forall b, dec_tok (cdc E) (flag_bytes b) = None).
Proof.
  intros. split; [reflexivity|]. split; [reflexivity|]. split; [reflexivity|]. split; [apply ids_valid_tok_at|].
  split; [reflexivity|]. split; [reflexivity|]. split; [reflexivity|]. split; [reflexivity|]. split; [reflexivity|].
  split; [intros; split; reflexivity|reflexivity].
Qed.
(* the pause flag does not decode as a token entry, for the protobuf codec and for the ideal codec *)
Theorem C01_flag_undec : flag_undec the_codec /\ flag_undec ideal_codec.
Proof. exact (conj vi_flag_undec_proto vi_flag_undec_ideal). Qed.

(* ================================================================ *)
(* 1. the shape of identifiers                                        *)
(* ================================================================ *)
(* prefix-freeness, for arbitrary tails *)
Theorem C01_valid_id_prefix_free : forall tok tok' x x',
  valid_id tok -> valid_id tok' -> tok ++ x = tok' ++ x' -> tok = tok' /\ x = x'.
Proof. exact valid_id_prefix_free. Qed.
(* a storage key has at most one reading (identifier, nonce) with a valid identifier *)
Theorem C01_valid_id_key_injective : forall tok tok' n n',
  valid_id tok -> valid_id tok' -> nft_key (P ++ tok) n = nft_key (P ++ tok') n' -> tok = tok' /\ n = n'.
Proof. exact valid_id_key_injective. Qed.
(* decidable *)
Theorem C01_valid_id_decidable : forall tok, valid_id_b tok = true <-> valid_id tok.
Proof. exact valid_id_b_spec. Qed.
(* the identifiers the system contract issues (TICKER-rrrrrr) are valid *)
Theorem C01_protocol_id_valid : forall tok, protocol_id_b tok = true -> valid_id tok.
Proof. exact protocol_id_valid. Qed.
Example C01_protocol_id_unfolded : forall tok,
  protocol_id_b tok =
  (let n := length tok in
   (10 <=? n)%nat && (n <=? 17)%nat && forallb is_upper_alnum (firstn (n - 7) tok)
   && match skipn (n - 7) tok with
      | d :: rnd => byte_eqb d x2d && forallb is_lower_hex rnd && Nat.eqb (length rnd) 6
      | [] => false
      end)%bool
  /\ (forall b, is_upper_alnum b = (((65 <=? b2n b) && (b2n b <=? 90)) || ((48 <=? b2n b) && (b2n b <=? 57)))%N%bool)
  /\ (forall b, is_lower_hex b = (((48 <=? b2n b) && (b2n b <=? 57)) || ((97 <=? b2n b) && (b2n b <=? 102)))%N%bool).
Proof. intros. repeat split. Qed.
Example C01_valid_id_examples :
  valid_id (str "TKA-a1b2c3"%string) /\ valid_id (str "NFA-112233"%string)
  /\ protocol_id_b (str "TKA-a1b2c3"%string) = true /\ protocol_id_b (str "NFA-112233"%string) = true.
Proof. exact tka_nfa_valid. Qed.
(* the identifiers of the F4b witness are not both valid: the short one has 5 characters after the dash *)
Theorem C01_f4b_ids_not_valid :
  ~ valid_id (str "ABC-12345"%string) /\ valid_id (str "ABC-123456"%string)
  /\ ~ (valid_id (str "ABC-12345"%string) /\ valid_id (str "ABC-123456"%string)).
Proof. exact f4b_ids_not_valid. Qed.

(* ================================================================ *)
(* 2. the state invariant                                             *)
(* ================================================================ *)
(* F4b discharged at the lookup: every lookup under a valid identifier is consistent *)
Theorem C01_ids_valid_lookup_consistent : forall (E : env) s a tok n,
  ids_valid E s -> valid_id tok -> lookup_consistent E s a (P ++ tok) n.
Proof. exact ids_valid_lookup_consistent. Qed.
Theorem C01_ids_valid_triples_consistent : forall (E : env) s a trs,
  ids_valid E s -> Forall (fun x => valid_id (rt_tok x)) trs -> triples_consistent E s a trs.
Proof. exact ids_valid_triples_consistent. Qed.
(* preserved by every successful call of every function that names valid identifiers; emitted messages name valid
   identifiers *)
Theorem C01_ids_valid_exec : forall (E : env) f i s o s',
  codec_ok (cdc E) -> flag_undec (cdc E) -> ids_valid E s -> call_ids f i ->
  exec E f i s = (Ok o, s') -> ids_valid E s' /\ outv E i o.
Proof. exact ids_valid_exec_out. Qed.
Example C01_outv_unfolded : forall (E : env) i o,
  outv E i o <->
  forall oa t, In oa (o_accounts o) -> In t (oc_transfers oa) ->
    tr_data t = []
    \/ (i_dst i = true /\ oc_addr oa = i_rcpt i)
    \/ shard_of E (oc_addr oa) = self_shard E
    \/ (exists F A, tr_data t = msg_data F A /\ In F emit_names /\ args_ids F A).
Proof. intros. reflexivity. Qed.
(* one origin-side transfer call: C01's per-call hypothesis follows *)
Theorem C01_origin_ids_consistent : forall (c : wcfg) m0 sh fn i,
  ids_valid (env_at c sh) (mk_state m0) -> origin_ids fn i -> call_consistent_at c m0 sh fn i.
Proof. exact origin_ids_consistent. Qed.
(* a direct call of ANY of the 23 functions (ESDTNFTCreate, ESDTLocalMint, freeze, ...) that names valid identifiers,
   with the recipient's account present only on its own shard, keeps the world invariant *)
Theorem C01_VInv_call_step : forall (c : wcfg) (Hc : codec_ok (wc_cdc c)) (Hf : flag_undec (wc_cdc c)) w sh fn i,
  VInv c w -> (i_dst i = true -> wc_shard_of c (i_rcpt i) = sh) -> call_ids fn i -> VInv c (wstep c w (OCall sh fn i)).
Proof. exact VInv_call_step. Qed.
(* the state of the empty world, and a sound checker for concrete states *)
Theorem C01_VInv_empty : forall (c : wcfg) n, VInv c (empty_world n).
Proof. exact VInv_empty. Qed.
Theorem C01_ids_check_sound : forall (E : env) s, ids_check E s = true -> ids_valid E s.
Proof. exact ids_check_sound. Qed.

(* ================================================================ *)
(* 3. conservation without the consistency hypothesis                 *)
(* ================================================================ *)
Theorem C01_conservation_step_valid_ids : forall (c : wcfg) (Hc : codec_ok (wc_cdc c)) (Hf : flag_undec (wc_cdc c)) w op,
  C01_World.WInv c w -> VInv c w -> transfer_op c op -> op_ids op ->
  C01_World.WInv c (wstep c w op) /\ VInv c (wstep c w op) /\ forall k, total c k (wstep c w op) = total c k w.
Proof. exact conservation_step_valid_ids. Qed.

Theorem C01_conservation_histories_valid_ids :
  forall (c : wcfg) (Hc : codec_ok (wc_cdc c)) (Hf : flag_undec (wc_cdc c)) (w : world) (ops : list wop) (k : bytes),
  C01_World.WInv c w -> VInv c w -> Forall (transfer_op c) ops -> Forall op_ids ops ->
  total c k (wrun c w ops) = total c k w.
Proof. exact conservation_histories_valid_ids. Qed.

Theorem C01_invariants_histories_valid_ids :
  forall (c : wcfg) (Hc : codec_ok (wc_cdc c)) (Hf : flag_undec (wc_cdc c)) (w : world) (ops : list wop),
  C01_World.WInv c w -> VInv c w -> Forall (transfer_op c) ops -> Forall op_ids ops ->
  C01_World.WInv c (wrun c w ops) /\ VInv c (wrun c w ops).
Proof. exact invariants_histories_valid_ids. Qed.

(* the hypothesis of C01_conservation_histories / C01_invariant_histories, derived *)
Theorem C01_consistent_along_valid_ids :
  forall (c : wcfg) (Hc : codec_ok (wc_cdc c)) (Hf : flag_undec (wc_cdc c)) (w : world) (ops : list wop),
  C01_World.WInv c w -> VInv c w -> Forall (transfer_op c) ops -> Forall op_ids ops -> consistent_along c w ops.
Proof. exact consistent_along_valid_ids. Qed.

(* exactness of one origin-side execution: the emitted message carries the debit *)
Theorem C01_emitted_message_carries_debit_valid_ids : forall (c : wcfg), codec_ok (wc_cdc c) -> forall sh m0 fn i id o s',
  is_transfer_fn fn = true -> origin_call c sh i ->
  ids_valid (env_at c sh) (mk_state m0) -> origin_ids fn i ->
  exec (env_at c sh) fn i (mk_state m0) = (Ok o, s') ->
  if (wc_shard_of c (transfer_dest fn i) =? sh)%N then collect c sh fn i id o = []
  else exists m, collect c sh fn i id o = [m] /\ credits c m = transfer_debits fn i
         /\ m_id m = id /\ m_fn m = fn /\ m_dest m = transfer_dest fn i
         /\ m_caller m = i_caller i /\ m_sender m = i_caller i /\ m_origin m = sh.
Proof. exact emitted_message_carries_debit_valid_ids. Qed.

(* every hypothesis decided by computation *)
Theorem C01_conservation_checked_valid_ids : forall (c : wcfg) (Hc : codec_ok (wc_cdc c)) (Hf : flag_undec (wc_cdc c)) w ops,
  winv_b c w = true -> vinv_b c w = true -> forallb (transfer_op_b c) ops = true -> forallb op_ids_b ops = true ->
  forall k, total c k (wrun c w ops) = total c k w.
Proof. exact conservation_checked_valid_ids. Qed.

(* ================================================================ *)
(* 4. non-vacuity                                                     *)
(* ================================================================ *)
(* the world of C01_Examples with the identifiers "TKA-a1b2c3" / "NFA-112233" and the 11-operation history over all
   three functions: all hypotheses hold (decided), the theorem applies, the history really runs *)
Example C01_valid_ids_example_hypotheses :
  winv_b c0 wV = true /\ vinv_b c0 wV = true
  /\ forallb (transfer_op_b c0) historyV = true /\ forallb op_ids_b historyV = true.
Proof. exact exV_hypotheses. Qed.
Example C01_valid_ids_example_conserved : forall k, total c0 k (wrun c0 wV historyV) = total c0 k wV.
Proof. exact exV_conserved. Qed.
Example C01_valid_ids_example_run :
  let w' := wrun c0 wV historyV in
  total c0 kTka wV = 14%Z /\ total c0 kNfa wV = 4%Z /\ total c0 kTka w' = 14%Z /\ total c0 kNfa w' = 4%Z
  /\ inflight w' = [] /\ failed w' = []
  /\ bal0 w' 0 alice kTka = 1%Z /\ bal0 w' 1 bob kTka = 12%Z /\ bal0 w' 0 alice kNfa = 0%Z /\ bal0 w' 1 bob kNfa = 4%Z
  /\ vinv_b c0 w' = true
  /\ (let w1 := wrun c0 wV (firstn 1 historyV) in length (inflight w1) = 1%nat /\ inflight_total c0 kTka (inflight w1) = 2%Z).
Proof. exact exV_run. Qed.
Example C01_valid_ids_example_invariants_after : C01_World.WInv c0 (wrun c0 wV historyV) /\ VInv c0 (wrun c0 wV historyV).
Proof. exact exV_invariants_after. Qed.
(* the F4b witness of C01 (world wF, operations opF_same / opF_cross) lies outside: its world satisfies both
   invariants, its call does not name a valid identifier *)
Example C01_f4b_witness_outside :
  (VInv c0 wF /\ C01_World.WInv c0 wF) /\ (~ op_ids opF_same /\ ~ op_ids opF_cross /\ op_ids_b opF_same = false).
Proof. exact (conj f4b_world_valid f4b_call_not_valid). Qed.

Print Assumptions C01_valid_ids_definitions_unfolded.
Print Assumptions C01_flag_undec.
Print Assumptions C01_valid_id_prefix_free.
Print Assumptions C01_valid_id_key_injective.
Print Assumptions C01_valid_id_decidable.
Print Assumptions C01_protocol_id_valid.
Print Assumptions C01_protocol_id_unfolded.
Print Assumptions C01_valid_id_examples.
Print Assumptions C01_f4b_ids_not_valid.
Print Assumptions C01_ids_valid_lookup_consistent.
Print Assumptions C01_ids_valid_triples_consistent.
Print Assumptions C01_ids_valid_exec.
Print Assumptions C01_outv_unfolded.
Print Assumptions C01_origin_ids_consistent.
Print Assumptions C01_VInv_call_step.
Print Assumptions C01_VInv_empty.
Print Assumptions C01_ids_check_sound.
Print Assumptions C01_conservation_step_valid_ids.
Print Assumptions C01_conservation_histories_valid_ids.
Print Assumptions C01_invariants_histories_valid_ids.
Print Assumptions C01_consistent_along_valid_ids.
Print Assumptions C01_emitted_message_carries_debit_valid_ids.
Print Assumptions C01_conservation_checked_valid_ids.
Print Assumptions C01_valid_ids_example_hypotheses.
Print Assumptions C01_valid_ids_example_conserved.
Print Assumptions C01_valid_ids_example_run.
Print Assumptions C01_valid_ids_example_invariants_after.
Print Assumptions C01_f4b_witness_outside.
