(* Property C11 — built-in functions are total on transaction-reachable input.
   Only statements, each closed by [exact] of a lemma of LedgerProofs/NoPanic*.v, their assumptions, pins
   and non-vacuity examples.

   Reading guide.  In the model every Go runtime panic is the explicit result [Panic]: [arg]/[args_from]
   out of range, [val_of]/[meta_of] on a nil *big.Int / *MetaData, [alloc n] with n > 2^40 (makeslice),
   the nil sender-account dereference of the two NFT transfers, the odd-length branch of the SaveKeyValue
   loop.  [E : env] is ARBITRARY (any fault plan, coordinator, payability oracle, gas schedule); the codec
   satisfies [codec_ok] and [flag_ok] (the 2-byte pause flag, IF it decodes as a token at all, decodes to
   one with a value: true of the protobuf codec, where it does not decode — C11_flag_ok_proto/_ideal).
   State hypothesis [StoreOK]: every decodable token entry under a protocol key carries a value; it holds
   of the empty state and is preserved by EVERY successful call (C11_StoreOK_preserved), so it holds of
   every state reachable through built-in calls.
   Inputs: [origin_input] (the caller's account is on the executing shard; everything else arbitrary) or
   [delivered_input] (destination side: no caller account, recipient account present, caller <> recipient,
   and NFT payloads as the sender side emits them — discharged by C11_emitted_payload_ok_nft and _multi); at most 2^40
   arguments.
   REPAIRED FINDING F11 (/repo 7b409c0): a same-shard MultiESDTNFTTransfer item with nonce 0 whose destination
   entry under the same storage key carries metadata used to dereference the nil TokenMetaData of the incoming
   token; it is now rejected with ErrWrongNFTOnDestination (C11_F11_input_is_an_error), the pre-repair helper
   is kept as [legacy_add_nft_to_destination] with C11_legacy_f11_refuted.  No exclusion remains. *)
From Coq.Strings Require Import String.
From EV Require Import Base.Bytes Base.Store Base.Monad gen.Consts Codec.Types Codec.CodecOk Helpers.Helpers
  Ledger.Types Ledger.Env Ledger.Funcs Ledger.Transfers Ledger.World Corr.Exec
  LedgerProofs.Defs LedgerProofs.EnvSpec
  LedgerProofs.NoPanic LedgerProofs.NoPanicFuncs LedgerProofs.NoPanicTransfers LedgerProofs.NoPanicAlloc
  LedgerProofs.NoPanicEmit LedgerProofs.NoPanicWitness.

Local Open Scope N_scope.

(* ---- pins ---- *)
Example C11_pinned_constants :
  C.Ok = 0 /\ C.bif_argumentsPerTransfer = 3 /\ C.MinLenArgumentsESDTTransfer = 2
  /\ C.MinLenArgumentsESDTNFTTransfer = 4 /\ 2 ^ 40 = 1099511627776 /\ two64 = 2 ^ 64
  /\ length builtin_names = 23%nat.
Proof. repeat split. Qed.
(* what a panic is in the model *)
Example C11_panic_sites : forall (args : list bytes) (k n : N) (t : token) (s : mstate),
  (alen args <= k -> arg args k s = (Panic, s))
  /\ (alen args < k -> args_from args k s = (Panic, s))
  /\ (t_value t = None -> val_of t s = (Panic, s))
  /\ (t_meta t = None -> meta_of t s = (Panic, s))
  /\ (2 ^ 40 < n -> alloc n s = (Panic, s)).
Proof.
  intros. repeat split; intros H.
  - unfold arg. destruct (k <? alen args) eqn:E0; [lia|reflexivity].
  - unfold args_from. destruct (k <=? alen args) eqn:E0; [lia|reflexivity].
  - unfold val_of. rewrite H. reflexivity.
  - unfold meta_of. rewrite H. reflexivity.
  - unfold alloc. change (2 ^ 40) with 1099511627776 in H. destruct (1099511627776 <? n) eqn:E0; [reflexivity|lia].
Qed.
(* the hypotheses, written out *)
Example C11_hypotheses_unfolded : forall (E : env) (s : mstate) (f : bytes) (i : input),
  (StoreOK E s <-> forall a x t, tok_at E s a (P ++ x) = Some t -> t_value t <> None)
  /\ (origin_input i <-> i_snd i = true)
  /\ (delivered_input E f i <->
        i_snd i = false /\ i_dst i = true /\ i_caller i <> i_rcpt i /\
        (f = C.BuiltInFunctionESDTNFTTransfer -> nft_payload_ok E (i_args i)) /\
        (f = C.BuiltInFunctionMultiESDTNFTTransfer -> multi_payload_ok E (i_args i)))
  /\ (flag_ok (cdc E) <-> forall fl t, dec_tok (cdc E) (flag_bytes fl) = Some t -> t_value t <> None).
Proof.
  intros. unfold delivered_input, payload_ok, args_payload_ok, origin_input, flag_ok, StoreOK.
  split; [tauto|]. split; [tauto|]. split; tauto.
Qed.
Example C11_payload_hypotheses_unfolded : forall (E : env) (A : list bytes),
  (nft_payload_ok E A <->
     forall b, nth_error A 3 = Some b -> forall t, dec_tok (cdc E) b = Some t -> t_value t <> None /\ t_meta t <> None)
  /\ (multi_payload_ok E A <->
     forall a0 idx nb b, nth_error A 0 = Some a0 -> idx < bigU64 a0 ->
       nth_error A (N.to_nat (1 + idx * 3 + 1)) = Some nb -> 0 < bigU64 nb ->
       nth_error A (N.to_nat (1 + idx * 3 + 2)) = Some b ->
       forall t, dec_tok (cdc E) b = Some t -> t_value t <> None).
Proof. intros. unfold nft_payload_ok, multi_payload_ok, payload_good, payload_valued. split; reflexivity. Qed.

(* ---- 1. never a panic ---- *)
Theorem C11_exec_no_panic : forall (E : env) (f : bytes) (i : input) (s : mstate),
  codec_ok (cdc E) -> flag_ok (cdc E) -> StoreOK E s ->
  origin_input i \/ delivered_input E f i ->
  alen (i_args i) < 2 ^ 40 ->
  fst (exec E f i s) <> Panic.
Proof. exact exec_no_panic. Qed.

(* ---- 2. the result shape of the property text: (output, rc Ok) or an error ---- *)
Theorem C11_exec_total : forall (E : env) (f : bytes) (i : input) (s : mstate),
  codec_ok (cdc E) -> flag_ok (cdc E) -> StoreOK E s ->
  origin_input i \/ delivered_input E f i ->
  alen (i_args i) < 2 ^ 40 ->
  (exists o s', exec E f i s = (Ok o, s') /\ o_rc o = C.Ok /\ StoreOK E s')
  \/ (exists e s', exec E f i s = (Err e, s')).
Proof. exact exec_total. Qed.

(* every Ok output carries return code Ok: no hypothesis at all *)
Theorem C11_exec_shape : forall (E : env) (f : bytes) (i : input) (s : mstate) (o : output) (s' : mstate),
  exec E f i s = (Ok o, s') -> o_rc o = C.Ok.
Proof. exact exec_shape. Qed.

(* ---- 3. the state hypothesis is an invariant: preserved by EVERY successful call, any input ---- *)
Theorem C11_StoreOK_preserved : forall (E : env) (f : bytes) (i : input) (s : mstate) (o : output) (s' : mstate),
  codec_ok (cdc E) -> flag_ok (cdc E) -> StoreOK E s -> exec E f i s = (Ok o, s') -> StoreOK E s'.
Proof. exact StoreOK_exec. Qed.
Theorem C11_StoreOK_initial : forall (E : env), StoreOK E sEmpty.
Proof. exact StoreOK_empty. Qed.

(* ---- 4. allocation: linear in the NUMBER of arguments for every result; only the multi-transfer allocates ---- *)
Theorem C11_alloc_bounded : forall (E : env) (f : bytes) (i : input) (s : mstate) (r : res err output) (s' : mstate),
  exec E f i s = (r, s') -> allocs s' <= allocs s + 2 * alen (i_args i) + 1.
Proof. exact alloc_bounded. Qed.
Theorem C11_alloc_none : forall (E : env) (f : bytes) (i : input) (s : mstate) (r : res err output) (s' : mstate),
  f <> C.BuiltInFunctionMultiESDTNFTTransfer -> exec E f i s = (r, s') -> allocs s' = allocs s.
Proof. exact alloc_none. Qed.

(* ---- 5. the payload hypothesis is discharged for the messages that exist ---- *)
Theorem C11_emitted_payload_ok_nft : forall (E : env), codec_ok (cdc E) -> forall i s o s' dst,
  i_caller i = i_rcpt i -> f_nft_transfer E i s = (Ok o, s') ->
  nth_error (i_args i) 3 = Some dst -> self_shard E <> shard_of E dst ->
  exists args' t, o_accounts o = [{| oc_addr := dst; oc_delta := 0; oc_transfers := [t] |}]
    /\ tr_data t = msg_data C.BuiltInFunctionESDTNFTTransfer args'
    /\ nft_payload_ok E args'.
Proof. exact emitted_payload_ok_nft. Qed.
Theorem C11_emitted_payload_ok_multi : forall (E : env), codec_ok (cdc E) -> forall i s o s' dst,
  i_caller i = i_rcpt i -> f_multi_transfer E i s = (Ok o, s') ->
  nth_error (i_args i) 0 = Some dst -> self_shard E <> shard_of E dst ->
  exists args' t, o_accounts o = [{| oc_addr := dst; oc_delta := 0; oc_transfers := [t] |}]
    /\ tr_data t = msg_data C.BuiltInFunctionMultiESDTNFTTransfer args'
    /\ multi_payload_ok E args'.
Proof. exact emitted_payload_ok_multi. Qed.
(* deliveries and refunds (Ledger/World.v) of a message with good payloads are [delivered_input]s *)
Theorem C11_deliver_input_delivered : forall (c : wcfg) m sh gas,
  (wc_shard_of c (m_caller m) =? sh) = false -> m_caller m <> m_dest m ->
  args_payload_ok (env_at c sh) (m_fn m) (m_args m) ->
  delivered_input (env_at c sh) (m_fn m) (deliver_input c m sh gas).
Proof. exact deliver_input_delivered. Qed.
Theorem C11_refund_input_delivered : forall (c : wcfg) m sh gas,
  (wc_shard_of c (m_dest m) =? sh) = false -> m_dest m <> m_sender m ->
  args_payload_ok (env_at c sh) (m_fn m) (m_args m) ->
  delivered_input (env_at c sh) (m_fn m) (refund_input c m sh gas)
  /\ i_rae (refund_input c m sh gas) = true.
Proof. exact refund_input_delivered. Qed.

(* ---- 6. instances: the codec hypotheses are satisfiable, and true of the protobuf model where decidable ---- *)
Theorem C11_codec_instance : codec_ok (cdc wE) /\ flag_ok (cdc wE).
Proof. exact (conj wE_codec_ok wE_flag_ok). Qed.
Theorem C11_flag_ok_proto : flag_ok the_codec.
Proof. exact flag_ok_proto. Qed.
Theorem C11_flag_ok_ideal : flag_ok ideal_codec.
Proof. exact flag_ok_ideal. Qed.

(* ---- 7. non-vacuity: a non-empty StoreOK state, adversarial inputs: an error, not a panic ---- *)
Example C11_state_nonvacuous : StoreOK wE sF11.
Proof. exact StoreOK_sF11. Qed.
Example C11_wrap_count_is_an_error :
  fst (exec wE C.BuiltInFunctionMultiESDTNFTTransfer iWrap sF11) = Err EInvalidArguments.
Proof. exact wrap_count_is_an_error. Qed.
Example C11_wrap_count_dest_is_an_error :
  fst (exec wE C.BuiltInFunctionMultiESDTNFTTransfer
         (mk_input addrB addrA [N_to_be nWrap; tokABCD; []; [x03]] 18446744073709551615 false true) sF11)
  = Err EInvalidArguments.
Proof. exact wrap_count_dest_is_an_error. Qed.
Example C11_alias_fungible_is_an_error :
  fst (exec wE C.BuiltInFunctionESDTNFTTransfer
         (mk_input addrA addrA [str "AB"%string; str "CD"%string; [x01]; addrB] 1000 true true) sF11)
  = Err ENFTDoesNotHaveMetadata.
Proof. exact alias_fungible_is_an_error. Qed.
Example C11_plain_transfer_is_ok :
  exists o s', exec wE C.BuiltInFunctionESDTTransfer (mk_input addrA (List.repeat x03 32) [tokABCD; [x03]] 1000 true true) sF11 = (Ok o, s').
Proof. exact plain_transfer_is_ok. Qed.

(* ---- 8. regression witnesses of the repaired defects ---- *)
(* REPAIRED finding F11 (regression documentation): the input that crashed the tree before 7b409c0 satisfies every
   hypothesis of C11_exec_no_panic and is now an error; the pre-repair helper panics on the step it reaches *)
Example C11_F11_input_is_an_error :
  codec_ok (cdc wE) /\ flag_ok (cdc wE) /\ StoreOK wE sF11 /\ origin_input iF11
  /\ alen (i_args iF11) < 2 ^ 40
  /\ fst (exec wE C.BuiltInFunctionMultiESDTNFTTransfer iF11 sF11) = Err EWrongNFTOnDestination.
Proof. exact F11_input_is_an_error. Qed.
Example C11_legacy_f11_refuted :
  fst (legacy_add_nft_to_destination wE addrB (P ++ tokABCD) (set_value fungible10 (Some 3%Z)) false false sF11) = Panic
  /\ fst (add_nft_to_destination wE addrB (P ++ tokABCD) (set_value fungible10 (Some 3%Z)) false false sF11)
     = Err EWrongNFTOnDestination.
Proof. exact legacy_f11_refuted. Qed.
Theorem C11_legacy_add_nft_same : forall (E : env) dst key t verify rae s,
  t_meta t <> None -> legacy_add_nft_to_destination E dst key t verify rae s = add_nft_to_destination E dst key t verify rae s.
Proof. exact legacy_add_nft_same. Qed.
(* REPAIRED defect F3 (regression documentation): the legacy count guard passes the wrap residue *)
Example C11_legacy_count_guard_refuted :
  (5 <? u64 (u64 (nWrap * 3) + 2)) = false /\ u64 (u64 (nWrap * 3) + 2) = 4
  /\ (1099511627776 <? nWrap) = true /\ (5 / 3 <? nWrap) = true.
Proof. exact legacy_count_guard_refuted. Qed.
Example C11_legacy_count_guard_dest_refuted :
  (4 <? u64 (u64 (nWrap * 3) + 1)) = false /\ u64 (u64 (nWrap * 3) + 1) = 3 /\ (4 / 3 <? nWrap) = true.
Proof. exact legacy_count_guard_dest_refuted. Qed.

Print Assumptions C11_exec_no_panic.
Print Assumptions C11_exec_total.
Print Assumptions C11_exec_shape.
Print Assumptions C11_StoreOK_preserved.
Print Assumptions C11_alloc_bounded.
Print Assumptions C11_alloc_none.
Print Assumptions C11_emitted_payload_ok_nft.
Print Assumptions C11_emitted_payload_ok_multi.
Print Assumptions C11_deliver_input_delivered.
Print Assumptions C11_refund_input_delivered.
Print Assumptions C11_codec_instance.
Print Assumptions C11_F11_input_is_an_error.
Print Assumptions C11_legacy_f11_refuted.
