(* Property C09, extension "source tie": mustVerifyPayable (builtInFunctions/esdtTransfer.go), the test that decides
   whether a transfer must ask the payability oracle, as REGENERATED from /repo's current Go sources on this very
   run (gen/Pure.v, module P, written by tools/srcgen/pure.go; None = panic).  The function reads three fields of
   *vmcommon.ContractCallInput; [cci_of i] is that view of the model's input record i (call type as a Go int).
   Only statements, each closed by [exact] of lemmas of Helpers/PureTie_*.v and LedgerProofs/C09_Admissible.v. *)
From Coq.Strings Require Import String.
From EV Require Import Base.Bytes gen.Consts Base.GoSem gen.Pure Helpers.Helpers Ledger.Types Ledger.Env
  LedgerProofs.C09_Admissible Helpers.PureTie_Base Helpers.PureTie_Payable.

Example C09_src_view : forall i,
  cci_of i = {| P.ContractCallInput_Arguments := i_args i; P.ContractCallInput_CallType := Z.of_N (i_callType i);
                P.ContractCallInput_CallerAddr := i_caller i |}.
Proof. exact (fun i => eq_refl). Qed.

(* regenerated definition = hand model (Ledger/Env.v), all inputs and all minimum lengths *)
Theorem C09_src_tie_mustVerifyPayable : forall i minLen,
  P.mustVerifyPayable (Some (cci_of i)) (Z.of_N minLen) = Some (must_verify_payable i minLen).
Proof. exact tie_mustVerifyPayable. Qed.
Theorem C09_src_mustVerifyPayable_never_panics : forall i minLen,
  P.mustVerifyPayable (Some (cci_of i)) (Z.of_N minLen) <> None.
Proof. exact P_mustVerifyPayable_total. Qed.

(* the headline characterisation (C09_must_verify_payable_iff) on the regenerated function:
   "verification is required" is exactly "none of the exemptions applies" *)
Theorem C09_src_must_verify_payable_iff : forall i minLen,
  P.mustVerifyPayable (Some (cci_of i)) (Z.of_N minLen) = Some true <->
  ~ ((minLen < alen (i_args i))%N \/ i_callType i = C.AsynchronousCallBack
     \/ i_callType i = C.ESDTTransferAndExecute \/ i_caller i = SC).
Proof. exact (fun i m => iff_trans (P_mustVerifyPayable_true_iff i m) (must_verify_payable_iff i m)). Qed.

Print Assumptions C09_src_tie_mustVerifyPayable.
Print Assumptions C09_src_mustVerifyPayable_never_panics.
Print Assumptions C09_src_must_verify_payable_iff.
