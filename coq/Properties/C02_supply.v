(* Property C02, extension: ONE global ledger theorem over histories containing ALL 23 built-in functions.
   (C01's conservation theorem covers histories of transfer operations only; the theorems of Properties/C02.v are per
   call.)  Only statements, each closed by [exact] of a lemma of LedgerProofs/Supply_*.v; pins; Print Assumptions.

   Reading guide.
   - [c : wcfg] is an arbitrary world configuration (shard function, payability oracle, gas schedule, number of shards)
     whose codec is [codec_ok] and [flag_neutral] (the 2-byte pause flag, read as a token entry, has value 0 -- under the
     protobuf codec and the ideal codec it does not decode at all: C02_supply_flag_facts).
   - [total c k w] (WorldDefs) = sum over all shards and all accounts of the decoded balance under the FULL storage key k
     + what the undelivered messages of w will credit under k.  The theorems speak about the protocol token keys
     [pkey k]: k = P ++ x, i.e. fungible cells P ++ tok and NFT cells P ++ tok ++ nonce bytes.  (For other keys the
     statement is false: SaveKeyValue may store bytes that decode as a token under a user key.)
   - [wstep c w op] / [wrun c w ops] is the node model (Ledger/World.v): [OCall sh fn i] executes function fn with input i
     on shard sh (a user transaction, or a call of the system contract), [ODeliver] / [ORedeliver] / [ORefund] execute an
     in-flight message on its destination / again on its destination / back on the debited account's shard; a failed
     execution is rolled back.  [step_call c w op] is the (shard, function, input) the step executes, if any.
   - [supply_delta c w op k]: the STATED change of total k by the step -- if the executed call succeeds:
       + amount for ESDTLocalMint (k = P ++ tok), ESDTNFTCreate (k = the created key), ESDTNFTAddQuantity,
         and for the ISSUING transfer (ESDTTransfer executed as a call with only the destination side present);
       - amount for ESDTLocalBurn / ESDTBurn / ESDTNFTBurn;  - holding for ESDTWipe;  0 in every other case
     (other functions, transfers, deliveries, refunds, failed or skipped steps): C02_supply_delta_unfolded.
   - [WInv' c w]: every shard id exists; one account object per address; no negative stored balance under a protocol key;
     every in-flight TRANSFER message is msg_ok as in C01 (caller and debited account off the destination shard,
     non-negative credits, 64-bit multi count) -- messages of the other functions (ChangeOwnerAddress,
     ClaimDeveloperRewards, SetUserName, ESDTBurn, the role hand-over) may be in flight too: they carry no credits.
     WInv' is preserved by every ok step; C01's WInv implies it.
   - [ok_op c w op], the honest hypotheses: a TRANSFER function is executed either as an origin-side call by an account
     of the executing shard with F4b-consistent sender lookups (as in C01), or as the system contract's issuing transfer
     ([issue_call]: caller = SC, destination side only, recipient on the executing shard), or as the delivery / refund of
     a message (re-delivery of a transfer message is excluded: it credits twice); one of the other 20 functions may be
     executed in ANY way (call by anybody with any presence flags, delivery, re-delivery, refund) under [call_ok]:
     F4b for AddQuantity / NFTBurn / AddURI / UpdateAttributes, freshness of the nonce for ESDTNFTCreate, and the F8
     exclusion for ESDTPause / ESDTUnPause (the system account holds no balance under P ++ tok).
   Witnesses that hypotheses are needed: C02_supply_step_refuted_without_pause_hypothesis (F8: 6 -> 0 with stated delta
   0), C02_supply_example_redelivery_not_accounted; for F4b and create freshness see Properties/C01.v and C02.v. *)
From Coq.Strings Require Import String.
From Coq Require Import List.
From EV Require Import Base.Bytes Base.Store Base.Monad gen.Consts Codec.Types Codec.CodecOk Helpers.Helpers
  Ledger.Types Ledger.Env Ledger.Funcs Ledger.Transfers Ledger.World Corr.Exec
  LedgerProofs.Defs LedgerProofs.EnvSpec LedgerProofs.WorldDefs LedgerProofs.WorldSpec
  LedgerProofs.Spec_Transfers_Base LedgerProofs.Spec_Transfers_Esdt LedgerProofs.Spec_Transfers_Nft
  LedgerProofs.Spec_Transfers_Multi LedgerProofs.Spec_Transfers LedgerProofs.Spec_Supply LedgerProofs.Spec_System
  LedgerProofs.C01_World LedgerProofs.C01_Step LedgerProofs.C02_Effects LedgerProofs.C02_NonNeg
  LedgerProofs.Supply_Base LedgerProofs.Supply_Multi LedgerProofs.Supply_Transfer LedgerProofs.Supply_Calls
  LedgerProofs.Supply_Step LedgerProofs.Supply_Check LedgerProofs.Supply_Examples.
Import ListNotations.

(* ================================================================ *)
(* pins: every definition the statements use, written out             *)
(* ================================================================ *)
Example C02_supply_keys_unfolded : forall k tok n (cd : codec),
  (pkey k <-> exists x, k = P ++ x)
  /\ pkey (P ++ tok) /\ pkey (nft_key (P ++ tok) n)
  /\ (flag_neutral cd <-> forall f t, dec_tok cd (flag_bytes f) = Some t -> val_or_0 t = 0%Z).
Proof. intros. split; [reflexivity|]. split; [apply pkey_P|]. split; [apply pkey_nft|reflexivity]. Qed.

(* the call a step executes *)
Example C02_step_call_unfolded : forall c w sh fn i id gas,
  step_call c w (OCall sh fn i) = (if (sh <? wc_nshards c)%N then Some (sh, fn, i) else None)
  /\ step_call c w (ODeliver id gas) =
     match find_msg (inflight w) id with
     | None => None
     | Some m => if (wc_shard_of c (m_dest m) <? wc_nshards c)%N
                 then Some (wc_shard_of c (m_dest m), m_fn m, deliver_input c m (wc_shard_of c (m_dest m)) gas) else None
     end
  /\ step_call c w (ORedeliver id gas) = step_call c w (ODeliver id gas)
  /\ step_call c w (ORefund id gas) =
     match find_msg (inflight w) id with
     | None => None
     | Some m => if (nat_in id (failed w) && (wc_shard_of c (m_sender m) <? wc_nshards c)%N)%bool
                 then Some (wc_shard_of c (m_sender m), m_fn m, refund_input c m (wc_shard_of c (m_sender m)) gas) else None
     end.
Proof. intros. repeat split. Qed.

(* the stated amounts, function by function *)
Example C02_fn_delta_unfolded : forall c sh m0 i k,
  let E := env_at c sh in
  let s := mk_state m0 in
  fn_delta c sh m0 C.BuiltInFunctionESDTLocalMint i k = (if beqb k (P ++ argn i 0) then bigZ (argn i 1) else 0)%Z
  /\ fn_delta c sh m0 C.BuiltInFunctionESDTNFTCreate i k =
       (if beqb k (nft_key (P ++ argn i 0) (create_nonce i s)) then bigZ (argn i 1) else 0)%Z
  /\ fn_delta c sh m0 C.BuiltInFunctionESDTNFTAddQuantity i k =
       (if beqb k (nft_key (P ++ argn i 0) (bigU64 (argn i 1))) then bigZ (argn i 2) else 0)%Z
  /\ fn_delta c sh m0 C.BuiltInFunctionESDTLocalBurn i k = (if beqb k (P ++ argn i 0) then - bigZ (argn i 1) else 0)%Z
  /\ fn_delta c sh m0 C.BuiltInFunctionESDTBurn i k = (if beqb k (P ++ argn i 0) then - bigZ (argn i 1) else 0)%Z
  /\ fn_delta c sh m0 C.BuiltInFunctionESDTNFTBurn i k =
       (if beqb k (nft_key (P ++ argn i 0) (bigU64 (argn i 1))) then - bigZ (argn i 2) else 0)%Z
  /\ fn_delta c sh m0 C.BuiltInFunctionESDTWipe i k =
       (if beqb k (P ++ argn i 0) then - balance E s (i_rcpt i) (P ++ argn i 0) else 0)%Z
  /\ (forall fn, ~ In fn supply_changing_funs -> fn_delta c sh m0 fn i k = 0%Z)
  /\ create_nonce i s = u64 (counter_at s (i_caller i) (argn i 0) + 1).
Proof.
  intros. repeat (split; [reflexivity|]). split; [|reflexivity]. intros fn Hn. apply fn_delta_not_supply. exact Hn.
Qed.
Example C02_supply_delta_unfolded : forall c w op k sh fn i id gas,
  supply_delta c w op k =
    match step_call c w op with
    | None => 0%Z
    | Some (sh, fn, i) =>
      match exec (env_at c sh) fn i (mk_state (shard_accts w sh)) with
      | (Ok _, _) => (fn_delta c sh (shard_accts w sh) fn i k + issue_delta op k)%Z
      | _ => 0%Z
      end
    end
  /\ issue_delta (OCall sh fn i) k =
       (if (beqb fn C.BuiltInFunctionESDTTransfer && negb (i_snd i) && i_dst i)%bool
        then (if beqb k (P ++ argn i 0) then bigZ (argn i 1) else 0) else 0)%Z
  /\ issue_delta (ODeliver id gas) k = 0%Z /\ issue_delta (ORedeliver id gas) k = 0%Z /\ issue_delta (ORefund id gas) k = 0%Z.
Proof. intros. repeat split. Qed.
Example C02_supply_sum_unfolded : forall c w op r k,
  supply_sum c w [] k = 0%Z
  /\ supply_sum c w (op :: r) k = (supply_delta c w op k + supply_sum c (wstep c w op) r k)%Z
  /\ (ok_ops c w [] <-> True)
  /\ (ok_ops c w (op :: r) <-> ok_op c w op /\ ok_ops c (wstep c w op) r)
  /\ (no_supply_ops c w [] <-> True)
  /\ (no_supply_ops c w (op :: r) <-> ~ supply_op c w op /\ no_supply_ops c (wstep c w op) r).
Proof. intros. repeat (split; [reflexivity|]). reflexivity. Qed.

(* the invariant *)
Example C02_WInv'_unfolded : forall c w,
  WInv' c w <->
  (wc_nshards c <= N.of_nat (length (shards w)))%N
  /\ (forall sh, NoDup (map fst (shard_accts w sh)))
  /\ (forall sh a x, (0 <= balance (env_at c sh) (mk_state (shard_accts w sh)) a (P ++ x))%Z)
  /\ Forall (fun m => is_transfer_fn (m_fn m) = true ->
               wc_shard_of c (m_caller m) <> wc_shard_of c (m_dest m)
               /\ wc_shard_of c (m_sender m) <> wc_shard_of c (m_dest m)
               /\ Forall (fun kv => (0 <= snd kv)%Z) (credits c m)
               /\ (m_fn m = C.BuiltInFunctionMultiESDTNFTTransfer -> (be_to_N (nth 0 (m_args m) []) < two64)%N))
            (inflight w).
Proof.
  intros c w. split.
  - intros [A B C D]. split; [exact A|]. split; [exact B|]. split; [exact C|].
    eapply Forall_impl; [|exact D]. intros m Hm Ht. destruct (Hm Ht) as [_ H2 H3 H4 H5]. auto.
  - intros (A & B & C & D). constructor; [exact A|exact B|exact C|].
    eapply Forall_impl; [|exact D]. intros m Hm Ht. destruct (Hm Ht) as (H2 & H3 & H4 & H5). constructor; auto.
Qed.

(* the hypotheses on one operation *)
Example C02_ok_op_unfolded : forall c w op sh m0 fn i,
  (ok_op c w op <->
   match step_call c w op with
   | None => True
   | Some (sh, fn, i) =>
     if is_transfer_fn fn then
       match op with
       | OCall _ _ _ => (origin_call c sh i /\ call_consistent_at c (shard_accts w sh) sh fn i) \/ issue_call c sh fn i
       | ODeliver _ _ | ORefund _ _ => True
       | ORedeliver _ _ => False
       end
     else call_ok c sh (shard_accts w sh) fn i
   end)
  /\ (issue_call c sh fn i <->
      fn = C.BuiltInFunctionESDTTransfer /\ i_caller i = SC /\ i_snd i = false /\ i_dst i = true
      /\ wc_shard_of c (i_rcpt i) = sh)
  /\ (origin_call c sh i <->
      wc_shard_of c (i_caller i) = sh /\ i_snd i = (wc_shard_of c (i_caller i) =? sh)%N
      /\ i_dst i = (wc_shard_of c (i_rcpt i) =? sh)%N)
  /\ (call_consistent_at c m0 sh fn i <->
      (fn = C.BuiltInFunctionESDTNFTTransfer ->
         lookup_consistent (env_at c sh) (mk_state m0) (i_caller i) (P ++ argn i 0) (bigU64 (argn i 1)))
      /\ (fn = C.BuiltInFunctionMultiESDTNFTTransfer ->
         Forall (fun x => lookup_consistent (env_at c sh) (mk_state m0) (i_caller i) (P ++ rt_tok x) (rt_nonce x))
                (multi_snd_triples i)))
  /\ (call_ok c sh m0 fn i <->
      ((fn = C.BuiltInFunctionESDTNFTAddQuantity \/ fn = C.BuiltInFunctionESDTNFTBurn
        \/ fn = C.BuiltInFunctionESDTNFTAddURI \/ fn = C.BuiltInFunctionESDTNFTUpdateAttributes) ->
         lookup_consistent (env_at c sh) (mk_state m0) (i_caller i) (P ++ argn i 0) (bigU64 (argn i 1)))
      /\ (fn = C.BuiltInFunctionESDTNFTCreate ->
          balance (env_at c sh) (mk_state m0) (i_caller i)
                  (nft_key (P ++ argn i 0) (create_nonce i (mk_state m0))) = 0%Z)
      /\ ((fn = C.BuiltInFunctionESDTPause \/ fn = C.BuiltInFunctionESDTUnPause) ->
          balance (env_at c sh) (mk_state m0) SYS (P ++ argn i 0) = 0%Z))
  /\ (supply_op c w op <->
      exists sh fn i o s', step_call c w op = Some (sh, fn, i)
        /\ exec (env_at c sh) fn i (mk_state (shard_accts w sh)) = (Ok o, s')
        /\ (In fn supply_changing_funs
            \/ exists sh0 i0, op = OCall sh0 fn i0
                 /\ (beqb fn C.BuiltInFunctionESDTTransfer && negb (i_snd i0) && i_dst i0)%bool = true)).
Proof. intros. repeat (split; [reflexivity|]). reflexivity. Qed.

(* the codec fact *)
Theorem C02_supply_flag_facts : flag_neutral the_codec /\ flag_neutral ideal_codec
  /\ (forall cd, flag_neutral cd -> flag_nonneg cd).
Proof. exact (conj flag_neutral_proto (conj flag_neutral_ideal flag_neutral_nonneg)). Qed.

(* ================================================================ *)
(* the theorems                                                       *)
(* ================================================================ *)
(* one step: the invariant is preserved and every protocol-key total moves by exactly the stated amount *)
Theorem C02_supply_step : forall (c : wcfg), codec_ok (wc_cdc c) -> flag_neutral (wc_cdc c) ->
  forall (w : world) (op : wop), WInv' c w -> ok_op c w op ->
  WInv' c (wstep c w op)
  /\ forall k, pkey k -> total c k (wstep c w op) = (total c k w + supply_delta c w op k)%Z.
Proof. exact supply_step. Qed.

(* histories: total after = total before + the sum of the stated amounts of the steps *)
Theorem C02_supply_accounting_histories : forall (c : wcfg), codec_ok (wc_cdc c) -> flag_neutral (wc_cdc c) ->
  forall (w0 : world) (ops : list wop) (k : bytes), WInv' c w0 -> ok_ops c w0 ops -> pkey k ->
  total c k (wrun c w0 ops) = (total c k w0 + supply_sum c w0 ops k)%Z.
Proof. exact supply_accounting_histories. Qed.
Theorem C02_supply_invariant_histories : forall (c : wcfg), codec_ok (wc_cdc c) -> flag_neutral (wc_cdc c) ->
  forall (w0 : world) (ops : list wop), WInv' c w0 -> ok_ops c w0 ops -> WInv' c (wrun c w0 ops).
Proof. exact WInv'_histories. Qed.

(* a history without a successful mint / create / add-quantity / burn / wipe / issue conserves every total: C01's
   conservation theorem for histories that interleave transfers with the other built-in functions *)
Theorem C02_no_supply_ops_conserve : forall (c : wcfg), codec_ok (wc_cdc c) -> flag_neutral (wc_cdc c) ->
  forall (w0 : world) (ops : list wop) (k : bytes),
  WInv' c w0 -> ok_ops c w0 ops -> no_supply_ops c w0 ops -> pkey k ->
  total c k (wrun c w0 ops) = total c k w0.
Proof. exact no_supply_ops_conserve. Qed.
(* a step that is no successful supply operation has stated amount 0 *)
Theorem C02_supply_delta_no_supply_op : forall (c : wcfg) (w : world) (op : wop) (k : bytes),
  ~ supply_op c w op -> supply_delta c w op k = 0%Z.
Proof. exact supply_delta_no_supply_op. Qed.

(* totals never go negative *)
Theorem C02_supply_nonneg : forall (c : wcfg), codec_ok (wc_cdc c) -> flag_neutral (wc_cdc c) ->
  forall (w0 : world) (ops : list wop) (k : bytes), WInv' c w0 -> ok_ops c w0 ops -> pkey k ->
  (0 <= total c k (wrun c w0 ops))%Z.
Proof. exact supply_nonneg. Qed.
Theorem C02_total_nonneg : forall (c : wcfg) (w : world) (k : bytes), WInv' c w -> pkey k -> (0 <= total c k w)%Z.
Proof. exact total_nonneg. Qed.

(* C01's world invariant implies WInv' *)
Theorem C02_WInv_implies_WInv' : forall (c : wcfg) (w : world), WInv c w -> WInv' c w.
Proof. exact WInv_WInv'. Qed.

(* ---------------- the building blocks ---------------- *)
(* ONE successful call of any of the 20 non-transfer functions on one shard: the account keys stay duplicate-free and
   the shard-wide total of every protocol key moves by exactly the stated amount *)
Theorem C02_nontransfer_call_total : forall (c : wcfg), codec_ok (wc_cdc c) -> flag_neutral (wc_cdc c) ->
  forall sh m0 fn i o s',
  is_transfer_fn fn = false ->
  NoDup (map fst m0) -> st_nonneg_P (env_at c sh) (mk_state m0) ->
  exec (env_at c sh) fn i (mk_state m0) = (Ok o, s') -> call_ok c sh m0 fn i ->
  NoDup (map fst (accts s'))
  /\ forall x, shard_total c (P ++ x) (accts s') = (shard_total c (P ++ x) m0 + fn_delta c sh m0 fn i (P ++ x))%Z.
Proof. exact nontransfer_call_total. Qed.
(* ... and every message it puts in flight is named after the function, so it is no transfer message *)
Theorem C02_nontransfer_call_emits : forall (c : wcfg) sh fn i id s o s',
  is_transfer_fn fn = false -> exec (env_at c sh) fn i s = (Ok o, s') ->
  Forall (fun m => is_transfer_fn (m_fn m) = false) (collect c sh fn i id o).
Proof. exact nontransfer_call_emits. Qed.
Theorem C02_nontransfer_message_no_credits : forall (c : wcfg) k m,
  is_transfer_fn (m_fn m) = false -> credits c m = [] /\ qty c k m = 0%Z.
Proof. intros c k m H. exact (conj (credits_nontransfer c m H) (qty_nontransfer c k m H)). Qed.
(* "one account object per address" survives every successful call of the 20 functions, any environment *)
Theorem C02_exec_nodup_nontransfer : forall (E : env) f i s o s',
  is_transfer_fn f = false -> exec E f i s = (Ok o, s') ->
  NoDup (map fst (accts s)) -> NoDup (map fst (accts s')).
Proof. exact exec_nodup_nontransfer. Qed.
(* the issuing transfer: the recipient's shard total of P ++ tok grows by the (positive) amount, nothing is emitted *)
Theorem C02_issue_side : forall (c : wcfg), codec_ok (wc_cdc c) -> forall sh m0 i id o s',
  NoDup (map fst m0) -> i_snd i = false -> i_dst i = true -> wc_shard_of c (i_rcpt i) = sh ->
  f_esdt_transfer (env_at c sh) i (mk_state m0) = (Ok o, s') ->
  NoDup (map fst (accts s'))
  /\ collect c sh C.BuiltInFunctionESDTTransfer i id o = []
  /\ (0 < bigZ (argn i 1))%Z
  /\ forall k, shard_total c k (accts s') =
               (shard_total c k m0 + (if beqb k (P ++ argn i 0) then bigZ (argn i 1) else 0))%Z.
Proof. exact issue_side_esdt. Qed.
(* the theorem with its hypotheses decided by computation *)
Theorem C02_supply_accounting_checked : forall (c : wcfg), codec_ok (wc_cdc c) -> flag_neutral (wc_cdc c) ->
  forall w ops x, winv'_b c w = true -> ok_ops_b c w ops = true ->
  total c (P ++ x) (wrun c w ops) = (total c (P ++ x) w + supply_sum c w ops (P ++ x))%Z.
Proof. exact supply_accounting_checked. Qed.

(* ================================================================ *)
(* non-vacuity: a mixed history of 23 operations on a two-shard world  *)
(* ================================================================ *)
Example C02_supply_example_history :
  s_history =
  [ OCall 0 C.BuiltInFunctionESDTTransfer (s_in SC s_alice [s_tok; s_num 100] false true);
    OCall 0 C.BuiltInFunctionSetESDTRole (s_in SC s_alice [s_tok; C.ESDTRoleLocalMint; C.ESDTRoleLocalBurn] false true);
    OCall 0 C.BuiltInFunctionESDTLocalMint (s_in s_alice s_alice [s_tok; s_num 10] true true);
    OCall 0 C.BuiltInFunctionESDTTransfer (s_in s_alice s_bob [s_tok; s_num 30] true false);
    ODeliver 0 100000;
    OCall 0 C.BuiltInFunctionESDTLocalBurn (s_in s_alice s_alice [s_tok; s_num 5] true true);
    OCall 1 C.BuiltInFunctionESDTFreeze (s_in SC s_bob [s_tok] false true);
    OCall 1 C.BuiltInFunctionESDTWipe (s_in SC s_bob [s_tok] false true);
    OCall 0 C.BuiltInFunctionSetESDTRole
      (s_in SC s_alice [s_nft; C.ESDTRoleNFTCreate; C.ESDTRoleNFTAddQuantity; C.ESDTRoleNFTBurn] false true);
    OCall 0 C.BuiltInFunctionESDTNFTCreate
      (s_in s_alice s_alice [s_nft; s_num 4; str "name"%string; s_num 5; str "hash"%string; str "attr"%string;
                             str "uri"%string] true true);
    OCall 0 C.BuiltInFunctionESDTNFTAddQuantity (s_in s_alice s_alice [s_nft; s_num 1; s_num 3] true true);
    OCall 0 C.BuiltInFunctionESDTNFTTransfer (s_in s_alice s_alice [s_nft; s_num 1; s_num 2; s_bob] true true);
    ODeliver 1 100000;
    OCall 0 C.BuiltInFunctionESDTNFTBurn (s_in s_alice s_alice [s_nft; s_num 1; s_num 1] true true);
    OCall 0 C.BuiltInFunctionESDTPause (s_in SC SYS [s_tok] false true);
    OCall 0 C.BuiltInFunctionESDTTransfer (s_in s_alice s_carol [s_tok; s_num 1] true true);
    OCall 0 C.BuiltInFunctionESDTUnPause (s_in SC SYS [s_tok] false true);
    OCall 0 C.BuiltInFunctionChangeOwnerAddress (s_in s_alice s_kate [s_carol] true false);
    ODeliver 2 100000;
    OCall 0 C.BuiltInFunctionSaveKeyValue (s_in s_alice s_alice [str "key"%string; str "value"%string] true true);
    OCall 0 C.BuiltInFunctionESDTBurn (s_in s_alice SC [s_tok; s_num 2] true false);
    OCall 0 C.BuiltInFunctionESDTLocalBurn (s_in s_alice s_alice [s_tok; s_num 1000] true true);
    OCall 0 C.BuiltInFunctionMultiESDTNFTTransfer
      (s_in s_alice s_alice [s_carol; s_num 2; s_nft; s_num 1; s_num 1; s_tok; []; s_num 3] true true) ]
  /\ wc_cdc sc0 = ideal_codec /\ wc_nshards sc0 = 2%N
  /\ wc_shard_of sc0 s_alice = 0%N /\ wc_shard_of sc0 s_carol = 0%N /\ wc_shard_of sc0 s_bob = 1%N
  /\ wc_shard_of sc0 s_kate = 1%N /\ wc_shard_of sc0 SYS = 0%N
  /\ inflight sw0 = [] /\ s_kTok = P ++ s_tok /\ s_kNft = nft_key (P ++ s_nft) 1.
Proof. repeat split. Qed.
Example C02_supply_example_hypotheses :
  codec_ok (wc_cdc sc0) /\ flag_neutral (wc_cdc sc0) /\ WInv' sc0 sw0 /\ ok_ops sc0 sw0 s_history.
Proof. exact (conj sc0_ok (conj sc0_flag (conj supply_example_WInv' supply_example_ok_ops))). Qed.
(* the stated change of each of the 23 steps: issue +100, mint +10, burn -5, wipe -30, ESDTBurn -2; create +4,
   add quantity +3, NFT burn -1; 0 for role grants, transfers, deliveries, freeze, pause, the rejected transfer,
   ChangeOwnerAddress and its delivery, SaveKeyValue, the overdrawn burn, the multi transfer *)
Example C02_supply_example_deltas :
  s_deltas sw0 s_history s_kTok = [100; 0; 10; 0; 0; -5; 0; -30; 0; 0; 0; 0; 0; 0; 0; 0; 0; 0; 0; 0; -2; 0; 0]%Z
  /\ s_deltas sw0 s_history s_kNft = [0; 0; 0; 0; 0; 0; 0; 0; 0; 4; 3; 0; 0; -1; 0; 0; 0; 0; 0; 0; 0; 0; 0]%Z.
Proof. exact supply_example_deltas. Qed.
(* both sides of the equation, computed by vm_compute *)
Example C02_supply_example_computed :
  total sc0 s_kTok sw0 = 0%Z /\ total sc0 s_kNft sw0 = 0%Z
  /\ total sc0 s_kTok (wrun sc0 sw0 s_history) = 73%Z
  /\ (total sc0 s_kTok sw0 + supply_sum sc0 sw0 s_history s_kTok)%Z = 73%Z
  /\ total sc0 s_kNft (wrun sc0 sw0 s_history) = 6%Z
  /\ (total sc0 s_kNft sw0 + supply_sum sc0 sw0 s_history s_kNft)%Z = 6%Z.
Proof. exact supply_example_computed. Qed.
Example C02_supply_example_final :
  let w' := wrun sc0 sw0 s_history in
  inflight w' = [] /\ failed w' = []
  /\ s_bal w' 0 s_alice s_kTok = 70%Z /\ s_bal w' 0 s_carol s_kTok = 3%Z /\ s_bal w' 1 s_bob s_kTok = 0%Z
  /\ s_bal w' 0 s_alice s_kNft = 3%Z /\ s_bal w' 0 s_carol s_kNft = 1%Z /\ s_bal w' 1 s_bob s_kNft = 2%Z
  /\ a_owner (aget empty_account (shard_accts w' 1) s_kate) = s_carol
  /\ length (inflight (wrun sc0 sw0 (firstn 18 s_history))) = 1%nat.
Proof. exact supply_example_final. Qed.
(* the theorem applies, for every protocol key *)
Example C02_supply_example_accounted : forall x,
  total sc0 (P ++ x) (wrun sc0 sw0 s_history) = (total sc0 (P ++ x) sw0 + supply_sum sc0 sw0 s_history (P ++ x))%Z.
Proof. exact supply_example_accounted. Qed.
Example C02_supply_example_nonneg : forall x, (0 <= total sc0 (P ++ x) (wrun sc0 sw0 s_history))%Z.
Proof. exact supply_example_nonneg. Qed.

(* ---------------- hypotheses that cannot be dropped ---------------- *)
(* F8 at world level: the system account holds 6 TOK, ESDTPause overwrites them; the stated amount is 0 *)
Theorem C02_supply_step_refuted_without_pause_hypothesis :
  exists c w op k, codec_ok (wc_cdc c) /\ flag_neutral (wc_cdc c) /\ WInv' c w /\ pkey k /\ ~ ok_op c w op
    /\ total c k w = 6%Z /\ total c k (wstep c w op) = 0%Z /\ supply_delta c w op k = 0%Z.
Proof. exact supply_step_refuted_without_pause_hypothesis. Qed.
(* a re-delivered transfer message credits twice: 130 in the world, 100 accounted *)
Example C02_supply_example_redelivery_not_accounted :
  ok_ops_b sc0 sw0 s_redeliver = false
  /\ total sc0 s_kTok (wrun sc0 sw0 s_redeliver) = 130%Z
  /\ (total sc0 s_kTok sw0 + supply_sum sc0 sw0 s_redeliver s_kTok)%Z = 100%Z.
Proof. exact supply_example_redelivery_not_accounted. Qed.

Print Assumptions C02_supply_keys_unfolded.
Print Assumptions C02_step_call_unfolded.
Print Assumptions C02_fn_delta_unfolded.
Print Assumptions C02_supply_delta_unfolded.
Print Assumptions C02_supply_sum_unfolded.
Print Assumptions C02_WInv'_unfolded.
Print Assumptions C02_ok_op_unfolded.
Print Assumptions C02_supply_flag_facts.
Print Assumptions C02_supply_step.
Print Assumptions C02_supply_accounting_histories.
Print Assumptions C02_supply_invariant_histories.
Print Assumptions C02_no_supply_ops_conserve.
Print Assumptions C02_supply_delta_no_supply_op.
Print Assumptions C02_supply_nonneg.
Print Assumptions C02_total_nonneg.
Print Assumptions C02_WInv_implies_WInv'.
Print Assumptions C02_nontransfer_call_total.
Print Assumptions C02_nontransfer_call_emits.
Print Assumptions C02_nontransfer_message_no_credits.
Print Assumptions C02_exec_nodup_nontransfer.
Print Assumptions C02_issue_side.
Print Assumptions C02_supply_accounting_checked.
Print Assumptions C02_supply_example_history.
Print Assumptions C02_supply_example_hypotheses.
Print Assumptions C02_supply_example_deltas.
Print Assumptions C02_supply_example_computed.
Print Assumptions C02_supply_example_final.
Print Assumptions C02_supply_example_accounted.
Print Assumptions C02_supply_example_nonneg.
Print Assumptions C02_supply_step_refuted_without_pause_hypothesis.
Print Assumptions C02_supply_example_redelivery_not_accounted.
