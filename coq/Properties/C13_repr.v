(* Property C13, extension — REPRESENTATION INDEPENDENCE of the ledger model ("deterministic ... independent of
   map iteration order ... or earlier unrelated calls"; and a soundness gap of the whole model closed).

   The model stores an account's storage as a LOG ([sput] conses, [sget] finds the first match) and the accounts
   of a shard in an association list; the real code has maps.  Every ledger theorem is stated through the
   observations [sget] / [acct].  The theorems below show that [exec] ITSELF depends on the state only through
   these observations: states with extensionally equal storage and equal account fields give the same result
   (Ok with the same complete output / the same error / panic), equivalent post-states, the same number of
   dependency calls and of requested elements - for all 23 functions and unknown names, ANY environment (any
   fault plan, any codec - no codec_ok -, any shard table, oracle, gas schedule), any input.

   Reading guide
     C13_repr_state_equiv_def, C13_repr_same_run_def   the two notions, spelled out
     C13_repr_exec_respects_equiv                      THE theorem (proved by a relational judgement on the
                                                       execution monad: LedgerProofs/Repr_Core.v, Repr_Exec.v)
     C13_repr_observables                              equivalent states agree on every observable of Defs.v
     C13_repr_canon*, C13_repr_exec_account_order, C13_repr_exec_log_order
                                                       compacting / permuting the log, reordering the accounts
     C13_repr_history*                                 histories on one shard ([after] of C13.v)
     C13_repr_wstep, C13_repr_wrun, C13_repr_histories_* the world model: equivalence is preserved by every
                                                       operation, so histories that reach extensionally equal
                                                       worlds behave identically afterwards
     C13_repr_listing*, C13_repr_acct_matches_sound    the correspondence case format builds / compares states
                                                       from listings: sound up to the equivalence
     C13_repr_example_*                                non-vacuity: different representations, concrete codec,
                                                       the theorem and vm_compute side by side
   Only statements, each closed by [exact] of a lemma proved in LedgerProofs/Repr_*.v, and their assumptions. *)
From Coq Require Import Permutation.
From EV Require Import Base.Bytes Base.Store Base.Monad gen.Consts Codec.Types Codec.Proto Helpers.Helpers
  Ledger.Types Ledger.Env Ledger.Funcs Ledger.Transfers Ledger.World Corr.Exec SliceModel.ExecDeterminism
  LedgerProofs.Defs LedgerProofs.WorldSpec
  LedgerProofs.Repr_Core LedgerProofs.Repr_Exec LedgerProofs.Repr_Canon LedgerProofs.Repr_World
  LedgerProofs.Repr_Listing LedgerProofs.Repr_Examples.

(* ---- the notions ---- *)
(* state_equiv: at every address, every storage cell reads the same and the four account fields are equal;
   nothing is said about the shape of the log or of the account list, nor about calls / allocs *)
Theorem C13_repr_state_equiv_def : forall s u,
  state_equiv s u <->
  (forall a k, sget (a_store (acct s a)) k = sget (a_store (acct u a)) k)
  /\ (forall a, a_balance (acct s a) = a_balance (acct u a) /\ a_owner (acct s a) = a_owner (acct u a)
                /\ a_username (acct s a) = a_username (acct u a) /\ a_devreward (acct s a) = a_devreward (acct u a)).
Proof. exact state_equiv_iff. Qed.
(* same_run: the two executions return the same result, equivalent states, the same counters *)
Theorem C13_repr_same_run_def : forall E f i s u,
  same_run E f i s u <->
  (let '(r1, s') := exec E f i s in
   let '(r2, u') := exec E f i u in
   r1 = r2 /\ state_equiv s' u' /\ calls s' = calls u' /\ (allocs s' - allocs s = allocs u' - allocs u)%N).
Proof. exact same_run_unfold. Qed.

(* ---- THE theorem: one execution ---- *)
(* r1 = r2 is equality in [res err output]: Ok with the same return code, gas, return data, output transfers and
   logs / the same error / panic.  The post-states are related also when the call fails. *)
Theorem C13_repr_exec_respects_equiv : forall (E : env) (f : bytes) (i : input) (s u : mstate),
  state_equiv s u -> calls s = calls u ->
  let '(r1, s') := exec E f i s in
  let '(r2, u') := exec E f i u in
  r1 = r2 /\ state_equiv s' u' /\ calls s' = calls u' /\ (allocs s' - allocs s = allocs u' - allocs u)%N.
Proof. exact exec_respects_equiv. Qed.
(* the same, case by case on the status *)
Theorem C13_repr_exec_respects_equiv_cases : forall (E : env) (f : bytes) (i : input) (s u : mstate),
  state_equiv s u -> calls s = calls u ->
  match exec E f i s, exec E f i u with
  | (Ok o, s'), (Ok o', u') => o = o' /\ state_equiv s' u' /\ calls s' = calls u'
  | (Err e, s'), (Err e', u') => e = e' /\ state_equiv s' u'
  | (Panic, s'), (Panic, u') => state_equiv s' u'
  | _, _ => False
  end.
Proof. exact exec_respects_equiv_cases. Qed.
(* equivalent states cannot be told apart by any observable the ledger theorems use *)
Theorem C13_repr_observables : forall E s u, state_equiv s u ->
  (forall a k, cell s a k = cell u a k)
  /\ (forall a k, tok_at E s a k = tok_at E u a k)
  /\ (forall a k, balance E s a k = balance E u a k)
  /\ (forall a k, frozen_at E s a k = frozen_at E u a k)
  /\ (forall k, paused_at s k = paused_at u k)
  /\ (forall a tok, roles_at E s a tok = roles_at E u a tok)
  /\ (forall a tok role, has_role E s a tok role = has_role E u a tok role)
  /\ (forall a tok, counter_at s a tok = counter_at u a tok)
  /\ (forall a, acct_fields_eq (acct s a) (acct u a)).
Proof. exact state_equiv_observables. Qed.

(* ---- canonical forms, permutations ---- *)
(* [canon]: shadowed log entries, deleted (empty) cells and shadowed account entries dropped *)
Theorem C13_repr_canon_equiv : forall s, state_equiv s (canon s) /\ calls (canon s) = calls s.
Proof. exact canon_equiv. Qed.
Theorem C13_repr_canon_is_canonical : forall s,
  NoDup (map fst (accts (canon s)))
  /\ forall a, NoDup (skeys (a_store (acct (canon s) a)))
               /\ forall k v, In (k, v) (a_store (acct (canon s) a)) -> v <> [].
Proof. exact canon_is_canonical. Qed.
Theorem C13_repr_exec_canon : forall E f i s, same_run E f i s (canon s).
Proof. exact exec_canon. Qed.
(* a log / an account list with distinct keys reads the same in every order *)
Theorem C13_repr_sget_perm : forall (l l' : store) k, NoDup (skeys l) -> Permutation l l' -> sget l k = sget l' k.
Proof. exact sget_perm. Qed.
Theorem C13_repr_exec_account_order : forall E f i s u,
  NoDup (map fst (accts s)) -> Permutation (accts s) (accts u) -> calls s = calls u -> same_run E f i s u.
Proof. exact exec_account_order. Qed.
Theorem C13_repr_exec_log_order : forall E f i s u,
  (forall a, NoDup (skeys (a_store (acct s a))) /\ Permutation (a_store (acct s a)) (a_store (acct u a))
             /\ acct_fields_eq (acct s a) (acct u a)) ->
  calls s = calls u -> same_run E f i s u.
Proof. exact exec_log_order. Qed.

(* ---- histories on one shard ([after]: calls one after the other, a failed call rolled back) ---- *)
Theorem C13_repr_history_call : forall E h1 h2 s1 s2 f i,
  state_equiv (after E h1 s1) (after E h2 s2) /\ calls (after E h1 s1) = calls (after E h2 s2) ->
  same_run E f i (after E h1 s1) (after E h2 s2).
Proof. exact exec_after_respects_equiv. Qed.
Theorem C13_repr_history_future : forall E h1 h2 s1 s2 h,
  state_equiv (after E h1 s1) (after E h2 s2) /\ calls (after E h1 s1) = calls (after E h2 s2) ->
  state_equiv (after E (h1 ++ h) s1) (after E (h2 ++ h) s2) /\ calls (after E (h1 ++ h) s1) = calls (after E (h2 ++ h) s2).
Proof. exact after_respects_equiv. Qed.

(* ---- the world: shards, messages, delivery, refund ---- *)
Theorem C13_repr_world_equiv_def : forall w w',
  world_equiv w w' <->
  length (shards w) = length (shards w')
  /\ (forall n a, acct_eq (aget empty_account (nth n (shards w) []) a) (aget empty_account (nth n (shards w') []) a))
  /\ inflight w = inflight w' /\ failed w = failed w' /\ next_id w = next_id w'.
Proof. exact world_equiv_unfold. Qed.
Theorem C13_repr_wstep : forall c w w' op, world_equiv w w' -> world_equiv (wstep c w op) (wstep c w' op).
Proof. exact wstep_respects_equiv. Qed.
Theorem C13_repr_wrun : forall c ops w w', world_equiv w w' -> world_equiv (wrun c w ops) (wrun c w' ops).
Proof. exact wrun_respects_equiv. Qed.
(* "independent of earlier calls except through the state they left" *)
Theorem C13_repr_histories_same_future : forall c ops1 ops2 w1 w2 ops,
  world_equiv (wrun c w1 ops1) (wrun c w2 ops2) ->
  world_equiv (wrun c w1 (ops1 ++ ops)) (wrun c w2 (ops2 ++ ops)).
Proof. exact histories_equiv_then_same_future. Qed.
Theorem C13_repr_histories_same_messages : forall c ops1 ops2 w1 w2 ops,
  world_equiv (wrun c w1 ops1) (wrun c w2 ops2) ->
  inflight (wrun c w1 (ops1 ++ ops)) = inflight (wrun c w2 (ops2 ++ ops))
  /\ failed (wrun c w1 (ops1 ++ ops)) = failed (wrun c w2 (ops2 ++ ops))
  /\ next_id (wrun c w1 (ops1 ++ ops)) = next_id (wrun c w2 (ops2 ++ ops)).
Proof. exact histories_equiv_same_messages. Qed.
(* equivalent worlds agree on every cell of every shard *)
Theorem C13_repr_world_cell : forall w w' sh a k, world_equiv w w' ->
  cell (mk_state (shard_accts w sh)) a k = cell (mk_state (shard_accts w' sh)) a k.
Proof. exact world_equiv_cell. Qed.

(* ---- the correspondence case format (Corr/Exec.v) ---- *)
(* the state built from a listing holds, at every address, the listed account (last entry wins) *)
Theorem C13_repr_listing_acct : forall lst a, acct (state_of lst) a = account_of (find_acctl (rev lst) a).
Proof. exact acct_state_of. Qed.
(* so a listing that describes s cell by cell can stand for s, whatever representation s has *)
Theorem C13_repr_listing_exec : forall E f i s lst,
  (forall a, acct_eq (acct s a) (account_of (find_acctl (rev lst) a))) -> calls s = 0%nat ->
  same_run E f i s (state_of lst).
Proof. exact exec_on_listing. Qed.
(* and the post-state comparison of the correspondence check implies the equivalence, account by account *)
Theorem C13_repr_acct_matches_sound : forall x l, acct_matches x l = true -> acct_eq x (account_of l).
Proof. exact acct_matches_sound. Qed.

(* ---- non-vacuity ---- *)
Example C13_repr_example_two_logs :
  let k := [x6b] in let v1 := [x01] in let v2 := [x02] in
  [(k, v2); (k, v1)] <> [(k, v2)] /\ (forall k', sget [(k, v2); (k, v1)] k' = sget [(k, v2)] k')
  /\ canon_store [(k, v2); (k, v1)] = [(k, v2)].
Proof. exact repr_two_logs. Qed.
(* sA: alice's log carries a shadowed older balance and a deleted cell; sB: compact log, accounts in the other
   order.  ESDTTransfer of 3 TOK, protobuf codec, fault-free (r_E) and with the 4th dependency call failing (r_Ef) *)
Example C13_repr_example_by_theorem :
  sA <> sB /\ state_equiv sA sB
  /\ same_run r_E C.BuiltInFunctionESDTTransfer r_in sA sB
  /\ same_run r_Ef C.BuiltInFunctionESDTTransfer r_in sA sB.
Proof. exact repr_example_by_theorem. Qed.
Example C13_repr_example_by_evaluation :
  (exists o s' u', exec r_E C.BuiltInFunctionESDTTransfer r_in sA = (Ok o, s')
                   /\ exec r_E C.BuiltInFunctionESDTTransfer r_in sB = (Ok o, u')
                   /\ r_bal s' r_alice = 2%Z /\ r_bal u' r_alice = 2%Z /\ r_bal s' r_carol = 3%Z /\ r_bal u' r_carol = 3%Z
                   /\ List.length (o_logs o) = 1%nat /\ calls s' = 6%nat /\ calls u' = 6%nat /\ s' <> u')
  /\ fst (exec r_Ef C.BuiltInFunctionESDTTransfer r_in sA) = Err EFault
  /\ fst (exec r_Ef C.BuiltInFunctionESDTTransfer r_in sB) = Err EFault.
Proof. exact repr_example_by_evaluation. Qed.
(* three transfers in a one-shard world (the third is refused and rolled back) from two representations *)
Example C13_repr_example_world :
  wA <> wB /\ world_equiv wA wB /\ world_equiv (wrun r_wcfg wA r_ops) (wrun r_wcfg wB r_ops)
  /\ balance r_E (mk_state (shard_accts (wrun r_wcfg wA r_ops) 0)) r_carol (P ++ r_tok) = 3%Z
  /\ balance r_E (mk_state (shard_accts (wrun r_wcfg wB r_ops) 0)) r_carol (P ++ r_tok) = 3%Z
  /\ wrun r_wcfg wA r_ops <> wrun r_wcfg wB r_ops.
Proof. exact repr_world_example. Qed.

Print Assumptions C13_repr_state_equiv_def.
Print Assumptions C13_repr_same_run_def.
Print Assumptions C13_repr_exec_respects_equiv.
Print Assumptions C13_repr_exec_respects_equiv_cases.
Print Assumptions C13_repr_observables.
Print Assumptions C13_repr_canon_equiv.
Print Assumptions C13_repr_canon_is_canonical.
Print Assumptions C13_repr_exec_canon.
Print Assumptions C13_repr_sget_perm.
Print Assumptions C13_repr_exec_account_order.
Print Assumptions C13_repr_exec_log_order.
Print Assumptions C13_repr_history_call.
Print Assumptions C13_repr_history_future.
Print Assumptions C13_repr_world_equiv_def.
Print Assumptions C13_repr_wstep.
Print Assumptions C13_repr_wrun.
Print Assumptions C13_repr_histories_same_future.
Print Assumptions C13_repr_histories_same_messages.
Print Assumptions C13_repr_world_cell.
Print Assumptions C13_repr_listing_acct.
Print Assumptions C13_repr_listing_exec.
Print Assumptions C13_repr_acct_matches_sound.
Print Assumptions C13_repr_example_two_logs.
Print Assumptions C13_repr_example_by_theorem.
Print Assumptions C13_repr_example_by_evaluation.
Print Assumptions C13_repr_example_world.
