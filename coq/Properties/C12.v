(* Property C12 — transaction-data parsers are total and inverse to the builders.
   Only statements, each closed by [exact] of a lemma proved in Parsers/*Proofs.v, the pinned
   constants, non-vacuity examples and the assumptions. *)
From Coq.Strings Require Import String.
From EV Require Import Base.Bytes Base.Monad gen.Consts Codec.Types Helpers.Helpers.
From EV Require Import Parsers.Tokenize Parsers.CallArgs Parsers.DeployArgs Parsers.StorageUpdates
  Parsers.Builder Parsers.EsdtTransferParser.
From EV Require Import Parsers.TokenizeProofs Parsers.ParsersProofs Parsers.EsdtTransferParserProofs.

(* constants the property text and the anchors name, pinned against the generated tables *)
Example C12_pinned_constants :
  C.parsers_atSeparator = str "@"%string /\ C.parsers_atSeparator = [x40] /\ at_sep = C.parsers_atSeparator
  /\ (C.parsers_atSeparatorChar, C.parsers_minNumCallArguments, C.parsers_indexOfFunction,
      C.parsers_minNumDeployArguments, C.parsers_indexOfCode, C.parsers_indexOfVMType,
      C.parsers_indexOfCodeMetadata, C.parsers_startIndexOfConstructorArguments) = (64, 1, 0, 3, 0, 1, 2, 3)%N
  /\ (C.parsers_MinArgsForESDTTransfer, C.parsers_MinArgsForESDTNFTTransfer,
      C.parsers_MinArgsForMultiESDTNFTTransfer, C.parsers_ArgsPerTransfer, C.Fungible, C.NonFungible) = (2, 4, 4, 3, 0, 1)%N
  /\ C.BuiltInFunctionESDTTransfer = str "ESDTTransfer"%string
  /\ C.BuiltInFunctionESDTNFTTransfer = str "ESDTNFTTransfer"%string
  /\ C.BuiltInFunctionMultiESDTNFTTransfer = str "MultiESDTNFTTransfer"%string.
Proof. repeat split. Qed.

(* ---- totality: every parser returns a result or an error, never panics ----
   [go_slice_len args]: the argument slice has fewer than 2^63 elements, as every Go slice has. *)
Theorem C12_parsers_no_panic :
  (forall data : bytes,
     tokenize_r data <> Panic /\ parse_call_data_r data <> Panic
     /\ parse_deploy_data_r data <> Panic /\ get_storage_updates_r data <> Panic)
  /\ (forall (dec_token : bytes -> option token) (snd rcv function : bytes) (args : list bytes),
       go_slice_len args -> parse_esdt_transfers dec_token snd rcv function args <> Panic).
Proof. exact parsers_no_panic. Qed.
Example C12_go_slice_len_nonvacuous : go_slice_len [str "a"%string; []; [x01]].
Proof. unfold go_slice_len. vm_compute. reflexivity. Qed.

(* ---- call arguments: parse ∘ build = id ---- *)
Theorem C12_builder_emits_build_call : forall f args,
  b_to_string (builder_of f args) = build_call f args /\ encode_message f args = build_call f args.
Proof. intros f args. split; [exact (builder_to_string f args)|exact (encode_message_build_call f args)]. Qed.
Theorem C12_callargs_roundtrip_builder : forall f args, f <> [] -> ~ In x40 f ->
  parse_call_data (b_to_string (builder_of f args)) = Some (f, args).
Proof. exact callargs_roundtrip_builder. Qed.
Theorem C12_callargs_roundtrip_encoder : forall f args, f <> [] -> ~ In x40 f ->
  parse_call_data (encode_message f args) = Some (f, args).
Proof. exact callargs_roundtrip_encoder. Qed.
Theorem C12_callargs_roundtrip : forall f args, f <> [] -> ~ In x40 f ->
  parse_call_data (build_call f args) = Some (f, args).
Proof. exact callargs_roundtrip. Qed.
Theorem C12_build_parse_build : forall f args, f <> [] -> ~ In x40 f ->
  exists f' args', parse_call_data (build_call f args) = Some (f', args') /\ build_call f' args' = build_call f args.
Proof. exact build_parse_build. Qed.
Theorem C12_empty_function_rejected : forall args,
  parse_call_data_r (build_call [] args) = Err ErrTokenizeFailed
  /\ parse_call_data (b_to_string (builder_of [] args)) = None
  /\ parse_call_data (encode_message [] args) = None.
Proof. exact empty_function_rejected. Qed.
Theorem C12_parse_call_ok_shape : forall data f args, parse_call_data_r data = Ok (f, args) ->
  f <> [] /\ ~ In x40 f /\ exists toks, go_split data = f :: toks /\ decode_all toks = Some args.
Proof. exact parse_call_ok_shape. Qed.
Example C12_callargs_roundtrip_nonvacuous :
  let f := str "transfer"%string in
  f <> [] /\ ~ In x40 f
  /\ b_to_string (builder_of f [[]; [x00; x01]; str "@"%string]) = str "transfer@@0001@40"%string
  /\ parse_call_data (str "transfer@@0001@40"%string) = Some (f, [[]; [x00; x01]; str "@"%string]).
Proof.
  cbv zeta. split; [discriminate|]. split; [|split; reflexivity].
  intros H. cbn in H. repeat (destruct H as [H|H]; [discriminate|]). exact H.
Qed.
(* why '@' is excluded: the name is copied verbatim, its tail is read back as arguments *)
Example C12_at_in_function_name_not_recovered :
  parse_call_data (build_call (str "a@bb"%string) [[xcc]]) = Some (str "a"%string, [[xbb]; [xcc]]).
Proof. reflexivity. Qed.

(* ---- deploy data ---- *)
Theorem C12_deploy_roundtrip : forall code vm cm args, code <> [] -> vm <> [] ->
  exists data, build_deploy code vm cm args = Some data /\
    parse_deploy_data data = Some {| da_code := code; da_vmtype := vm; da_codemeta := cm; da_arguments := args |}.
Proof. exact deploy_roundtrip. Qed.
Theorem C12_deploy_roundtrip_bytes : forall code vm cmb args, code <> [] -> vm <> [] ->
  exists cm, codemeta_from cmb = Some cm /\
  parse_deploy_data_r (build_deploy_bytes code vm cmb args) =
    Ok {| da_code := code; da_vmtype := vm; da_codemeta := cm; da_arguments := args |}.
Proof. exact parse_build_deploy_bytes. Qed.
Theorem C12_deploy_empty_rejected : forall vm cmb args,
  parse_deploy_data_r (build_deploy_bytes [] vm cmb args) = Err ErrTokenizeFailed
  /\ forall code, code <> [] -> parse_deploy_data_r (build_deploy_bytes code [] cmb args) = Err ErrInvalidVMType.
Proof. exact deploy_empty_rejected. Qed.
Example C12_deploy_roundtrip_nonvacuous :
  let cm := {| cm_payable := true; cm_upgradeable := true; cm_readable := false |} in
  build_deploy [xab; xba] [x05; x00] cm [[x64]; []] = Some (str "abba@0500@0102@64@"%string)
  /\ parse_deploy_data (str "ABBA@0500@0102@64@"%string)
     = Some {| da_code := [xab; xba]; da_vmtype := [x05; x00]; da_codemeta := cm; da_arguments := [[x64]; []] |}.
Proof. split; reflexivity. Qed.

(* ---- storage updates ---- *)
Theorem C12_storage_updates_roundtrip : forall o d r, o <> [] ->
  get_storage_updates_r (create_data_from_storage_update ((o, d) :: r)) = Ok ((o, d) :: r).
Proof. exact storage_updates_roundtrip. Qed.
Theorem C12_storage_updates_never_wrong : forall l,
  get_storage_updates_r (create_data_from_storage_update l) = Ok l
  \/ exists e, get_storage_updates_r (create_data_from_storage_update l) = Err e.
Proof. exact storage_updates_never_wrong. Qed.
(* the two excluded shapes are unparseable (the leading-'@' trim): an error, never another list *)
Theorem C12_storage_updates_excluded_rejected :
  (exists e, get_storage_updates_r (create_data_from_storage_update []) = Err e)
  /\ forall d r, exists e, get_storage_updates_r (create_data_from_storage_update (([], d) :: r)) = Err e.
Proof. exact storage_updates_excluded_rejected. Qed.
Theorem C12_storage_updates_roundtrip_all_lists_refuted :
  (exists l, get_storage_updates_r (create_data_from_storage_update l) <> Ok l)
  /\ get_storage_updates_r (create_data_from_storage_update []) = Err ErrTokenizeFailed
  /\ get_storage_updates_r (create_data_from_storage_update [([], [x02])]) = Err ErrInvalidDataString
  /\ get_storage_updates_r (create_data_from_storage_update [([], []); ([x01], [x02])]) = Err ErrTokenizeFailed.
Proof. exact storage_updates_roundtrip_all_lists_refuted. Qed.
Example C12_storage_updates_nonvacuous :
  create_data_from_storage_update [([x01], []); ([], [x02; x03])] = str "01@@@0203"%string
  /\ get_storage_updates (str "@01@@@0203"%string) = Some [([x01], []); ([], [x02; x03])]
  /\ get_storage_updates_r (create_data_from_storage_update [([], [x02])]) = Err ErrInvalidDataString.
Proof. repeat split. Qed.

(* ---- hex decoder: either case, even length only ---- *)
Theorem C12_hex_accepts_any_case : forall cs l, hex_dec (hex_enc_mixed cs l) = Some l.
Proof. exact hex_dec_mixed_case. Qed.
Theorem C12_hex_accepts_upper_case : forall l, hex_dec (hex_enc_upper l) = Some l.
Proof. exact hex_dec_upper. Qed.
Theorem C12_hex_rejects_odd_length : forall s, Nat.odd (length s) = true -> hex_dec s = None.
Proof. exact hex_dec_odd_length. Qed.
Example C12_hex_examples :
  hex_enc_upper [xab; x0f] = str "AB0F"%string /\ hex_dec (str "aB0f"%string) = Some [xab; x0f]
  /\ hex_dec (str "abc"%string) = None /\ hex_dec (str "ag"%string) = None.
Proof. repeat split. Qed.

(* ---- ESDT transfers: a count above a third of the argument list is refused before any
        arithmetic on it, whatever 3n+1 / 3n+2 is modulo 2^64 ---- *)
Theorem C12_multi_count_too_large_rejected :
  forall (dec_token : bytes -> option token) (snd rcv : bytes) (args : list bytes), (4 <= glen args)%N ->
    let count := if beqb snd rcv then be_to_N (nth 1 args []) else be_to_N (nth 0 args []) in
    (glen args / 3 < count)%N ->
    parse_multi_esdt_nft_transfer dec_token snd rcv args = Err ErrNotEnoughArguments.
Proof. exact multi_count_too_large_rejected. Qed.
Example C12_wraparound_residues_rejected :
  forallb (fun n => forallb (fun s =>
     match parse_esdt_transfers dec_any (if s : bool then str "me"%string else str "other"%string) (str "me"%string)
                                C.BuiltInFunctionMultiESDTNFTTransfer (residue_args n s) with
     | Err ErrNotEnoughArguments => true | _ => false end) [true; false]) residue_counts = true
  /\ In 6148914691236517206%N residue_counts                                   (* 0x5555555555555556 *)
  /\ ((3 * 6148914691236517206 + 2) mod 2 ^ 64 = 4)%N /\ ((3 * 6148914691236517205 + 1) mod 2 ^ 64 = 0)%N.
Proof. split; [exact residues_rejected|]. split; [cbn; tauto|split; reflexivity]. Qed.
Example C12_esdt_parser_accepts_wellformed :
  parse_esdt_transfers dec_any (str "me"%string) (str "me"%string) C.BuiltInFunctionMultiESDTNFTTransfer
    [str "dest"%string; [x01]; str "TOK"%string; [x02]; [x05]; str "fn"%string; [x09]]
  = Ok {| pt_transfers := [ {| et_value := 5; et_token := str "TOK"%string; et_type := 1; et_nonce := 2 |} ];
          pt_rcv := str "dest"%string; pt_call_args := [[x09]]; pt_call_function := str "fn"%string |}.
Proof. exact multi_accepts_sender. Qed.

Print Assumptions C12_parsers_no_panic.
Print Assumptions C12_callargs_roundtrip_builder.
Print Assumptions C12_callargs_roundtrip_encoder.
Print Assumptions C12_empty_function_rejected.
Print Assumptions C12_deploy_roundtrip.
Print Assumptions C12_deploy_empty_rejected.
Print Assumptions C12_storage_updates_roundtrip.
Print Assumptions C12_storage_updates_never_wrong.
Print Assumptions C12_hex_accepts_any_case.
Print Assumptions C12_hex_rejects_odd_length.
Print Assumptions C12_multi_count_too_large_rejected.
Print Assumptions C12_wraparound_residues_rejected.
