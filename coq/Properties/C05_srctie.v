(* Property C05, extension "source tie": the key filter of SaveKeyValue (IsAllowedToSaveUnderKey) and the
   contract-address test (IsSmartContractAddress) that the C05 theorems rely on, as REGENERATED from /repo's
   current Go sources on this very run (gen/Pure.v, module P, written by tools/srcgen/pure.go; None = panic).
   Only statements, each closed by [exact] of a lemma of Helpers/PureTie_*.v, and their assumptions. *)
From Coq.Strings Require Import String.
From EV Require Import Base.Bytes gen.Consts Base.GoSem gen.Pure Helpers.Helpers Ledger.Env Helpers.PureTie_Base Helpers.PureTie_Addr.

(* regenerated definition = hand model (Helpers/Helpers.v) *)
Theorem C05_src_tie_IsAllowedToSaveUnderKey : forall k, P.IsAllowedToSaveUnderKey k = is_allowed_to_save_under_key k.
Proof. exact tie_IsAllowedToSaveUnderKey. Qed.
Theorem C05_src_tie_IsSmartContractAddress : forall a, P.IsSmartContractAddress a = is_sc_address a.
Proof. exact tie_IsSmartContractAddress. Qed.
Theorem C05_src_tie_IsEmptyAddress : forall a, P.IsEmptyAddress a = Some (is_empty_address a).
Proof. exact tie_IsEmptyAddress. Qed.

(* ... and = the total functions [key_allowed], [is_sc] of Ledger/Env.v in which the C05 theorems are stated
   (C05_savekv_accepted_only_if, C05_footprint_table): the Go functions never panic and return exactly these *)
Theorem C05_src_key_allowed : forall k, P.IsAllowedToSaveUnderKey k = Some (key_allowed k).
Proof. exact P_IsAllowedToSaveUnderKey_key_allowed. Qed.
Theorem C05_src_is_sc : forall a, P.IsSmartContractAddress a = Some (is_sc a).
Proof. exact P_IsSmartContractAddress_is_sc. Qed.

(* the headline characterisation (C05_key_allowed_char) on the regenerated function:
   a key is refused iff it starts with "ELROND" *)
Theorem C05_src_key_allowed_char : forall k,
  P.IsAllowedToSaveUnderKey k = Some (negb (prefix_of (str "ELROND"%string) k)).
Proof. exact P_IsAllowedToSaveUnderKey_char. Qed.
Theorem C05_src_protected_key_iff : forall k,
  P.IsAllowedToSaveUnderKey k = Some false <-> exists r, k = str "ELROND"%string ++ r.
Proof. exact P_protected_key_iff. Qed.
Example C05_src_key_examples :
  P.IsAllowedToSaveUnderKey (str "ELROND"%string) = Some false
  /\ P.IsAllowedToSaveUnderKey (str "ELRONDesdtTOK-a1b2c3"%string) = Some false
  /\ P.IsAllowedToSaveUnderKey (str "ELRON"%string) = Some true
  /\ P.IsAllowedToSaveUnderKey (str "xELROND"%string) = Some true /\ P.IsAllowedToSaveUnderKey [] = Some true.
Proof. exact (conj eq_refl (conj eq_refl (conj eq_refl (conj eq_refl eq_refl)))). Qed.

Print Assumptions C05_src_tie_IsAllowedToSaveUnderKey.
Print Assumptions C05_src_tie_IsSmartContractAddress.
Print Assumptions C05_src_key_allowed.
Print Assumptions C05_src_is_sc.
Print Assumptions C05_src_key_allowed_char.
Print Assumptions C05_src_protected_key_iff.
