(* Property C05 — protocol storage namespace is protected; every function has a bounded footprint.
   Only statements, each closed by [exact] of a lemma of LedgerProofs/C05_SaveKV.v, C05_Footprint.v,
   C05_World.v, C05_Examples.v, their assumptions, pins and non-vacuity examples.

   Reading guide.  [E : env] is ARBITRARY (fault plan, coordinator, payability oracle, DNS list, gas schedule);
   the SaveKeyValue theorems need nothing else, the frame theorems need [codec_ok (cdc E)] (decode . encode = id;
   used by the function specifications they are built on).  No hypothesis on the state, on the input or on the
   function name.  "The call" is [exec E f i s = (Ok o, s')]: the factory's dispatch on the function NAME f,
   from state s of the executing shard to s'.  [cell s a k] is the raw storage cell of account a under key k
   ([] = absent); [acct_fields_eq] compares balance, owner, user name and developer reward of an account;
   [unchanged_except F G s s'] := every cell (a, k) with ~ F a k and the fields of every account a with ~ G a
   are the same in s and s'.  Keys: P = "ELRONDesdt", RP = "ELRONDroleesdt", NP = "ELRONDnonce"
   (C05_pinned_prefixes); [nft_key (P ++ tok) n] = ELRONDesdt ‖ tok ‖ big-endian n, and n = 0 gives the fungible /
   token-level key P ++ tok (also the key of the pause flag in the system account SYS).
   [argn i n] = n-th argument ([] when absent).

   1. SaveKeyValue (the C05_savekv theorems): never a protected key — on Ok AND on every other outcome of the run;
      accepted only if caller = recipient, the caller's account is local, the caller is not a contract address,
      the arguments are a non-empty list of pairs none of whose keys starts with "ELROND", gas >= the charge;
      the caller's storage afterwards is the fold of the listed pairs (later pair wins, empty value = absent
      cell), nothing else changes anywhere.
   2. Footprint (C05_footprint_table pins the definition function by function) and THE frame theorem
      C05_exec_frame over all function names (unknown names are errors).  For the functions that look an NFT
      entry up by (token id, nonce) — ESDTNFTAddQuantity / Burn / AddURI / UpdateAttributes / Transfer and
      MultiESDTNFTTransfer — the hypothesis-free footprint is "any nonce of the named token"; the sharp footprint
      [fp_exact] (a computable list of cells with the exact nonce) holds under [fp_consistent] = the entry found
      under id‖nonce carries that nonce in its metadata (C05_exec_frame_exact), and is FALSE without it:
      KNOWN FINDING F4b, C05_footprint_exact_nonce_refuted (the write lands under the METADATA nonce).
      C05_footprint_shape: accounts in {caller, recipient, SYS, address argument of NFT transfer / multi transfer /
      create-role transfer}, keys ELRONDesdt‖tok‖nonce, ELRONDroleesdt‖tok, ELRONDnonce‖tok for tokens named in the
      input (which on Ok ARE arguments: C05_named_tokens_in_args), or listed unprotected keys of the caller
      (SaveKeyValue); account-level functions: no storage, only owner / user name / developer reward / balance of
      recipient / caller, field by field (C05_exec_frame_fields).
   3. World (the C05_wstep theorems): a step of the node model (user or system call, delivery, re-delivery, refund; rollback on
      error) executes at most one call on one shard: every other shard is untouched, the executing shard changes
      only inside the footprint, and a step that executes nothing or fails changes no account of any shard.
      (The in-flight message list, the failed-delivery marks and the message counter are bookkeeping of the node
      model, not account state; they are not covered.) *)
From Coq.Strings Require Import String.
From EV Require Import Base.Bytes Base.Store Base.Monad gen.Consts Codec.Types Codec.CodecOk Helpers.Helpers
  Ledger.Types Ledger.Env Ledger.Funcs Ledger.Transfers Ledger.World
  LedgerProofs.Defs LedgerProofs.EnvSpec LedgerProofs.WorldSpec
  LedgerProofs.Spec_Transfers_Base LedgerProofs.Spec_Transfers_Esdt LedgerProofs.Spec_Transfers_Nft
  LedgerProofs.Spec_Transfers_Multi LedgerProofs.Spec_Transfers LedgerProofs.Spec_Supply LedgerProofs.Spec_System
  LedgerProofs.C05_SaveKV LedgerProofs.C05_Footprint LedgerProofs.C05_World LedgerProofs.C05_Examples.

(* ================================================================== *)
(* pins                                                                 *)
(* ================================================================== *)
Example C05_pinned_prefix : C.ElrondProtectedKeyPrefix = str "ELROND"%string.
Proof. reflexivity. Qed.
Example C05_pinned_prefixes :
  P = str "ELRONDesdt"%string /\ RP = str "ELRONDroleesdt"%string /\ NP = str "ELRONDnonce"%string
  /\ SYS = C.SystemAccountAddress /\ SC = C.ESDTSCAddress
  /\ (forall key, nft_key key 0 = key) /\ (forall key n, nft_key key n = key ++ N_to_be n).
Proof. repeat split. apply nft_key_0. Qed.
(* IsAllowedToSaveUnderKey: a key is refused iff it starts with ELROND *)
Theorem C05_key_allowed_char : forall k, key_allowed k = negb (prefix_of (str "ELROND"%string) k).
Proof. exact key_allowed_char_str. Qed.
Example C05_key_examples :
  key_allowed (str "ELROND"%string) = false /\ key_allowed (str "ELRONDx"%string) = false
  /\ key_allowed (str "ELRONDesdtTOK-a1b2c3"%string) = false
  /\ key_allowed (str "ELRON"%string) = true /\ key_allowed (str "elrond"%string) = true
  /\ key_allowed (str "ELROnD"%string) = true /\ key_allowed (str "xELROND"%string) = true /\ key_allowed [] = true.
Proof. repeat split. Qed.
(* "not a contract address" is the model of IsSmartContractAddress (panic-freedom and shape: C20) *)
Example C05_is_sc_def : forall a, is_sc a = match is_sc_address a with Some b => b | None => false end.
Proof. reflexivity. Qed.
(* the pair list of an argument list, the last value of a key, the fold *)
Example C05_pairs_def : forall k v r (g : bytes -> bytes) kv x,
  pairs_of (k :: v :: r) = (k, v) :: pairs_of r /\ pairs_of [k] = [] /\ pairs_of [] = []
  /\ write_pair g kv x = (if beqb x (fst kv) then snd kv else g x)
  /\ apply_pairs g (pairs_of (k :: v :: r)) = apply_pairs (write_pair g (k, v)) (pairs_of r).
Proof. intros. repeat split. Qed.

(* ================================================================== *)
(* 1. SaveKeyValue                                                      *)
(* ================================================================== *)
(* on Ok no cell whose key has the protected prefix differs, in ANY account *)
Theorem C05_savekv_never_protected : forall (E : env) i s o s',
  exec E C.BuiltInFunctionSaveKeyValue i s = (Ok o, s') ->
  forall a k, prefix_of C.ElrondProtectedKeyPrefix k = true -> cell s' a k = cell s a k.
Proof. exact savekv_never_protected_exec. Qed.
(* the same for EVERY outcome (the state in which the run stops, before the node's rollback) *)
Theorem C05_savekv_never_protected_always : forall (E : env) i s r s',
  exec E C.BuiltInFunctionSaveKeyValue i s = (r, s') ->
  forall a k, prefix_of C.ElrondProtectedKeyPrefix k = true -> cell s' a k = cell s a k.
Proof. exact savekv_never_protected_always. Qed.

(* accepted only when a non-contract account writes to itself, with a pair list free of protected keys *)
Theorem C05_savekv_accepted_only_if : forall (E : env) i s o s',
  exec E C.BuiltInFunctionSaveKeyValue i s = (Ok o, s') ->
  i_caller i = i_rcpt i
  /\ i_snd i = true
  /\ is_sc (i_caller i) = false
  /\ (2 <= alen (i_args i))%N /\ (alen (i_args i) mod 2 = 0)%N
  /\ i_value i = 0%Z
  /\ (forall k v, In (k, v) (pairs_of (i_args i)) ->
        key_allowed k = true /\ prefix_of C.ElrondProtectedKeyPrefix k = false)
  /\ (skv_use E (a_store (acct s (i_caller i))) (i_args i) (g_SaveKeyValue (gas E)) <= i_gas i)%N.
Proof. exact savekv_accepted_only_if_exec. Qed.
Theorem C05_savekv_protected_key_rejected : forall (E : env) i s,
  (exists k v, In (k, v) (pairs_of (i_args i)) /\ prefix_of C.ElrondProtectedKeyPrefix k = true) ->
  forall o s', exec E C.BuiltInFunctionSaveKeyValue i s <> (Ok o, s').
Proof. exact savekv_protected_key_rejected. Qed.

(* writes exactly the listed pairs *)
Theorem C05_savekv_writes_exactly : forall (E : env) i s o s',
  exec E C.BuiltInFunctionSaveKeyValue i s = (Ok o, s') ->
  (forall k, cell s' (i_caller i) k = apply_pairs (cell s (i_caller i)) (pairs_of (i_args i)) k)
  /\ (forall k, cell s' (i_caller i) k =
                match last_val (pairs_of (i_args i)) k with Some v => v | None => cell s (i_caller i) k end)
  /\ i_args i = unpairs (pairs_of (i_args i))
  /\ (forall a k, a <> i_caller i -> cell s' a k = cell s a k)
  /\ (forall a, acct_fields_eq (acct s' a) (acct s a)).
Proof. exact savekv_writes_exactly_exec. Qed.
Theorem C05_savekv_empty_value_deletes : forall (E : env) i s o s' k,
  exec E C.BuiltInFunctionSaveKeyValue i s = (Ok o, s') ->
  last_val (pairs_of (i_args i)) k = Some [] -> cell s' (i_caller i) k = [].
Proof. exact savekv_empty_value_deletes. Qed.

(* ================================================================== *)
(* 2. footprint and frame                                               *)
(* ================================================================== *)
(* the dispatch: [exec] runs the function the name classifies to; an unknown name executes nothing *)
Theorem C05_exec_classify : forall (E : env) f i,
  exec E f i = match classify f with Some b => run_bfn E b i | None => fail EUnknownFunction end.
Proof. exact exec_classify. Qed.
Example C05_classify_names : length all_bfn = 23%nat /\ map bfn_name all_bfn = builtin_names
  /\ forall b, classify (bfn_name b) = Some b.
Proof. split; [reflexivity|]. split; [reflexivity|exact classify_name]. Qed.
Theorem C05_unknown_name_no_effect : forall (E : env) f i s r s',
  ~ In f builtin_names -> exec E f i s = (r, s') -> r = Err EUnknownFunction /\ s' = s.
Proof. intros E f i s r s' Hn. apply exec_unknown. apply classify_none. exact Hn. Qed.

(* the footprint, function by function (this IS the definition, unfolded) *)
Example C05_footprint_table : forall (E : env) (i : input) (s : mstate) (a k : bytes),
  let cells f := fp_cells (footprint E f i s) a k in
  let accts f := fp_accts (footprint E f i s) a in
  let tok := argn i 0 in
  (* account-level functions: no storage cell *)
  (cells C.BuiltInFunctionChangeOwnerAddress <-> False) /\ (cells C.BuiltInFunctionClaimDeveloperRewards <-> False)
  /\ (cells C.BuiltInFunctionSetUserName <-> False)
  /\ (accts C.BuiltInFunctionChangeOwnerAddress <-> a = i_rcpt i /\ i_dst i = true)
  /\ (accts C.BuiltInFunctionSetUserName <-> a = i_rcpt i /\ i_dst i = true)
  /\ (accts C.BuiltInFunctionClaimDeveloperRewards <->
        i_dst i = true /\ (a = i_rcpt i \/ (a = i_caller i /\ i_snd i = true)))
  (* SaveKeyValue: listed, unprotected keys of the caller *)
  /\ (cells C.BuiltInFunctionSaveKeyValue <->
        a = i_caller i /\ key_allowed k = true /\ exists v, In (k, v) (pairs_of (i_args i)))
  (* pause flag: the system account *)
  /\ (cells C.BuiltInFunctionESDTPause <-> a = SYS /\ k = P ++ tok)
  /\ (cells C.BuiltInFunctionESDTUnPause <-> a = SYS /\ k = P ++ tok)
  (* fungible balances *)
  /\ (cells C.BuiltInFunctionESDTTransfer <->
        k = P ++ tok /\ ((i_snd i = true /\ a = i_caller i) \/ (i_dst i = true /\ a = i_rcpt i)))
  /\ (cells C.BuiltInFunctionESDTBurn <-> a = i_caller i /\ k = P ++ tok)
  /\ (cells C.BuiltInFunctionESDTLocalBurn <-> a = i_caller i /\ k = P ++ tok)
  /\ (cells C.BuiltInFunctionESDTLocalMint <-> a = i_caller i /\ k = P ++ tok)
  /\ (cells C.BuiltInFunctionESDTFreeze <-> a = i_rcpt i /\ k = P ++ tok)
  /\ (cells C.BuiltInFunctionESDTUnFreeze <-> a = i_rcpt i /\ k = P ++ tok)
  /\ (cells C.BuiltInFunctionESDTWipe <-> a = i_rcpt i /\ k = P ++ tok)
  (* role lists *)
  /\ (cells C.BuiltInFunctionSetESDTRole <-> a = i_rcpt i /\ k = RP ++ tok)
  /\ (cells C.BuiltInFunctionUnSetESDTRole <-> a = i_rcpt i /\ k = RP ++ tok)
  (* NFT entries of the caller: some nonce of the named token *)
  /\ (cells C.BuiltInFunctionESDTNFTAddQuantity <-> a = i_caller i /\ exists n, k = nft_key (P ++ tok) n)
  /\ (cells C.BuiltInFunctionESDTNFTBurn <-> a = i_caller i /\ exists n, k = nft_key (P ++ tok) n)
  /\ (cells C.BuiltInFunctionESDTNFTAddURI <-> a = i_caller i /\ exists n, k = nft_key (P ++ tok) n)
  /\ (cells C.BuiltInFunctionESDTNFTUpdateAttributes <-> a = i_caller i /\ exists n, k = nft_key (P ++ tok) n)
  (* create: the entry under the next nonce, and the counter *)
  /\ (cells C.BuiltInFunctionESDTNFTCreate <->
        a = i_caller i /\ (k = nft_key (P ++ tok) (u64 (counter_at s (i_caller i) tok + 1)) \/ k = NP ++ tok))
  (* NFT transfer: origin side caller and (same-shard) destination argument; destination side the recipient *)
  /\ (cells C.BuiltInFunctionESDTNFTTransfer <->
        (if beqb (i_caller i) (i_rcpt i)
         then a = i_caller i \/ (shard_of E (argn i 3) = self_shard E /\ a = argn i 3)
         else a = i_rcpt i)
        /\ exists n, k = nft_key (P ++ tok) n)
  (* create-role hand-over: counter and role list of the recipient, and of the new owner when it is local *)
  /\ (cells C.BuiltInFunctionESDTNFTCreateRoleTransfer <->
        (a = i_rcpt i \/ (a = argn i 1 /\ i_caller i = SC /\ shard_of E (argn i 1) = self_shard E))
        /\ (k = NP ++ tok \/ k = RP ++ tok))
  (* multi transfer: like the NFT transfer, for every token of the argument triples *)
  /\ (cells C.BuiltInFunctionMultiESDTNFTTransfer <->
        (if beqb (i_caller i) (i_rcpt i)
         then a = i_caller i \/ (shard_of E (argn i 0) = self_shard E /\ a = argn i 0)
         else a = i_rcpt i)
        /\ exists x n, In x (multi_named i) /\ k = nft_key (P ++ rt_tok x) n)
  (* only the account-level functions have an account-field footprint *)
  /\ (forall f, accts f -> In f [C.BuiltInFunctionChangeOwnerAddress; C.BuiltInFunctionClaimDeveloperRewards;
                                 C.BuiltInFunctionSetUserName])
  (* unknown names: empty *)
  /\ (forall f, ~ In f builtin_names -> ~ cells f /\ ~ accts f).
Proof.
  intros E i s a k. cbv zeta. repeat (split; [reflexivity|]). split.
  - intros f H. apply footprint_fields_only_account_level in H as [H _]. exact H.
  - intros f Hn. apply classify_none in Hn. unfold footprint. rewrite Hn. cbn. tauto.
Qed.
(* the triples a multi-transfer names: n = the count argument, triples from argument 2 (origin side: caller =
   recipient) or 1 (destination side); a triple's token is its first component *)
Example C05_multi_named_def : forall i fuel off idx (x : rawtriple),
  multi_named i = (if beqb (i_caller i) (i_rcpt i)
                   then multi_triples (N.to_nat (bigU64 (argn i 1))) i 2 0
                   else multi_triples (N.to_nat (bigU64 (argn i 0))) i 1 0)
  /\ multi_triples (S fuel) i off idx =
       (argn i (N.to_nat (off + idx * 3)), argn i (N.to_nat (off + idx * 3 + 1)), argn i (N.to_nat (off + idx * 3 + 2)))
       :: multi_triples fuel i off (idx + 1)
  /\ multi_triples 0 i off idx = []
  /\ rt_tok x = fst (fst x).
Proof. intros. repeat split. Qed.

(* THE frame theorem, all function names: nothing outside the footprint changes *)
Theorem C05_exec_frame : forall (E : env), codec_ok (cdc E) -> forall f i s o s',
  exec E f i s = (Ok o, s') ->
  unchanged_except (fp_cells (footprint E f i s)) (fp_accts (footprint E f i s)) s s'.
Proof. exact exec_frame. Qed.
(* the same, spelled out *)
Theorem C05_exec_frame_cell : forall (E : env), codec_ok (cdc E) -> forall f i s o s',
  exec E f i s = (Ok o, s') ->
  forall a k, ~ fp_cells (footprint E f i s) a k -> cell s' a k = cell s a k.
Proof. exact exec_frame_cell. Qed.
Theorem C05_exec_frame_acct : forall (E : env), codec_ok (cdc E) -> forall f i s o s',
  exec E f i s = (Ok o, s') ->
  forall a, ~ fp_accts (footprint E f i s) a -> acct_fields_eq (acct s' a) (acct s a).
Proof. exact exec_frame_acct. Qed.

(* account-level functions, field by field: ChangeOwnerAddress only the recipient's owner, SetUserName only the
   recipient's user name, ClaimDeveloperRewards only the recipient's developer reward and the (local) caller's
   balance; every other function no field of any account *)
Example C05_fp_fields_table : forall (E : env) (i : input) (a : bytes) (fld : afield),
  (fp_fields C.BuiltInFunctionChangeOwnerAddress i a fld <-> i_dst i = true /\ a = i_rcpt i /\ fld = FOwner)
  /\ (fp_fields C.BuiltInFunctionSetUserName i a fld <-> i_dst i = true /\ a = i_rcpt i /\ fld = FUserName)
  /\ (fp_fields C.BuiltInFunctionClaimDeveloperRewards i a fld <->
        i_dst i = true /\ ((a = i_rcpt i /\ fld = FDevReward) \/ (a = i_caller i /\ i_snd i = true /\ fld = FBalance)))
  /\ (forall f, fp_fields f i a fld ->
        In f [C.BuiltInFunctionChangeOwnerAddress; C.BuiltInFunctionClaimDeveloperRewards; C.BuiltInFunctionSetUserName])
  /\ (forall x y, field_eq FBalance x y = (a_balance x = a_balance y) /\ field_eq FOwner x y = (a_owner x = a_owner y)
        /\ field_eq FUserName x y = (a_username x = a_username y) /\ field_eq FDevReward x y = (a_devreward x = a_devreward y)).
Proof.
  intros. repeat (split; [reflexivity|]). split; [|intros; repeat split].
  intros f. unfold fp_fields. destruct (classify f) as [b|] eqn:Ec; [|contradiction].
  apply classify_some in Ec. subst f. destruct b; cbn [fp_fields_b bfn_name In]; try contradiction; tauto.
Qed.
Theorem C05_exec_frame_fields : forall (E : env), codec_ok (cdc E) -> forall f i s o s',
  exec E f i s = (Ok o, s') ->
  forall a fld, ~ fp_fields f i a fld -> field_eq fld (acct s' a) (acct s a).
Proof. exact exec_frame_fields. Qed.
Theorem C05_account_level_no_storage : forall (E : env) f i s o s',
  exec E f i s = (Ok o, s') ->
  In f [C.BuiltInFunctionChangeOwnerAddress; C.BuiltInFunctionClaimDeveloperRewards; C.BuiltInFunctionSetUserName] ->
  forall a k, cell s' a k = cell s a k.
Proof. exact account_level_no_storage. Qed.

(* the shape of every footprint *)
Example C05_named_def : forall f b i,
  classify f = Some b ->
  named_tokens f i = (match b with
                      | BClaim | BChangeOwner | BSetUserName | BSaveKV => []
                      | BMulti => map rt_tok (multi_named i)
                      | _ => [argn i 0]
                      end)
  /\ addr_args f i = (match b with
                      | BNftTransfer => [argn i 3] | BMulti => [argn i 0] | BRoleTransfer => [argn i 1] | _ => []
                      end).
Proof. intros f b i Hc. unfold named_tokens, addr_args. rewrite Hc. destruct b; split; reflexivity. Qed.
Theorem C05_footprint_shape : forall (E : env) f i s a k,
  fp_cells (footprint E f i s) a k ->
  (a = i_caller i \/ a = i_rcpt i \/ a = SYS \/ In a (addr_args f i))
  /\ ((exists tok n, In tok (named_tokens f i) /\ k = nft_key (P ++ tok) n)
      \/ (exists tok, In tok (named_tokens f i) /\ k = RP ++ tok)
      \/ (exists tok, In tok (named_tokens f i) /\ k = NP ++ tok)
      \/ (f = C.BuiltInFunctionSaveKeyValue /\ a = i_caller i /\ prefix_of C.ElrondProtectedKeyPrefix k = false
          /\ exists v, In (k, v) (pairs_of (i_args i)))).
Proof. exact footprint_shape. Qed.
(* protocol functions write only protected keys, SaveKeyValue only unprotected ones *)
Theorem C05_footprint_keys_protected : forall (E : env) f i s a k,
  fp_cells (footprint E f i s) a k ->
  prefix_of C.ElrondProtectedKeyPrefix k = negb (beqb f C.BuiltInFunctionSaveKeyValue).
Proof. exact footprint_keys_protected. Qed.
(* on Ok the named tokens are arguments of the call *)
Theorem C05_named_tokens_in_args : forall (E : env), codec_ok (cdc E) -> forall f i s o s',
  exec E f i s = (Ok o, s') -> forall tok, In tok (named_tokens f i) -> In tok (i_args i).
Proof. exact exec_named_tokens_in_args. Qed.

(* ---- the sharp footprint: exact nonce ---- *)
Example C05_fp_exact_table : forall (E : env) (i : input) (s : mstate),
  let tok := argn i 0 in
  let exact f := fp_exact E f i s in
  exact C.BuiltInFunctionESDTNFTAddQuantity = [(i_caller i, nft_key (P ++ tok) (bigU64 (argn i 1)))]
  /\ exact C.BuiltInFunctionESDTNFTBurn = [(i_caller i, nft_key (P ++ tok) (bigU64 (argn i 1)))]
  /\ exact C.BuiltInFunctionESDTNFTAddURI = [(i_caller i, nft_key (P ++ tok) (bigU64 (argn i 1)))]
  /\ exact C.BuiltInFunctionESDTNFTUpdateAttributes = [(i_caller i, nft_key (P ++ tok) (bigU64 (argn i 1)))]
  /\ exact C.BuiltInFunctionESDTNFTCreate =
       [(i_caller i, nft_key (P ++ tok) (u64 (counter_at s (i_caller i) tok + 1))); (i_caller i, NP ++ tok)]
  /\ exact C.BuiltInFunctionESDTNFTTransfer =
       (if beqb (i_caller i) (i_rcpt i) then
          (i_caller i, nft_key (P ++ tok) (bigU64 (argn i 1)))
          :: (if (self_shard E =? shard_of E (argn i 3))%N then [(argn i 3, nft_key (P ++ tok) (bigU64 (argn i 1)))] else [])
        else match dec_tok (cdc E) (argn i 3) with
             | Some t => [(i_rcpt i, nft_key (P ++ tok) (tok_nonce t))]
             | None => []
             end)
  /\ exact C.BuiltInFunctionMultiESDTNFTTransfer =
       (if beqb (i_caller i) (i_rcpt i) then
          flat_map (fun x => (i_caller i, nft_key (P ++ rt_tok x) (rt_nonce x))
                             :: (if (self_shard E =? shard_of E (argn i 0))%N
                                 then [(argn i 0, nft_key (P ++ rt_tok x) (rt_nonce x))] else []))
                   (multi_snd_triples i)
        else flat_map (fun x => map (fun kv => (i_rcpt i, fst kv)) (rt_credit E x)) (multi_dst_triples i))
  /\ exact C.BuiltInFunctionESDTTransfer =
       (if i_snd i then [(i_caller i, P ++ tok)] else []) ++ (if i_dst i then [(i_rcpt i, P ++ tok)] else [])
  /\ exact C.BuiltInFunctionESDTPause = [(SYS, P ++ tok)]
  /\ exact C.BuiltInFunctionSetESDTRole = [(i_rcpt i, RP ++ tok)].
Proof. intros. cbv zeta. repeat split. Qed.
(* the hypothesis: consistent lookups on the origin side (F4b); [True] for every other function *)
Example C05_fp_consistent_table : forall (E : env) (i : input) (s : mstate),
  let lc := lookup_consistent E s (i_caller i) (P ++ argn i 0) (bigU64 (argn i 1)) in
  (fp_consistent E C.BuiltInFunctionESDTNFTAddQuantity i s <-> lc)
  /\ (fp_consistent E C.BuiltInFunctionESDTNFTBurn i s <-> lc)
  /\ (fp_consistent E C.BuiltInFunctionESDTNFTAddURI i s <-> lc)
  /\ (fp_consistent E C.BuiltInFunctionESDTNFTUpdateAttributes i s <-> lc)
  /\ (fp_consistent E C.BuiltInFunctionESDTNFTTransfer i s <-> (i_caller i = i_rcpt i -> lc))
  /\ (fp_consistent E C.BuiltInFunctionMultiESDTNFTTransfer i s <->
        (i_caller i = i_rcpt i ->
         Forall (fun x => lookup_consistent E s (i_caller i) (P ++ rt_tok x) (rt_nonce x)) (multi_snd_triples i)))
  /\ (forall a key nonce, lookup_consistent E s a key nonce <->
        forall t, tok_at E s a (nft_key key nonce) = Some t -> tok_nonce t = nonce)
  /\ (forall f b, classify f = Some b ->
        match b with BAddQuantity | BNftBurn | BAddUri | BUpdateAttributes | BNftTransfer | BMulti => True
                   | _ => fp_consistent E f i s end).
Proof.
  intros. cbv zeta. repeat (split; [reflexivity|]).
  intros f b Hc. unfold fp_consistent. rewrite Hc. destruct b; exact I.
Qed.
Theorem C05_exec_frame_exact : forall (E : env), codec_ok (cdc E) -> forall f i s o s',
  exec E f i s = (Ok o, s') -> fp_consistent E f i s ->
  unchanged_except (fun a k => In (a, k) (fp_exact E f i s)) (fp_accts (footprint E f i s)) s s'.
Proof. exact exec_frame_exact. Qed.
Theorem C05_fp_exact_sub : forall (E : env) f i s a k,
  In (a, k) (fp_exact E f i s) -> fp_cells (footprint E f i s) a k.
Proof. exact fp_exact_sub. Qed.

(* KNOWN FINDING F4b: without the hypothesis the sharp frame is false — a successful ESDTNFTTransfer whose
   (identifier, nonce) aliases an entry with another metadata nonce writes under the metadata nonce *)
Theorem C05_footprint_exact_nonce_refuted :
  exists (E : env) i s o s' a k t m,
    codec_ok (cdc E)
    /\ exec E C.BuiltInFunctionESDTNFTTransfer i s = (Ok o, s')
    /\ tok_at E s (i_caller i) (nft_key (P ++ argn i 0) (bigU64 (argn i 1))) = Some t /\ t_meta t = Some m
    /\ md_nonce m <> bigU64 (argn i 1)
    /\ ~ fp_consistent E C.BuiltInFunctionESDTNFTTransfer i s
    /\ k = nft_key (P ++ argn i 0) (md_nonce m)
    /\ ~ In (a, k) (fp_exact E C.BuiltInFunctionESDTNFTTransfer i s)
    /\ cell s' a k <> cell s a k
    /\ fp_cells (footprint E C.BuiltInFunctionESDTNFTTransfer i s) a k.
Proof. exact footprint_exact_nonce_refuted. Qed.

(* ================================================================== *)
(* 3. the whole world                                                   *)
(* ================================================================== *)
(* the call a step of the node model executes *)
Example C05_op_call_def : forall (c : wcfg) (w : world) sh fn i id gas,
  op_call c w (OCall sh fn i) = (if (sh <? wc_nshards c)%N then Some (sh, fn, i) else None)
  /\ op_call c w (ODeliver id gas) =
       match find_msg (inflight w) id with
       | None => None
       | Some m => if (wc_shard_of c (m_dest m) <? wc_nshards c)%N
                   then Some (wc_shard_of c (m_dest m), m_fn m, deliver_input c m (wc_shard_of c (m_dest m)) gas) else None
       end
  /\ op_call c w (ORedeliver id gas) = op_call c w (ODeliver id gas)
  /\ op_call c w (ORefund id gas) =
       match find_msg (inflight w) id with
       | None => None
       | Some m => if (nat_in id (failed w) && (wc_shard_of c (m_sender m) <? wc_nshards c)%N)%bool
                   then Some (wc_shard_of c (m_sender m), m_fn m, refund_input c m (wc_shard_of c (m_sender m)) gas) else None
       end.
Proof. intros. repeat split. Qed.
(* the accounts of the world after a step, exactly *)
Theorem C05_wstep_shards : forall (c : wcfg) w op,
  shards (wstep c w op) =
  match op_call c w op with
  | None => shards w
  | Some (sh, fn, i) =>
    match exec (env_at c sh) fn i (mk_state (shard_accts w sh)) with
    | (Ok _, s') => set_nth (N.to_nat sh) (accts s') (shards w)
    | _ => shards w
    end
  end.
Proof. exact wstep_shards. Qed.
(* a step leaves every shard it does not execute on untouched *)
Theorem C05_wstep_other_shards : forall (c : wcfg) w op sh',
  (forall fn i, op_call c w op <> Some (sh', fn, i)) ->
  shard_accts (wstep c w op) sh' = shard_accts w sh'.
Proof. exact wstep_other_shards. Qed.
(* histories: a shard on which no step executes is the same after the whole history *)
Theorem C05_wrun_other_shards : forall (c : wcfg) ops w sh',
  never_on c w ops sh' -> shard_accts (wrun c w ops) sh' = shard_accts w sh'.
Proof. exact wrun_other_shards. Qed.
Example C05_never_on_def : forall (c : wcfg) w op r sh',
  (never_on c w [] sh' <-> True)
  /\ (never_on c w (op :: r) sh' <-> (forall fn i, op_call c w op <> Some (sh', fn, i)) /\ never_on c (wstep c w op) r sh').
Proof. intros. split; reflexivity. Qed.
(* a step that executes nothing or whose call fails changes no account at all *)
Theorem C05_wstep_rejected : forall (c : wcfg) w op,
  match op_call c w op with
  | None => True
  | Some (sh, fn, i) => forall o, fst (exec (env_at c sh) fn i (mk_state (shard_accts w sh))) <> Ok o
  end ->
  shards (wstep c w op) = shards w.
Proof. exact wstep_rejected. Qed.
(* nothing else in the world state changes *)
Theorem C05_wstep_frame : forall (c : wcfg), codec_ok (wc_cdc c) -> forall w op,
  let w' := wstep c w op in
  match op_call c w op with
  | None => shards w' = shards w
  | Some (sh, fn, i) =>
    let E := env_at c sh in
    let s0 := mk_state (shard_accts w sh) in
    (forall sh', sh' <> sh -> shard_accts w' sh' = shard_accts w sh')
    /\ match fst (exec E fn i s0) with
       | Ok _ => unchanged_except (fp_cells (footprint E fn i s0)) (fp_accts (footprint E fn i s0))
                                  s0 (mk_state (shard_accts w' sh))
       | _ => shards w' = shards w
       end
  end.
Proof. exact wstep_frame. Qed.
(* for one cell / one account anywhere in the world: it changes only if the step successfully executes, on its
   shard, a call with that cell / account in its footprint *)
Theorem C05_wstep_frame_cell : forall (c : wcfg), codec_ok (wc_cdc c) -> forall w op sh a k,
  (forall fn i o s', op_call c w op = Some (sh, fn, i) ->
     exec (env_at c sh) fn i (mk_state (shard_accts w sh)) = (Ok o, s') ->
     ~ fp_cells (footprint (env_at c sh) fn i (mk_state (shard_accts w sh))) a k) ->
  wcell (wstep c w op) sh a k = wcell w sh a k.
Proof. exact wstep_frame_cell. Qed.
Theorem C05_wstep_frame_acct : forall (c : wcfg), codec_ok (wc_cdc c) -> forall w op sh a,
  (forall fn i o s', op_call c w op = Some (sh, fn, i) ->
     exec (env_at c sh) fn i (mk_state (shard_accts w sh)) = (Ok o, s') ->
     ~ fp_accts (footprint (env_at c sh) fn i (mk_state (shard_accts w sh))) a) ->
  acct_fields_eq (wacct (wstep c w op) sh a) (wacct w sh a).
Proof. exact wstep_frame_acct. Qed.
Example C05_wcell_def : forall w sh a k,
  wcell w sh a k = sget (a_store (aget empty_account (shard_accts w sh) a)) k
  /\ wacct w sh a = aget empty_account (shard_accts w sh) a.
Proof. intros. split; reflexivity. Qed.

Print Assumptions C05_key_allowed_char.
Print Assumptions C05_savekv_never_protected.
Print Assumptions C05_savekv_never_protected_always.
Print Assumptions C05_savekv_accepted_only_if.
Print Assumptions C05_savekv_protected_key_rejected.
Print Assumptions C05_savekv_writes_exactly.
Print Assumptions C05_savekv_empty_value_deletes.
Print Assumptions C05_exec_classify.
Print Assumptions C05_unknown_name_no_effect.
Print Assumptions C05_footprint_table.
Print Assumptions C05_exec_frame.
Print Assumptions C05_exec_frame_cell.
Print Assumptions C05_exec_frame_acct.
Print Assumptions C05_exec_frame_fields.
Print Assumptions C05_account_level_no_storage.
Print Assumptions C05_footprint_shape.
Print Assumptions C05_footprint_keys_protected.
Print Assumptions C05_named_tokens_in_args.
Print Assumptions C05_exec_frame_exact.
Print Assumptions C05_fp_exact_sub.
Print Assumptions C05_footprint_exact_nonce_refuted.
Print Assumptions C05_wstep_shards.
Print Assumptions C05_wstep_other_shards.
Print Assumptions C05_wstep_rejected.
Print Assumptions C05_wrun_other_shards.
Print Assumptions C05_wstep_frame.
Print Assumptions C05_wstep_frame_cell.
Print Assumptions C05_wstep_frame_acct.

(* ================================================================== *)
(* non-vacuity (ideal codec: [codec_ok] holds; environment c5_E, states c5_s0 / c5_sN of C05_Examples.v) *)
(* ================================================================== *)
Example C05_env_codec_ok : codec_ok (cdc c5_E) /\ cdc c5_E = ideal_codec.
Proof. split; [exact c5_E_ok|reflexivity]. Qed.
(* SaveKeyValue with a protected key in a LATER pair is rejected *)
Example C05_ex_later_protected_rejected :
  i_args c5_in_later = [str "color"%string; str "red"%string; str "ELRONDesdtTOK-a1b2c3"%string; str "x"%string]
  /\ fst (exec c5_E C.BuiltInFunctionSaveKeyValue c5_in_later c5_s0) = Err EOperationNotPermitted
  /\ fst (exec c5_E C.BuiltInFunctionSaveKeyValue c5_in_later3 c5_s0) = Err EOperationNotPermitted   (* key "ELROND", third pair *)
  /\ forall o s', exec c5_E C.BuiltInFunctionSaveKeyValue c5_in_later c5_s0 <> (Ok o, s').
Proof.
  split; [reflexivity|]. split; [exact ex_savekv_later_protected|]. split; [exact ex_savekv_later_protected3|].
  exact inst_savekv_later_protected.
Qed.
(* a two-pair call with a duplicate key: the later pair wins; everything else is kept *)
Example C05_ex_duplicate_later_wins :
  i_args c5_in_dup = [str "color"%string; str "red"%string; str "color"%string; str "blue"%string]
  /\ exists o s', exec c5_E C.BuiltInFunctionSaveKeyValue c5_in_dup c5_s0 = (Ok o, s')
       /\ cell s' c5_alice (str "color"%string) = str "blue"%string
       /\ (forall a k, prefix_of C.ElrondProtectedKeyPrefix k = true -> cell s' a k = cell c5_s0 a k)
       /\ (forall a k, a <> c5_alice -> cell s' a k = cell c5_s0 a k).
Proof. split; [reflexivity|exact inst_savekv_dup]. Qed.
Example C05_ex_near_misses_accepted_empty_deletes :
  match exec c5_E C.BuiltInFunctionSaveKeyValue c5_in_near c5_s0 with
  | (Ok _, s') => beqb (cell s' c5_alice (str "ELRON"%string)) (str "a"%string)
                  && beqb (cell s' c5_alice (str "elrond"%string)) (str "b"%string)
                  && beqb (cell s' c5_alice (str "ELROnD"%string)) (str "c"%string)
  | _ => false
  end = true
  /\ match exec c5_E C.BuiltInFunctionSaveKeyValue c5_in_del c5_s0 with
     | (Ok _, s') => beqb (cell s' c5_alice (str "size"%string)) [] && beqb (cell s' c5_alice (str "color"%string)) []
     | _ => false
     end = true.
Proof. split; [exact ex_savekv_near_misses_accepted|exact ex_savekv_empty_deletes]. Qed.
(* the frame theorems are not vacuous: an honest NFT transfer satisfies [fp_consistent] and changes its footprint;
   the aliasing call does not satisfy it (C05_footprint_exact_nonce_refuted) *)
Example C05_ex_frame_honest : exists o s',
  exec c5_E C.BuiltInFunctionESDTNFTTransfer c5_in_honest c5_sN = (Ok o, s')
  /\ fp_exact c5_E C.BuiltInFunctionESDTNFTTransfer c5_in_honest c5_sN
     = [(c5_alice, nft_key (P ++ c5_V) 68); (c5_carol, nft_key (P ++ c5_V) 68)]
  /\ unchanged_except (fun a k => In (a, k) (fp_exact c5_E C.BuiltInFunctionESDTNFTTransfer c5_in_honest c5_sN))
                      (fun _ => False) c5_sN s'
  /\ cell s' c5_carol (nft_key (P ++ c5_V) 68) <> [].
Proof. exact inst_frame_honest. Qed.
Example C05_ex_alias_numbers :
  nft_key (P ++ str "ABC-123456"%string) 68 = nft_key (P ++ str "ABC-12345"%string) 13892
  /\ let s' := snd (exec c5_E C.BuiltInFunctionESDTNFTTransfer c5_in_alias c5_sN) in
     (balance c5_E s' c5_alice (nft_key (P ++ str "ABC-123456"%string) 68) = 7
      /\ balance c5_E s' c5_alice (nft_key (P ++ str "ABC-12345"%string) 68) = 4
      /\ balance c5_E s' c5_carol (nft_key (P ++ str "ABC-12345"%string) 68) = 3)%Z.
Proof. split; [reflexivity|exact ex_alias_numbers]. Qed.
(* ClaimDeveloperRewards by the owner of a contract with reward 7: exactly the recipient's developer reward and the
   caller's balance move; owner, user name, every other balance and all storage are untouched *)
Example C05_ex_claim_fields : exists o s',
  exec c5_E C.BuiltInFunctionClaimDeveloperRewards c5_in_claim c5_sA = (Ok o, s')
  /\ a_devreward (acct s' c5_sc) = 0%Z /\ a_balance (acct s' c5_alice) = 107%Z
  /\ (forall a, a_owner (acct s' a) = a_owner (acct c5_sA a) /\ a_username (acct s' a) = a_username (acct c5_sA a))
  /\ (forall a, a <> c5_alice -> a_balance (acct s' a) = a_balance (acct c5_sA a))
  /\ (forall a k, cell s' a k = cell c5_sA a k).
Proof. exact inst_claim_fields. Qed.
(* one step of a two-shard world: the executing shard changes inside the footprint, the other shard not at all;
   a rejected step changes nothing *)
Example C05_ex_wstep :
  (let w' := wstep c5_W2 c5_w0 c5_op_ok in
   op_call c5_W2 c5_w0 c5_op_ok = Some (0%N, C.BuiltInFunctionSaveKeyValue, c5_in_dup)
   /\ wcell w' 0 c5_alice (str "color"%string) = str "blue"%string
   /\ shard_accts w' 1 = shard_accts c5_w0 1)
  /\ shards (wstep c5_W2 c5_w0 c5_op_rej) = shards c5_w0
  /\ (forall a k, ~ (a = c5_alice /\ k = str "color"%string) ->
        wcell (wstep c5_W2 c5_w0 c5_op_ok) 0 a k = wcell c5_w0 0 a k).
Proof. split; [exact ex_wstep_ok|]. split; [exact ex_wstep_rejected|exact inst_wstep_frame]. Qed.
