(* Property C15, extension "source tie": the two functions that BUILD the protocol storage keys,
   computeESDTNFTTokenKey and getNonceKey (builtInFunctions/esdtNFTCreate.go), as REGENERATED from /repo's current Go
   sources on this very run (gen/Pure.v, module P, written by tools/srcgen/pure.go; None = panic), and the key-layout
   facts of C15 ("keys have exactly the layout ELRONDesdt+token+nonce ... and ELRONDnonce+token") stated on them.
   VALUE of the returned slice only: both functions are `append(prefix, ...)`; whether the result shares the backing
   array of the prefix is the subject of C13 (SliceModel, gen/AppendSites.v), not of these statements.
   Only statements, each closed by [exact] of a lemma of Helpers/PureTie_Keys.v, and their assumptions. *)
From Coq.Strings Require Import String.
From EV Require Import Base.Bytes gen.Consts Base.GoSem gen.Pure Helpers.Helpers Ledger.Types Ledger.Env
  Helpers.PureTie_Base Helpers.PureTie_Keys.

(* regenerated definition = hand model (Ledger/Env.v [nft_key]; the counter key NP ++ token), all inputs *)
Theorem C15_src_tie_computeESDTNFTTokenKey : forall key nonce,
  P.computeESDTNFTTokenKey key nonce = Some (nft_key key nonce).
Proof. exact tie_computeESDTNFTTokenKey. Qed.
Theorem C15_src_tie_getNonceKey : forall tok, P.getNonceKey tok = Some (NP ++ tok).
Proof. exact tie_getNonceKey. Qed.

(* the layouts, with the prefixes as the property text writes them (nonce = minimal big-endian bytes) *)
Theorem C15_src_token_key_layout : forall tok nonce,
  P.computeESDTNFTTokenKey (str "ELRONDesdt"%string ++ tok) nonce = Some (str "ELRONDesdt"%string ++ (tok ++ N_to_be nonce)).
Proof. exact P_token_key_layout. Qed.
Theorem C15_src_nonce_key_layout : forall tok, P.getNonceKey tok = Some (str "ELRONDnonce"%string ++ tok).
Proof. exact tie_getNonceKey. Qed.
(* nonce 0 is the fungible / token-level key itself; distinct nonces give distinct keys *)
Theorem C15_src_token_key_nonce_zero : forall key, P.computeESDTNFTTokenKey key 0 = Some key.
Proof. exact P_token_key_nonce_zero. Qed.
Theorem C15_src_token_key_inj : forall key n m,
  P.computeESDTNFTTokenKey key n = P.computeESDTNFTTokenKey key m -> n = m.
Proof. exact P_token_key_inj. Qed.
(* every built key is in the protected namespace; the three key families do not meet *)
Theorem C15_src_token_key_protected : forall tok n k,
  P.computeESDTNFTTokenKey (P ++ tok) n = Some k -> prefix_of C.ElrondProtectedKeyPrefix k = true.
Proof. exact P_token_key_protected. Qed.
Theorem C15_src_key_families_disjoint : forall tok n y k,
  P.computeESDTNFTTokenKey (P ++ tok) n = Some k -> k <> RP ++ y /\ P.getNonceKey y <> Some k.
Proof. exact P_key_families_disjoint. Qed.
Theorem C15_src_key_builders_never_panic : forall key n tok,
  P.computeESDTNFTTokenKey key n <> None /\ P.getNonceKey tok <> None.
Proof. exact P_key_builders_total. Qed.
Example C15_src_key_examples :
  P.computeESDTNFTTokenKey (str "ELRONDesdtTOK-a1b2c3"%string) 258 = Some (str "ELRONDesdtTOK-a1b2c3"%string ++ [x01; x02])
  /\ P.getNonceKey (str "TOK-a1b2c3"%string) = Some (str "ELRONDnonceTOK-a1b2c3"%string).
Proof. exact (conj eq_refl eq_refl). Qed.

Print Assumptions C15_src_tie_computeESDTNFTTokenKey.
Print Assumptions C15_src_tie_getNonceKey.
Print Assumptions C15_src_token_key_layout.
Print Assumptions C15_src_token_key_inj.
Print Assumptions C15_src_key_families_disjoint.
Print Assumptions C15_src_key_builders_never_panic.
