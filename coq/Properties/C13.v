(* Property C13 — execution is deterministic and does not modify its input (PARTIAL: live memory
   inside math/big, the generated protobuf code and the Go runtime is not modelled; the provenance
   analysis tools/srcgen/appends.go is trusted).
   Only statements, each closed by [exact] of a lemma proved elsewhere, and their assumptions. *)
From Coq.Strings Require Import String.
From EV Require Import Base.Bytes Base.Store Base.Monad gen.Consts gen.AppendSites
  Ledger.Types Ledger.Transfers SliceModel.Slice SliceModel.AppendSafety SliceModel.ExecDeterminism SliceModel.OutputShape.

(* the three shared key prefixes the property text names, pinned against the generated constants *)
Example C13_pinned_prefixes :
  P = str "ELRONDesdt"%string /\ RP = str "ELRONDroleesdt"%string /\ NP = str "ELRONDnonce"%string
  /\ prefix_vars = ["roleKeyPrefix"; "noncePrefix"]%string
  /\ measured_prefix "recv.keyPrefix" = true /\ measured_prefix "in.Arguments" = false.
Proof. repeat split. Qed.

(* ---- determinism: the function the implementation is compared to ---- *)
Theorem C13_exec_deterministic : forall (E1 E2 : env) (f1 f2 : bytes) (i1 i2 : input) (s1 s2 : mstate),
  E1 = E2 -> f1 = f2 -> i1 = i2 -> s1 = s2 -> exec E1 f1 i1 s1 = exec E2 f2 i2 s2.
Proof. exact exec_deterministic. Qed.
Theorem C13_exec_history_independent : forall E h1 h2 s1 s2 f i,
  after E h1 s1 = after E h2 s2 -> exec E f i (after E h1 s1) = exec E f i (after E h2 s2).
Proof. exact exec_history_independent. Qed.
Theorem C13_after_history_independent : forall E h1 h2 s1 s2 h,
  after E h1 s1 = after E h2 s2 -> after E (h1 ++ h) s1 = after E (h2 ++ h) s2.
Proof. exact after_history_independent. Qed.
Example C13_histories_nonvacuous : forall E s,
  after E [(str "NoSuchFunction"%string, {| i_caller := []; i_rcpt := []; i_args := []; i_value := 0; i_gas := 0;
             i_gasLocked := 0; i_callType := 0; i_rae := false; i_snd := false; i_dst := false |})] s
  = after E [] s.
Proof. exact histories_example. Qed.

(* "independent of map iteration order": VMOutput.OutputAccounts is the only map an observer of a call could
   iterate; a successful execution of any of the 23 functions yields at most one output account *)
Theorem C13_output_accounts_at_most_one : forall E f i s o s',
  exec E f i s = (Ok o, s') -> List.length (o_accounts o) <= 1.
Proof. exact output_accounts_at_most_one. Qed.
Example C13_one_output_account_nonvacuous :
  exists o s', exec shape_env C.BuiltInFunctionSetUserName
                 {| i_caller := [x01]; i_rcpt := [x02]; i_args := [[x61]]; i_value := 0; i_gas := 5; i_gasLocked := 0;
                    i_callType := 0; i_rae := false; i_snd := true; i_dst := false |}
                 {| accts := []; calls := 0; allocs := 0 |} = (Ok o, s')
               /\ List.length (o_accounts o) = 1.
Proof. exact one_output_account_example. Qed.

(* ---- Go slices: when can an append disturb somebody else's data ---- *)
(* cap = len: no existing array is written, a non-empty append lives in the new array *)
Theorem C13_append_fresh_when_full : forall (A : Type) (junk : A) (h : heap A) fresh extra s xs,
  s_cap s = s_len s ->
  (forall j, j <> fresh -> fst (go_append junk h fresh extra s xs) j = h j)
  /\ (xs <> [] -> s_arr (snd (go_append junk h fresh extra s xs)) = fresh
                 /\ s_off (snd (go_append junk h fresh extra s xs)) = 0)
  /\ (xs = [] -> snd (go_append junk h fresh extra s xs) = s).
Proof. exact append_fresh_when_full. Qed.
(* an array nobody else can reach: invisible to every slice over another array *)
Theorem C13_append_private_invisible : forall (A : Type) (junk : A) (h : heap A) fresh extra s xs t,
  s_arr t <> s_arr s -> s_arr t <> fresh ->
  sview (fst (go_append junk h fresh extra s xs)) t = sview h t.
Proof. exact append_private_invisible. Qed.
(* and in general it is false that append leaves the other slices alone *)
Example C13_append_preserves_all_views_refuted :
  ~ (forall (h : heap nat) fresh extra s xs t, wf h s -> wf h t -> fresh <> s_arr s ->
       sview (fst (go_append 0 h fresh extra s xs)) t = sview h t).
Proof. exact append_preserves_all_views_refuted. Qed.
Example C13_append_full_nonvacuous :
  let h : heap nat := fun _ => [1; 2; 3] in
  let s := {| s_arr := 0; s_off := 0; s_len := 3; s_cap := 3 |} in
  fst (go_append 0 h 1 2 s [9]) 0 = [1; 2; 3] /\
  sview (fst (go_append 0 h 1 2 s [9])) (snd (go_append 0 h 1 2 s [9])) = [1; 2; 3; 9] /\
  s_cap (snd (go_append 0 h 1 2 s [9])) = 6.
Proof. exact append_full_prefix_example. Qed.

(* ---- the table of append / write sites generated from the current sources ---- *)
Theorem C13_append_sites_check : append_sites_check = true.
Proof. exact append_sites_check_ok. Qed.
(* every append in the code a built-in call runs: fresh | decoded | own object | full prefix | derived *)
Theorem C13_append_sites_safe : forall site, In site append_sites -> in_call_scope site = true ->
  as_class site = Fresh \/ as_class site = Decoded \/ as_class site = OwnOutput
  \/ as_class site = PrefixField \/ as_class site = PrefixDerived.
Proof. exact append_sites_safe_in. Qed.
Theorem C13_no_append_to_input : forall site, In site append_sites -> in_call_scope site = true ->
  as_class site <> Input /\ as_class site <> Unknown /\ as_class site <> PrivateState.
Proof. exact no_append_to_input_in. Qed.
Theorem C13_write_sites_safe : forall k site, In (k, site) write_sites -> in_call_scope site = true ->
  as_class site = Fresh \/ as_class site = Decoded \/ as_class site = OwnOutput.
Proof. exact write_sites_safe_in. Qed.
Theorem C13_prefix_args_known : forall site, In site append_sites -> in_call_scope site = true ->
  as_class site = PrefixField -> measured_prefix (as_arg site) = true.
Proof. exact prefix_args_known_in. Qed.
Theorem C13_sites_accounted : forall site, In site append_sites ->
  (in_call_scope site = true /\ safe_provenance site)
  \/ (in_call_scope site = false /\ accounted_outside site = true).
Proof. exact sites_accounted. Qed.
(* the table is not empty, and it does contain the dangerous shape outside the call scope *)
Example C13_table_nonvacuous :
  (exists site, In site append_sites /\ in_call_scope site = true /\ as_class site = PrefixField
                /\ String.prefix "recv." (as_arg site) = true)
  /\ (exists site, In site append_sites /\ in_call_scope site = false /\ as_class site = Input)
  /\ 20 <= List.length (filter in_call_scope append_sites)
  /\ 5 <= List.length (filter (fun ks => in_call_scope (snd ks)) write_sites).
Proof. exact table_nonvacuous. Qed.
(* the table has one entry per `append (` token pair of the analysed files (independent token-level count) *)
Example C13_table_complete : List.length append_sites = append_token_count.
Proof. exact table_complete. Qed.

(* ---- composition: no execution writes a cell of an input array or of a shared prefix array ---- *)
Theorem C13_calls_never_write_input_or_prefix :
  forall (A : Type) (junk : A) (prot : nat -> Prop) (next0 : nat) (prefix_slice : gslice -> Prop),
    (forall j, prot j -> j < next0) ->
    (forall s, prefix_slice s -> s_cap s = s_len s) ->
    forall m0 m : mach A, m_next m0 = next0 ->
      steps A junk next0 prefix_slice call_append_site call_write_site m0 m ->
      forall j, prot j -> m_heap m j = m_heap m0 j.
Proof. exact calls_never_write_input_or_prefix. Qed.
(* both hypotheses are needed, and the theorem has instances *)
Example C13_spare_prefix_is_written :
  let pfx := {| s_arr := 0; s_off := 0; s_len := 3; s_cap := 5 |} in
  let m0 := {| m_heap := fun _ => [1; 2; 3; 0; 0]; m_next := 1 |} in
  exists m, step nat 0 1 (fun s => s = pfx) (eq site_prefix) (fun _ _ => False) m0 m
            /\ safe_provenance site_prefix /\ m_heap m 0 = [1; 2; 3; 9; 0] /\ m_heap m 0 <> m_heap m0 0.
Proof. exact spare_prefix_is_written. Qed.
Example C13_input_class_is_unsafe :
  let arg0 := {| s_arr := 0; s_off := 0; s_len := 2; s_cap := 4 |} in
  let arg1 := {| s_arr := 0; s_off := 2; s_len := 2; s_cap := 2 |} in
  let m0 := {| m_heap := fun _ => [1; 2; 3; 4]; m_next := 1 |} in
  exists m, step nat 0 1 (fun _ => False) (eq site_input) (fun _ _ => False) m0 m
            /\ ~ safe_provenance site_input
            /\ sview (m_heap m0) arg1 = [3; 4] /\ sview (m_heap m) arg1 = [9; 4].
Proof. exact input_class_is_unsafe. Qed.
Example C13_safe_run_nonvacuous :
  let pfx := {| s_arr := 1; s_off := 0; s_len := 2; s_cap := 2 |} in
  let h0 : heap nat := fun j => match j with 0 => [7; 7; 7] | 1 => [5; 6] | _ => [] end in
  let m0 := {| m_heap := h0; m_next := 2 |} in
  exists m, steps nat 0 2 (fun s => s = pfx) (fun s => s = site_prefix \/ s = site_own) (fun k s => (k, s) = site_wr) m0 m
            /\ m_heap m 0 = [7; 7; 7] /\ m_heap m 1 = [5; 6] /\ m_heap m 2 = [5; 6; 7; 0] /\ m_heap m 3 = [4; 8].
Proof. exact safe_run_example. Qed.

Print Assumptions C13_pinned_prefixes.
Print Assumptions C13_exec_deterministic.
Print Assumptions C13_exec_history_independent.
Print Assumptions C13_after_history_independent.
Print Assumptions C13_histories_nonvacuous.
Print Assumptions C13_output_accounts_at_most_one.
Print Assumptions C13_one_output_account_nonvacuous.
Print Assumptions C13_append_fresh_when_full.
Print Assumptions C13_append_private_invisible.
Print Assumptions C13_append_preserves_all_views_refuted.
Print Assumptions C13_append_full_nonvacuous.
Print Assumptions C13_append_sites_check.
Print Assumptions C13_append_sites_safe.
Print Assumptions C13_no_append_to_input.
Print Assumptions C13_write_sites_safe.
Print Assumptions C13_prefix_args_known.
Print Assumptions C13_sites_accounted.
Print Assumptions C13_table_nonvacuous.
Print Assumptions C13_table_complete.
Print Assumptions C13_calls_never_write_input_or_prefix.
Print Assumptions C13_spare_prefix_is_written.
Print Assumptions C13_input_class_is_unsafe.
Print Assumptions C13_safe_run_nonvacuous.
