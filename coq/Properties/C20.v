(* Property C20 — shared VM helper types obey their algebraic laws.
   Only statements, each closed by [exact] of a lemma proved elsewhere, and their assumptions. *)
From Coq.Strings Require Import String.
From EV Require Import Base.Bytes gen.Consts Helpers.Helpers Helpers.HelpersProofs.

(* constants the property text names, pinned against the generated tables *)
Example C20_pinned_constants :
  (C.MetadataUpgradeable, C.MetadataPayable, C.MetadataReadable, C.lengthOfCodeMetadata,
   C.bif_MetadataFrozen, C.bif_MetadataPaused, C.bif_lengthOfESDTMetadata) = (1, 2, 4, 2, 1, 1, 2)%N
  /\ C.ESDTSCAddress = hx "000000000000000000010000000000000000000000000000000000000002ffff"%string
  /\ C.SystemAccountAddress = repeat xff 32
  /\ C.ElrondProtectedKeyPrefix = str "ELROND"%string.
Proof. repeat split. Qed.

Theorem C20_codemeta_bytes_roundtrip : forall a b : byte,
  exists m bs, codemeta_from [a; b] = Some m /\ codemeta_to m = Some bs
    /\ bs = [n2b (N.land (b2n a) 5); n2b (N.land (b2n b) 2)]
    /\ codemeta_from bs = Some m
    /\ cm_upgradeable m = N.testbit (b2n a) 0 /\ cm_readable m = N.testbit (b2n a) 2
    /\ cm_payable m = N.testbit (b2n b) 1.
Proof. exact codemeta_bytes_roundtrip. Qed.
Theorem C20_codemeta_record_roundtrip : forall m,
  exists bs, codemeta_to m = Some bs /\ length bs = 2 /\ codemeta_from bs = Some m.
Proof. exact codemeta_record_roundtrip. Qed.
Theorem C20_codemeta_other_lengths : forall l, length l <> 2 -> codemeta_from l = Some cm_empty.
Proof. exact codemeta_other_lengths. Qed.
Theorem C20_codemeta_never_panics : forall l m, codemeta_from l <> None /\ codemeta_to m <> None.
Proof. intros l m. split; [exact (codemeta_from_total l)|exact (codemeta_to_total m)]. Qed.

Theorem C20_frozen_bytes_roundtrip : forall a b : byte,
  exists f bs, frozen_from [a; b] = Some f /\ f = N.testbit (b2n a) 0 /\ frozen_to f = Some bs
     /\ bs = [n2b (N.land (b2n a) 1); x00] /\ frozen_from bs = Some f.
Proof. exact frozen_bytes_roundtrip. Qed.
Theorem C20_paused_bytes_roundtrip : forall a b : byte,
  exists f bs, paused_from [a; b] = Some f /\ f = N.testbit (b2n a) 0 /\ paused_to f = Some bs
     /\ bs = [n2b (N.land (b2n a) 1); x00] /\ paused_from bs = Some f.
Proof. exact paused_bytes_roundtrip. Qed.
Theorem C20_flag_value_roundtrip : forall f,
  (exists bs, frozen_to f = Some bs /\ frozen_from bs = Some f) /\
  (exists bs, paused_to f = Some bs /\ paused_from bs = Some f).
Proof. exact flag_value_roundtrip. Qed.
Theorem C20_flag_other_lengths : forall l, length l <> 2 -> frozen_from l = Some false /\ paused_from l = Some false.
Proof. exact flag_other_lengths. Qed.
Theorem C20_flag_never_panics : forall l, frozen_from l <> None /\ paused_from l <> None.
Proof. exact flag_from_total. Qed.

Theorem C20_address_classification_total : forall id a,
  is_system_account_address a <> None /\ is_sc_address a <> None
  /\ is_sc_on_metachain id a <> None /\ is_allowed_to_save_under_key a <> None.
Proof.
  intros id a. repeat split;
    [exact (is_system_account_address_total a)|exact (is_sc_address_total a)
    |exact (is_sc_on_metachain_total id a)|exact (is_allowed_to_save_under_key_total a)].
Qed.
Theorem C20_meta_sc_is_sc : forall id a, is_sc_on_metachain id a = Some true -> is_sc_address a = Some true.
Proof. exact meta_sc_is_sc. Qed.
Theorem C20_system_account_classified :
  is_system_account_address C.SystemAccountAddress = Some true
  /\ is_sc_address C.SystemAccountAddress = Some false
  /\ length C.SystemAccountAddress = 32.
Proof. exact system_account_classified. Qed.
Theorem C20_esdt_sc_classified :
  is_sc_address C.ESDTSCAddress = Some true
  /\ is_sc_on_metachain [xff; xff] C.ESDTSCAddress = Some true
  /\ is_system_account_address C.ESDTSCAddress = Some false
  /\ length C.ESDTSCAddress = 32.
Proof. exact esdt_sc_classified. Qed.
Theorem C20_protected_key_iff : forall k,
  is_allowed_to_save_under_key k = Some false <-> exists r, k = C.ElrondProtectedKeyPrefix ++ r.
Proof. exact protected_key_iff. Qed.

Theorem C20_safe_sub_spec : forall a b,
  (safe_sub_u64 a b = None <-> (a < b)%N) /\ (forall r, safe_sub_u64 a b = Some r -> (r + b = a)%N).
Proof. exact safe_sub_spec. Qed.

Theorem C20_merge_delta_adds : forall o a, oa_delta (merge o a) = Some (dz (oa_delta o) + dz (oa_delta a))%Z.
Proof. exact merge_delta_adds. Qed.
Theorem C20_merge_nonce_max : forall o a, oa_nonce (merge o a) = N.max (oa_nonce o) (oa_nonce a).
Proof. exact merge_nonce_max. Qed.
Theorem C20_merge_transfers_only_new : forall o a,
  oa_transfers (merge o a) = oa_transfers o ++ skipn (length (oa_transfers o)) (oa_transfers a)
  /\ (length (oa_transfers a) <= length (oa_transfers o) -> oa_transfers (merge o a) = oa_transfers o)
  /\ (forall ext, oa_transfers a = oa_transfers o ++ ext -> oa_transfers (merge o a) = oa_transfers a).
Proof. exact merge_transfers_only_new. Qed.
Theorem C20_merge_storage_later_wins : forall o a k,
  su_get (merge_storage o a) k = match su_last a k with Some v => Some v | None => su_get o k end.
Proof. exact merge_storage_later_wins. Qed.

Print Assumptions C20_codemeta_bytes_roundtrip.
Print Assumptions C20_codemeta_never_panics.
Print Assumptions C20_frozen_bytes_roundtrip.
Print Assumptions C20_paused_bytes_roundtrip.
Print Assumptions C20_address_classification_total.
Print Assumptions C20_protected_key_iff.
Print Assumptions C20_merge_storage_later_wins.
