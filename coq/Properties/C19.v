(* Property C19 — the container, the atomics and gas reconfiguration are safe under concurrency.
   PARTIAL BY DESIGN: the theorems are about the lock / atomic STATE MACHINES (an RW lock that allows every
   interleaving sync.RWMutex allows and more; atomic primitives as indivisible steps).  The Go scheduler, the
   Go memory model, sync and sync/atomic are trusted; real schedules and the race detector are the harness's
   part (harness/c19.go).  The shape of the sources the models assume is an obligation over a table
   regenerated from /repo on every run (C19_lock_discipline_ok and the theorems derived from it).
   Only statements, each closed by [exact] of a lemma proved elsewhere, and their assumptions. *)
From Coq.Strings Require Import String.
From EV Require Import Base.Bytes Concurrency.RWLock Concurrency.LockClient Concurrency.MutexMapLin
  Concurrency.MutexMapLinProofs Concurrency.Atomics Concurrency.GasScheduleAtomic gen.LockDiscipline
  Concurrency.LockDisciplineCheck.
Local Open Scope Z_scope.

(* ================= the RW lock: mutual exclusion for every bracketed client ================= *)
Theorem C19_rw_mutual_exclusion :
  forall (St : Type) (mode_of : St -> tid -> mode) (cstep : St -> tid -> option lock_op -> St -> Prop),
    bracketed St mode_of cstep ->
    forall s0 l s, (forall t, mode_of s0 t = Out) -> sys_reach St cstep (lock_init, s0) (l, s) ->
    forall t t', t <> t' -> mode_of s t = InW -> mode_of s t' = Out.
Proof. exact rw_mutual_exclusion. Qed.

(* ================= the map under the container ================= *)
Theorem C19_mutexmap_bracketed : bracketed state mode_of cstep.
Proof. exact MutexMapLinProofs.mm_bracketed. Qed.

Theorem C19_mutexmap_mutual_exclusion : forall ls l s,
  run (lock_init, init_state) ls (l, s) ->
  forall t t', t <> t' -> mode_of s t = InW -> mode_of s t' = Out.
Proof. exact mm_mutual_exclusion. Qed.

(* every run of any number of threads issuing Get / Insert (read-then-write under the write lock) / Set / Remove /
   Len / Keys (one map entry per step): the linearisation points, in order, are a legal sequential execution of
   the map specification ending in the final contents, and in every thread each response is preceded by the
   linearisation point of the same operation with the same result, itself preceded by the invocation *)
Theorem C19_mutexmap_linearizable : forall ls l s,
  run (lock_init, init_state) ls (l, s) ->
  seq_legal [] ls (mp s) /\ (forall t, thread_wf t PIdle ls (phase_of (pcs s t))).
Proof. exact mutexmap_linearizable. Qed.

Theorem C19_container_refines : forall m o,
  match container_plan o with
  | inl r => cspec m o = (m, r)
  | inr (mo, post) => cspec m o = (fst (spec m mo), post (snd (spec m mo)))
  end.
Proof. exact container_refines. Qed.

(* ================= atomics: no lost update ================= *)
(* Counter, Flag, Int64, Uint32, Uint64, String: whatever the interleaving of the atomic steps of any number of
   threads, the final value and every returned result are those of the sequential execution of the same calls in
   the order of the steps, which contains every thread's calls in program order *)
Theorem C19_atomics_no_lost_update :
  (forall c s c', aruns _ _ _ counter_apply c s c' ->
     cell _ _ _ c' = seq_cell _ _ _ counter_apply (cell _ _ _ c) s
     /\ (forall t, outs _ _ _ c' t = outs _ _ _ c t ++ seq_outs _ _ _ counter_apply (cell _ _ _ c) s t)
     /\ (forall t, progs _ _ _ c t = proj _ s t ++ progs _ _ _ c' t))
  /\ (forall c s c', aruns _ _ _ flag_apply c s c' ->
     cell _ _ _ c' = seq_cell _ _ _ flag_apply (cell _ _ _ c) s
     /\ (forall t, outs _ _ _ c' t = outs _ _ _ c t ++ seq_outs _ _ _ flag_apply (cell _ _ _ c) s t)
     /\ (forall t, progs _ _ _ c t = proj _ s t ++ progs _ _ _ c' t))
  /\ (forall c s c', aruns _ _ _ int64_apply c s c' ->
     cell _ _ _ c' = seq_cell _ _ _ int64_apply (cell _ _ _ c) s
     /\ (forall t, outs _ _ _ c' t = outs _ _ _ c t ++ seq_outs _ _ _ int64_apply (cell _ _ _ c) s t)
     /\ (forall t, progs _ _ _ c t = proj _ s t ++ progs _ _ _ c' t))
  /\ (forall c s c', aruns _ _ _ uint32_apply c s c' ->
     cell _ _ _ c' = seq_cell _ _ _ uint32_apply (cell _ _ _ c) s
     /\ (forall t, outs _ _ _ c' t = outs _ _ _ c t ++ seq_outs _ _ _ uint32_apply (cell _ _ _ c) s t)
     /\ (forall t, progs _ _ _ c t = proj _ s t ++ progs _ _ _ c' t))
  /\ (forall c s c', aruns _ _ _ uint64_apply c s c' ->
     cell _ _ _ c' = seq_cell _ _ _ uint64_apply (cell _ _ _ c) s
     /\ (forall t, outs _ _ _ c' t = outs _ _ _ c t ++ seq_outs _ _ _ uint64_apply (cell _ _ _ c) s t)
     /\ (forall t, progs _ _ _ c t = proj _ s t ++ progs _ _ _ c' t))
  /\ (forall c s c', aruns _ _ _ string_apply c s c' ->
     cell _ _ _ c' = seq_cell _ _ _ string_apply (cell _ _ _ c) s
     /\ (forall t, outs _ _ _ c' t = outs _ _ _ c t ++ seq_outs _ _ _ string_apply (cell _ _ _ c) s t)
     /\ (forall t, progs _ _ _ c t = proj _ s t ++ progs _ _ _ c' t)).
Proof. exact all_atomics_no_lost_update. Qed.

(* the counter: any interleaving of Increment / Decrement / Add / Subtract ends with initial + sum of deltas (as int64) *)
Theorem C19_counter_no_lost_update : forall c s c',
  aruns _ _ _ counter_apply c s c' -> all_adds s ->
  -9223372036854775808 <= cell _ _ _ c < 9223372036854775808 ->
  cell _ _ _ c' = wrap64 (cell _ _ _ c + sum_deltas s).
Proof. exact counter_no_lost_update. Qed.

(* the flag: of concurrent Set() calls on an unset flag exactly the first is told "was not set" *)
Theorem C19_flag_set_one_winner : forall v t0 s,
  v <> 1%N -> Forall (fun e => snd e = FSet) s ->
  seq_outs _ _ _ flag_apply v ((t0, FSet) :: s) t0 = FBool false :: seq_outs _ _ _ flag_apply 1%N s t0
  /\ (forall t, Forall (fun r => r = FBool true) (seq_outs _ _ _ flag_apply 1%N s t)).
Proof. exact flag_set_one_winner. Qed.

Theorem C19_flag_final_is_last_write : forall s v,
  seq_cell _ _ _ flag_apply v s = last_write flag_writes s v.
Proof. exact flag_final_is_last_write. Qed.

(* Int64 / Uint32 / Uint64 (any truncation [norm]): the final value is the last store; a load returns the initial
   value or one an earlier store wrote — stores never merge or tear *)
Theorem C19_store_final_is_last_write : forall (V : Type) (norm : V -> V) s v,
  seq_cell _ _ _ (sl_apply V norm) v s = last_write (sl_writes V norm) s v.
Proof. exact store_final_is_last_write. Qed.

Theorem C19_load_sees_a_written_value : forall (V : Type) (norm : V -> V) s v t x,
  In (SVal V x) (seq_outs _ _ _ (sl_apply V norm) v s t) ->
  x = v \/ exists t' y, In (t', SStore V y) s /\ x = norm y.
Proof. exact load_sees_a_written_value. Qed.

Theorem C19_string_final_is_last_write : forall s v,
  seq_cell _ _ _ string_apply v s = last_write string_writes s v.
Proof. exact string_final_is_last_write. Qed.

Theorem C19_string_load_sees_a_written_value : forall s v t x,
  In (SVal _ x) (seq_outs _ _ _ string_apply v s t) ->
  x = (match v with Some b => b | None => [] end) \/ exists t' y, In (t', SStore _ y) s /\ x = y.
Proof. exact string_load_sees_a_written_value. Qed.

(* ================= gas: one schedule per execution ================= *)
Theorem C19_gas_bracketed : bracketed gstate gmode gstep.
Proof. exact gas_bracketed. Qed.

(* any number of threads executing and re-pricing one function object concurrently; the setter writes the gas
   fields ONE AT A TIME.  Everything a finished or running execution has read comes from ONE completely
   installed schedule — never one schedule's base cost and another's per-byte price *)
Theorem C19_charge_single_schedule : forall g0 l s,
  sys_reach gstate gstep (lock_init, ginit g0) (l, s) ->
  forall t got, (gpcs s t = EOut got \/ exists todo, gpcs s t = EIn todo got) ->
  exists g, In g (hist s) /\ consistent got g.
Proof. exact charge_single_schedule. Qed.

Theorem C19_charge_formula_single_schedule : forall g0 l s t got (len chg : N),
  sys_reach gstate gstep (lock_init, ginit g0) (l, s) -> gpcs s t = EOut got ->
  In FBase (map fst got) -> In FPersistPerByte (map fst got) -> In FStorePerByte (map fst got) ->
  exists g, In g (hist s) /\
    (lookup_read got FBase + len * lookup_read got FPersistPerByte + chg * lookup_read got FStorePerByte
     = g FBase + len * g FPersistPerByte + chg * g FStorePerByte)%N.
Proof. exact charge_formula_single_schedule. Qed.

(* ================= the sources have the shape the models assume ================= *)
(* decidable check over gen/LockDiscipline.v (regenerated from /repo on every run), by vm_compute *)
Theorem C19_lock_discipline_ok : lock_discipline_check = true.
Proof. exact lock_discipline_ok. Qed.

(* lifted to Prop: every access of every method of a type with an execution lock to a gas field is a write in
   SetNewGasConfig between Lock and Unlock, or a read in the dynamic extent of ProcessBuiltinFunction (RLock first,
   RUnlock deferred), by ProcessBuiltinFunction or an unexported helper no unlocked entry point reaches *)
Theorem C19_gas_access_covered :
  forall e, In e exec_types -> has_mutex e = true ->
  forall m f, In m (et_methods e) -> In f (gas_fields e) ->
    (In f (mi_writes m) -> mi_name m = SETTER /\ In (SA true f) (setter_prog e))
    /\ (In f (mi_reads m) ->
          (mi_name m = PBF \/ (mi_exported m = false /\ ~ In (mi_name m) (unlocked_reach e)))
          /\ In (mi_name m) (locked_reach e) /\ In (SA false f) (pbf_prog e)).
Proof. exact gas_access_covered. Qed.

(* the methods read off the table form a bracketed client of the lock, and no write of a gas field is ever enabled
   together with any other access to a gas field: no data race in the model *)
Theorem C19_exec_clients_bracketed :
  forall e, In e exec_types -> has_mutex e = true -> bracketed St pmode (pstep (exec_progs e)).
Proof. exact exec_clients_bracketed. Qed.

Theorem C19_gas_fields_race_free :
  forall e, In e exec_types -> has_mutex e = true ->
  forall l s t t' f w' f',
    sys_reach St (pstep (exec_progs e)) (lock_init, pinit) (l, s) -> t <> t' ->
    about_to s t true f -> about_to s t' w' f' -> False.
Proof. exact gas_fields_race_free. Qed.

Theorem C19_mutexmap_values_race_free :
  forall l s t t' f w' f',
    sys_reach St (pstep mm_progs) (lock_init, pinit) (l, s) -> t <> t' ->
    about_to s t true f -> about_to s t' w' f' -> False.
Proof. exact mutexmap_values_race_free. Qed.

Theorem C19_mutexmap_rows_match_model : forallb mm_row_matches_model model_ops = true.
Proof. exact mutexmap_rows_match_model. Qed.

Theorem C19_container_rows_match_plan : container_check = true.
Proof. exact container_rows_match_plan. Qed.

Theorem C19_atomics_rows_match_model : atomics_check = true.
Proof. exact atomics_rows_match_model. Qed.

(* ================= non-vacuity ================= *)
(* two threads race on Insert of the same key: exactly one wins *)
Example C19_insert_race_run :
  exists ls l s, run (lock_init, init_state) ls (l, s)
    /\ In (LRet 0%nat (Insert [x61] 1%N) (RBool true)) ls /\ In (LRet 1%nat (Insert [x61] 2%N) (RBool false)) ls
    /\ mp s = [([x61], 1%N)].
Proof. exact insert_race_run. Qed.

Example C19_insert_is_read_then_write_under_write_lock :
  exists r, In r mutexmap_methods /\ mm_name r = "Insert"%string
    /\ mm_prog r = [SL WLock; SA false "values"%string; SA true "values"%string; SL WUnlock].
Proof. exact insert_is_read_then_write_under_write_lock. Qed.

Example C19_two_readers_share :
  exists l s, sys_reach Tiny.St Tiny.cstep (lock_init, fun _ => Out) (l, s) /\ s 0%nat = InR /\ s 1%nat = InR.
Proof. exact Tiny.two_readers_share. Qed.

Example C19_writer_inside_reachable :
  exists l s, sys_reach St (pstep ClientExample.progs) (lock_init, pinit) (l, s)
    /\ about_to s 0%nat true "f"%string /\ tp (s 1%nat) = ClientExample.rprog /\ pmode s 1%nat = Out.
Proof. exact ClientExample.writer_inside_reachable. Qed.

Example C19_counter_three_threads :
  exists c', aruns _ _ _ counter_apply
      {| cell := 5; progs := fun t => match t with 0%nat => [CIncrement] | 1%nat => [CIncrement; CAdd 10] | 2%nat => [CDecrement] | _ => [] end;
         outs := fun _ => [] |}
      [(1%nat, CIncrement); (0%nat, CIncrement); (2%nat, CDecrement); (1%nat, CAdd 10)] c'
    /\ cell _ _ _ c' = 16.
Proof. exact counter_three_threads. Qed.

(* a torn (load; add; store) increment DOES lose an update in the same formalism; the atomic one does not *)
Example C19_torn_increment_loses_an_update :
  seq_cell _ _ _ torn_apply 5 [(0%nat, TLoad); (1%nat, TLoad); (0%nat, TStore 6); (1%nat, TStore 6)] = 6
  /\ seq_cell _ _ _ counter_apply 5 [(0%nat, CIncrement); (1%nat, CIncrement)] = 7.
Proof. exact torn_increment_loses_an_update. Qed.

(* WITH the lock: an execution overlapping SetNewGasConfig(sched_b) reads both fields from sched_a *)
Example C19_locked_execution_overlapping_setter :
  exists l s, sys_reach gstate gstep (lock_init, ginit sched_a) (l, s)
    /\ gpcs s 0%nat = EOut [(FBase, 1%N); (FStorePerByte, 1%N)]
    /\ gpcs s 1%nat = SOut
    /\ consistent [(FBase, 1%N); (FStorePerByte, 1%N)] sched_a
    /\ hist s = [sched_b; sched_a] /\ (forall f, fields s f = sched_b f).
Proof. exact locked_execution_overlapping_setter. Qed.

(* WITHOUT the lock the same program reads a mixture: the lock is what makes the theorem true *)
Example C19_unlocked_mixture_reachable :
  exists s, nolock_reach (ginit sched_a) s
    /\ gpcs s 0%nat = EOut [(FBase, 1%N); (FStorePerByte, 2%N)]
    /\ ~ exists g, In g [sched_a; sched_b] /\ consistent [(FBase, 1%N); (FStorePerByte, 2%N)] g.
Proof. exact unlocked_mixture_reachable. Qed.

(* the priced types and their gas fields, as found in the sources *)
Example C19_priced_types :
  map (fun e => (et_type e, gas_fields e)) (filter has_mutex exec_types) = [
    ("changeOwnerAddress", ["gasCost"]); ("claimDeveloperRewards", ["gasCost"]); ("esdtBurn", ["funcGasCost"]);
    ("esdtLocalBurn", ["funcGasCost"]); ("esdtLocalMint", ["funcGasCost"]); ("esdtNFTAddQuantity", ["funcGasCost"]);
    ("esdtNFTAddUri", ["funcGasCost"; "gasConfig"]); ("esdtNFTBurn", ["funcGasCost"]);
    ("esdtNFTCreate", ["funcGasCost"; "gasConfig"]); ("esdtNFTMultiTransfer", ["funcGasCost"; "gasConfig"]);
    ("esdtNFTTransfer", ["funcGasCost"; "gasConfig"]); ("esdtNFTupdate", ["funcGasCost"; "gasConfig"]);
    ("esdtTransfer", ["funcGasCost"]); ("saveKeyValueStorage", ["funcGasCost"; "gasConfig"]); ("saveUserName", ["gasCost"]) ]%string.
Proof. exact priced_types. Qed.

Print Assumptions C19_rw_mutual_exclusion.
Print Assumptions C19_mutexmap_bracketed.
Print Assumptions C19_mutexmap_mutual_exclusion.
Print Assumptions C19_mutexmap_linearizable.
Print Assumptions C19_container_refines.
Print Assumptions C19_atomics_no_lost_update.
Print Assumptions C19_counter_no_lost_update.
Print Assumptions C19_flag_set_one_winner.
Print Assumptions C19_flag_final_is_last_write.
Print Assumptions C19_store_final_is_last_write.
Print Assumptions C19_load_sees_a_written_value.
Print Assumptions C19_string_final_is_last_write.
Print Assumptions C19_string_load_sees_a_written_value.
Print Assumptions C19_gas_bracketed.
Print Assumptions C19_charge_single_schedule.
Print Assumptions C19_charge_formula_single_schedule.
Print Assumptions C19_lock_discipline_ok.
Print Assumptions C19_gas_access_covered.
Print Assumptions C19_exec_clients_bracketed.
Print Assumptions C19_gas_fields_race_free.
Print Assumptions C19_mutexmap_values_race_free.
Print Assumptions C19_mutexmap_rows_match_model.
Print Assumptions C19_container_rows_match_plan.
Print Assumptions C19_atomics_rows_match_model.
Print Assumptions C19_insert_race_run.
Print Assumptions C19_insert_is_read_then_write_under_write_lock.
Print Assumptions C19_two_readers_share.
Print Assumptions C19_writer_inside_reachable.
Print Assumptions C19_counter_three_threads.
Print Assumptions C19_torn_increment_loses_an_update.
Print Assumptions C19_locked_execution_overlapping_setter.
Print Assumptions C19_unlocked_mixture_reachable.
Print Assumptions C19_priced_types.
