(* Property C11, extension: ---- no panic along histories of HONEST operations ----
   Only statements, each closed by [exact] of a lemma of LedgerProofs/Capstone_*.v; pins; non-vacuity; assumptions.

   Reading guide (the vocabulary of Properties/C11_world.v -- [wstep_status], [wstep_result], [statuses], [results],
   [PInv], [tx_op] -- is used unchanged).
   * C11_world.v proves: from a world satisfying [PInv], along every list of [tx_op]s, no executed call panics.  Here
     the same conclusion is stated for the ONE class of histories that the other world-level results use
     ([honest_ops], C11c_vocabulary) from any world satisfying the joint invariant [JInv]: so the histories for which
     conservation (C01), supply accounting (C02), nonce uniqueness (C07) and well-formedness (C15) are proved are
     panic-free, every executed call returns Ok with return code Ok or an error, and every rolled-back step is an
     error, never a panic hidden by the roll-back.  C11c_honest_implies_tx_op: an honest operation is a [tx_op] (no
     invariant needed); JInv contains PInv.
   * Hypotheses on the configuration: [codec_ok], [flag_undec] (implies C11's [flag_ok]: C11c_flag_undec_ok).
   * NOT covered here (but covered by C11_world.v, whose operation class is larger): re-deliveries; user calls naming
     arbitrary identifiers.  Not covered by either: forged presence flags, calls with 2^40 or more arguments. *)
From Coq.Strings Require Import String.
From Coq Require Import List Sorted.
From EV Require Import Base.Bytes Base.Store Base.Monad gen.Consts Codec.Types Codec.Proto Codec.Ideal Codec.CodecOk
  Helpers.Helpers Ledger.Types Ledger.Env Ledger.Funcs Ledger.Transfers Ledger.World Corr.Exec
  LedgerProofs.Defs LedgerProofs.EnvSpec LedgerProofs.WorldDefs LedgerProofs.WorldSpec
  LedgerProofs.Spec_Transfers_Base LedgerProofs.Spec_Transfers_Multi LedgerProofs.Spec_Supply
  LedgerProofs.C01_World LedgerProofs.C01_Step LedgerProofs.C01_Consistent
  LedgerProofs.C02_Effects LedgerProofs.C02_NonNeg LedgerProofs.C02_World LedgerProofs.C05_Footprint
  LedgerProofs.C07_Exec LedgerProofs.C07_World LedgerProofs.C07_Histories
  LedgerProofs.C15_Inv LedgerProofs.C15_World LedgerProofs.NoPanic LedgerProofs.NoPanicWorldEmit LedgerProofs.NoPanicWorld
  LedgerProofs.Supply_Base LedgerProofs.Supply_Calls LedgerProofs.Supply_Step
  LedgerProofs.ValidIds_Id LedgerProofs.ValidIds_Inv LedgerProofs.ValidIds_World
  LedgerProofs.Capstone_Defs LedgerProofs.Capstone_Step LedgerProofs.Capstone_Histories LedgerProofs.Capstone_Check
  LedgerProofs.Capstone_Examples LedgerProofs.Capstone_Decide.
Import ListNotations.

(* ================================================================ *)
(* pins                                                               *)
(* ================================================================ *)
Example C11c_vocabulary : forall (c : wcfg) (w : world) (op : wop) (r : list wop) (sh : N) (fn : bytes) (i : input) id gas,
  (honest_op c w (OCall sh fn i) <-> (alen (i_args i) < 2 ^ 40)%N /\ (user_call c w sh fn i \/ system_call c w sh fn i))
  /\ (honest_op c w (ODeliver id gas) <-> True) /\ (honest_op c w (ORefund id gas) <-> True)
  /\ (honest_op c w (ORedeliver id gas) <-> False)
  /\ (user_call c w sh fn i <->
        (wc_shard_of c (i_caller i) = sh /\ i_snd i = (wc_shard_of c (i_caller i) =? sh)%N
         /\ i_dst i = (wc_shard_of c (i_rcpt i) =? sh)%N)
        /\ i_caller i <> SC
        /\ (Forall valid_id (named_tokens fn i)
            /\ (fn = C.BuiltInFunctionMultiESDTNFTTransfer -> Forall (fun x => valid_id (rt_tok x)) (multi_snd_triples i)))
        /\ (fn = C.BuiltInFunctionESDTNFTCreate ->
            balance (env_at c sh) (mk_state (shard_accts w sh)) (i_caller i)
                    (nft_key (P ++ argn i 0) (create_nonce i (mk_state (shard_accts w sh)))) = 0%Z))
  /\ (system_call c w sh fn i <->
        In fn sys_fns /\ i_caller i = SC /\ i_snd i = false /\ i_dst i = true /\ Forall valid_id (named_tokens fn i)
        /\ (fn = C.BuiltInFunctionESDTPause \/ fn = C.BuiltInFunctionESDTUnPause ->
            i_rcpt i = SYS /\ balance (env_at c sh) (mk_state (shard_accts w sh)) SYS (P ++ argn i 0) = 0%Z)
        /\ (~ (fn = C.BuiltInFunctionESDTPause \/ fn = C.BuiltInFunctionESDTUnPause) ->
            wc_shard_of c (i_rcpt i) = sh /\ i_rcpt i <> SC)
        /\ (fn = C.BuiltInFunctionSetESDTRole -> forall tok, nth_error (i_args i) 0 = Some tok ->
            NoDup (roles_at (env_at c sh) (mk_state (shard_accts w sh)) (i_rcpt i) tok ++ skipn 1 (i_args i))))
  /\ sys_fns = [C.BuiltInFunctionESDTFreeze; C.BuiltInFunctionESDTUnFreeze; C.BuiltInFunctionESDTWipe;
                C.BuiltInFunctionESDTPause; C.BuiltInFunctionESDTUnPause; C.BuiltInFunctionSetESDTRole;
                C.BuiltInFunctionUnSetESDTRole; C.BuiltInFunctionESDTNFTCreateRoleTransfer; C.BuiltInFunctionESDTTransfer]
  /\ (honest_ops c w [] <-> True)
  /\ (honest_ops c w (op :: r) <-> honest_op c w op /\ honest_ops c (wstep c w op) r)
  /\ (JInv c w <->
        WInv' c w /\ C15_World.WInv c w /\ PInv c w /\ VInv c w /\ WNonNeg c w
        /\ Forall (fun m => ~ In (m_fn m) silent_fns) (inflight w))
  /\ silent_fns = [C.BuiltInFunctionESDTNFTAddQuantity; C.BuiltInFunctionESDTNFTBurn; C.BuiltInFunctionESDTNFTAddURI;
                   C.BuiltInFunctionESDTNFTUpdateAttributes; C.BuiltInFunctionESDTNFTCreate;
                   C.BuiltInFunctionESDTPause; C.BuiltInFunctionESDTUnPause; C.BuiltInFunctionUnSetESDTRole].
Proof.
  intros. repeat (split; [reflexivity|]). split; [|reflexivity].
  split; [intros [H1 H2 H3 H4 H5 H6]; auto 10|intros (H1 & H2 & H3 & H4 & H5 & H6); constructor; assumption].
Qed.

(* ================================================================ *)
(* the theorems                                                       *)
(* ================================================================ *)
(* no executed call panics; every executed call returns Ok with return code Ok, or an error *)
Theorem C11c_no_panic_honest_histories : forall (c : wcfg), codec_ok (wc_cdc c) -> flag_undec (wc_cdc c) ->
  forall (w : world) (ops : list wop), JInv c w -> honest_ops c w ops ->
  Forall (fun st => st <> Some SPanic) (statuses c w ops)
  /\ Forall (fun r => match r with
                      | None => True
                      | Some (Ok o, _) => o_rc o = C.Ok
                      | Some (Err _, _) => True
                      | Some (Panic, _) => False
                      end) (results c w ops).
Proof. exact capstone_no_panic. Qed.

(* an honest operation is transaction-reachable in the sense of C11_world.v (no invariant needed) *)
Theorem C11c_honest_implies_tx_op : forall (c : wcfg) (w : world) (op : wop), honest_op c w op -> tx_op c op.
Proof. exact honest_tx_op. Qed.
Theorem C11c_honest_ops_tx_ops : forall (c : wcfg) (ops : list wop) (w : world), honest_ops c w ops -> Forall (tx_op c) ops.
Proof. exact honest_ops_tx_ops. Qed.
(* the joint invariant contains C11's, and is kept by every honest operation: the theorem applies after every prefix *)
Theorem C11c_JInv_PInv : forall (c : wcfg) (w : world), JInv c w -> PInv c w.
Proof. exact j_nopanic. Qed.
Theorem C11c_invariant_honest_histories : forall (c : wcfg), codec_ok (wc_cdc c) -> flag_undec (wc_cdc c) ->
  forall (w : world) (ops : list wop) (n : nat), JInv c w -> honest_ops c w ops -> JInv c (wrun c w (firstn n ops)).
Proof. exact capstone_invariant. Qed.
(* the codec hypothesis implies C11's *)
Theorem C11c_flag_undec_ok : forall (cd : codec), flag_undec cd -> flag_ok cd.
Proof. exact flag_undec_ok. Qed.

(* ================================================================ *)
(* non-vacuity                                                        *)
(* ================================================================ *)
(* (a) the joint invariant holds of the empty world with enough shards *)
Theorem C11c_JInv_empty : forall (c : wcfg) (n : nat), (wc_nshards c <= N.of_nat n)%N -> JInv c (C15_World.empty_world n).
Proof. exact JInv_empty. Qed.

(* (b) the mixed history of 34 operations on a two-shard world, from the EMPTY world, under the ideal codec (listed in
   full in Properties/C02_capstone.v, C02c_example_history): the functions it executes, in order *)
Example C11c_example_history : length k_history2 = 34%nat
  /\ wc_cdc kc = ideal_codec /\ wc_nshards kc = 2%N /\ kw0 = C15_World.empty_world 2
  /\ map (fun op => match op with OCall sh fn _ => Some (sh, fn) | _ => None end) k_history2 =
     [ Some (0%N, C.BuiltInFunctionESDTTransfer); Some (0%N, C.BuiltInFunctionSetESDTRole);
       Some (0%N, C.BuiltInFunctionESDTLocalMint); Some (0%N, C.BuiltInFunctionSetESDTRole);
       Some (0%N, C.BuiltInFunctionESDTNFTCreate); Some (0%N, C.BuiltInFunctionESDTTransfer); None;
       Some (0%N, C.BuiltInFunctionESDTNFTTransfer); None; Some (0%N, C.BuiltInFunctionESDTTransfer); None; None;
       Some (0%N, C.BuiltInFunctionESDTPause); Some (1%N, C.BuiltInFunctionESDTPause);
       Some (0%N, C.BuiltInFunctionESDTTransfer); Some (1%N, C.BuiltInFunctionESDTTransfer);
       Some (0%N, C.BuiltInFunctionESDTUnPause); Some (1%N, C.BuiltInFunctionESDTUnPause);
       Some (0%N, C.BuiltInFunctionESDTLocalBurn); Some (0%N, C.BuiltInFunctionESDTNFTBurn);
       Some (0%N, C.BuiltInFunctionMultiESDTNFTTransfer); None;
       Some (0%N, C.BuiltInFunctionESDTNFTCreateRoleTransfer); None;
       Some (1%N, C.BuiltInFunctionESDTNFTCreate); Some (0%N, C.BuiltInFunctionESDTNFTCreate);
       Some (1%N, C.BuiltInFunctionESDTBurn); None; None; Some (0%N, C.BuiltInFunctionSetESDTRole);
       Some (0%N, C.BuiltInFunctionSaveKeyValue); Some (1%N, C.BuiltInFunctionSetESDTRole);
       Some (1%N, C.BuiltInFunctionESDTNFTAddURI); Some (1%N, C.BuiltInFunctionESDTNFTUpdateAttributes) ]
  /\ map (fun op => match op with ODeliver id _ => Some (true, id) | ORefund id _ => Some (false, id) | _ => None end)
         (filter (fun op => match op with OCall _ _ _ => false | _ => true end) k_history2) =
     [ Some (true, 0); Some (true, 1); Some (true, 2); Some (false, 2); Some (true, 3); Some (true, 4); Some (true, 77);
       Some (false, 0) ]%nat.
Proof. repeat split. Qed.
(* the hypotheses; [honest_ops] is decided ALONG the run by the boolean checker (vm_compute) *)
Example C11c_example_checked : honest_ops_b kc kw0 k_history2 = true.
Proof. exact (proj1 capstone2_checked). Qed.
Example C11c_example_hypotheses :
  codec_ok (wc_cdc kc) /\ flag_undec (wc_cdc kc) /\ JInv kc kw0 /\ honest_ops kc kw0 k_history2.
Proof. exact (conj kc_ok (conj kc_flag (conj capstone2_start (proj1 capstone2_honest)))). Qed.
(* the conclusion *)
Example C11c_example_no_panic :
  Forall (fun st => st <> Some SPanic) (statuses kc kw0 k_history2) /\ Forall step_total (results kc kw0 k_history2).
Proof. exact capstone2_no_panic. Qed.
(* ... evaluated: the status of every step.  26 executions succeed, 6 return an error and are rolled back (10: delivery
   to a non-payable contract; 14, 15: the token is paused; 25: the create role is gone; 29: ESDTSetRole by a user),
   2 steps execute nothing (27: unknown message id; 28: refund of a consumed id) *)
Example C11c_example_statuses :
  statuses kc kw0 k_history2 =
  [Some SOk; Some SOk; Some SOk; Some SOk; Some SOk; Some SOk; Some SOk; Some SOk; Some SOk; Some SOk;
   Some SErr; Some SOk; Some SOk; Some SOk; Some SErr; Some SErr; Some SOk; Some SOk; Some SOk; Some SOk;
   Some SOk; Some SOk; Some SOk; Some SOk; Some SOk; Some SErr; Some SOk; None; None; Some SErr; Some SOk;
   Some SOk; Some SOk; Some SOk].
Proof. exact capstone2_statuses. Qed.

Print Assumptions C11c_vocabulary.
Print Assumptions C11c_no_panic_honest_histories.
Print Assumptions C11c_honest_implies_tx_op.
Print Assumptions C11c_honest_ops_tx_ops.
Print Assumptions C11c_JInv_PInv.
Print Assumptions C11c_invariant_honest_histories.
Print Assumptions C11c_flag_undec_ok.
Print Assumptions C11c_JInv_empty.
Print Assumptions C11c_example_history.
Print Assumptions C11c_example_checked.
Print Assumptions C11c_example_hypotheses.
Print Assumptions C11c_example_no_panic.
Print Assumptions C11c_example_statuses.
