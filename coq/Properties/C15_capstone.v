(* Property C15, extension: ---- well-formed token state along histories of HONEST operations; the joint invariant ----
   Only statements, each closed by [exact] of a lemma of LedgerProofs/Capstone_*.v; pins; non-vacuity; assumptions.

   Reading guide (the vocabulary of Properties/C15.v -- [Inv] and its clauses, [WInv], [reachable_op] -- is used unchanged).
   * Properties/C15.v proves that [Inv] holds on every shard along every history of [reachable_op]s.  That predicate
     asks, of a direct call, "recipient account present => the recipient lives on the executing shard", which the
     PAUSE BROADCAST violates on all shards but one: ESDTPause / ESDTUnPause are addressed to the system account,
     whose account object is present on EVERY shard while its address maps to one shard.  C11_world.v's [tx_op] asks
     the opposite (system-contract calls: recipient account present).  C15c_pause_step_ignores_presence_flag resolves
     the conflict: the step of a pause call does not depend on the recipient-presence flag, so the broadcast step IS a
     reachable step (C15c_example_pause_conflict evaluates all of this on one operation).
   * [honest_ops] (C15c_vocabulary) is the one class of histories used by all world-level results; [JInv] is the joint
     invariant: C01/C02's WInv' /\ C15's WInv /\ C11's PInv /\ VInv (valid identifiers) /\ C02's WNonNeg /\ no in-flight
     message is named after a function that emits nothing.  C15c_joint_invariant_honest_histories: JInv holds after
     every prefix of every honest history from a JInv world (the empty world is one: C15c_JInv_empty).
     C15c_wellformed_honest_histories: hence every shard state satisfies ALL clauses of C15's [Inv] and no balance
     under a protocol key is negative, after every prefix.
   * Differences to C15.v's hypothesis: ESDTSetRole must give NEW, pairwise distinct roles (as there) but this is asked
     of the system contract's call only -- a user's ESDTSetRole fails anyway; NFT payloads are not constrained by
     hypothesis: destination-side executions come from deliveries of in-flight messages only, whose payloads the
     invariant covers.
   * NOT covered: re-deliveries (F9); forged destination-side calls; identifiers outside the protocol's shape. *)
From Coq.Strings Require Import String.
From Coq Require Import List Sorted.
From EV Require Import Base.Bytes Base.Store Base.Monad gen.Consts Codec.Types Codec.Proto Codec.Ideal Codec.CodecOk
  Helpers.Helpers Ledger.Types Ledger.Env Ledger.Funcs Ledger.Transfers Ledger.World Corr.Exec
  LedgerProofs.Defs LedgerProofs.EnvSpec LedgerProofs.WorldDefs LedgerProofs.WorldSpec
  LedgerProofs.Spec_Transfers_Base LedgerProofs.Spec_Transfers_Multi LedgerProofs.Spec_Supply
  LedgerProofs.C01_World LedgerProofs.C01_Step LedgerProofs.C01_Consistent
  LedgerProofs.C02_Effects LedgerProofs.C02_NonNeg LedgerProofs.C02_World LedgerProofs.C05_Footprint
  LedgerProofs.C07_Exec LedgerProofs.C07_World LedgerProofs.C07_Histories
  LedgerProofs.C15_Inv LedgerProofs.C15_World LedgerProofs.C15_Examples LedgerProofs.NoPanic LedgerProofs.NoPanicWorldEmit LedgerProofs.NoPanicWorld
  LedgerProofs.Supply_Base LedgerProofs.Supply_Calls LedgerProofs.Supply_Step
  LedgerProofs.ValidIds_Id LedgerProofs.ValidIds_Inv LedgerProofs.ValidIds_World
  LedgerProofs.Capstone_Defs LedgerProofs.Capstone_Step LedgerProofs.Capstone_Histories LedgerProofs.Capstone_Check
  LedgerProofs.Capstone_Examples LedgerProofs.Capstone_Decide.
Import ListNotations.

(* ================================================================ *)
(* pins                                                               *)
(* ================================================================ *)
Example C15c_vocabulary : forall (c : wcfg) (w : world) (op : wop) (r : list wop) (sh : N) (fn : bytes) (i : input) id gas,
  (honest_op c w (OCall sh fn i) <-> (alen (i_args i) < 2 ^ 40)%N /\ (user_call c w sh fn i \/ system_call c w sh fn i))
  /\ (honest_op c w (ODeliver id gas) <-> True) /\ (honest_op c w (ORefund id gas) <-> True)
  /\ (honest_op c w (ORedeliver id gas) <-> False)
  /\ (user_call c w sh fn i <->
        (wc_shard_of c (i_caller i) = sh /\ i_snd i = (wc_shard_of c (i_caller i) =? sh)%N
         /\ i_dst i = (wc_shard_of c (i_rcpt i) =? sh)%N)
        /\ i_caller i <> SC
        /\ (Forall valid_id (named_tokens fn i)
            /\ (fn = C.BuiltInFunctionMultiESDTNFTTransfer -> Forall (fun x => valid_id (rt_tok x)) (multi_snd_triples i)))
        /\ (fn = C.BuiltInFunctionESDTNFTCreate ->
            balance (env_at c sh) (mk_state (shard_accts w sh)) (i_caller i)
                    (nft_key (P ++ argn i 0) (create_nonce i (mk_state (shard_accts w sh)))) = 0%Z))
  /\ (system_call c w sh fn i <->
        In fn sys_fns /\ i_caller i = SC /\ i_snd i = false /\ i_dst i = true /\ Forall valid_id (named_tokens fn i)
        /\ (fn = C.BuiltInFunctionESDTPause \/ fn = C.BuiltInFunctionESDTUnPause ->
            i_rcpt i = SYS /\ balance (env_at c sh) (mk_state (shard_accts w sh)) SYS (P ++ argn i 0) = 0%Z)
        /\ (~ (fn = C.BuiltInFunctionESDTPause \/ fn = C.BuiltInFunctionESDTUnPause) ->
            wc_shard_of c (i_rcpt i) = sh /\ i_rcpt i <> SC)
        /\ (fn = C.BuiltInFunctionSetESDTRole -> forall tok, nth_error (i_args i) 0 = Some tok ->
            NoDup (roles_at (env_at c sh) (mk_state (shard_accts w sh)) (i_rcpt i) tok ++ skipn 1 (i_args i))))
  /\ sys_fns = [C.BuiltInFunctionESDTFreeze; C.BuiltInFunctionESDTUnFreeze; C.BuiltInFunctionESDTWipe;
                C.BuiltInFunctionESDTPause; C.BuiltInFunctionESDTUnPause; C.BuiltInFunctionSetESDTRole;
                C.BuiltInFunctionUnSetESDTRole; C.BuiltInFunctionESDTNFTCreateRoleTransfer; C.BuiltInFunctionESDTTransfer]
  /\ (honest_ops c w [] <-> True)
  /\ (honest_ops c w (op :: r) <-> honest_op c w op /\ honest_ops c (wstep c w op) r)
  /\ (JInv c w <->
        WInv' c w /\ C15_World.WInv c w /\ PInv c w /\ VInv c w /\ WNonNeg c w
        /\ Forall (fun m => ~ In (m_fn m) silent_fns) (inflight w))
  /\ silent_fns = [C.BuiltInFunctionESDTNFTAddQuantity; C.BuiltInFunctionESDTNFTBurn; C.BuiltInFunctionESDTNFTAddURI;
                   C.BuiltInFunctionESDTNFTUpdateAttributes; C.BuiltInFunctionESDTNFTCreate;
                   C.BuiltInFunctionESDTPause; C.BuiltInFunctionESDTUnPause; C.BuiltInFunctionUnSetESDTRole].
Proof.
  intros. repeat (split; [reflexivity|]). split; [|reflexivity].
  split; [intros [H1 H2 H3 H4 H5 H6]; auto 10|intros (H1 & H2 & H3 & H4 & H5 & H6); constructor; assumption].
Qed.

(* ================================================================ *)
(* the theorems                                                       *)
(* ================================================================ *)
(* the joint invariant after every prefix *)
Theorem C15c_joint_invariant_honest_histories : forall (c : wcfg), codec_ok (wc_cdc c) -> flag_undec (wc_cdc c) ->
  forall (w : world) (ops : list wop) (n : nat), JInv c w -> honest_ops c w ops -> JInv c (wrun c w (firstn n ops)).
Proof. exact capstone_invariant. Qed.

(* every shard state satisfies all clauses of C15's Inv, and no balance under a protocol key is negative, after every
   prefix *)
Theorem C15c_wellformed_honest_histories : forall (c : wcfg), codec_ok (wc_cdc c) -> flag_undec (wc_cdc c) ->
  forall (w : world) (ops : list wop) (n : nat) (sh : N), JInv c w -> honest_ops c w ops ->
  let s := mk_state (shard_accts (wrun c w (firstn n ops)) sh) in
  Inv (env_at c sh) s /\ forall a x, (0 <= balance (env_at c sh) s a (P ++ x))%Z.
Proof. exact capstone_wellformed. Qed.

(* one honest operation keeps C15's world invariant -- the pause broadcast included *)
Theorem C15c_honest_step_WInv : forall (c : wcfg), codec_ok (wc_cdc c) -> flag_undec (wc_cdc c) ->
  forall (w : world) (op : wop), C15_World.WInv c w -> honest_op c w op -> C15_World.WInv c (wstep c w op).
Proof. exact c15_step. Qed.
(* one honest operation keeps the joint invariant *)
Theorem C15c_honest_step_JInv : forall (c : wcfg), codec_ok (wc_cdc c) -> flag_undec (wc_cdc c) ->
  forall (w : world) (op : wop), JInv c w -> honest_op c w op -> JInv c (wstep c w op).
Proof. intros c Hc Hf w op HJ Hop. exact (proj1 (honest_step c Hc Hf w op HJ Hop)). Qed.

(* the pause broadcast: the step does not depend on the recipient-presence flag *)
Theorem C15c_pause_step_ignores_presence_flag : forall (c : wcfg) (w : world) (sh : N) (fn : bytes) (i : input),
  fn = C.BuiltInFunctionESDTPause \/ fn = C.BuiltInFunctionESDTUnPause ->
  wstep c w (OCall sh fn i) = wstep c w (OCall sh fn (clear_dst i)).
Proof. exact wstep_pause_dst. Qed.
Example C15c_clear_dst_unfolded : forall i,
  clear_dst i = {| i_caller := i_caller i; i_rcpt := i_rcpt i; i_args := i_args i; i_value := i_value i; i_gas := i_gas i;
                   i_gasLocked := i_gasLocked i; i_callType := i_callType i; i_rae := i_rae i; i_snd := i_snd i;
                   i_dst := false |}.
Proof. reflexivity. Qed.

(* the joint invariant contains C15's world invariant *)
Theorem C15c_JInv_WInv : forall (c : wcfg) (w : world), JInv c w -> C15_World.WInv c w.
Proof. exact j_c15. Qed.

(* ================================================================ *)
(* non-vacuity                                                        *)
(* ================================================================ *)
(* (a) the joint invariant holds of the empty world with enough shards *)
Theorem C15c_JInv_empty : forall (c : wcfg) (n : nat), (wc_nshards c <= N.of_nat n)%N -> JInv c (C15_World.empty_world n).
Proof. exact JInv_empty. Qed.

(* (b) the mixed history of 34 operations on a two-shard world, from the EMPTY world, under the ideal codec (listed in
   full in Properties/C02_capstone.v, C02c_example_history) *)
Example C15c_example_config : length k_history2 = 34%nat
  /\ wc_cdc kc = ideal_codec /\ wc_nshards kc = 2%N /\ kw0 = C15_World.empty_world 2
  /\ wc_shard_of kc k_alice = 0%N /\ wc_shard_of kc k_bob = 1%N /\ wc_shard_of kc SYS = 0%N.
Proof. repeat split. Qed.
(* the hypotheses; [honest_ops] is decided ALONG the run by the boolean checker (vm_compute) *)
Example C15c_example_checked : honest_ops_b kc kw0 k_history2 = true.
Proof. exact (proj1 capstone2_checked). Qed.
Example C15c_example_hypotheses :
  codec_ok (wc_cdc kc) /\ flag_undec (wc_cdc kc) /\ JInv kc kw0 /\ honest_ops kc kw0 k_history2.
Proof. exact (conj kc_ok (conj kc_flag (conj capstone2_start (proj1 capstone2_honest)))). Qed.
(* the conclusions *)
Example C15c_example_invariant : forall n, JInv kc (wrun kc kw0 (firstn n k_history2)).
Proof. exact capstone2_invariant. Qed.
Example C15c_example_wellformed : forall n sh,
  let s := mk_state (shard_accts (wrun kc kw0 (firstn n k_history2)) sh) in
  Inv (env_at kc sh) s /\ forall a x, (0 <= balance (env_at kc sh) s a (P ++ x))%Z.
Proof. exact capstone2_wellformed. Qed.
(* ... evaluated: C15's boolean checker [inv_check] (sound for Inv: C15_inv_check_sound) is true on both shards after
   EVERY prefix of the history; the final states are not trivial (two account objects per shard: alice resp. bob, and the system account; bob holds 31 TOK, 3 of NFT#1 and
   NFT#2 whose metadata was updated twice; the create role sits with bob) *)
Example C15c_example_computed :
  forallb (fun n => let w := wrun kc kw0 (firstn n k_history2) in
                    inv_check (env_at kc 0) (mk_state (shard_accts w 0)) && inv_check (env_at kc 1) (mk_state (shard_accts w 1)))
          (seq 0 35) = true
  /\ (let w' := wrun kc kw0 k_history2 in
      length (shard_accts w' 0) = 2%nat /\ length (shard_accts w' 1) = 2%nat
      /\ k_bal w' 1 k_bob k_kTok = 31%Z /\ k_bal w' 1 k_bob k_kN1 = 3%Z /\ k_bal w' 1 k_bob k_kN2 = 1%Z
      /\ roles_at (env_at kc 1) (mk_state (shard_accts w' 1)) k_bob k_nft
         = [C.ESDTRoleNFTCreate; C.ESDTRoleNFTAddURI; C.ESDTRoleNFTUpdateAttributes]
      /\ paused_at (mk_state (shard_accts w' 0)) k_kTok = false
      /\ paused_at (mk_state (shard_accts (wrun kc kw0 (firstn 14 k_history2)) 0)) k_kTok = true
      /\ paused_at (mk_state (shard_accts (wrun kc kw0 (firstn 14 k_history2)) 1)) k_kTok = true).
Proof. vm_compute. repeat split. Qed.

(* (c) the conflict the joint invariant resolves, on operation 13 of the history (the pause executed on shard 1, where
   the system account does not "live"): honest; NOT a [reachable_op] of C15.v; with the presence flag cleared it is
   reachable but not a [tx_op] of C11_world.v; the two steps are the same step *)
Example C15c_example_pause_conflict :
  let w := wrun kc kw0 (firstn 13 k_history) in
  let i := k_in SC SYS [k_tok] false true in
  honest_op kc w (OCall 1 C.BuiltInFunctionESDTPause i)
  /\ ~ C15_World.reachable_op kc w (OCall 1 C.BuiltInFunctionESDTPause i)
  /\ ~ tx_op kc (OCall 1 C.BuiltInFunctionESDTPause (clear_dst i))
  /\ C15_World.reachable_op kc w (OCall 1 C.BuiltInFunctionESDTPause (clear_dst i))
  /\ wstep kc w (OCall 1 C.BuiltInFunctionESDTPause i) = wstep kc w (OCall 1 C.BuiltInFunctionESDTPause (clear_dst i)).
Proof. exact capstone_example_pause_conflict. Qed.

Print Assumptions C15c_vocabulary.
Print Assumptions C15c_joint_invariant_honest_histories.
Print Assumptions C15c_wellformed_honest_histories.
Print Assumptions C15c_honest_step_WInv.
Print Assumptions C15c_honest_step_JInv.
Print Assumptions C15c_pause_step_ignores_presence_flag.
Print Assumptions C15c_clear_dst_unfolded.
Print Assumptions C15c_JInv_WInv.
Print Assumptions C15c_JInv_empty.
Print Assumptions C15c_example_config.
Print Assumptions C15c_example_checked.
Print Assumptions C15c_example_hypotheses.
Print Assumptions C15c_example_invariant.
Print Assumptions C15c_example_wellformed.
Print Assumptions C15c_example_computed.
Print Assumptions C15c_example_pause_conflict.
