(* Property C09 -- tokens are only credited to admissible destinations.
   Only statements, each closed by [exact] of a lemma proved in LedgerProofs/C09_Admissible.v (which builds on the
   function specs LedgerProofs/Spec_Transfers*.v), pins, non-vacuity examples and their assumptions.

   Reading guide.  [E : env] is ARBITRARY (any payability oracle [payable E : bytes -> PayYes | PayNo | PayErr], any shard
   coordinator, any gas schedule, any fault plan) with a codec satisfying [codec_ok].  [exec E f i s = (Ok o, s')]: the
   built-in function named f, called with input i in shard state s, succeeds with output o and post-state s'.
   [balance E s a k]: the quantity held by account a under the full storage key k (0 if absent).
   One call of ESDTTransfer executes the debit ([i_snd i]: the caller's account is on this shard) and/or the credit
   ([i_dst i]: the recipient's account is on this shard).  ESDTNFTTransfer and MultiESDTNFTTransfer have a SENDER side
   (caller = recipient of the call, [c09_sender_side i = true]; the destination is argument 3 resp. 0; it is credited
   in the same call iff it lives on the executing shard, otherwise a message is emitted) and a DESTINATION side
   (caller <> recipient: the delivered message; the recipient is credited).
     c09_dest f i      the destination address (definition below, pinned)
     c09_local E f i   the destination's account is on the executing shard / was handed to the function
     c09_min f i       the argument count above which "the transfer carries a contract call" : 2 / 4 / 3n+2 / 3n+1
     admissible E i a m  :=  payable E a = PayYes \/ m < number of arguments \/ call type = AsynchronousCallBack
                             \/ call type = ESDTTransferAndExecute \/ caller = ESDT system contract *)
From Coq.Strings Require Import String.
From EV Require Import Base.Bytes Base.Store Base.Monad gen.Consts Codec.Types Codec.Proto Codec.Ideal Codec.CodecOk
  Helpers.Helpers Ledger.Types Ledger.Env Ledger.Funcs Ledger.Transfers Ledger.World Corr.Exec
  LedgerProofs.Defs LedgerProofs.WorldDefs LedgerProofs.WorldSpec
  LedgerProofs.Spec_Transfers_Base LedgerProofs.Spec_Transfers_Multi LedgerProofs.Spec_Transfers
  LedgerProofs.C09_Admissible.

(* ---- pins: the constants and definitions the statements are made of ---- *)
Example C09_pin_call_types : C.AsynchronousCallBack = 2%N /\ C.ESDTTransferAndExecute = 3%N /\ C.DirectCall = 0%N.
Proof. repeat split. Qed.
Example C09_pin_min_lengths :
  C.MinLenArgumentsESDTTransfer = 2%N /\ C.MinLenArgumentsESDTNFTTransfer = 4%N /\ C.bif_argumentsPerTransfer = 3%N.
Proof. repeat split. Qed.
Example C09_pin_metachain : META = 4294967295%N /\ SC = C.ESDTSCAddress.
Proof. repeat split. Qed.
Example C09_pin_transfer_fns : forall f, is_transfer_fn f =
  (beqb f C.BuiltInFunctionESDTTransfer || beqb f C.BuiltInFunctionESDTNFTTransfer
   || beqb f C.BuiltInFunctionMultiESDTNFTTransfer)%bool.
Proof. reflexivity. Qed.
Example C09_pin_admissible : forall E i a m, admissible E i a m =
  (payable E a = PayYes \/ (m < alen (i_args i))%N
   \/ i_callType i = C.AsynchronousCallBack \/ i_callType i = C.ESDTTransferAndExecute \/ i_caller i = SC).
Proof. reflexivity. Qed.
Example C09_pin_dest : forall i,
  c09_dest C.BuiltInFunctionESDTTransfer i = i_rcpt i
  /\ c09_dest C.BuiltInFunctionESDTNFTTransfer i = (if beqb (i_caller i) (i_rcpt i) then argn i 3 else i_rcpt i)
  /\ c09_dest C.BuiltInFunctionMultiESDTNFTTransfer i = (if beqb (i_caller i) (i_rcpt i) then argn i 0 else i_rcpt i).
Proof. intros i. repeat split. Qed.
Example C09_pin_local : forall E i,
  c09_local E C.BuiltInFunctionESDTTransfer i = i_dst i
  /\ c09_local E C.BuiltInFunctionESDTNFTTransfer i
     = (if beqb (i_caller i) (i_rcpt i) then (self_shard E =? shard_of E (argn i 3))%N else true)
  /\ c09_local E C.BuiltInFunctionMultiESDTNFTTransfer i
     = (if beqb (i_caller i) (i_rcpt i) then (self_shard E =? shard_of E (argn i 0))%N else true).
Proof. intros E i. unfold c09_local, c09_dest, c09_sender_side. destruct (beqb (i_caller i) (i_rcpt i)); repeat split. Qed.
(* the thresholds: the generated constants 2 and 4; for the multi transfer the uint64 expression of the Go code over
   the count n read from argument 1 (sender side) resp. 0 (destination side) *)
Example C09_pin_min : forall i,
  c09_min C.BuiltInFunctionESDTTransfer i = C.MinLenArgumentsESDTTransfer
  /\ c09_min C.BuiltInFunctionESDTNFTTransfer i = C.MinLenArgumentsESDTNFTTransfer
  /\ c09_min C.BuiltInFunctionMultiESDTNFTTransfer i =
     (if beqb (i_caller i) (i_rcpt i)
      then u64 (u64 (bigU64 (argn i 1) * C.bif_argumentsPerTransfer) + 2)
      else u64 (u64 (bigU64 (argn i 0) * C.bif_argumentsPerTransfer) + 1)).
Proof. intros i. repeat split. Qed.
Example C09_pin_min_plain : forall i,
  c09_min_plain C.BuiltInFunctionESDTTransfer i = 2%N
  /\ c09_min_plain C.BuiltInFunctionESDTNFTTransfer i = 4%N
  /\ c09_min_plain C.BuiltInFunctionMultiESDTNFTTransfer i =
     (if beqb (i_caller i) (i_rcpt i) then 3 * bigU64 (argn i 1) + 2 else 3 * bigU64 (argn i 0) + 1)%N.
Proof. intros i. repeat split. Qed.

(* ---- 1. main theorem: one statement for the three functions and both sides ----
   If a transfer function succeeds and the balance of an account a under some key k went UP, where a is not the
   caller of the call (for ESDTTransfer no restriction on a), then a is the destination of the transfer, the
   destination is on the executing shard, and it is admissible: the oracle says payable, or the call carries a
   contract call, or it is a callback / transfer-and-execute call, or it comes from the ESDT system contract.
   (The caller of the NFT / multi sender side is the account being debited; under the known finding F4b -- a stored
   entry whose metadata nonce differs from the nonce of its key -- the remainder of its own holding is written back
   under another key of the caller's own account, which is why the caller is excluded; no other account is concerned.) *)
Theorem C09_credit_implies_admissible : forall (E : env), codec_ok (cdc E) -> forall f i s o s' a k,
  is_transfer_fn f = true -> exec E f i s = (Ok o, s') ->
  (f = C.BuiltInFunctionESDTTransfer \/ a <> i_caller i) ->
  (balance E s a k < balance E s' a k)%Z ->
  a = c09_dest f i /\ c09_local E f i = true /\ admissible E i a (c09_min f i).
Proof. exact credit_implies_admissible. Qed.

(* the threshold in plain arithmetic (2 / 4 / 3n+2 / 3n+1): on every accepted call with fewer than 2^64 arguments *)
Theorem C09_min_exact : forall (E : env), codec_ok (cdc E) -> forall f i s o s',
  is_transfer_fn f = true -> exec E f i s = (Ok o, s') -> (alen (i_args i) < two64)%N ->
  c09_min f i = c09_min_plain f i.
Proof. exact c09_min_exact. Qed.

(* "verification is required" is exactly "none of the exemptions applies" *)
Theorem C09_must_verify_payable_iff : forall i minLen,
  must_verify_payable i minLen = true <->
  ~ ((minLen < alen (i_args i))%N \/ i_callType i = C.AsynchronousCallBack
     \/ i_callType i = C.ESDTTransferAndExecute \/ i_caller i = SC).
Proof. exact must_verify_payable_iff. Qed.

(* ---- 2. contrapositive form, including the failing oracle: whenever the destination is on the executing shard and
   no exemption applies, an oracle answer other than "payable" (PayNo or PayErr) makes the call fail ---- *)
Theorem C09_unverified_rejected : forall (E : env), codec_ok (cdc E) -> forall f i s o s',
  is_transfer_fn f = true -> c09_local E f i = true ->
  must_verify_payable i (c09_min f i) = true -> payable E (c09_dest f i) <> PayYes ->
  exec E f i s <> (Ok o, s').
Proof. exact unverified_rejected. Qed.
Theorem C09_oracle_error_is_error : forall (E : env), codec_ok (cdc E) -> forall f i s o s',
  is_transfer_fn f = true -> c09_local E f i = true ->
  must_verify_payable i (c09_min f i) = true -> payable E (c09_dest f i) = PayErr ->
  exec E f i s <> (Ok o, s').
Proof. exact oracle_error_is_error. Qed.
Theorem C09_non_payable_rejected : forall (E : env), codec_ok (cdc E) -> forall f i s o s',
  is_transfer_fn f = true -> c09_local E f i = true ->
  must_verify_payable i (c09_min f i) = true -> payable E (c09_dest f i) = PayNo ->
  exec E f i s <> (Ok o, s').
Proof. exact non_payable_rejected. Qed.

(* ---- 3. destination guards ---- *)
(* a destination on the metachain: ESDTTransfer on either side, the NFT and multi transfer on the sender side *)
Theorem C09_metachain_rejected : forall (E : env), codec_ok (cdc E) -> forall f i s o s',
  is_transfer_fn f = true -> (f = C.BuiltInFunctionESDTTransfer \/ c09_sender_side i = true) ->
  shard_of E (c09_dest f i) = META -> exec E f i s <> (Ok o, s').
Proof. exact metachain_rejected. Qed.
(* NFT and multi transfer to the sender itself or to an address of another length *)
Theorem C09_self_or_wrong_length_rejected : forall (E : env), codec_ok (cdc E) -> forall f i s o s',
  f = C.BuiltInFunctionESDTNFTTransfer \/ f = C.BuiltInFunctionMultiESDTNFTTransfer -> c09_sender_side i = true ->
  c09_dest f i = i_caller i \/ zlen (c09_dest f i) <> zlen (i_caller i) ->
  exec E f i s <> (Ok o, s').
Proof. exact self_or_wrong_length_rejected. Qed.
(* the two sides of the NFT / multi transfer insist on the matching account objects *)
Theorem C09_dest_side_presence : forall (E : env), codec_ok (cdc E) -> forall f i s o s',
  f = C.BuiltInFunctionESDTNFTTransfer \/ f = C.BuiltInFunctionMultiESDTNFTTransfer -> exec E f i s = (Ok o, s') ->
  if c09_sender_side i then i_snd i = true else i_snd i = false /\ i_dst i = true.
Proof. exact dest_side_presence. Qed.

(* ---- 4. on no shard: one step of the world model (Ledger/World.v: origin call, delivery, re-delivery, refund;
   every shard executes with the same oracle [wc_payable c]).  [op_exec c w op] is the (shard, function, input) the
   operation executes; [wbalance c w sh a k] the balance of a under k on shard sh.  If the operation executes a
   transfer function and a balance on ANY shard sh' goes up (a not the caller of the executed call), then sh' is the
   executing shard, a the destination and a is admissible. ---- *)
Theorem C09_world_credit_implies_admissible : forall (c : wcfg), codec_ok (wc_cdc c) -> forall w op sh f i sh' a k,
  op_exec c w op = Some (sh, f, i) -> is_transfer_fn f = true ->
  (f = C.BuiltInFunctionESDTTransfer \/ a <> i_caller i) ->
  (wbalance c w sh' a k < wbalance c (wstep c w op) sh' a k)%Z ->
  sh' = sh /\ a = c09_dest f i /\ c09_local (env_at c sh) f i = true
  /\ admissible (env_at c sh) i a (c09_min f i).
Proof. exact world_credit_implies_admissible. Qed.
Example C09_pin_world : forall c w sh fn i id gas,
  op_exec c w (OCall sh fn i) = Some (sh, fn, i)
  /\ op_exec c w (ODeliver id gas) = op_exec c w (ORedeliver id gas)
  /\ (forall m, find_msg (inflight w) id = Some m ->
        op_exec c w (ODeliver id gas) = Some (wc_shard_of c (m_dest m), m_fn m, deliver_input c m (wc_shard_of c (m_dest m)) gas)
        /\ op_exec c w (ORefund id gas) = Some (wc_shard_of c (m_sender m), m_fn m, refund_input c m (wc_shard_of c (m_sender m)) gas))
  /\ payable (env_at c sh) = wc_payable c.
Proof. intros. split; [reflexivity|]. split; [reflexivity|]. split; [|reflexivity]. intros m Hm. cbn [op_exec]. rewrite Hm. split; reflexivity. Qed.

Print Assumptions C09_credit_implies_admissible.
Print Assumptions C09_min_exact.
Print Assumptions C09_must_verify_payable_iff.
Print Assumptions C09_unverified_rejected.
Print Assumptions C09_oracle_error_is_error.
Print Assumptions C09_non_payable_rejected.
Print Assumptions C09_metachain_rejected.
Print Assumptions C09_self_or_wrong_length_rejected.
Print Assumptions C09_dest_side_presence.
Print Assumptions C09_world_credit_implies_admissible.

(* ---- non-vacuity (ideal_codec, which satisfies codec_ok; same encoder as the production codec model, same decoder on
   every byte string of Go length).  Shard 0; bob lives on shard 1, dave on the metachain; carol is NOT payable, erin's
   oracle query fails, everyone else is payable.  carol holds 2 TOK. ---- *)
Definition C09_alice : bytes := repeat x01 32.
Definition C09_bob : bytes := repeat x02 32.
Definition C09_carol : bytes := repeat x03 32.
Definition C09_dave : bytes := repeat x04 32.
Definition C09_erin : bytes := repeat x05 32.
Definition C09_tok : bytes := str "TOK-a1b2c3"%string.
Definition C09_nft : bytes := str "NFT-d4e5f6"%string.
Definition C09_cfg : xcfg :=
  {| xc_shards := [(C09_bob, 1%N); (C09_dave, C.MetachainShardId)]; xc_shard_default := 0%N;
     xc_pay := [(C09_carol, 1%N); (C09_erin, 2%N)]; xc_pay_default := 0%N;
     xc_dns := []; xc_enable := false; xc_gas := repeat 10%N 22 |}.
Definition C09_E0 : env := env_of C09_cfg 0%N None.
Definition C09_E : env :=
  {| plan := plan C09_E0; cdc := ideal_codec; shard_of := shard_of C09_E0; self_shard := self_shard C09_E0;
     payable := payable C09_E0; dns := dns C09_E0; enable_change := enable_change C09_E0; gas := gas C09_E0 |}.
Lemma C09_E_ok : codec_ok (cdc C09_E). Proof. exact ideal_codec_ok. Qed.
Definition C09_tk (v : Z) : token :=
  {| t_type := C.Fungible; t_value := Some v; t_props := []; t_meta := None; t_reserved := [] |}.
Definition C09_md : metadata :=
  {| md_nonce := 1; md_name := str "n"%string; md_creator := C09_alice; md_royalties := 5; md_hash := str "h"%string;
     md_uris := [str "u"%string]; md_attributes := [] |}.
Definition C09_nf (v : Z) : token :=
  {| t_type := C.NonFungible; t_value := Some v; t_props := []; t_meta := Some C09_md; t_reserved := [] |}.
Definition C09_acct (st : list (bytes * bytes)) : acctl :=
  {| al_store := st; al_balance := 100; al_owner := []; al_username := []; al_reward := 0 |}.
Definition C09_s0 : mstate :=
  state_of [(C09_alice, C09_acct [(P ++ C09_tok, enc_token (C09_tk 5)); (nft_key (P ++ C09_nft) 1, enc_token (C09_nf 3))]);
            (C09_carol, C09_acct [(P ++ C09_tok, enc_token (C09_tk 2))])].
Definition C09_in (caller rcpt : bytes) (args : list bytes) (ct : N) (snd dst : bool) : input :=
  {| i_caller := caller; i_rcpt := rcpt; i_args := args; i_value := 0; i_gas := 100000; i_gasLocked := 0;
     i_callType := ct; i_rae := false; i_snd := snd; i_dst := dst |}.
(* result class and carol's / erin's TOK balance afterwards *)
Definition C09_obs (r : res err output * mstate) (who : bytes) (k : bytes) : option err * Z :=
  (match fst r with Ok _ => None | Err e => Some e | Panic => Some EFault end, balance C09_E (snd r) who k).
Definition C09_multi f who args ct := C09_obs (exec C09_E f (C09_in C09_bob who args ct false true) C09_s0) who (P ++ C09_tok).

(* the repaired defect F6: destination side of a multi transfer, one FUNGIBLE triple (nonce 0), non-payable recipient,
   exactly the minimum number of arguments: rejected, nothing credited.  One more argument (an attached call): accepted
   and credited.  Callback call type: accepted.  Oracle failure: rejected with the oracle's error. *)
Definition C09_fung_args : list bytes := [u64_bytes 1; C09_tok; [x00]; u64_bytes 3].
Example C09_F6_multi_dest_fungible_non_payable_rejected :
  C09_multi C.BuiltInFunctionMultiESDTNFTTransfer C09_carol C09_fung_args C.DirectCall = (Some EAccountNotPayable, 2%Z).
Proof. vm_compute. reflexivity. Qed.
Example C09_multi_dest_fungible_attached_call_accepted :
  C09_multi C.BuiltInFunctionMultiESDTNFTTransfer C09_carol (C09_fung_args ++ [str "fn"%string]) C.DirectCall = (None, 5%Z).
Proof. vm_compute. reflexivity. Qed.
Example C09_multi_dest_fungible_callback_accepted :
  C09_multi C.BuiltInFunctionMultiESDTNFTTransfer C09_carol C09_fung_args C.AsynchronousCallBack = (None, 5%Z).
Proof. vm_compute. reflexivity. Qed.
Example C09_multi_dest_fungible_oracle_error :
  C09_multi C.BuiltInFunctionMultiESDTNFTTransfer C09_erin C09_fung_args C.DirectCall = (Some EPayableOracle, 0%Z).
Proof. vm_compute. reflexivity. Qed.
Example C09_multi_dest_fungible_payable_accepted :
  C09_multi C.BuiltInFunctionMultiESDTNFTTransfer C09_alice C09_fung_args C.DirectCall = (None, 8%Z).
Proof. vm_compute. reflexivity. Qed.
(* the same for the NFT triple of a multi transfer, the single NFT transfer and ESDTTransfer on the destination side *)
Example C09_other_sites_non_payable_rejected :
  fst (C09_multi C.BuiltInFunctionMultiESDTNFTTransfer C09_carol [u64_bytes 1; C09_nft; u64_bytes 1; enc_token (C09_nf 2)] C.DirectCall)
    = Some EAccountNotPayable
  /\ fst (C09_multi C.BuiltInFunctionESDTNFTTransfer C09_carol [C09_nft; u64_bytes 1; u64_bytes 2; enc_token (C09_nf 2)] C.DirectCall)
    = Some EAccountNotPayable
  /\ C09_multi C.BuiltInFunctionESDTTransfer C09_carol [C09_tok; u64_bytes 3] C.DirectCall = (Some EAccountNotPayable, 2%Z)
  /\ C09_multi C.BuiltInFunctionESDTTransfer C09_carol [C09_tok; u64_bytes 3; str "fn"%string] C.DirectCall = (None, 5%Z).
Proof. vm_compute. repeat split. Qed.
(* sender side, same shard: alice -> carol (non-payable) rejected for all three; alice -> metachain, alice -> alice and
   alice -> a 31-byte address rejected *)
Definition C09_snd f args := fst (C09_obs (exec C09_E f (C09_in C09_alice C09_alice args C.DirectCall true true) C09_s0) C09_carol (P ++ C09_tok)).
Example C09_sender_side_rejections :
  C09_snd C.BuiltInFunctionESDTNFTTransfer [C09_nft; u64_bytes 1; u64_bytes 2; C09_carol] = Some EAccountNotPayable
  /\ C09_snd C.BuiltInFunctionMultiESDTNFTTransfer [C09_carol; u64_bytes 1; C09_tok; []; u64_bytes 3] = Some EAccountNotPayable
  /\ C09_snd C.BuiltInFunctionMultiESDTNFTTransfer [C09_carol; u64_bytes 1; C09_tok; []; u64_bytes 3; str "fn"%string] = None
  /\ C09_snd C.BuiltInFunctionESDTNFTTransfer [C09_nft; u64_bytes 1; u64_bytes 2; C09_dave] = Some EInvalidRcvAddr
  /\ C09_snd C.BuiltInFunctionMultiESDTNFTTransfer [C09_dave; u64_bytes 1; C09_tok; []; u64_bytes 3] = Some EInvalidRcvAddr
  /\ C09_snd C.BuiltInFunctionESDTNFTTransfer [C09_nft; u64_bytes 1; u64_bytes 2; C09_alice] = Some EInvalidArguments
  /\ C09_snd C.BuiltInFunctionMultiESDTNFTTransfer [repeat x03 31; u64_bytes 1; C09_tok; []; u64_bytes 3] = Some EInvalidArguments
  /\ fst (C09_obs (exec C09_E C.BuiltInFunctionESDTTransfer (C09_in C09_alice C09_dave [C09_tok; u64_bytes 1] C.DirectCall true false) C09_s0)
            C09_carol (P ++ C09_tok)) = Some EInvalidRcvAddr.
Proof. vm_compute. repeat split. Qed.

(* the hypotheses of the main theorem are satisfiable, and its conclusion is what one expects on the witness: the
   accepted call with an attached call credits carol, and carol is admissible only through the second disjunct *)
Definition C09_wit_i : input := C09_in C09_bob C09_carol (C09_fung_args ++ [str "fn"%string]) C.DirectCall false true.
Definition C09_wit_res : res err output * mstate :=
  Eval vm_compute in exec C09_E C.BuiltInFunctionMultiESDTNFTTransfer C09_wit_i C09_s0.
Lemma C09_wit_exec : exec C09_E C.BuiltInFunctionMultiESDTNFTTransfer C09_wit_i C09_s0 = C09_wit_res.
Proof. vm_compute. reflexivity. Qed.
Example C09_main_theorem_instance :
  exists o s', exec C09_E C.BuiltInFunctionMultiESDTNFTTransfer C09_wit_i C09_s0 = (Ok o, s')
    /\ (balance C09_E C09_s0 C09_carol (P ++ C09_tok) < balance C09_E s' C09_carol (P ++ C09_tok))%Z
    /\ C09_carol = c09_dest C.BuiltInFunctionMultiESDTNFTTransfer C09_wit_i
    /\ admissible C09_E C09_wit_i C09_carol (c09_min C.BuiltInFunctionMultiESDTNFTTransfer C09_wit_i)
    /\ payable C09_E C09_carol = PayNo /\ c09_min C.BuiltInFunctionMultiESDTNFTTransfer C09_wit_i = 4%N
    /\ alen (i_args C09_wit_i) = 5%N.
Proof.
  pose proof C09_wit_exec as Hex. unfold C09_wit_res in Hex.
  match type of Hex with _ = (Ok ?o, ?s') => exists o, s'; set (o0 := o) in *; set (s1 := s') in * end.
  split; [exact Hex|].
  assert (Hlt : (balance C09_E C09_s0 C09_carol (P ++ C09_tok) < balance C09_E s1 C09_carol (P ++ C09_tok))%Z)
    by (vm_compute; reflexivity).
  split; [exact Hlt|].
  assert (Hne : C09_carol <> i_caller C09_wit_i) by (intros Hx; vm_compute in Hx; discriminate Hx).
  destruct (credit_implies_admissible C09_E C09_E_ok C.BuiltInFunctionMultiESDTNFTTransfer C09_wit_i C09_s0 o0 s1
              C09_carol (P ++ C09_tok) eq_refl Hex (or_intror Hne) Hlt) as (Hd & _ & Hadm).
  split; [exact Hd|]. split; [exact Hadm|]. vm_compute. repeat split.
Qed.
Print Assumptions C09_main_theorem_instance.
