(* Property C01, extension: ---- conservation over histories of HONEST operations: no F4b hypothesis ----
   Only statements, each closed by [exact] of a lemma of LedgerProofs/Capstone_*.v; pins; non-vacuity; assumptions.

   Reading guide (the vocabulary of Properties/C01.v, C01_validids.v and C02_supply.v is used unchanged).
   * Properties/C01.v proves conservation for histories of TRANSFER operations under [consistent_along] (F4b excluded
     by hypothesis); C01_validids.v discharges that hypothesis for transfer-only histories whose calls name valid
     identifiers; C02_supply.v accounts for all 23 functions but asks [ok_op] of every step -- F4b-consistency of every
     lookup, freshness of every created nonce, the F8 exclusion -- also of DELIVERED calls.  Here: ONE class of
     operations, [honest_op] (C01c_vocabulary), whose conditions are about the CALL (who calls, on which shard, with
     which presence flags, naming which identifiers) plus two conditions on the state that the caller's node can see
     (freshness of the nonce ESDTNFTCreate is about to issue; F8: the system account holds nothing under the key a pause
     flag is written to); and ONE invariant, [JInv], the conjunction of the world invariants of C01/C02 (WInv'), C15
     (WInv), C11 (PInv), valid identifiers (VInv), C02 (WNonNeg) and a clause about the names of in-flight messages.
     F4b-consistency is DERIVED at every step from VInv and the valid identifiers of the call (C01c_honest_implies_ok_op).
   * C01c_honest_step: one honest operation keeps JInv and moves the total of every protocol key by exactly the stated
     supply change; C01c_conservation_honest_histories: along a history of honest operations none of which is a
     SUCCESSFUL supply operation ([no_supply_ops]: mint / create / add-quantity / burn / wipe / issuing transfer --
     C02_supply.v, C02_ok_op_unfolded), every total is conserved.  The history may interleave transfers, deliveries,
     refunds with role grants, freezes, pauses, metadata updates, SaveKeyValue, failed calls of anything.
   * Hypotheses on the configuration: [codec_ok (wc_cdc c)], [flag_undec (wc_cdc c)] (the 2-byte pause flag does not
     decode as a token entry: true of the protobuf codec and of the ideal codec, C01_flag_undec in C01_validids.v).
   * NOT covered: re-deliveries (F9: [honest_op (ORedeliver ..)] is False); calls naming identifiers that are not of
     the shape ticker '-' 6 bytes (F4b); ESDTPause over a holding of the system account (F8); forged presence flags;
     keys outside the protocol prefix. *)
From Coq.Strings Require Import String.
From Coq Require Import List.
From EV Require Import Base.Bytes Base.Store Base.Monad gen.Consts Codec.Types Codec.Proto Codec.Ideal Codec.CodecOk
  Helpers.Helpers Ledger.Types Ledger.Env Ledger.Funcs Ledger.Transfers Ledger.World Corr.Exec
  LedgerProofs.Defs LedgerProofs.EnvSpec LedgerProofs.WorldDefs LedgerProofs.WorldSpec
  LedgerProofs.Spec_Transfers_Base LedgerProofs.Spec_Transfers_Multi LedgerProofs.Spec_Supply
  LedgerProofs.C01_World LedgerProofs.C01_Step LedgerProofs.C01_Consistent
  LedgerProofs.C02_Effects LedgerProofs.C02_NonNeg LedgerProofs.C02_World LedgerProofs.C05_Footprint
  LedgerProofs.C15_Inv LedgerProofs.C15_World LedgerProofs.NoPanic LedgerProofs.NoPanicWorldEmit LedgerProofs.NoPanicWorld
  LedgerProofs.Supply_Base LedgerProofs.Supply_Calls LedgerProofs.Supply_Step
  LedgerProofs.ValidIds_Id LedgerProofs.ValidIds_Inv LedgerProofs.ValidIds_World
  LedgerProofs.Capstone_Defs LedgerProofs.Capstone_Step LedgerProofs.Capstone_Histories LedgerProofs.Capstone_Check
  LedgerProofs.Capstone_Examples LedgerProofs.Capstone_Decide.
Import ListNotations.

(* ================================================================ *)
(* pins: honest operations and the joint invariant, written out       *)
(* ================================================================ *)
Example C01c_vocabulary : forall (c : wcfg) (w : world) (op : wop) (r : list wop) (sh : N) (fn : bytes) (i : input) id gas,
  (honest_op c w (OCall sh fn i) <-> (alen (i_args i) < 2 ^ 40)%N /\ (user_call c w sh fn i \/ system_call c w sh fn i))
  /\ (honest_op c w (ODeliver id gas) <-> True) /\ (honest_op c w (ORefund id gas) <-> True)
  /\ (honest_op c w (ORedeliver id gas) <-> False)
  /\ (user_call c w sh fn i <->
        (* a transaction of an account of the executing shard, presence flags as the shard table implies *)
        (wc_shard_of c (i_caller i) = sh /\ i_snd i = (wc_shard_of c (i_caller i) =? sh)%N
         /\ i_dst i = (wc_shard_of c (i_rcpt i) =? sh)%N)
        /\ i_caller i <> SC
        (* every identifier the call names is valid: argument 0; the token of every triple of a multi-transfer *)
        /\ (Forall valid_id (named_tokens fn i)
            /\ (fn = C.BuiltInFunctionMultiESDTNFTTransfer -> Forall (fun x => valid_id (rt_tok x)) (multi_snd_triples i)))
        (* ESDTNFTCreate: nothing is held under the nonce about to be issued *)
        /\ (fn = C.BuiltInFunctionESDTNFTCreate ->
            balance (env_at c sh) (mk_state (shard_accts w sh)) (i_caller i)
                    (nft_key (P ++ argn i 0) (create_nonce i (mk_state (shard_accts w sh)))) = 0%Z))
  /\ (system_call c w sh fn i <->
        In fn sys_fns /\ i_caller i = SC /\ i_snd i = false /\ i_dst i = true /\ Forall valid_id (named_tokens fn i)
        (* pause / unpause: addressed to the system account, which holds nothing under the token key (F8) *)
        /\ (fn = C.BuiltInFunctionESDTPause \/ fn = C.BuiltInFunctionESDTUnPause ->
            i_rcpt i = SYS /\ balance (env_at c sh) (mk_state (shard_accts w sh)) SYS (P ++ argn i 0) = 0%Z)
        (* the other seven: the recipient lives on the executing shard *)
        /\ (~ (fn = C.BuiltInFunctionESDTPause \/ fn = C.BuiltInFunctionESDTUnPause) ->
            wc_shard_of c (i_rcpt i) = sh /\ i_rcpt i <> SC)
        (* ESDTSetRole gives roles that are new and pairwise distinct *)
        /\ (fn = C.BuiltInFunctionSetESDTRole -> forall tok, nth_error (i_args i) 0 = Some tok ->
            NoDup (roles_at (env_at c sh) (mk_state (shard_accts w sh)) (i_rcpt i) tok ++ skipn 1 (i_args i))))
  /\ sys_fns = [C.BuiltInFunctionESDTFreeze; C.BuiltInFunctionESDTUnFreeze; C.BuiltInFunctionESDTWipe;
                C.BuiltInFunctionESDTPause; C.BuiltInFunctionESDTUnPause; C.BuiltInFunctionSetESDTRole;
                C.BuiltInFunctionUnSetESDTRole; C.BuiltInFunctionESDTNFTCreateRoleTransfer; C.BuiltInFunctionESDTTransfer]
  /\ (honest_ops c w [] <-> True)
  /\ (honest_ops c w (op :: r) <-> honest_op c w op /\ honest_ops c (wstep c w op) r)
  /\ (JInv c w <->
        WInv' c w /\ C15_World.WInv c w /\ PInv c w /\ VInv c w /\ WNonNeg c w
        /\ Forall (fun m => ~ In (m_fn m) silent_fns) (inflight w))
  /\ silent_fns = [C.BuiltInFunctionESDTNFTAddQuantity; C.BuiltInFunctionESDTNFTBurn; C.BuiltInFunctionESDTNFTAddURI;
                   C.BuiltInFunctionESDTNFTUpdateAttributes; C.BuiltInFunctionESDTNFTCreate;
                   C.BuiltInFunctionESDTPause; C.BuiltInFunctionESDTUnPause; C.BuiltInFunctionUnSetESDTRole].
Proof.
  intros. repeat (split; [reflexivity|]). split; [|reflexivity].
  split; [intros [H1 H2 H3 H4 H5 H6]; auto 10|intros (H1 & H2 & H3 & H4 & H5 & H6); constructor; assumption].
Qed.

(* ================================================================ *)
(* the theorems                                                       *)
(* ================================================================ *)
(* one honest operation: the joint invariant is kept and the total of every protocol key moves by exactly the stated
   supply change (0 for transfers, deliveries, refunds, failed and skipped steps) *)
Theorem C01c_honest_step : forall (c : wcfg), codec_ok (wc_cdc c) -> flag_undec (wc_cdc c) ->
  forall (w : world) (op : wop), JInv c w -> honest_op c w op ->
  JInv c (wstep c w op)
  /\ forall k, pkey k -> total c k (wstep c w op) = (total c k w + supply_delta c w op k)%Z.
Proof. exact honest_step. Qed.

(* F4b is not a hypothesis: for a step that succeeds, C02_supply's [ok_op] (F4b-consistent lookups on the origin side
   of transfers and for the four functions that read an NFT entry, freshness, F8) follows from JInv and honesty *)
Theorem C01c_honest_implies_ok_op : forall (c : wcfg) (w : world) (op : wop) sh fn i o s', JInv c w -> honest_op c w op ->
  step_call c w op = Some (sh, fn, i) -> exec (env_at c sh) fn i (mk_state (shard_accts w sh)) = (Ok o, s') ->
  ok_op c w op.
Proof. exact honest_ok_op. Qed.

(* conservation: honest histories without a successful supply operation conserve every protocol-key total *)
Theorem C01c_conservation_honest_histories : forall (c : wcfg), codec_ok (wc_cdc c) -> flag_undec (wc_cdc c) ->
  forall (w : world) (ops : list wop) (k : bytes),
  JInv c w -> honest_ops c w ops -> no_supply_ops c w ops -> pkey k ->
  total c k (wrun c w ops) = total c k w.
Proof. exact capstone_conservation. Qed.

(* ... and the invariant holds again at the end, so histories compose *)
Theorem C01c_invariant_honest_histories : forall (c : wcfg), codec_ok (wc_cdc c) -> flag_undec (wc_cdc c) ->
  forall (w : world) (ops : list wop) (n : nat), JInv c w -> honest_ops c w ops -> JInv c (wrun c w (firstn n ops)).
Proof. exact capstone_invariant. Qed.

(* the same with the two hypotheses on the history decided by computation *)
Theorem C01c_conservation_checked : forall (c : wcfg), codec_ok (wc_cdc c) -> flag_undec (wc_cdc c) ->
  forall (w : world) (ops : list wop) (x : bytes),
  JInv c w -> honest_ops_b c w ops = true -> no_supply_ops_b c w ops = true ->
  total c (P ++ x) (wrun c w ops) = total c (P ++ x) w.
Proof. exact capstone_conservation_checked. Qed.
Theorem C01c_deciders_sound : forall (c : wcfg) (w : world) (ops : list wop),
  (honest_ops_b c w ops = true -> honest_ops c w ops) /\ (no_supply_ops_b c w ops = true -> no_supply_ops c w ops).
Proof. intros c w ops. exact (conj (honest_ops_b_ok c ops w) (no_supply_ops_b_ok c ops w)). Qed.

(* ================================================================ *)
(* non-vacuity                                                        *)
(* ================================================================ *)
(* (a) the joint invariant holds of the empty world with enough shards *)
Theorem C01c_JInv_empty : forall (c : wcfg) (n : nat), (wc_nshards c <= N.of_nat n)%N -> JInv c (C15_World.empty_world n).
Proof. exact JInv_empty. Qed.
Example C01c_example_config :
  wc_cdc kc = ideal_codec /\ wc_nshards kc = 2%N /\ kw0 = C15_World.empty_world 2
  /\ wc_shard_of kc k_alice = 0%N /\ wc_shard_of kc k_carol = 0%N /\ wc_shard_of kc k_bob = 1%N
  /\ wc_shard_of kc k_dave = 1%N /\ wc_shard_of kc SYS = 0%N /\ wc_payable kc k_dave = PayNo
  /\ codec_ok (wc_cdc kc) /\ flag_undec (wc_cdc kc) /\ JInv kc kw0.
Proof. repeat (split; [reflexivity|]). exact (conj kc_ok (conj kc_flag capstone2_start)). Qed.

(* (b) a transfer-only segment from a NON-EMPTY world.  The world [kw5] is reached from the empty world by: issue of
   100 TOK to alice, role grant, mint of 10, role grant for NFT, creation of NFT#1 (4 units).  The segment: *)
Example C01c_example_start : kw5 = wrun kc kw0 (firstn 5 k_history)
  /\ firstn 5 k_history =
     [ OCall 0 C.BuiltInFunctionESDTTransfer (k_in SC k_alice [k_tok; k_num 100] false true);
       OCall 0 C.BuiltInFunctionSetESDTRole (k_in SC k_alice [k_tok; C.ESDTRoleLocalMint; C.ESDTRoleLocalBurn] false true);
       OCall 0 C.BuiltInFunctionESDTLocalMint (k_in k_alice k_alice [k_tok; k_num 10] true true);
       OCall 0 C.BuiltInFunctionSetESDTRole
         (k_in SC k_alice [k_nft; C.ESDTRoleNFTCreate; C.ESDTRoleNFTAddQuantity; C.ESDTRoleNFTBurn] false true);
       OCall 0 C.BuiltInFunctionESDTNFTCreate
         (k_in k_alice k_alice [k_nft; k_num 4; str "name"%string; k_num 5; str "hash"%string; str "attr"%string;
                                str "uri"%string] true true) ].
Proof. split; reflexivity. Qed.
Example C01c_example_segment :
  k_transfers =
  [ OCall 0 C.BuiltInFunctionESDTTransfer (k_in k_alice k_bob [k_tok; k_num 30] true false);       (* cross-shard *)
    ODeliver 0 k_gas;
    OCall 0 C.BuiltInFunctionESDTNFTTransfer (k_in k_alice k_alice [k_nft; k_num 1; k_num 2; k_bob] true true);
    ODeliver 1 k_gas;
    OCall 0 C.BuiltInFunctionESDTTransfer (k_in k_alice k_dave [k_tok; k_num 5] true false);       (* to a non-payable contract *)
    ODeliver 2 k_gas;                                                                              (* rejected *)
    ORefund 2 k_gas ].
Proof. exact capstone2_transfers_listed. Qed.
(* the hypotheses: decided along the run by vm_compute *)
Example C01c_example_checked : honest_ops_b kc kw5 k_transfers = true /\ no_supply_ops_b kc kw5 k_transfers = true.
Proof. exact capstone2_transfers_checked. Qed.
Example C01c_example_hypotheses : JInv kc kw5 /\ honest_ops kc kw5 k_transfers /\ no_supply_ops kc kw5 k_transfers.
Proof. exact capstone2_transfers_hypotheses. Qed.
(* the conclusion, for every protocol key *)
Example C01c_example_conserved : forall x, total kc (P ++ x) (wrun kc kw5 k_transfers) = total kc (P ++ x) kw5.
Proof. exact capstone2_transfers_conserved. Qed.
(* both sides computed (TOK and NFT#1), the movement inside, and the total while message 0 is in flight *)
Example C01c_example_computed :
  total kc k_kTok kw5 = 110%Z /\ total kc k_kTok (wrun kc kw5 k_transfers) = 110%Z
  /\ total kc k_kN1 kw5 = 4%Z /\ total kc k_kN1 (wrun kc kw5 k_transfers) = 4%Z
  /\ k_bal kw5 0 k_alice k_kTok = 110%Z /\ k_bal (wrun kc kw5 k_transfers) 0 k_alice k_kTok = 80%Z
  /\ k_bal (wrun kc kw5 k_transfers) 1 k_bob k_kTok = 30%Z /\ k_bal (wrun kc kw5 k_transfers) 1 k_dave k_kTok = 0%Z
  /\ k_bal (wrun kc kw5 k_transfers) 0 k_alice k_kN1 = 2%Z /\ k_bal (wrun kc kw5 k_transfers) 1 k_bob k_kN1 = 2%Z
  /\ total kc k_kTok (wrun kc kw5 (firstn 1 k_transfers)) = 110%Z
  /\ k_bal (wrun kc kw5 (firstn 1 k_transfers)) 0 k_alice k_kTok = 80%Z
  /\ length (inflight (wrun kc kw5 (firstn 1 k_transfers))) = 1%nat.
Proof. exact capstone2_transfers_computed. Qed.
(* the full mixed history of 34 operations (Properties/C02_capstone.v lists it) is honest as well; its first three
   operations contain a successful mint, which the [no_supply_ops] decider refuses *)
Example C01c_example_full_history_honest : length k_history2 = 34%nat /\ honest_ops kc kw0 k_history2
  /\ no_supply_ops_b kc kw0 (firstn 3 k_history) = false.
Proof. exact (conj capstone2_length (conj (proj1 capstone2_honest) capstone2_supply_op_refused)). Qed.

(* ---------------- the hypotheses cannot be dropped ---------------- *)
(* the checker refuses a re-delivery (F9) and a transfer naming the F4b identifier "ABC-12345" *)
Example C01c_example_refused :
  honest_op_b kc kw0 (ORedeliver 0 k_gas) = false
  /\ honest_op_b kc kw0 (OCall 0 C.BuiltInFunctionESDTNFTTransfer
                           (k_in k_alice k_alice [str "ABC-12345"%string; k_num 1; k_num 1; k_bob] true true)) = false.
Proof. exact capstone_example_refused. Qed.

Print Assumptions C01c_vocabulary.
Print Assumptions C01c_honest_step.
Print Assumptions C01c_honest_implies_ok_op.
Print Assumptions C01c_conservation_honest_histories.
Print Assumptions C01c_invariant_honest_histories.
Print Assumptions C01c_conservation_checked.
Print Assumptions C01c_deciders_sound.
Print Assumptions C01c_JInv_empty.
Print Assumptions C01c_example_config.
Print Assumptions C01c_example_start.
Print Assumptions C01c_example_segment.
Print Assumptions C01c_example_checked.
Print Assumptions C01c_example_hypotheses.
Print Assumptions C01c_example_conserved.
Print Assumptions C01c_example_computed.
Print Assumptions C01c_example_full_history_honest.
Print Assumptions C01c_example_refused.
