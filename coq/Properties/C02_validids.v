(* Property C02, extension: ---- honest identifiers: the F4b hypothesis discharged ----
   Only statements, each closed by [exact] of a lemma of LedgerProofs/ValidIds_*.v; non-vacuity; assumptions.

   Properties/C02.v states the account-level effect of ESDTNFTAddQuantity / ESDTNFTBurn (and "no balance change"
   for ESDTNFTAddURI / ESDTNFTUpdateAttributes) under [lookup_consistent] (known finding F4b).  Here that hypothesis
   is replaced by the state invariant [ids_valid E s] (every entry under  P ++ x  sits under
   x = tok ++ u64_bytes (tok_nonce t)  for a valid identifier tok; Properties/C01_validids.v:
   C01_valid_ids_definitions_unfolded, preserved by every call that names valid identifiers: C01_ids_valid_exec) and
   [valid_id (argn i 0)]: the token identifier argument has the protocol's shape  ticker-6bytes. *)
From Coq.Strings Require Import String.
From EV Require Import Base.Bytes Base.Store Base.Monad gen.Consts Codec.Types Codec.CodecOk Helpers.Helpers
  Ledger.Types Ledger.Env Ledger.Funcs Ledger.Transfers
  LedgerProofs.Defs LedgerProofs.EnvSpec LedgerProofs.Spec_Transfers_Base LedgerProofs.Spec_Supply
  LedgerProofs.C02_Effects LedgerProofs.C05_Footprint LedgerProofs.C15_Inv LedgerProofs.C01_Consistent
  LedgerProofs.C01_Examples
  LedgerProofs.ValidIds_Id LedgerProofs.ValidIds_Inv LedgerProofs.ValidIds_Exec LedgerProofs.ValidIds_World
  LedgerProofs.ValidIds_Frame LedgerProofs.ValidIds_Examples.

(* ---- honest identifiers: the F4b hypothesis discharged ---- *)

(* ESDTNFTAddQuantity / ESDTNFTBurn, account level: every balance of the post-state *)
Theorem C02_nft_add_quantity_effect_valid_ids : forall (E : env), codec_ok (cdc E) -> forall i s o s',
  exec E C.BuiltInFunctionESDTNFTAddQuantity i s = (Ok o, s') ->
  ids_valid E s -> valid_id (argn i 0) ->
  (0 <= balance E s (i_caller i) (nft_key (P ++ argn i 0) (bigU64 (argn i 1))))%Z ->
  forall a k, balance E s' a k =
    (balance E s a k + (if at_cell a k (i_caller i) (nft_key (P ++ argn i 0) (bigU64 (argn i 1)))
                        then bigZ (argn i 2) else 0))%Z.
Proof. exact supply_balance_effect_valid_ids_nft_add_quantity. Qed.
Theorem C02_nft_burn_effect_valid_ids : forall (E : env), codec_ok (cdc E) -> forall i s o s',
  exec E C.BuiltInFunctionESDTNFTBurn i s = (Ok o, s') ->
  ids_valid E s -> valid_id (argn i 0) ->
  forall a k, balance E s' a k =
    (balance E s a k + (if at_cell a k (i_caller i) (nft_key (P ++ argn i 0) (bigU64 (argn i 1)))
                        then - bigZ (argn i 2) else 0))%Z.
Proof. exact supply_balance_effect_valid_ids_nft_burn. Qed.

(* the 13 other functions leave every token balance unchanged (the F8 exclusion of C02 stays) *)
Theorem C02_other_functions_preserve_balances_valid_ids : forall (E : env), codec_ok (cdc E) -> forall f i s o s',
  exec E f i s = (Ok o, s') -> In f other_funs ->
  ids_valid E s ->
  (f = C.BuiltInFunctionESDTNFTAddURI \/ f = C.BuiltInFunctionESDTNFTUpdateAttributes ->
     valid_id (argn i 0)
     /\ (0 <= balance E s (i_caller i) (nft_key (P ++ argn i 0) (bigU64 (argn i 1))))%Z) ->
  forall a x,
    (f = C.BuiltInFunctionESDTPause \/ f = C.BuiltInFunctionESDTUnPause -> ~ (a = SYS /\ x = argn i 0)) ->
    balance E s' a (P ++ x) = balance E s a (P ++ x).
Proof. exact other_functions_preserve_balances_valid_ids. Qed.

(* the lookup fact they rest on *)
Theorem C02_ids_valid_lookup_consistent : forall (E : env) s a tok n,
  ids_valid E s -> valid_id tok -> lookup_consistent E s a (P ++ tok) n.
Proof. exact ids_valid_lookup_consistent. Qed.

(* non-vacuity (ideal codec): alice holds 3 of "NFA-112233" nonce 1 with both roles; the state is [ids_valid];
   burning 2 leaves 1, adding 4 gives 7; the statements are instantiated by these runs *)
Example C02_valid_ids_example_burn :
  ids_valid EV0 sV /\ valid_id (argn burn_in 0)
  /\ exists o s', exec EV0 C.BuiltInFunctionESDTNFTBurn burn_in sV = (Ok o, s')
    /\ (forall a k, balance EV0 s' a k = (balance EV0 sV a k + (if at_cell a k alice kNfa then - 2 else 0))%Z)
    /\ balance EV0 s' alice kNfa = 1%Z.
Proof. exact (conj exV_state (conj valid_NFA exV_nft_burn)). Qed.
Example C02_valid_ids_example_add :
  exists o s', exec EV0 C.BuiltInFunctionESDTNFTAddQuantity addq_in sV = (Ok o, s')
    /\ (forall a k, balance EV0 s' a k = (balance EV0 sV a k + (if at_cell a k alice kNfa then 4 else 0))%Z)
    /\ balance EV0 s' alice kNfa = 7%Z.
Proof. exact exV_add_quantity_short. Qed.

Print Assumptions C02_nft_add_quantity_effect_valid_ids.
Print Assumptions C02_nft_burn_effect_valid_ids.
Print Assumptions C02_other_functions_preserve_balances_valid_ids.
Print Assumptions C02_ids_valid_lookup_consistent.
Print Assumptions C02_valid_ids_example_burn.
Print Assumptions C02_valid_ids_example_add.
