(* Account storage as a log-structured association list (absent = empty = Go's "deleted"),
   and maps keyed by byte strings with in-place update (keys stay NoDup, sums range over them). *)
From EV Require Import Base.Bytes.

Definition store := list (bytes * bytes).
Fixpoint sget (s : store) (k : bytes) : bytes :=
  match s with [] => [] | (k', v) :: r => if beqb k k' then v else sget r k end.
Definition sput (s : store) (k v : bytes) : store := (k, v) :: s.
Lemma sget_put_eq s k v : sget (sput s k v) k = v.
Proof. simpl. rewrite beqb_refl. reflexivity. Qed.
Lemma sget_put_ne s k k' v : k' <> k -> sget (sput s k v) k' = sget s k'.
Proof. simpl. intros H. rewrite beqb_false; auto. Qed.
Lemma sget_nil k : sget [] k = []. Proof. reflexivity. Qed.
Lemma sget_put s k v k' : sget (sput s k v) k' = if beqb k' k then v else sget s k'.
Proof. reflexivity. Qed.

(* all keys ever written (with duplicates); used to enumerate a store's live entries *)
Definition skeys (s : store) : list bytes := map fst s.
Lemma sget_notin s k : ~ In k (skeys s) -> sget s k = [].
Proof.
  induction s as [|[k' v] r IH]; simpl; intros H; [reflexivity|].
  destruct (beqb_spec k k') as [->|Hne]; [exfalso; apply H; left; reflexivity|].
  apply IH. intros Hin. apply H. right. exact Hin.
Qed.
Lemma skeys_sput s k v : skeys (sput s k v) = k :: skeys s. Proof. reflexivity. Qed.

(* canonical comparison with a listing of the live entries (sorted (key,value) pairs from the harness) *)
Definition store_matches (s : store) (listing : list (bytes * bytes)) : bool :=
  forallb (fun kv => beqb (sget s (fst kv)) (snd kv) && negb (beqb (snd kv) [])) listing
  && forallb (fun k => beqb (sget s k) [] || bytes_in k (map fst listing)) (skeys s).

Global Opaque sget sput.

Section AMap.
  Variable A : Type.
  Variable dflt : A.
  Definition amap := list (bytes * A).
  Fixpoint aget (l : amap) (a : bytes) : A :=
    match l with [] => dflt | (a', x) :: r => if beqb a a' then x else aget r a end.
  Fixpoint ahas (l : amap) (a : bytes) : bool :=
    match l with [] => false | (a', _) :: r => beqb a a' || ahas r a end.
  Fixpoint aput (l : amap) (a : bytes) (x : A) : amap :=
    match l with
    | [] => [(a, x)]
    | (a', y) :: r => if beqb a a' then (a', x) :: r else (a', y) :: aput r a x
    end.

  Lemma aget_aput_eq l a x : aget (aput l a x) a = x.
  Proof.
    induction l as [|[a' y] r IH]; simpl; [rewrite beqb_refl; reflexivity|].
    destruct (beqb a a') eqn:E; simpl; rewrite ?E; auto.
  Qed.
  Lemma aget_aput_ne l a b x : b <> a -> aget (aput l a x) b = aget l b.
  Proof.
    intros Hne. induction l as [|[a' y] r IH]; simpl.
    - rewrite beqb_false; auto.
    - destruct (beqb a a') eqn:E; simpl.
      + apply beqb_true in E. subst a'. rewrite beqb_false; auto.
      + rewrite IH. reflexivity.
  Qed.
  Lemma aget_aput l a b x : aget (aput l a x) b = if beqb b a then x else aget l b.
  Proof.
    destruct (beqb_spec b a) as [->|Hne]; [apply aget_aput_eq|apply aget_aput_ne; auto].
  Qed.

  Lemma in_keys_aput l a x b : In b (map fst (aput l a x)) -> In b (map fst l) \/ b = a.
  Proof.
    induction l as [|[a' y] r IH]; simpl; [intros [H|[]]; auto|].
    destruct (beqb a a'); simpl; intros [H|H]; auto. destruct (IH H); auto.
  Qed.
  Lemma keys_aput l a x : NoDup (map fst l) -> NoDup (map fst (aput l a x)).
  Proof.
    induction l as [|[a' y] r IH]; simpl; intros Hnd.
    - constructor; [intros []|constructor].
    - inversion Hnd; subst. destruct (beqb a a') eqn:E; simpl; [exact Hnd|].
      constructor; [|auto]. intros Hin.
      destruct (in_keys_aput _ _ _ _ Hin) as [H|H]; [contradiction|].
      subst. rewrite beqb_refl in E. discriminate.
  Qed.

  Variable f : A -> Z.
  Hypothesis f_dflt : f dflt = 0%Z.
  Fixpoint asum (l : amap) : Z := match l with [] => 0%Z | (_, x) :: r => (f x + asum r)%Z end.
  Lemma asum_aput l a x : NoDup (map fst l) -> asum (aput l a x) = (asum l - f (aget l a) + f x)%Z.
  Proof.
    induction l as [|[a' y] r IH]; simpl; intros Hnd.
    - rewrite f_dflt. lia.
    - inversion Hnd; subst. destruct (beqb a a') eqn:E; simpl.
      + lia.
      + rewrite IH by assumption. lia.
  Qed.
End AMap.
Arguments aget {A}. Arguments aput {A}. Arguments ahas {A}. Arguments asum {A}.
