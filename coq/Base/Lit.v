(* Compact literals for generated case files: "0a1b"%hex is decoded when the file is PARSED
   (String Notation), so the checked term is a plain list of byte constructors. *)
From EV Require Import Base.Bytes.

Inductive hexlit := HexLit (l : list byte).
Definition hexlit_parse (s : list byte) : option hexlit :=
  match hex_dec s with Some l => Some (HexLit l) | None => None end.
Definition hexlit_print (h : hexlit) : list byte := match h with HexLit l => hex_enc l end.
Declare Scope hex_scope.
Delimit Scope hex_scope with hex.
String Notation hexlit hexlit_parse hexlit_print : hex_scope.
Definition ub (h : hexlit) : bytes := match h with HexLit l => l end.
