(* Go semantics vocabulary for the GENERATED file gen/Pure.v (tools/srcgen/pure.go translates a whitelist of
   small pure Go functions of /repo into Gallina on every check run; see Helpers/PureTie_*.v for the theorems
   that tie the regenerated definitions to the hand-written model).

   Conventions of the translation:
     []byte            bytes = list byte (a nil slice and an empty slice are both []; capacity is not modelled)
     [][]byte          list bytes (only its length is used)
     uint8/32/64       N, always below 2^8 / 2^32 / 2^64; + - * wrap explicitly
     int               Z, 64-bit two's complement; + - * wrap explicitly
     bool              bool
     struct T          a generated Record T
     *T                option T, None = nil pointer
     *pkg.V            option V for a generated "view" Record V holding exactly the fields of the struct that are read
     type T int        as int (named integer types are kept apart by pure.go's checker, not in Gallina)
     interface value   bool "is nil" (only use: check.IfNil)
     error             goerror
     a function body   option R, None = run-time panic (Go spec, "Run-time panics")
   Every combinator below quotes the sentence of the Go specification it models. *)
From Coq.Strings Require Import String.
From EV Require Import Base.Bytes.

(* what pure.go emits instead of a function it cannot translate *)
Inductive unrecognised := Unrecognised (what : string).

(* ---- the panic monad ---- *)
Definition go_ret {A} (a : A) : option A := Some a.
Definition go_bind {A B} (m : option A) (k : A -> option B) : option B :=
  match m with Some a => k a | None => None end.
Module GoNotations.
  Notation "x <- m ;; k" := (go_bind m (fun x => k)) (at level 61, m at next level, right associativity).
  Notation "' pat <- m ;; k" := (go_bind m (fun x => match x with pat => k end))
    (at level 61, pat pattern, m at next level, right associativity).
End GoNotations.

(* ---- integers ---- *)
(* "For unsigned integer values, the operations +, -, *, and << are computed modulo 2^n" *)
Definition u8_add (a b : N) : N := ((a + b) mod 256)%N.
Definition u8_sub (a b : N) : N := ((a + 256 - b) mod 256)%N.              (* operands < 2^8 *)
Definition u8_mul (a b : N) : N := ((a * b) mod 256)%N.
Definition u32_add (a b : N) : N := ((a + b) mod two32)%N.
Definition u32_sub (a b : N) : N := ((a + two32 - b) mod two32)%N.          (* operands < 2^32 *)
Definition u32_mul (a b : N) : N := ((a * b) mod two32)%N.
Definition u64_add (a b : N) : N := ((a + b) mod two64)%N.
Definition u64_sub (a b : N) : N := ((a + two64 - b) mod two64)%N.          (* operands < 2^64 *)
Definition u64_mul (a b : N) : N := ((a * b) mod two64)%N.
(* & and | never leave the operand width *)
Definition u_and (a b : N) : N := N.land a b.
Definition u_or (a b : N) : N := N.lor a b.
(* "For signed integers, the operations +, -, *, /, and << may legally overflow and the resulting value exists and
   is deterministically defined by the signed integer representation"; int is 64 bits on the supported platforms *)
Definition two63Z : Z := 9223372036854775808%Z.
Definition two64Z : Z := 18446744073709551616%Z.
Definition wrap_int (z : Z) : Z := ((z + two63Z) mod two64Z - two63Z)%Z.
Definition int_add (a b : Z) : Z := wrap_int (a + b).
Definition int_sub (a b : Z) : Z := wrap_int (a - b).
Definition int_mul (a b : Z) : Z := wrap_int (a * b).

(* ---- byte slices ---- *)
(* len(s): "The length of a slice s can be discovered by the built-in function len"; an int (any element type) *)
Definition go_len {A} (s : list A) : Z := Z.of_nat (length s).
(* s[i]: "the index x is in range if 0 <= x < len(a), otherwise it is out of range ... a run-time panic occurs" *)
Definition go_index (s : bytes) (i : Z) : option N :=
  if ((0 <=? i) && (i <? go_len s))%Z then option_map b2n (nth_error s (Z.to_nat i)) else None.
(* s[lo:hi]: "the indices are in range if 0 <= low <= high <= cap(a), otherwise ... a run-time panic occurs";
   the model has cap = len, i.e. it reports a panic for len < high <= cap where Go would expose spare capacity *)
Definition go_slice (s : bytes) (lo hi : Z) : option bytes :=
  if ((0 <=? lo) && (lo <=? hi) && (hi <=? go_len s))%Z
  then Some (firstn (Z.to_nat (hi - lo)) (skipn (Z.to_nat lo) s)) else None.
(* s[:hi]: "a missing low index defaults to zero" *)
Definition go_slice_to (s : bytes) (hi : Z) : option bytes :=
  if ((0 <=? hi) && (hi <=? go_len s))%Z then Some (firstn (Z.to_nat hi) s) else None.
(* s[lo:]: "a missing high index defaults to the length of the sliced operand" *)
Definition go_slice_from (s : bytes) (lo : Z) : option bytes :=
  if ((0 <=? lo) && (lo <=? go_len s))%Z then Some (skipn (Z.to_nat lo) s) else None.
(* make([]byte, n): "a slice of length n" of zero bytes; "if n is negative or larger than max at run time, a
   run-time panic occurs" (failure to allocate a huge slice is not modelled) *)
Definition go_make_bytes (n : Z) : option bytes :=
  if (0 <=? n)%Z then Some (repeat x00 (Z.to_nat n)) else None.
(* s[i] = v on a slice that no other variable aliases (pure.go admits this only for a variable made by make):
   the updated slice; out of range panics as for s[i]; v is a uint8 *)
Definition go_set_index (s : bytes) (i : Z) (v : N) : option bytes :=
  if ((0 <=? i) && (i <? go_len s))%Z
  then Some (firstn (Z.to_nat i) s ++ n2b v :: skipn (S (Z.to_nat i)) s) else None.
(* append(a, b...): "appends zero or more values to a slice and returns the resulting slice".  VALUE of the result
   only.  Whether the result shares the underlying array of a ("if the capacity of s is not large enough ... append
   allocates a new, sufficiently large underlying array; otherwise, append re-uses the underlying array"), i.e. what
   other slices of that array observe afterwards, is NOT modelled here: that is SliceModel / gen/AppendSites.v (C13). *)
Definition go_append (a b : bytes) : bytes := a ++ b.
(* []byte{e1, ..., en}: "a new slice value each time it is evaluated", of length n, holding the (uint8) values *)
Definition go_bytes_lit (l : list N) : bytes := List.map n2b l.
(* big.NewInt(k).SetUint64(n).Bytes(): "Bytes returns the absolute value of x as a big-endian byte slice" -- minimal
   length, empty for 0: N_to_be of Base/Bytes.v (be_to_N_to_be; the model's u64_bytes) *)
Definition go_big_uint64_bytes (n : N) : bytes := N_to_be n.
(* bytes.Equal: "reports whether a and b are the same length and contain the same bytes. A nil argument is
   equivalent to an empty slice." *)
Definition bytes_equal (a b : bytes) : bool := beqb a b.

(* bytes.HasPrefix(s, prefix): "reports whether the byte slice s begins with prefix", i.e. len(prefix) <= len(s) and
   s[:len(prefix)] equals prefix; a nil argument is an empty slice *)
Definition bytes_has_prefix (s p : bytes) : bool :=
  if (length p <=? length s)%nat then beqb (firstn (length p) s) p else false.
(* bytes.HasSuffix(s, suffix): "reports whether the byte slice s ends with suffix", i.e. len(suffix) <= len(s) and
   s[len(s)-len(suffix):] equals suffix *)
Definition bytes_has_suffix (s p : bytes) : bool :=
  if (length p <=? length s)%nat then beqb (skipn (length s - length p) s) p else false.
(* bytes.Compare(a, b) == 0 is translated as bytes_equal a b ("The result will be 0 if a == b ... A nil argument is
   equivalent to an empty slice"); no other use of bytes.Compare is translated *)

(* ---- pointers, errors ---- *)
(* p.f / *p: "if p is nil, a run-time panic occurs" *)
Definition go_deref {A} (p : option A) : option A := p.
(* an error value: nil or one of the package-level errors.New(...) variables, identified by its name *)
Inductive goerror := go_nil | go_err (name : string).

(* ---- loops: for i := a; i < e; i++ { body } where the body assigns neither i nor any variable that e mentions,
   and has no break / continue (pure.go checks this), so the number of iterations is known BEFORE the loop:
   max(0, e - a).  `for i := 0; i < len(x); i++` and `for i[, b] := range x` are the instance a = 0, e = len(x)
   ("the range expression is evaluated once"; b is x[i] read at the start of the iteration).
   body i = None: panic; Some (Some r): `return r` inside the body; Some None: fell through to the post statement.
   Structural recursion on the count (no fuel); i + 1 cannot overflow because i < e <= max int. *)
Fixpoint go_for_from {R} (count : nat) (i : Z) (body : Z -> option (option R)) : option (option R) :=
  match count with
  | O => Some None
  | S c => match body i with
           | None => None
           | Some (Some r) => Some (Some r)
           | Some None => go_for_from c (i + 1)%Z body
           end
  end.
Definition go_for_upto {R} (n : nat) (body : Z -> option (option R)) : option (option R) := go_for_from n 0%Z body.
Definition go_for_range {R} (a e : Z) (body : Z -> option (option R)) : option (option R) :=
  go_for_from (Z.to_nat (e - a)) a body.
Definition go_break {R} (r : R) : option (option R) := Some (Some r).
Definition go_continue {R} : option (option R) := Some None.
