(* Result type with explicit Go panics, and a state-and-error monad with inversion lemmas. *)
From EV Require Import Base.Bytes.

Inductive res (E A : Type) := Ok (a : A) | Err (e : E) | Panic.
Arguments Ok {E A}. Arguments Err {E A}. Arguments Panic {E A}.

Section M.
  Context {E S : Type}.
  Definition M (A : Type) := S -> res E A * S.
  Definition ret {A} (a : A) : M A := fun s => (Ok a, s).
  Definition fail {A} (e : E) : M A := fun s => (Err e, s).
  Definition panic {A} : M A := fun s => (Panic, s).
  Definition bind {A B} (m : M A) (f : A -> M B) : M B :=
    fun s => match m s with
             | (Ok a, s') => f a s'
             | (Err e, s') => (Err e, s')
             | (Panic, s') => (Panic, s')
             end.
  Definition guard (b : bool) (e : E) : M unit := if b then ret tt else fail e.
  Definition get : M S := fun s => (Ok s, s).
  Definition put (s : S) : M unit := fun _ => (Ok tt, s).
  Definition modify (f : S -> S) : M unit := fun s => (Ok tt, f s).
  (* run m, ignore its error (Go: `_, _ = f()`), keep going with a default *)
  Definition lift_opt {A} (o : option A) (e : E) : M A := match o with Some a => ret a | None => fail e end.
  Definition opt_or_panic {A} (o : option A) : M A := match o with Some a => ret a | None => panic end.

  Lemma bind_ok {A B} (m : M A) (f : A -> M B) s b s' :
    bind m f s = (Ok b, s') -> exists a s1, m s = (Ok a, s1) /\ f a s1 = (Ok b, s').
  Proof. unfold bind. destruct (m s) as [[a|e|] s1]; intros H; try discriminate. eauto. Qed.
  Lemma guard_ok b e s u s' : guard b e s = (Ok u, s') -> b = true /\ s' = s.
  Proof. unfold guard, ret, fail. destruct b; intros H; inversion H; auto. Qed.
  Lemma ret_ok {A} (a : A) s b s' : ret a s = (Ok b, s') -> b = a /\ s' = s.
  Proof. unfold ret. intros H; inversion H; auto. Qed.
  Lemma fail_ok {A} e s (b : A) s' : fail e s = (Ok b, s') -> False.
  Proof. unfold fail. discriminate. Qed.
  Lemma panic_ok {A} s (b : A) s' : panic s = (Ok b, s') -> False.
  Proof. unfold panic. discriminate. Qed.
  Lemma get_ok s x s' : get s = (Ok x, s') -> x = s /\ s' = s.
  Proof. unfold get. intros H; inversion H; auto. Qed.
  Lemma put_ok x s u s' : put x s = (Ok u, s') -> s' = x.
  Proof. unfold put. intros H; inversion H; auto. Qed.
  Lemma modify_ok f s u s' : modify f s = (Ok u, s') -> s' = f s.
  Proof. unfold modify. intros H; inversion H; auto. Qed.
  Lemma lift_opt_ok {A} (o : option A) e s a s' : lift_opt o e s = (Ok a, s') -> o = Some a /\ s' = s.
  Proof. destruct o; simpl; unfold ret, fail; intros H; inversion H; auto. Qed.
  Lemma opt_or_panic_ok {A} (o : option A) s a s' : opt_or_panic o s = (Ok a, s') -> o = Some a /\ s' = s.
  Proof. destruct o; simpl; unfold ret, panic; intros H; inversion H; auto. Qed.

  (* panic-freedom composition *)
  Definition is_panic {A} (r : res E A * S) : Prop := fst r = Panic.
  Lemma bind_panic {A B} (m : M A) (f : A -> M B) s :
    is_panic (bind m f s) -> is_panic (m s) \/ exists a s1, m s = (Ok a, s1) /\ is_panic (f a s1).
  Proof.
    unfold bind, is_panic. destruct (m s) as [[a|e|] s1] eqn:E0; simpl; intros H; eauto; discriminate.
  Qed.
End M.

Notation "x <- m ;; f" := (bind m (fun x => f)) (at level 61, m at next level, right associativity).
Notation "' pat <- m ;; f" := (bind m (fun x => match x with pat => f end))
  (at level 61, pat pattern, m at next level, right associativity).
Notation "m ;;; f" := (bind m (fun _ => f)) (at level 61, right associativity).

Ltac minv_step :=
  match goal with
  | H : bind _ _ _ = (Ok _, _) |- _ => apply bind_ok in H; destruct H as (? & ? & ? & ?)
  | H : guard _ _ _ = (Ok _, _) |- _ => apply guard_ok in H; destruct H as [? ?]; subst
  | H : ret _ _ = (Ok _, _) |- _ => apply ret_ok in H; destruct H as [? ?]; subst
  | H : fail _ _ = (Ok _, _) |- _ => apply fail_ok in H; contradiction
  | H : panic _ = (Ok _, _) |- _ => apply panic_ok in H; contradiction
  | H : get _ = (Ok _, _) |- _ => apply get_ok in H; destruct H as [? ?]; subst
  | H : put _ _ = (Ok _, _) |- _ => apply put_ok in H; subst
  | H : modify _ _ = (Ok _, _) |- _ => apply modify_ok in H; subst
  | H : lift_opt _ _ _ = (Ok _, _) |- _ => apply lift_opt_ok in H; destruct H as [? ?]; subst
  | H : opt_or_panic _ _ = (Ok _, _) |- _ => apply opt_or_panic_ok in H; destruct H as [? ?]; subst
  end.
Ltac minv := repeat minv_step.
