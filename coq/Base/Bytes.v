(* Byte strings: Go []byte / string values are [list byte]; big-endian integers; hex.
   Nothing here is specific to the repository. *)
From Coq Require Export List NArith ZArith Lia Bool.
From Coq Require Export ZifyN ZifyNat ZifyBool.
From Coq.Strings Require Export Byte.
From Coq.Strings Require String Ascii.
Delimit Scope string_scope with string.
Export ListNotations.
Ltac Zify.zify_post_hook ::= Z.div_mod_to_equations.

Definition bytes := list byte.

Definition b2n (b : byte) : N := Byte.to_N b.
Definition n2b (n : N) : byte := match Byte.of_N (n mod 256) with Some b => b | None => x00 end.

Lemma b2n_lt b : (b2n b < 256)%N.
Proof. pose proof (Byte.to_N_bounded b). unfold b2n. lia. Qed.
Lemma b2n_n2b n : (n < 256)%N -> b2n (n2b n) = n.
Proof.
  intros H. unfold b2n, n2b. rewrite N.mod_small by lia.
  destruct (Byte.of_N n) eqn:E.
  - apply Byte.to_of_N in E. auto.
  - exfalso. pose proof (Byte.of_N_None_iff n) as H0. rewrite E in H0.
    destruct H0 as [H0 _]. specialize (H0 eq_refl). lia.
Qed.
Lemma n2b_b2n b : n2b (b2n b) = b.
Proof.
  unfold n2b, b2n. rewrite N.mod_small by (pose proof (Byte.to_N_bounded b); lia).
  rewrite Byte.of_to_N. reflexivity.
Qed.
Lemma b2n_inj a b : b2n a = b2n b -> a = b.
Proof. intros H. rewrite <- (n2b_b2n a), <- (n2b_b2n b), H. reflexivity. Qed.

(* equality *)
Definition byte_eqb (a b : byte) : bool := N.eqb (b2n a) (b2n b).
Lemma byte_eqb_true a b : byte_eqb a b = true <-> a = b.
Proof.
  unfold byte_eqb. rewrite N.eqb_eq. split; [apply b2n_inj|intros ->; reflexivity].
Qed.
Fixpoint beqb (a b : bytes) : bool :=
  match a, b with
  | [], [] => true
  | x :: a', y :: b' => byte_eqb x y && beqb a' b'
  | _, _ => false
  end.
Lemma beqb_true a b : beqb a b = true <-> a = b.
Proof.
  revert b. induction a as [|x a IH]; destruct b as [|y b]; simpl; split; intros H;
    try reflexivity; try discriminate.
  - apply andb_prop in H. destruct H as [H1 H2]. apply byte_eqb_true in H1. apply IH in H2. congruence.
  - inversion H; subst. apply andb_true_intro. split; [apply byte_eqb_true; reflexivity|apply IH; reflexivity].
Qed.
Lemma beqb_refl a : beqb a a = true. Proof. apply beqb_true; reflexivity. Qed.
Lemma beqb_false a b : a <> b -> beqb a b = false.
Proof. intros H; destruct (beqb a b) eqn:E; [apply beqb_true in E; congruence|reflexivity]. Qed.
Lemma beqb_false_iff a b : beqb a b = false <-> a <> b.
Proof.
  split; [intros H E; subst; rewrite beqb_refl in H; discriminate|apply beqb_false].
Qed.
Lemma beqb_sym a b : beqb a b = beqb b a.
Proof.
  destruct (beqb a b) eqn:E.
  - apply beqb_true in E. subst. symmetry. apply beqb_refl.
  - symmetry. apply beqb_false. intros ->. rewrite beqb_refl in E. discriminate.
Qed.
Lemma beqb_spec a b : reflect (a = b) (beqb a b).
Proof. destruct (beqb a b) eqn:E; constructor; [apply beqb_true; auto|apply beqb_false_iff; auto]. Qed.

Definition bytes_in (x : bytes) (l : list bytes) : bool := existsb (beqb x) l.
Lemma bytes_in_true x l : bytes_in x l = true <-> In x l.
Proof.
  unfold bytes_in. rewrite existsb_exists. split.
  - intros (y & Hy & E). apply beqb_true in E. subst. exact Hy.
  - intros H. exists x. split; [exact H|apply beqb_refl].
Qed.

(* big-endian integers: big.Int.SetBytes / Bytes *)
Definition be_to_N (l : bytes) : N := fold_left (fun acc b => (acc * 256 + b2n b)%N) l 0%N.

Fixpoint le_digits (fuel : nat) (n : N) : bytes :=
  match fuel with
  | O => []
  | S f => if (n =? 0)%N then [] else n2b (n mod 256) :: le_digits f (n / 256)
  end.
Definition N_to_be (n : N) : bytes := rev (le_digits (N.size_nat n) n).

Definition u64 (n : N) : N := (n mod 18446744073709551616)%N.
Definition u32 (n : N) : N := (n mod 4294967296)%N.
Definition two64 : N := 18446744073709551616%N.
Definition two32 : N := 4294967296%N.

Lemma fold_be_app l acc b :
  fold_left (fun acc b => (acc * 256 + b2n b)%N) (l ++ [b]) acc =
  (fold_left (fun acc b => (acc * 256 + b2n b)%N) l acc * 256 + b2n b)%N.
Proof. rewrite fold_left_app. reflexivity. Qed.

Lemma be_to_N_app l b : be_to_N (l ++ [b]) = (be_to_N l * 256 + b2n b)%N.
Proof. apply fold_be_app. Qed.

Lemma le_digits_value fuel : forall n, (n < 2 ^ N.of_nat fuel)%N ->
  be_to_N (rev (le_digits fuel n)) = n.
Proof.
  induction fuel as [|f IH]; intros n Hn.
  - simpl in *. assert (n = 0%N) by lia. subst. reflexivity.
  - cbn [le_digits]. destruct (n =? 0)%N eqn:E.
    + apply N.eqb_eq in E. subst. reflexivity.
    + cbn [rev]. rewrite be_to_N_app. rewrite IH.
      * rewrite b2n_n2b by (apply N.mod_upper_bound; lia).
        pose proof (N.div_mod n 256). lia.
      * rewrite Nnat.Nat2N.inj_succ, N.pow_succ_r' in Hn.
        apply N.div_lt_upper_bound; [lia|].
        assert (2 ^ N.of_nat f <= 128 * 2 ^ N.of_nat f)%N by nia. nia.
Qed.

Lemma size_nat_bound n : (n < 2 ^ N.of_nat (N.size_nat n))%N.
Proof.
  destruct n as [|p]; [simpl; lia|].
  cbn [N.size_nat]. induction p as [p IH|p IH|]; cbn [Pos.size_nat].
  - rewrite Nnat.Nat2N.inj_succ, N.pow_succ_r'. lia.
  - rewrite Nnat.Nat2N.inj_succ, N.pow_succ_r'. lia.
  - reflexivity.
Qed.

Theorem be_to_N_to_be n : be_to_N (N_to_be n) = n.
Proof. unfold N_to_be. apply le_digits_value. apply size_nat_bound. Qed.

Lemma N_to_be_0 : N_to_be 0 = []. Proof. reflexivity. Qed.

(* hex: encoding/hex.EncodeToString (lower case) and DecodeString (either case, even length) *)
Definition hexdigit (n : N) : byte := if (n <? 10)%N then n2b (48 + n) else n2b (87 + n).
Definition hexval (b : byte) : option N :=
  let c := b2n b in
  if ((48 <=? c) && (c <=? 57))%N then Some (c - 48)%N
  else if ((97 <=? c) && (c <=? 102))%N then Some (c - 87)%N
  else if ((65 <=? c) && (c <=? 70))%N then Some (c - 55)%N
  else None.
Fixpoint hex_enc (l : bytes) : bytes :=
  match l with
  | [] => []
  | b :: r => hexdigit (b2n b / 16) :: hexdigit (b2n b mod 16) :: hex_enc r
  end.
Fixpoint hex_dec (l : bytes) : option bytes :=
  match l with
  | [] => Some []
  | [_] => None
  | h :: lo :: r =>
    match hexval h, hexval lo, hex_dec r with
    | Some a, Some b, Some t => Some (n2b (a * 16 + b) :: t)
    | _, _, _ => None
    end
  end.

Lemma hexval_hexdigit n : (n < 16)%N -> hexval (hexdigit n) = Some n.
Proof.
  intros H. unfold hexval, hexdigit. destruct (n <? 10)%N eqn:E.
  - rewrite b2n_n2b by lia. replace ((48 <=? 48 + n) && (48 + n <=? 57))%N with true by lia. f_equal. lia.
  - rewrite b2n_n2b by lia. replace ((48 <=? 87 + n) && (87 + n <=? 57))%N with false by lia.
    replace ((97 <=? 87 + n) && (87 + n <=? 102))%N with true by lia. f_equal. lia.
Qed.

Theorem hex_roundtrip l : hex_dec (hex_enc l) = Some l.
Proof.
  induction l as [|b r IH]; [reflexivity|]. cbn [hex_enc hex_dec].
  pose proof (b2n_lt b).
  rewrite !hexval_hexdigit by (try apply N.div_lt_upper_bound; try apply N.mod_upper_bound; lia).
  rewrite IH. f_equal. f_equal.
  replace (b2n b / 16 * 16 + b2n b mod 16)%N with (b2n b) by (pose proof (N.div_mod (b2n b) 16); lia).
  apply n2b_b2n.
Qed.

(* literals for case files and constants: ASCII strings and hex strings *)
Definition byte_of_ascii (a : Ascii.ascii) : byte := n2b (Ascii.N_of_ascii a).
Fixpoint str (s : String.string) : bytes :=
  match s with String.EmptyString => [] | String.String a r => byte_of_ascii a :: str r end.
Definition hx (s : String.string) : bytes := match hex_dec (str s) with Some b => b | None => [] end.

Definition prefix_of (p l : bytes) : bool := beqb (firstn (length p) l) p.
Lemma prefix_of_app p r : prefix_of p (p ++ r) = true.
Proof. unfold prefix_of. rewrite firstn_app, Nat.sub_diag, firstn_all. simpl. rewrite app_nil_r. apply beqb_refl. Qed.
Lemma prefix_of_true p l : prefix_of p l = true <-> exists r, l = p ++ r.
Proof.
  split.
  - unfold prefix_of. intros H. apply beqb_true in H. exists (skipn (length p) l).
    rewrite <- H at 1. symmetry. apply firstn_skipn.
  - intros [r ->]. apply prefix_of_app.
Qed.

Definition repeat_byte (b : byte) (n : nat) : bytes := repeat b n.
Definition all_byte (b : byte) (l : bytes) : bool := forallb (byte_eqb b) l.
