(* C18 — activation follows confirmed epochs.
   Model of atomic/flag.go (sequential view: every method is one sync/atomic primitive) and of
   builtInFunctions/baseEnabled.go (baseEnabled / baseAlwaysActive), line by line. *)
From EV Require Import Base.Bytes.
Local Open Scope N_scope.

(* ---- atomic/flag.go : type Flag struct { value uint32 } ---- *)
Definition flag := N.
Definition flag_zero : flag := 0.                                   (* atomic.Flag{} *)
(* Set: previousValue := atomic.SwapUint32(&flag.value, 1); return previousValue == 1 *)
Definition flag_set (f : flag) : flag * bool := (1, f =? 1).
(* Unset: atomic.StoreUint32(&flag.value, 0) *)
Definition flag_unset (f : flag) : flag := 0.
(* IsSet: atomic.LoadUint32(&flag.value) == 1 *)
Definition flag_is_set (f : flag) : bool := f =? 1.
(* Toggle(set): if set { flag.Set() } else { flag.Unset() } *)
Definition flag_toggle (set : bool) (f : flag) : flag := if set then fst (flag_set f) else flag_unset f.

(* ---- builtInFunctions/baseEnabled.go ---- *)
Inductive activity :=
| AlwaysActive                       (* embeds baseAlwaysActive: no EpochConfirmed, never registered *)
| Enabled (activationEpoch : N).     (* embeds *baseEnabled, registered with the epoch notifier *)

Record fn_state := { kind : activity; flagActivated : flag }.

(* constructor: flagActivated: atomic.Flag{} *)
Definition init (k : activity) : fn_state := {| kind := k; flagActivated := flag_zero |}.

(* EpochConfirmed(epoch, _): b.flagActivated.Toggle(epoch >= b.activationEpoch) *)
Definition confirm (s : fn_state) (epoch : N) : fn_state :=
  match kind s with
  | AlwaysActive => s
  | Enabled a => {| kind := kind s; flagActivated := flag_toggle (a <=? epoch) (flagActivated s) |}
  end.

(* IsActive *)
Definition is_active (s : fn_state) : bool :=
  match kind s with
  | AlwaysActive => true
  | Enabled _ => flag_is_set (flagActivated s)
  end.

(* what an observer calling IsActive after every notification sees *)
Fixpoint trace (s : fn_state) (es : list N) : list bool :=
  match es with
  | [] => []
  | e :: r => is_active (confirm s e) :: trace (confirm s e) r
  end.

(* ---- proofs ---- *)
Lemma flag_toggle_is_set b f : flag_is_set (flag_toggle b f) = b.
Proof. destruct b; reflexivity. Qed.

Lemma kind_confirm s e : kind (confirm s e) = kind s.
Proof. unfold confirm. destruct (kind s) eqn:E; [exact E|reflexivity]. Qed.

Lemma kind_fold es : forall s, kind (fold_left confirm es s) = kind s.
Proof. induction es as [|e r IH]; intros s; simpl; [reflexivity|]. rewrite IH. apply kind_confirm. Qed.

Lemma is_active_confirm s e a : kind s = Enabled a -> is_active (confirm s e) = (a <=? e).
Proof.
  intros K. unfold is_active. rewrite kind_confirm, K. unfold confirm. rewrite K. simpl.
  apply flag_toggle_is_set.
Qed.

Theorem inactive_before_first_notification a : is_active (init (Enabled a)) = false.
Proof. reflexivity. Qed.

Theorem active_iff_last_epoch a es d :
  es <> [] -> is_active (fold_left confirm es (init (Enabled a))) = (a <=? last es d).
Proof.
  intros Hne. destruct (exists_last Hne) as [es' [e ->]].
  rewrite fold_left_app, last_last. simpl.
  apply is_active_confirm. rewrite kind_fold. reflexivity.
Qed.

(* the same for an arbitrary reachable state, not only the initial one *)
Theorem active_iff_last_epoch_from s a es d :
  kind s = Enabled a -> es <> [] -> is_active (fold_left confirm es s) = (a <=? last es d).
Proof.
  intros K Hne. destruct (exists_last Hne) as [es' [e ->]].
  rewrite fold_left_app, last_last. simpl.
  apply is_active_confirm. rewrite kind_fold. exact K.
Qed.

Theorem always_active es : is_active (fold_left confirm es (init AlwaysActive)) = true.
Proof. unfold is_active. rewrite kind_fold. reflexivity. Qed.

(* every intermediate observation, including regressions and repeats *)
Theorem trace_spec a : forall es s, kind s = Enabled a -> trace s es = map (fun e => a <=? e) es.
Proof.
  induction es as [|e r IH]; intros s K; simpl; [reflexivity|].
  rewrite (is_active_confirm s e a K). f_equal. apply IH. rewrite kind_confirm. exact K.
Qed.

Theorem trace_always : forall es s, kind s = AlwaysActive -> trace s es = map (fun _ => true) es.
Proof.
  induction es as [|e r IH]; intros s K; simpl; [reflexivity|].
  assert (Kc : kind (confirm s e) = AlwaysActive) by (rewrite kind_confirm; exact K).
  unfold is_active at 1. rewrite Kc. f_equal. apply IH. exact Kc.
Qed.

(* non-vacuity / regression example: 5, then back to 2, then 3 with activation epoch 3 *)
Example activation_regression :
  trace (init (Enabled 3)) [5; 2; 3; 3; 0; 4294967295] = [true; false; true; true; false; true].
Proof. reflexivity. Qed.
