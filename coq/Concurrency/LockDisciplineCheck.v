(* C19 — the obligation over the table generated from the CURRENT Go sources (gen/LockDiscipline.v):
   every access to lock-guarded state is bracketed the way the models assume.

     * every built-in function type with a `mutExecution` field:
         - ProcessBuiltinFunction starts with  mutExecution.RLock(); defer mutExecution.RUnlock()  (so the read
           lock is released on every return path) and calls the mutex nowhere else; it writes no receiver field;
         - SetNewGasConfig is  guard* ; Lock ; field := ... (only plain assignments) ; Unlock  (the Unlock by a
           call or by a defer: the table lists what the setter EXECUTES, in that order) and is the only method that
           writes the gas fields;
         - the table is read per control-flow path (tools/srcgen/locks.go): a path that returns before it touches
           the receiver is no path of the discipline, the others must all agree; own unexported one-line wrappers
           of a mutex call count as that call where they are called;
         - the mutex is a sync.RWMutex field, or a *sync.RWMutex that every literal of the type initialises with a
           fresh &sync.RWMutex{} while nothing can create the type in any other way and nobody else touches the
           field ([mutex_field_ok]);
         - a gas field is read only by ProcessBuiltinFunction and by unexported helpers that are reachable from
           ProcessBuiltinFunction and from no other exported method, are not referenced from outside the type,
           never passed as method values, and touch the mutex nowhere (no re-entrant locking);
         - no `go` statement, no address of a field taken, the receiver does not escape;
     * types without `mutExecution` have no gas field: their SetNewGasConfig writes nothing;
     * the only other methods that write a receiver field are the start-up setters pinned in [setup_setters];
     * atomic.Flag (and any atomic.* field) is used through its methods only;
     * container/mutexMap.go: every method is  lock ; statements touching `values` ; unlock  with a write lock
       whenever it writes, `values` is used in no other way, and the six methods of the model have the model's
       lock mode and access pattern;
     * builtInFunctions/container.go goes through exactly the MutexMap method the model's [container_plan] names;
     * atomic/*.go: each method performs on each of its paths at most ONE operation, a sync/atomic primitive on the
       single field or a call of such a method (resolved through the own methods down to the primitives), the
       field is never accessed plainly, and the primitives are the ones the model's step function describes.

   The check is a boolean evaluated by vm_compute ([lock_discipline_ok]); soundness lemmas lift it to Prop:
   the programs read off the table are well bracketed ([prog_ok]), every access of every method is part of
   them ([gas_access_covered]), hence (Concurrency/LockClient.v) any number of threads running these
   methods form a [bracketed] client of the RW lock and no write of a guarded field is ever enabled
   together with another access ([gas_fields_race_free], [mutexmap_values_race_free]). *)
From Coq.Strings Require Import String Ascii.
From Coq Require Import List Arith Bool Lia.
From EV Require Import Base.Bytes Concurrency.RWLock Concurrency.LockClient Concurrency.MutexMapLin
  Concurrency.Atomics gen.LockDiscipline.
Import ListNotations.
Local Open Scope string_scope.

(* ---------------------------------------------------------------- small string-list helpers *)
Definition mem_s (x : string) (l : list string) : bool := existsb (String.eqb x) l.
Fixpoint list_eqb_s (a b : list string) : bool :=
  match a, b with
  | [], [] => true
  | x :: a', y :: b' => String.eqb x y && list_eqb_s a' b'
  | _, _ => false
  end.
Definition is_nil {A} (l : list A) : bool := match l with [] => true | _ => false end.
Definition strip (p s : string) : option string :=
  if String.prefix p s then Some (String.substring (String.length p) (String.length s - String.length p) s) else None.
Definition disjoint_s (a b : list string) : bool := forallb (fun x => negb (mem_s x b)) a.
Definition same_set_s (a b : list string) : bool := forallb (fun x => mem_s x b) a && forallb (fun x => mem_s x a) b.

Lemma mem_s_In x l : mem_s x l = true <-> In x l.
Proof.
  unfold mem_s. rewrite existsb_exists. split.
  - intros [y [Hin He]]. apply String.eqb_eq in He. subst. exact Hin.
  - intros H. exists x. split; [exact H|apply String.eqb_refl].
Qed.
Lemma list_eqb_s_eq : forall a b, list_eqb_s a b = true -> a = b.
Proof.
  induction a as [|x a IH]; destruct b as [|y b]; simpl; intros H; try discriminate; [reflexivity|].
  apply andb_true_iff in H. destruct H as [H1 H2]. apply String.eqb_eq in H1. subst. f_equal. auto.
Qed.
Lemma is_nil_eq {A} (l : list A) : is_nil l = true -> l = [].
Proof. destruct l; [reflexivity|discriminate]. Qed.

(* ---------------------------------------------------------------- built-in function types *)
Definition PBF := "ProcessBuiltinFunction".
Definition SETTER := "SetNewGasConfig".

Definition has_mutex (e : exec_type) : bool :=
  existsb (fun p => String.eqb (fst p) "mutExecution") (et_fields e).
Definition find_method (e : exec_type) (n : string) : option method_info :=
  List.find (fun m => String.eqb (mi_name m) n) (et_methods e).

(* the fields SetNewGasConfig assigns = the gas fields of the object *)
Definition gas_fields (e : exec_type) : list string :=
  match find_method e SETTER with Some m => mi_writes m | None => [] end.

(* SetNewGasConfig, statement by statement; guards (`if gasCost == nil { return }`, not mentioning the
   receiver) may only precede everything else *)
Fixpoint drop_guards (l : list string) : list string :=
  match l with x :: r => if String.eqb x "guard" then drop_guards r else l | [] => [] end.
Definition shape_stmt (x : string) : option stmt :=
  if String.eqb x "Lock" then Some (SL WLock)
  else if String.eqb x "Unlock" then Some (SL WUnlock)
  else if String.eqb x "RLock" then Some (SL RLock)
  else if String.eqb x "RUnlock" then Some (SL RUnlock)
  else match strip "assign:" x with Some f => Some (SA true f) | None => None end.
Fixpoint shape_prog (l : list string) : option (list stmt) :=
  match l with
  | [] => Some []
  | x :: r => match shape_stmt x, shape_prog r with Some s, Some p => Some (s :: p) | _, _ => None end
  end.
Definition poison : list stmt := [SL RUnlock].       (* a program that fails [prog_ok] *)
Definition setter_prog (e : exec_type) : list stmt :=
  match shape_prog (drop_guards (et_setter_shape e)) with Some p => p | None => poison end.

(* methods reachable through recv.m(...) calls; names that are not methods of the type (promoted methods of an
   embedded base, func-typed fields) are skipped *)
Fixpoint reach (e : exec_type) (fuel : nat) (frontier seen : list string) : list string :=
  match fuel with
  | O => seen
  | S k =>
    match frontier with
    | [] => seen
    | n :: rest =>
      if mem_s n seen then reach e k rest seen
      else match find_method e n with
           | Some m => reach e k (mi_calls m ++ rest) (n :: seen)
           | None => reach e k rest seen
           end
    end
  end.
Definition closed_under_calls (e : exec_type) (roots seen : list string) : bool :=
  forallb (fun n => match find_method e n with Some _ => mem_s n seen | None => true end) roots
  && forallb (fun n => match find_method e n with
                       | Some m => forallb (fun c => match find_method e c with Some _ => mem_s c seen | None => true end) (mi_calls m)
                       | None => true
                       end) seen.
Definition locked_reach (e : exec_type) : list string := reach e 2000 [PBF] [].
Definition unlocked_entries (e : exec_type) : list string :=
  map mi_name (filter (fun m => mi_exported m && negb (String.eqb (mi_name m) PBF) && negb (String.eqb (mi_name m) SETTER)) (et_methods e)).
Definition unlocked_reach (e : exec_type) : list string := reach e 2000 (unlocked_entries e) [].

(* gas fields read during an execution (by ProcessBuiltinFunction and the helpers it reaches): these are the
   reads of the model's [EIn] phase *)
Definition pbf_gas_reads (e : exec_type) : list string :=
  flat_map (fun m => if mem_s (mi_name m) (locked_reach e)
                     then filter (fun f => mem_s f (gas_fields e)) (mi_reads m)
                     else []) (et_methods e).
Definition pbf_prog (e : exec_type) : list stmt :=
  match find_method e PBF with
  | Some m =>
    if mi_rlock_defer_first m && list_eqb_s (mi_mutex_calls m) ["RLock"; "defer RUnlock"]
    then SL RLock :: map (SA false) (pbf_gas_reads e) ++ [SL RUnlock]
    else map (SA false) (pbf_gas_reads e)           (* no lock: fails [prog_ok] as soon as a gas field is read *)
  | None => []
  end.
Definition exec_progs (e : exec_type) : list (list stmt) := [pbf_prog e; setter_prog e].

Definition bad_call (c : string) : bool :=
  String.eqb c "go-statement" || String.prefix "escape:" c.

Definition touches (fs : list string) (m : method_info) : bool :=
  negb (disjoint_s (mi_reads m) fs) || negb (disjoint_s (mi_writes m) fs).

Definition method_ok (e : exec_type) (m : method_info) : bool :=
  let fs := gas_fields e in
  let n := mi_name m in
  negb (existsb bad_call (mi_calls m))
  && is_nil (mi_addr_taken m)
  && (if String.eqb n SETTER then
        (list_eqb_s (mi_mutex_calls m) ["Lock"; "Unlock"] || list_eqb_s (mi_mutex_calls m) ["Lock"; "defer Unlock"])
        && is_nil (mi_reads m) && is_nil (mi_calls m) && is_nil (mi_field_calls m)
        && forallb (fun f => existsb (fun s => match s with SA true g => String.eqb f g | _ => false end) (setter_prog e)) (mi_writes m)
      else if String.eqb n PBF then
        mi_rlock_defer_first m && list_eqb_s (mi_mutex_calls m) ["RLock"; "defer RUnlock"] && is_nil (mi_writes m)
      else
        is_nil (mi_mutex_calls m)
        && (if touches fs m
            then negb (mi_exported m) && mem_s n (locked_reach e) && negb (mem_s n (unlocked_reach e))
                 && disjoint_s (mi_writes m) fs
            else true)).

(* the lock itself.  Either the field IS the mutex (sync.RWMutex; its zero value is ready for use), or it is a pointer
   that every literal of the type (the constructor) sets to a fresh  &sync.RWMutex{}  of its own, while the type comes
   into being in no other way (no literal without the field, no new(T), no value of type T declared anywhere) —
   so the pointer is never nil and never shared —; in both cases nobody but the type's own methods, through their
   receiver, names the field, and these only call it: no method reads, assigns or takes the address of the field
   (a replaced or handed-over mutex would bracket nothing) *)
Definition sites_of (e : exec_type) : list (string * string * string) :=
  filter (fun s => String.eqb (fst (fst s)) (et_type e) || String.eqb (fst (fst s)) "*") mutex_sites.
Definition mutex_field_ok (e : exec_type) : bool :=
  forallb (fun m => negb (mem_s "mutExecution" (mi_reads m)) && negb (mem_s "mutExecution" (mi_writes m))
                    && negb (mem_s "mutExecution" (mi_addr_taken m))) (et_methods e)
  && if existsb (fun p => String.eqb (fst p) "mutExecution" && String.eqb (snd p) "sync.RWMutex") (et_fields e)
     then forallb (fun s => negb (String.eqb (snd s) "foreign-use") && negb (String.eqb (snd s) "literal:other")) (sites_of e)
     else existsb (fun p => String.eqb (fst p) "mutExecution" && String.eqb (snd p) "*sync.RWMutex") (et_fields e)
          && negb (is_nil (sites_of e))
          && forallb (fun s => String.eqb (snd s) "literal:init-pointer") (sites_of e).

Definition mutex_type_ok (e : exec_type) : bool :=
  mutex_field_ok e
  && et_has_process e
  && negb (is_nil (gas_fields e))
  && is_nil (et_external_refs e)
  && match find_method e PBF, find_method e SETTER with Some _, Some _ => true | _, _ => false end
  && closed_under_calls e [PBF] (locked_reach e)
  && closed_under_calls e (unlocked_entries e) (unlocked_reach e)
  && forallb (method_ok e) (et_methods e)
  && prog_ok Out (pbf_prog e) && prog_ok Out (setter_prog e).

(* types without the mutex: no gas field, nobody calls a mutex *)
Definition plain_type_ok (e : exec_type) : bool :=
  is_nil (gas_fields e) && is_nil (drop_guards (et_setter_shape e))
  && forallb (fun m => is_nil (mi_mutex_calls m) && negb (existsb bad_call (mi_calls m))) (et_methods e).

(* the only methods besides SetNewGasConfig that assign a receiver field: start-up injection of the payable
   handler (called by the node once, before the functions are used; NOT synchronised with executions) *)
Definition setup_setters : list (string * string * list string) := [
  ("esdtNFTMultiTransfer", "SetPayableHandler", ["payableHandler"]);
  ("esdtNFTTransfer", "SetPayableHandler", ["payableHandler"]);
  ("esdtTransfer", "SetPayableHandler", ["payableHandler"]) ].
Definition writers_of (e : exec_type) : list (string * string * list string) :=
  map (fun m => (et_type e, mi_name m, mi_writes m))
      (filter (fun m => negb (is_nil (mi_writes m)) && negb (String.eqb (mi_name m) SETTER)) (et_methods e)).
Fixpoint triples_eqb (a b : list (string * string * list string)) : bool :=
  match a, b with
  | [], [] => true
  | (x1, x2, x3) :: a', (y1, y2, y3) :: b' => String.eqb x1 y1 && String.eqb x2 y2 && list_eqb_s x3 y3 && triples_eqb a' b'
  | _, _ => false
  end.

(* atomic.* fields are used through their methods only *)
Definition atomic_fields_ok (e : exec_type) : bool :=
  forallb (fun p =>
    if String.prefix "atomic." (snd p)
    then forallb (fun m => negb (mem_s (fst p) (mi_reads m)) && negb (mem_s (fst p) (mi_writes m)) && negb (mem_s (fst p) (mi_addr_taken m))
                           && forallb (fun fc => if String.eqb (fst fc) (fst p)
                                                 then mem_s (snd fc) ["Set"; "Unset"; "IsSet"; "Toggle"; "Get"; "Add"; "Increment"; "Decrement"; "Subtract"; "Reset"; "GetUint64"]
                                                 else true) (mi_field_calls m))
                 (et_methods e)
    else true) (et_fields e).

Definition exec_type_ok (e : exec_type) : bool :=
  (if has_mutex e then mutex_type_ok e else plain_type_ok e) && atomic_fields_ok e.

Definition exec_check : bool :=
  forallb exec_type_ok exec_types
  && triples_eqb (flat_map writers_of exec_types) setup_setters
  && (* the activation base of C18 is there and is one atomic flag *)
     existsb (fun e => String.eqb (et_type e) "baseEnabled"
                       && existsb (fun p => String.eqb (fst p) "flagActivated" && String.eqb (snd p) "atomic.Flag") (et_fields e))
             exec_types.

(* ---------------------------------------------------------------- container/mutexMap.go *)
Definition lock_stmt (x : string) : option stmt :=
  if String.eqb x "Lock" then Some (SL WLock)
  else if String.eqb x "RLock" then Some (SL RLock)
  else None.
Definition unlock_stmt (x : string) : option stmt :=
  if String.eqb x "Unlock" || String.eqb x "defer Unlock" then Some (SL WUnlock)
  else if String.eqb x "RUnlock" || String.eqb x "defer RUnlock" then Some (SL RUnlock)
  else None.
(* lock ; [read values] ; [write values] ; unlock  — a deferred unlock runs last *)
Definition mm_prog (r : mm_method) : list stmt :=
  match mm_lock_calls r with
  | [a; b] =>
    match lock_stmt a, unlock_stmt b with
    | Some la, Some ub =>
      if mm_bracketed r && negb (mm_values_other_use r)
      then la :: (if mm_reads_values r then [SA false "values"] else [])
              ++ (if mm_writes_values r then [SA true "values"] else []) ++ [ub]
      else poison
    | _, _ => poison
    end
  | _ => poison
  end.
Definition mm_progs : list (list stmt) := map mm_prog mutexmap_methods.

(* the six operations of the model: name, a representative operation, (reads values, writes values) *)
Definition model_ops : list (string * op * (bool * bool)) := [
  ("Get", Get [], (true, false)); ("Insert", Insert [] 0%N, (true, true)); ("Set", Set_ [] 0%N, (false, true));
  ("Remove", Remove [], (false, true)); ("Len", Len, (true, false)); ("Keys", Keys, (true, false)) ].
Definition mm_row_matches_model (x : string * op * (bool * bool)) : bool :=
  let '(n, o, (rd, wr)) := x in
  match List.find (fun r => String.eqb (mm_name r) n) mutexmap_methods with
  | Some r =>
    Bool.eqb (mm_reads_values r) rd && Bool.eqb (mm_writes_values r) wr
    && match mm_prog r with
       | SL RLock :: _ => is_read o            (* the model takes RLock exactly for Get / Len / Keys *)
       | SL WLock :: _ => negb (is_read o)
       | _ => false
       end
  | None => false
  end.
Fixpoint pairs_eqb (a b : list (string * string)) : bool :=
  match a, b with
  | [], [] => true
  | (x1, x2) :: a', (y1, y2) :: b' => String.eqb x1 y1 && String.eqb x2 y2 && pairs_eqb a' b'
  | _, _ => false
  end.
Definition mutexmap_check : bool :=
  pairs_eqb mutexmap_fields [("mut", "sync.RWMutex"); ("values", "map[interface{}]interface{}")]
  && forallb (fun p => prog_ok Out p) mm_progs
  && forallb mm_row_matches_model model_ops.

(* ---------------------------------------------------------------- builtInFunctions/container.go *)
Definition op_name (o : op) : string :=
  match o with Get _ => "Get" | Insert _ _ => "Insert" | Set_ _ _ => "Set" | Remove _ => "Remove" | Len => "Len" | Keys => "Keys" end.
(* container method -> a representative call that reaches the map *)
Definition container_calls : list (string * cop) := [
  ("Add", MutexMapLin.CAdd [x61] (Some 0%N)); ("Get", MutexMapLin.CGet [x61]); ("Keys", CKeys); ("Len", CLen);
  ("Remove", CRemove [x61]); ("Replace", CReplace [x61] (Some 0%N)) ].
Definition plan_calls (c : cop) : list string :=
  match container_plan c with inr (o, _) => ["objects." ++ op_name o] | inl _ => [] end.
Definition container_row_ok (row : string * list string * bool) : bool :=
  let '(n, calls, direct) := row in
  negb direct
  && match List.find (fun p => String.eqb (fst p) n) container_calls with
     | Some (_, c) =>
       (* Keys() first calls its own Len() for a capacity hint: one more complete (linearizable) map operation *)
       list_eqb_s (if String.eqb n "Keys" then filter (fun x => negb (String.eqb x "self.Len")) calls else calls) (plan_calls c)
     | None => String.eqb n "IsInterfaceNil" && is_nil calls
     end.
Definition container_check : bool :=
  pairs_eqb container_fields [("objects", "*container.MutexMap")]
  && forallb container_row_ok container_methods
  && forallb (fun p => existsb (fun row => String.eqb (fst (fst row)) (fst p)) container_methods) container_calls.

(* ---------------------------------------------------------------- atomic/*.go *)
(* the primitive each model operation stands for *)
Definition counter_prim (o : counter_op) : string :=
  match o with
  | CSet _ => "StoreInt64" | CGet | CGetUint64 => "LoadInt64" | CReset => "SwapInt64"
  | CIncrement | CAdd _ | CDecrement | CSubtract _ => "AddInt64"
  end.
Definition flag_prim (o : flag_op) : string :=
  match o with FSet | FToggle true => "SwapUint32" | FUnset | FToggle false => "StoreUint32" | FIsSet => "LoadUint32" end.
Definition sl_prim {V} (ld st : string) (o : sl_op V) : string := match o with SStore _ _ => st | SLoad _ => ld end.

(* (type, field type, [(method, primitives of the model operation(s) it is — through self calls for Toggle / GetUint64)]) *)
Definition expected_atomics : list (string * string * list (string * list string)) := [
  ("Counter", "int64", [
     ("Add", [counter_prim (CAdd 0)]); ("Decrement", [counter_prim CDecrement]); ("Get", [counter_prim CGet]);
     ("GetUint64", [counter_prim CGetUint64]); ("Increment", [counter_prim CIncrement]); ("Reset", [counter_prim CReset]);
     ("Set", [counter_prim (CSet 0)]); ("Subtract", [counter_prim (CSubtract 0)]) ]);
  ("Flag", "uint32", [
     ("IsSet", [flag_prim FIsSet]); ("Set", [flag_prim FSet]);
     ("Toggle", [flag_prim (FToggle true); flag_prim (FToggle false)]); ("Unset", [flag_prim FUnset]) ]);
  ("Int64", "int64", [("Get", [sl_prim "LoadInt64" "StoreInt64" (SLoad Z)]); ("Set", [sl_prim "LoadInt64" "StoreInt64" (SStore Z 0%Z)])]);
  ("String", "atomic.Value", [("Get", [sl_prim "Value.Load" "Value.Store" (SLoad bytes)]); ("Set", [sl_prim "Value.Load" "Value.Store" (SStore bytes [])])]);
  ("Uint32", "uint32", [("Get", [sl_prim "LoadUint32" "StoreUint32" (SLoad N)]); ("Set", [sl_prim "LoadUint32" "StoreUint32" (SStore N 0%N)])]);
  ("Uint64", "uint64", [("Get", [sl_prim "LoadUint64" "StoreUint64" (SLoad N)]); ("Set", [sl_prim "LoadUint64" "StoreUint64" (SStore N 0%N)])]) ].

(* the primitives a method can perform: its own, and those of the own methods it calls, followed down to the
   primitives (a chain of own methods is at most as long as there are methods: a cycle runs out of fuel).
   [am_exclusive] says that no path through the method performs more than one of its operations (a primitive or a
   call of an own method); as this holds for every method, a path performs at most one primitive altogether, and it
   is one of those the model operation(s) of the method stand for (compared as sets: the order in which the source
   lists exclusive alternatives says nothing) *)
Fixpoint prims_of (fuel : nat) (ms : list at_method) (m : at_method) : list string :=
  match fuel with
  | O => ["UNRECOGNISED:self calls too deep"]
  | S k => am_prims m ++ flat_map (fun c => match List.find (fun x => String.eqb (am_name x) c) ms with
                                            | Some x => prims_of k ms x
                                            | None => ["UNRECOGNISED:self-call"]
                                            end) (am_self_calls m)
  end.
Definition method_prims (ms : list at_method) (m : at_method) : list string := prims_of (S (List.length ms)) ms m.
Definition at_method_ok (ms : list at_method) (exp : list (string * list string)) (m : at_method) : bool :=
  negb (am_plain_access m) && am_exclusive m
  && match List.find (fun p => String.eqb (fst p) (am_name m)) exp with
     | Some (_, ps) => same_set_s (method_prims ms m) ps
     | None => false
     end.
Definition atomic_type_ok (t : string * list (string * string) * list at_method) : bool :=
  let '(n, fields, ms) := t in
  match List.find (fun x => String.eqb (fst (fst x)) n) expected_atomics with
  | Some (_, fty, exp) =>
    pairs_eqb fields [("value", fty)]
    && Nat.eqb (List.length ms) (List.length exp)
    && forallb (at_method_ok ms exp) ms
  | None => false
  end.
Definition atomics_check : bool :=
  Nat.eqb (List.length atomic_types) (List.length expected_atomics) && forallb atomic_type_ok atomic_types.

(* ================================================================ THE OBLIGATION *)
Definition lock_discipline_check : bool := exec_check && mutexmap_check && container_check && atomics_check.

Theorem lock_discipline_ok : lock_discipline_check = true.
Proof. vm_compute. reflexivity. Qed.

(* ================================================================ soundness: from the boolean to Prop *)
Lemma check_parts :
  lock_discipline_check = true -> exec_check = true /\ mutexmap_check = true /\ container_check = true /\ atomics_check = true.
Proof.
  unfold lock_discipline_check. intros H.
  repeat (apply andb_true_iff in H; destruct H as [H ?]). auto.
Qed.

Lemma exec_type_ok_all : lock_discipline_check = true -> forall e, In e exec_types -> exec_type_ok e = true.
Proof.
  intros H. destruct (check_parts H) as [He _]. unfold exec_check in He.
  apply andb_true_iff in He. destruct He as [He _]. apply andb_true_iff in He. destruct He as [He _].
  intros e Hin. rewrite forallb_forall in He. auto.
Qed.

Lemma mutex_type_ok_of e : lock_discipline_check = true -> In e exec_types -> has_mutex e = true -> mutex_type_ok e = true.
Proof.
  intros H Hin Hm. pose proof (exec_type_ok_all H e Hin) as Hok. unfold exec_type_ok in Hok. rewrite Hm in Hok.
  apply andb_true_iff in Hok. tauto.
Qed.

(* the programs read off a mutex type are well bracketed *)
Lemma exec_progs_ok e : mutex_type_ok e = true -> forall p, In p (exec_progs e) -> prog_ok Out p = true.
Proof.
  unfold mutex_type_ok. intros H. repeat (apply andb_true_iff in H; destruct H as [H ?]).
  intros p [<-|[<-|[]]]; assumption.
Qed.

(* DATA-RACE FREEDOM ON THE GAS FIELDS (model level): for every function type of the current sources that has an
   execution lock, any number of threads calling ProcessBuiltinFunction and SetNewGasConfig of ONE object, in
   any interleaving the lock allows, never have a write of a gas field enabled together with any other access *)
Theorem gas_fields_race_free :
  forall e, In e exec_types -> has_mutex e = true ->
  forall l s t t' f w' f',
    sys_reach (St) (pstep (exec_progs e)) (lock_init, pinit) (l, s) -> t <> t' ->
    about_to s t true f -> about_to s t' w' f' -> False.
Proof.
  intros e Hin Hm l s t t' f w' f'.
  apply (client_race_free (exec_progs e) (exec_progs_ok e (mutex_type_ok_of e lock_discipline_ok Hin Hm))).
Qed.

(* ... and these threads form a bracketed client: RLock first, released on every path, writes between Lock/Unlock *)
Theorem exec_clients_bracketed :
  forall e, In e exec_types -> has_mutex e = true -> bracketed St pmode (pstep (exec_progs e)).
Proof. intros e _ _. apply client_bracketed. Qed.

(* the shape of the two programs is the one GasScheduleAtomic.v models *)
Lemma pbf_prog_shape e : mutex_type_ok e = true ->
  pbf_prog e = SL RLock :: map (SA false) (pbf_gas_reads e) ++ [SL RUnlock].
Proof.
  unfold mutex_type_ok. intros H. repeat (apply andb_true_iff in H; destruct H as [H ?]).
  unfold pbf_prog.
  destruct (find_method e PBF) as [m|] eqn:Ef; [|destruct (find_method e SETTER); discriminate].
  match goal with Hf : forallb (method_ok e) _ = true |- _ => rewrite forallb_forall in Hf; pose proof (Hf m) as Hm end.
  unfold find_method in Ef. pose proof (find_some _ _ Ef) as [Hin Hn]. specialize (Hm Hin).
  unfold method_ok in Hm. apply String.eqb_eq in Hn.
  apply andb_true_iff in Hm. destruct Hm as [_ Hb]. rewrite Hn in Hb.
  change (String.eqb PBF SETTER) with false in Hb. change (String.eqb PBF PBF) with true in Hb. cbv iota in Hb.
  apply andb_true_iff in Hb. destruct Hb as [Hb _]. rewrite Hb. reflexivity.
Qed.

Lemma setter_prog_shape_all :
  forallb (fun e => if has_mutex e
                    then match setter_prog e with
                         | SL WLock :: r => same_set_s (gas_fields e)
                                              (flat_map (fun s => match s with SA true f => [f] | _ => [] end) r)
                                            && Nat.eqb (List.length r) (S (List.length (gas_fields e)))
                         | _ => false
                         end
                    else true) exec_types = true.
Proof. vm_compute. reflexivity. Qed.

Lemma disjoint_s_false a b x : disjoint_s a b = true -> In x a -> In x b -> False.
Proof.
  unfold disjoint_s. rewrite forallb_forall. intros H Ha Hb. specialize (H x Ha).
  apply negb_true_iff in H. apply mem_s_In in Hb. congruence.
Qed.
Lemma touches_reads fs m f : In f (mi_reads m) -> In f fs -> touches fs m = true.
Proof.
  intros Hr Hf. unfold touches. apply orb_true_iff. left. apply negb_true_iff.
  destruct (disjoint_s (mi_reads m) fs) eqn:E; [|reflexivity]. exfalso. eapply disjoint_s_false; eauto.
Qed.
Lemma touches_writes fs m f : In f (mi_writes m) -> In f fs -> touches fs m = true.
Proof.
  intros Hr Hf. unfold touches. apply orb_true_iff. right. apply negb_true_iff.
  destruct (disjoint_s (mi_writes m) fs) eqn:E; [|reflexivity]. exfalso. eapply disjoint_s_false; eauto.
Qed.

(* EVERY access of EVERY method to a gas field is an access of one of the two programs:
   a write only in SetNewGasConfig (between Lock and Unlock); a read only in the dynamic extent of
   ProcessBuiltinFunction (between RLock and the deferred RUnlock): by ProcessBuiltinFunction itself or by an
   unexported helper that it reaches and that no unlocked entry point reaches *)
Theorem gas_access_covered :
  forall e, In e exec_types -> has_mutex e = true ->
  forall m f, In m (et_methods e) -> In f (gas_fields e) ->
    (In f (mi_writes m) -> mi_name m = SETTER /\ In (SA true f) (setter_prog e))
    /\ (In f (mi_reads m) ->
          (mi_name m = PBF \/ (mi_exported m = false /\ ~ In (mi_name m) (unlocked_reach e)))
          /\ In (mi_name m) (locked_reach e) /\ In (SA false f) (pbf_prog e)).
Proof.
  intros e Hin Hmx m f Hm Hf.
  pose proof (mutex_type_ok_of e lock_discipline_ok Hin Hmx) as Hok.
  pose proof (pbf_prog_shape e Hok) as Hshape.
  pose proof Hok as Hok'. unfold mutex_type_ok in Hok'.
  repeat (apply andb_true_iff in Hok'; destruct Hok' as [Hok' ?]).
  match goal with Hfa : forallb (method_ok e) _ = true |- _ => rewrite forallb_forall in Hfa; pose proof (Hfa m Hm) as Hmo end.
  unfold method_ok in Hmo. apply andb_true_iff in Hmo. destruct Hmo as [_ Hbody].
  assert (Hreads : In f (mi_reads m) -> In (mi_name m) (locked_reach e) -> In (SA false f) (pbf_prog e)).
  { intros Hr Hl. rewrite Hshape. right. apply in_or_app. left. apply in_map.
    unfold pbf_gas_reads. apply in_flat_map. exists m. split; [exact Hm|].
    apply mem_s_In in Hl. rewrite Hl. apply filter_In. split; [exact Hr|apply mem_s_In; exact Hf]. }
  assert (Hpbf_in : In PBF (locked_reach e)).
  { assert (Hcl : closed_under_calls e [PBF] (locked_reach e) = true) by assumption.
    unfold closed_under_calls in Hcl. apply andb_true_iff in Hcl. destruct Hcl as [Hcl _].
    cbn [forallb] in Hcl.
    destruct (find_method e PBF); [|destruct (find_method e SETTER); discriminate].
    apply andb_true_iff in Hcl. destruct Hcl as [Hcl _]. apply mem_s_In. exact Hcl. }
  destruct (String.eqb (mi_name m) SETTER) eqn:Es.
  - (* SetNewGasConfig *)
    apply String.eqb_eq in Es.
    repeat (apply andb_true_iff in Hbody; destruct Hbody as [Hbody ?]).
    split.
    + intros Hw. split; [exact Es|].
      match goal with Hx : forallb _ (mi_writes m) = true |- _ => rewrite forallb_forall in Hx; specialize (Hx f Hw);
        apply existsb_exists in Hx; destruct Hx as [st [Hst Heq]] end.
      destruct st as [|[|] g]; try discriminate. apply String.eqb_eq in Heq. subst g. exact Hst.
    + intros Hr. exfalso.
      match goal with Hx : is_nil (mi_reads m) = true |- _ => apply is_nil_eq in Hx; rewrite Hx in Hr end. contradiction.
  - destruct (String.eqb (mi_name m) PBF) eqn:Ep.
    + (* ProcessBuiltinFunction *)
      apply String.eqb_eq in Ep.
      repeat (apply andb_true_iff in Hbody; destruct Hbody as [Hbody ?]).
      split.
      * intros Hw. exfalso.
        match goal with Hx : is_nil (mi_writes m) = true |- _ => apply is_nil_eq in Hx; rewrite Hx in Hw end. contradiction.
      * intros Hr. split; [left; exact Ep|]. rewrite Ep. split; [exact Hpbf_in|]. apply Hreads; [exact Hr|rewrite Ep; exact Hpbf_in].
    + (* any other method *)
      apply andb_true_iff in Hbody. destruct Hbody as [_ Hbody].
      split.
      * intros Hw. exfalso. rewrite (touches_writes _ _ _ Hw Hf) in Hbody.
        repeat (apply andb_true_iff in Hbody; destruct Hbody as [Hbody ?]).
        eapply disjoint_s_false; eauto.
      * intros Hr. rewrite (touches_reads _ _ _ Hr Hf) in Hbody.
        repeat (apply andb_true_iff in Hbody; destruct Hbody as [Hbody ?]).
        assert (Hl : In (mi_name m) (locked_reach e)) by (apply mem_s_In; assumption).
        split; [|split; [exact Hl|apply Hreads; assumption]].
        right. split; [apply negb_true_iff; assumption|].
        intros Hu. apply mem_s_In in Hu.
        match goal with Hx : negb (mem_s (mi_name m) (unlocked_reach e)) = true |- _ => apply negb_true_iff in Hx; congruence end.
Qed.

(* the types that have an execution lock, and their gas fields: pinned so that a change is noticed *)
Example priced_types :
  map (fun e => (et_type e, gas_fields e)) (filter has_mutex exec_types) = [
    ("changeOwnerAddress", ["gasCost"]); ("claimDeveloperRewards", ["gasCost"]); ("esdtBurn", ["funcGasCost"]);
    ("esdtLocalBurn", ["funcGasCost"]); ("esdtLocalMint", ["funcGasCost"]); ("esdtNFTAddQuantity", ["funcGasCost"]);
    ("esdtNFTAddUri", ["funcGasCost"; "gasConfig"]); ("esdtNFTBurn", ["funcGasCost"]);
    ("esdtNFTCreate", ["funcGasCost"; "gasConfig"]); ("esdtNFTMultiTransfer", ["funcGasCost"; "gasConfig"]);
    ("esdtNFTTransfer", ["funcGasCost"; "gasConfig"]); ("esdtNFTupdate", ["funcGasCost"; "gasConfig"]);
    ("esdtTransfer", ["funcGasCost"]); ("saveKeyValueStorage", ["funcGasCost"; "gasConfig"]); ("saveUserName", ["gasCost"]) ].
Proof. vm_compute. reflexivity. Qed.

(* a type that declares gas-like fields but no mutex would slip through [has_mutex]: there is none — every
   type whose SetNewGasConfig assigns anything has the lock (plain_type_ok demands an empty setter) *)

(* ---------------------------------------------------------------- MutexMap *)
Lemma mm_progs_ok : forall p, In p mm_progs -> prog_ok Out p = true.
Proof.
  destruct (check_parts lock_discipline_ok) as [_ [Hm _]]. unfold mutexmap_check in Hm.
  apply andb_true_iff in Hm. destruct Hm as [Hm _]. apply andb_true_iff in Hm. destruct Hm as [_ Hm].
  rewrite forallb_forall in Hm. exact Hm.
Qed.

(* DATA-RACE FREEDOM ON MutexMap.values (model level): any number of threads calling any methods of one map *)
Theorem mutexmap_values_race_free :
  forall l s t t' f w' f',
    sys_reach St (pstep mm_progs) (lock_init, pinit) (l, s) -> t <> t' ->
    about_to s t true f -> about_to s t' w' f' -> False.
Proof. intros l s t t' f w' f'. apply (client_race_free mm_progs mm_progs_ok). Qed.

(* the six operations of MutexMapLin.v take the lock in the mode the sources take it, and touch `values` the way
   the sources do (Insert: read, then write, under the WRITE lock) *)
Theorem mutexmap_rows_match_model : forallb mm_row_matches_model model_ops = true.
Proof.
  destruct (check_parts lock_discipline_ok) as [_ [Hm _]]. unfold mutexmap_check in Hm.
  apply andb_true_iff in Hm. tauto.
Qed.
Example insert_is_read_then_write_under_write_lock :
  exists r, In r mutexmap_methods /\ mm_name r = "Insert"
    /\ mm_prog r = [SL WLock; SA false "values"; SA true "values"; SL WUnlock].
Proof. eexists. split; [right; left; reflexivity|split; reflexivity]. Qed.

(* the container goes through exactly the map operation [container_plan] names *)
Theorem container_rows_match_plan : container_check = true.
Proof. destruct (check_parts lock_discipline_ok) as [_ [_ [Hc _]]]. exact Hc. Qed.

(* atomics: one primitive per method, the one the model's step function stands for *)
Theorem atomics_rows_match_model : atomics_check = true.
Proof. destruct (check_parts lock_discipline_ok) as [_ [_ [_ Ha]]]. exact Ha. Qed.
Lemma counter_prim_add o : counter_prim o = "AddInt64" <-> counter_delta o <> None.
Proof. destruct o; simpl; split; intros H; try discriminate; try reflexivity; try (exfalso; apply H; reflexivity). Qed.

(* ---------------------------------------------------------------- the check can fail: seeded table rows *)
Example unlocked_reader_rejected :
  prog_ok Out [SA false "funcGasCost"] = false /\ prog_ok Out [SL RLock; SA true "funcGasCost"; SL RUnlock] = false
  /\ prog_ok Out [SL WLock; SA true "funcGasCost"] = false
  /\ prog_ok Out (mm_prog (MM "Insert" ["RLock"; "RUnlock"] true true true false)) = false
  /\ prog_ok Out (mm_prog (MM "Get" ["RLock"; "RUnlock"] false false true false)) = false.
Proof. repeat split. Qed.

(* own methods are followed down to the primitives; a cycle of own methods is rejected; two operations on one path
   ([am_exclusive] = false) are rejected whatever they are *)
Example self_calls_resolved :
  let ms := [AM "Add" ["AddInt64"] [] false true; AM "Subtract" [] ["Add"] false true; AM "Decrement" [] ["Subtract"] false true] in
  forallb (at_method_ok ms [("Add", ["AddInt64"]); ("Subtract", ["AddInt64"]); ("Decrement", ["AddInt64"])]) ms = true.
Proof. reflexivity. Qed.
Example self_call_cycle_rejected :
  let ms := [AM "Add" [] ["Subtract"] false true; AM "Subtract" [] ["Add"] false true] in
  at_method_ok ms [("Add", ["AddInt64"]); ("Subtract", ["AddInt64"])] (AM "Add" [] ["Subtract"] false true) = false.
Proof. reflexivity. Qed.
Example two_operations_on_a_path_rejected :
  let ms := [AM "Get" ["LoadInt64"] [] false true; AM "Set" ["StoreInt64"] [] false true; AM "Reset" [] ["Get"; "Set"] false false] in
  at_method_ok ms [("Reset", ["LoadInt64"; "StoreInt64"])] (AM "Reset" [] ["Get"; "Set"] false false) = false.
Proof. reflexivity. Qed.
(* the setter: what it executes must be  Lock ; assignments ; Unlock  — a deferred Unlock is listed where it runs *)
Example setter_shapes :
  (forall p, shape_prog ["Lock"; "assign:gasConfig"; "assign:funcGasCost"; "Unlock"] = Some p -> prog_ok Out p = true)
  /\ (forall p, shape_prog ["Lock"; "assign:gasConfig"; "Unlock"; "assign:funcGasCost"; "Unlock"] = Some p -> prog_ok Out p = false)
  /\ (forall p, shape_prog ["RLock"; "assign:gasConfig"; "RUnlock"] = Some p -> prog_ok Out p = false)
  /\ shape_prog ["Lock"; "defer Unlock"; "assign:gasConfig"] = None.
Proof. repeat split; intros p H; vm_compute in H; inversion H; reflexivity. Qed.
