(* C19 — atomic/*.go: Flag, Counter, Int64, Uint32, Uint64, String.
   Every method is ONE sync/atomic primitive on the single field (plus thread-local computation):
   gen/LockDiscipline.v lists the primitive per method and [lock_discipline_ok] checks that the field is
   never accessed any other way.  sync/atomic guarantees that each primitive is one indivisible step
   (trusted: Go memory model).  Under that reading an execution of any number of threads is an
   interleaving of atomic steps, and the theorems below say what can and cannot be observed. *)
From EV Require Import Base.Bytes Concurrency.RWLock.
Local Open Scope Z_scope.

(* ================= generic atomic cell ================= *)
Section Cell.
  Variables (Val Op Res : Type).
  Variable apply : Op -> Val -> Val * Res.     (* the sequential meaning of one method call *)

  Record cfg := { cell : Val; progs : tid -> list Op; outs : tid -> list Res }.
  Definition updf {A} (f : tid -> A) (t : tid) (a : A) : tid -> A := fun t' => if Nat.eqb t' t then a else f t'.

  (* thread t executes the next call of its program as one atomic step *)
  Inductive astep : cfg -> tid * Op -> cfg -> Prop :=
  | a_step c t o rest : progs c t = o :: rest ->
      astep c (t, o) {| cell := fst (apply o (cell c));
                        progs := updf (progs c) t rest;
                        outs := updf (outs c) t (outs c t ++ [snd (apply o (cell c))]) |}.
  Inductive aruns : cfg -> list (tid * Op) -> cfg -> Prop :=
  | ar_nil c : aruns c [] c
  | ar_cons c e c1 es c2 : astep c e c1 -> aruns c1 es c2 -> aruns c (e :: es) c2.

  (* running a schedule sequentially, one call after the other *)
  Fixpoint seq_cell (v : Val) (s : list (tid * Op)) : Val :=
    match s with [] => v | (_, o) :: r => seq_cell (fst (apply o v)) r end.
  Fixpoint seq_outs (v : Val) (s : list (tid * Op)) (t : tid) : list Res :=
    match s with
    | [] => []
    | (t', o) :: r => (if Nat.eqb t' t then [snd (apply o v)] else []) ++ seq_outs (fst (apply o v)) r t
    end.
  Fixpoint proj (s : list (tid * Op)) (t : tid) : list Op :=
    match s with [] => [] | (t', o) :: r => if Nat.eqb t' t then o :: proj r t else proj r t end.

  Lemma updf_same {A} (f : tid -> A) t a : updf f t a t = a.
  Proof. unfold updf. rewrite Nat.eqb_refl. reflexivity. Qed.
  Lemma updf_other {A} (f : tid -> A) t a t' : t' <> t -> updf f t a t' = f t'.
  Proof. unfold updf. intros H. apply Nat.eqb_neq in H. rewrite H. reflexivity. Qed.

  (* NO LOST UPDATE, general form: whatever the interleaving, the final value of the cell and every result
     returned to every thread are those of the SEQUENTIAL execution of the calls in one order — the order
     of the atomic steps — and that order contains each thread's calls in program order. *)
  Theorem atomics_no_lost_update c s c' :
    aruns c s c' ->
    cell c' = seq_cell (cell c) s
    /\ (forall t, outs c' t = outs c t ++ seq_outs (cell c) s t)
    /\ (forall t, progs c t = proj s t ++ progs c' t).
  Proof.
    intros H. induction H as [c|c e c1 es c2 Hs Hr [IH1 [IH2 IH3]]].
    - repeat split; intros; simpl; try rewrite app_nil_r; reflexivity.
    - inversion Hs as [c0 t o rest Hp]; subst. simpl in *. repeat split.
      + exact IH1.
      + intros t'. rewrite IH2. destruct (Nat.eq_dec t' t) as [->|N].
        * rewrite updf_same, Nat.eqb_refl, <- app_assoc. reflexivity.
        * rewrite (updf_other _ _ _ _ N). apply Nat.eqb_neq in N. rewrite Nat.eqb_sym, N. reflexivity.
      + intros t'. destruct (Nat.eq_dec t' t) as [->|N].
        * rewrite Nat.eqb_refl, Hp. simpl. f_equal. rewrite <- IH3, updf_same. reflexivity.
        * pose proof N as N'. apply Nat.eqb_neq in N'. rewrite Nat.eqb_sym, N'.
          rewrite <- IH3, (updf_other _ _ _ _ N). reflexivity.
  Qed.
End Cell.

(* ================= int64 / uint32 / uint64 arithmetic ================= *)
Definition wrap64 (z : Z) : Z := (z + 9223372036854775808) mod 18446744073709551616 - 9223372036854775808.
Lemma wrap64_range z : -9223372036854775808 <= wrap64 z < 9223372036854775808.
Proof. unfold wrap64. lia. Qed.
Lemma wrap64_id z : -9223372036854775808 <= z < 9223372036854775808 -> wrap64 z = z.
Proof. unfold wrap64. intros. lia. Qed.
Lemma wrap64_add_l a b : wrap64 (wrap64 a + b) = wrap64 (a + b).
Proof.
  unfold wrap64.
  replace ((a + 9223372036854775808) mod 18446744073709551616 - 9223372036854775808 + b + 9223372036854775808)
    with ((a + 9223372036854775808) mod 18446744073709551616 + b) by ring.
  rewrite Zplus_mod_idemp_l. f_equal. f_equal. ring.
Qed.
Lemma wrap64_add_r a b : wrap64 (a + wrap64 b) = wrap64 (a + b).
Proof. rewrite Z.add_comm, wrap64_add_l. f_equal. ring. Qed.

(* ================= Counter (atomic/counter.go) ================= *)
Inductive counter_op :=
| CSet (v : Z) | CIncrement | CAdd (v : Z) | CDecrement | CSubtract (v : Z) | CGet | CReset | CGetUint64.
Inductive counter_res := CUnit | CInt (v : Z) | CUint (v : Z).
(* the delta an Add-like call applies (AddInt64 wraps around; -value wraps for MinInt64) *)
Definition counter_delta (o : counter_op) : option Z :=
  match o with
  | CIncrement => Some 1 | CDecrement => Some (-1) | CAdd v => Some (wrap64 v) | CSubtract v => Some (wrap64 (- wrap64 v))
  | _ => None
  end.
Definition counter_apply (o : counter_op) (v : Z) : Z * counter_res :=
  match o with
  | CSet x => (wrap64 x, CUnit)                                   (* StoreInt64 *)
  | CGet => (v, CInt v)                                           (* LoadInt64 *)
  | CReset => (0, CInt v)                                         (* SwapInt64(&v, 0) returns the previous value *)
  | CGetUint64 => (v, CUint (if v <? 0 then 0 else v))            (* Get, then clamp negatives to 0 *)
  | _ => match counter_delta o with
         | Some d => let n := wrap64 (v + d) in (n, CInt n)       (* AddInt64 returns the new value *)
         | None => (v, CUnit)
         end
  end.

Definition sum_deltas (s : list (tid * counter_op)) : Z :=
  fold_right (fun e acc => match counter_delta (snd e) with Some d => d + acc | None => acc end) 0 s.
Definition all_adds (s : list (tid * counter_op)) : Prop :=
  Forall (fun e => counter_delta (snd e) <> None) s.

Lemma counter_adds_seq : forall s v, all_adds s ->
  seq_cell _ _ _ counter_apply (wrap64 v) s = wrap64 (v + sum_deltas s).
Proof.
  induction s as [|[t o] r IH]; intros v H; simpl.
  - f_equal. lia.
  - inversion H as [|e l Ho Hr]; subst. simpl in Ho.
    destruct (counter_delta o) as [d|] eqn:E; [|congruence].
    assert (Ha : fst (counter_apply o (wrap64 v)) = wrap64 (v + d)).
    { destruct o; simpl in E; try discriminate; inversion E; subst; simpl; apply wrap64_add_l. }
    rewrite Ha, IH by exact Hr. f_equal. lia.
Qed.

(* NO LOST UPDATE for the counter: with only Increment / Decrement / Add / Subtract calls, EVERY interleaving
   ends with initial + (sum of all deltas) (mod 2^64, as int64) — no call is lost, whatever the schedule *)
Theorem counter_no_lost_update c s c' :
  aruns _ _ _ counter_apply c s c' -> all_adds s ->
  -9223372036854775808 <= cell _ _ _ c < 9223372036854775808 ->
  cell _ _ _ c' = wrap64 (cell _ _ _ c + sum_deltas s).
Proof.
  intros Hr Ha Hrange. destruct (atomics_no_lost_update _ _ _ _ _ _ _ Hr) as [H _].
  rewrite H. rewrite <- (wrap64_id (cell _ _ _ c)) at 1 by exact Hrange. apply counter_adds_seq. exact Ha.
Qed.

(* the value stays an int64 *)
Lemma counter_apply_range o v :
  -9223372036854775808 <= v < 9223372036854775808 ->
  -9223372036854775808 <= fst (counter_apply o v) < 9223372036854775808.
Proof.
  intros H. destruct o; simpl; try apply wrap64_range; try exact H; lia.
Qed.

(* GetUint64 never reports a negative value as a huge unsigned one *)
Lemma counter_getuint64_clamps v : snd (counter_apply CGetUint64 v) = CUint (Z.max 0 v).
Proof. simpl. destruct (v <? 0) eqn:E; f_equal; lia. Qed.

(* ================= Flag (atomic/flag.go) ================= *)
Inductive flag_op := FSet | FUnset | FIsSet | FToggle (b : bool).
Inductive flag_res := FUnit | FBool (b : bool).
Definition flag_apply (o : flag_op) (v : N) : N * flag_res :=
  match o with
  | FSet => (1%N, FBool (v =? 1)%N)          (* SwapUint32(&v, 1) == 1 *)
  | FUnset => (0%N, FUnit)                   (* StoreUint32(&v, 0) *)
  | FIsSet => (v, FBool (v =? 1)%N)          (* LoadUint32(&v) == 1 *)
  | FToggle true => (1%N, FUnit)             (* Set(), result dropped *)
  | FToggle false => (0%N, FUnit)            (* Unset() *)
  end.

(* test-and-set: of any number of concurrent Set() calls on an unset flag exactly the first one (in the
   order of the atomic steps) is told "was not set"; all others are told "was set" *)
Lemma flag_sets_after_first : forall s, Forall (fun e => snd e = FSet) s ->
  forall t, Forall (fun r => r = FBool true) (seq_outs _ _ _ flag_apply 1%N s t).
Proof.
  induction s as [|[t' o] r IH]; intros H t; simpl; [constructor|].
  inversion H as [|e l Ho Hr]; subst. simpl in Ho. subst o. simpl.
  destruct (Nat.eqb t' t); simpl; [constructor; [reflexivity|]|]; apply IH; exact Hr.
Qed.
Theorem flag_set_one_winner v t0 s :
  v <> 1%N -> Forall (fun e => snd e = FSet) s ->
  seq_outs _ _ _ flag_apply v ((t0, FSet) :: s) t0 = FBool false :: seq_outs _ _ _ flag_apply 1%N s t0
  /\ (forall t, Forall (fun r => r = FBool true) (seq_outs _ _ _ flag_apply 1%N s t)).
Proof.
  intros Hv Hs. split.
  - simpl. rewrite Nat.eqb_refl. simpl. f_equal. f_equal. apply N.eqb_neq. exact Hv.
  - apply flag_sets_after_first. exact Hs.
Qed.

(* the flag's final state is decided by the LAST writing call of the schedule *)
Definition flag_writes (o : flag_op) : option N :=
  match o with FSet | FToggle true => Some 1%N | FUnset | FToggle false => Some 0%N | FIsSet => None end.
Fixpoint last_write {Op V} (w : Op -> option V) (s : list (tid * Op)) (d : V) : V :=
  match s with [] => d | (_, o) :: r => last_write w r (match w o with Some x => x | None => d end) end.
Theorem flag_final_is_last_write : forall s v,
  seq_cell _ _ _ flag_apply v s = last_write flag_writes s v.
Proof.
  induction s as [|[t o] r IH]; intros v; simpl; [reflexivity|]. rewrite IH.
  destruct o as [| | |[|]]; reflexivity.
Qed.

(* ================= Int64 / Uint32 / Uint64 / String: Set = one store, Get = one load ================= *)
Section StoreLoad.
  Variable V : Type.
  Variable norm : V -> V.      (* truncation to the width of the field; identity for String *)
  Inductive sl_op := SStore (v : V) | SLoad.
  Inductive sl_res := SUnit | SVal (v : V).
  Definition sl_apply (o : sl_op) (v : V) : V * sl_res :=
    match o with SStore x => (norm x, SUnit) | SLoad => (v, SVal v) end.
  Definition sl_writes (o : sl_op) : option V := match o with SStore x => Some (norm x) | SLoad => None end.

  (* the final value is the last stored one (or the initial one): stores never merge or tear *)
  Theorem store_final_is_last_write : forall s v,
    seq_cell _ _ _ sl_apply v s = last_write sl_writes s v.
  Proof. induction s as [|[t o] r IH]; intros v; simpl; [reflexivity|]. rewrite IH. destruct o; reflexivity. Qed.

  (* every load returns the initial value or a value some EARLIER store of the schedule wrote *)
  Theorem load_sees_a_written_value : forall s v t x,
    In (SVal x) (seq_outs _ _ _ sl_apply v s t) ->
    x = v \/ exists t' y, In (t', SStore y) s /\ x = norm y.
  Proof.
    induction s as [|[t' o] r IH]; intros v t x H; simpl in H; [contradiction|].
    apply in_app_or in H. destruct H as [H|H].
    - destruct (Nat.eqb t' t); [|contradiction]. destruct o; simpl in H; destruct H as [H|[]]; try discriminate.
      inversion H. left. reflexivity.
    - apply IH in H. destruct o; simpl in H.
      + destruct H as [->|[t'' [y [Hin ->]]]].
        * right. exists t', v0. split; [left; reflexivity|reflexivity].
        * right. exists t'', y. split; [right; exact Hin|reflexivity].
      + destruct H as [->|[t'' [y [Hin ->]]]]; [left; reflexivity|].
        right. exists t'', y. split; [right; exact Hin|reflexivity].
  Qed.
End StoreLoad.

Definition int64_apply := sl_apply Z wrap64.
Definition uint32_apply := sl_apply N u32.
Definition uint64_apply := sl_apply N u64.
(* String: atomic.Value holding nil until the first Set; Get maps nil to "" *)
Definition string_apply (o : sl_op bytes) (v : option bytes) : option bytes * sl_res bytes :=
  match o with
  | SStore _ x => (Some x, SUnit _)
  | SLoad _ => (v, SVal _ (match v with Some s => s | None => [] end))
  end.

Definition string_writes (o : sl_op bytes) : option (option bytes) :=
  match o with SStore _ x => Some (Some x) | SLoad _ => None end.
(* String: the final content is the last stored string (or still nil): stores never merge or tear *)
Theorem string_final_is_last_write : forall s v,
  seq_cell _ _ _ string_apply v s = last_write string_writes s v.
Proof. induction s as [|[t o] r IH]; intros v; simpl; [reflexivity|]. rewrite IH. destruct o; reflexivity. Qed.
(* every Get returns "" (nothing stored yet), the initial content, or a string some EARLIER Set stored *)
Theorem string_load_sees_a_written_value : forall s v t x,
  In (SVal _ x) (seq_outs _ _ _ string_apply v s t) ->
  x = (match v with Some b => b | None => [] end) \/ exists t' y, In (t', SStore _ y) s /\ x = y.
Proof.
  induction s as [|[t' o] r IH]; intros v t x H; simpl in H; [contradiction|].
  apply in_app_or in H. destruct H as [H|H].
  - destruct (Nat.eqb t' t); [|contradiction]. destruct o; simpl in H; destruct H as [H|[]]; try discriminate.
    inversion H. left. reflexivity.
  - apply IH in H. destruct o; simpl in H.
    + destruct H as [->|[t'' [y [Hin ->]]]].
      * right. exists t', v0. split; [left; reflexivity|reflexivity].
      * right. exists t'', y. split; [right; exact Hin|reflexivity].
    + destruct H as [->|[t'' [y [Hin ->]]]]; [left; reflexivity|].
      right. exists t'', y. split; [right; exact Hin|reflexivity].
Qed.

(* NO LOST UPDATE for all the types of atomic/*.go at once: whatever the interleaving of the atomic steps of any
   number of threads, the final value and every returned result are those of the sequential execution of the
   same calls in the order of the steps (which contains every thread's calls in program order) *)
Theorem all_atomics_no_lost_update :
  (forall c s c', aruns _ _ _ counter_apply c s c' ->
     cell _ _ _ c' = seq_cell _ _ _ counter_apply (cell _ _ _ c) s
     /\ (forall t, outs _ _ _ c' t = outs _ _ _ c t ++ seq_outs _ _ _ counter_apply (cell _ _ _ c) s t)
     /\ (forall t, progs _ _ _ c t = proj _ s t ++ progs _ _ _ c' t))
  /\ (forall c s c', aruns _ _ _ flag_apply c s c' ->
     cell _ _ _ c' = seq_cell _ _ _ flag_apply (cell _ _ _ c) s
     /\ (forall t, outs _ _ _ c' t = outs _ _ _ c t ++ seq_outs _ _ _ flag_apply (cell _ _ _ c) s t)
     /\ (forall t, progs _ _ _ c t = proj _ s t ++ progs _ _ _ c' t))
  /\ (forall c s c', aruns _ _ _ int64_apply c s c' ->
     cell _ _ _ c' = seq_cell _ _ _ int64_apply (cell _ _ _ c) s
     /\ (forall t, outs _ _ _ c' t = outs _ _ _ c t ++ seq_outs _ _ _ int64_apply (cell _ _ _ c) s t)
     /\ (forall t, progs _ _ _ c t = proj _ s t ++ progs _ _ _ c' t))
  /\ (forall c s c', aruns _ _ _ uint32_apply c s c' ->
     cell _ _ _ c' = seq_cell _ _ _ uint32_apply (cell _ _ _ c) s
     /\ (forall t, outs _ _ _ c' t = outs _ _ _ c t ++ seq_outs _ _ _ uint32_apply (cell _ _ _ c) s t)
     /\ (forall t, progs _ _ _ c t = proj _ s t ++ progs _ _ _ c' t))
  /\ (forall c s c', aruns _ _ _ uint64_apply c s c' ->
     cell _ _ _ c' = seq_cell _ _ _ uint64_apply (cell _ _ _ c) s
     /\ (forall t, outs _ _ _ c' t = outs _ _ _ c t ++ seq_outs _ _ _ uint64_apply (cell _ _ _ c) s t)
     /\ (forall t, progs _ _ _ c t = proj _ s t ++ progs _ _ _ c' t))
  /\ (forall c s c', aruns _ _ _ string_apply c s c' ->
     cell _ _ _ c' = seq_cell _ _ _ string_apply (cell _ _ _ c) s
     /\ (forall t, outs _ _ _ c' t = outs _ _ _ c t ++ seq_outs _ _ _ string_apply (cell _ _ _ c) s t)
     /\ (forall t, progs _ _ _ c t = proj _ s t ++ progs _ _ _ c' t)).
Proof. repeat split; intros; eapply atomics_no_lost_update; eauto. Qed.

(* a lost update IS expressible: a non-atomic increment (load; add; store as separate steps) of two threads ends
   one short — the model distinguishes the atomic from the torn implementation *)
Inductive torn_op := TLoad | TStore (v : Z).
Definition torn_apply (o : torn_op) (v : Z) : Z * option Z :=
  match o with TLoad => (v, Some v) | TStore x => (x, None) end.
Example torn_increment_loses_an_update :
  seq_cell _ _ _ torn_apply 5 [(0%nat, TLoad); (1%nat, TLoad); (0%nat, TStore 6); (1%nat, TStore 6)] = 6
  /\ seq_cell _ _ _ counter_apply 5 [(0%nat, CIncrement); (1%nat, CIncrement)] = 7.
Proof. split; reflexivity. Qed.

(* non-vacuity: two threads, 1 + 2 increments and a decrement, one interleaving *)
Example counter_three_threads :
  exists c', aruns _ _ _ counter_apply
      {| cell := 5; progs := fun t => match t with 0%nat => [CIncrement] | 1%nat => [CIncrement; CAdd 10] | 2%nat => [CDecrement] | _ => [] end;
         outs := fun _ => [] |}
      [(1%nat, CIncrement); (0%nat, CIncrement); (2%nat, CDecrement); (1%nat, CAdd 10)] c'
    /\ cell _ _ _ c' = 16.
Proof.
  eexists. split.
  - eapply ar_cons. { apply (a_step _ _ _ counter_apply _ 1%nat CIncrement [CAdd 10]). reflexivity. }
    eapply ar_cons. { apply (a_step _ _ _ counter_apply _ 0%nat CIncrement []). reflexivity. }
    eapply ar_cons. { apply (a_step _ _ _ counter_apply _ 2%nat CDecrement []). reflexivity. }
    eapply ar_cons. { apply (a_step _ _ _ counter_apply _ 1%nat (CAdd 10) []). reflexivity. }
    apply ar_nil.
  - reflexivity.
Qed.
