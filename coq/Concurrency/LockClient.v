(* C19 — straight-line clients of one RW lock.
   A method body, as far as the guarded state is concerned, is a list of statements: lock operations on the
   ONE lock of the object and accesses (read / write) to guarded fields.  [prog_ok] is the decidable
   bracketing check: every lock operation happens in the right mode, every read happens inside a read or
   write section, every write inside a write section, the body ends outside.
   Any number of threads that keep executing bodies drawn from a set of checked programs form a client
   that is [bracketed] in the sense of RWLock.v (so the lock invariant and mutual exclusion apply), and
   in every reachable state no write access is enabled together with any other access: the model has no
   data race on the guarded fields.  A body may also SKIP accesses (early return with a deferred unlock,
   a branch not taken); it can never skip a lock operation.
   Concurrency/LockDisciplineCheck.v builds the programs from the table generated from the Go sources. *)
From Coq.Strings Require Import String.
From Coq Require Import List Arith Bool Lia.
From EV Require Import Concurrency.RWLock.
Import ListNotations.

Inductive stmt :=
| SL (o : lock_op)                 (* a call on the object's RWMutex *)
| SA (w : bool) (f : string).      (* access to guarded field f; w = it is a write *)

Definition next_mode (m : mode) (s : stmt) : option mode :=
  match s, m with
  | SL RLock, Out => Some InR
  | SL RUnlock, InR => Some Out
  | SL WLock, Out => Some InW
  | SL WUnlock, InW => Some Out
  | SL _, _ => None
  | SA false _, InR => Some InR
  | SA _ _, InW => Some InW
  | SA _ _, _ => None
  end.

Fixpoint prog_ok (m : mode) (p : list stmt) : bool :=
  match p with
  | [] => match m with Out => true | _ => false end
  | s :: r => match next_mode m s with Some m' => prog_ok m' r | None => false end
  end.

Lemma next_mode_lock m o m' : next_mode m (SL o) = Some m' ->
  match o with
  | RLock => m = Out /\ m' = InR
  | RUnlock => m = InR /\ m' = Out
  | WLock => m = Out /\ m' = InW
  | WUnlock => m = InW /\ m' = Out
  end.
Proof. destruct o, m; simpl; intros H; inversion H; auto. Qed.

Lemma next_mode_acc m w f m' : next_mode m (SA w f) = Some m' -> m' = m /\ m <> Out /\ (w = true -> m = InW).
Proof. destruct w, m; simpl; intros H; inversion H; repeat split; auto; discriminate. Qed.

Lemma prog_ok_skip m w f r : prog_ok m (SA w f :: r) = true -> prog_ok m r = true.
Proof.
  cbn [prog_ok]. destruct (next_mode m (SA w f)) as [m'|] eqn:E; [|intros H; discriminate H].
  pose proof (next_mode_acc _ _ _ _ E) as [-> _]. auto.
Qed.

Section Client.
  Variable progs : list (list stmt).
  Hypothesis progs_ok : forall p, In p progs -> prog_ok Out p = true.

  Record th := { tm : mode; tp : list stmt }.
  Definition St := tid -> th.
  Definition pupd (s : St) (t : tid) (x : th) : St := fun t' => if Nat.eqb t' t then x else s t'.
  Definition pmode (s : St) (t : tid) : mode := tm (s t).
  Definition pinit : St := fun _ => {| tm := Out; tp := [] |}.

  Inductive pstep : St -> tid -> option lock_op -> St -> Prop :=
  (* an idle thread calls a method *)
  | p_start s t p : tp (s t) = [] -> tm (s t) = Out -> In p progs ->
      pstep s t None (pupd s t {| tm := Out; tp := p |})
  | p_lock s t o r m' : tp (s t) = SL o :: r -> next_mode (tm (s t)) (SL o) = Some m' ->
      pstep s t (Some o) (pupd s t {| tm := m'; tp := r |})
  | p_acc s t w f r m' : tp (s t) = SA w f :: r -> next_mode (tm (s t)) (SA w f) = Some m' ->
      pstep s t None (pupd s t {| tm := m'; tp := r |})
  (* the path taken does not perform this access (early return under a deferred unlock, branch not taken) *)
  | p_skip s t w f r : tp (s t) = SA w f :: r ->
      pstep s t None (pupd s t {| tm := tm (s t); tp := r |}).

  Lemma pupd_same s t x : pupd s t x t = x.
  Proof. unfold pupd. rewrite Nat.eqb_refl. reflexivity. Qed.
  Lemma pupd_other s t x t' : t' <> t -> pupd s t x t' = s t'.
  Proof. unfold pupd. intros H. apply Nat.eqb_neq in H. rewrite H. reflexivity. Qed.

  Theorem client_bracketed : bracketed St pmode pstep.
  Proof.
    intros s t o s' H. split.
    - intros t' N. unfold pmode. inversion H; subst; rewrite pupd_other by exact N; reflexivity.
    - unfold pmode. inversion H; subst; rewrite pupd_same; simpl.
      + auto.
      + match goal with E : next_mode _ (SL _) = Some _ |- _ => pose proof (next_mode_lock _ _ _ E) as Hl end.
        destruct o0; tauto.
      + match goal with E : next_mode _ (SA _ _) = Some _ |- _ => pose proof (next_mode_acc _ _ _ _ E) as Hl end. tauto.
      + reflexivity.
  Qed.

  (* every thread's remaining body is well bracketed from the thread's current mode *)
  Definition all_ok (s : St) : Prop := forall t, prog_ok (tm (s t)) (tp (s t)) = true.

  Lemma all_ok_init : all_ok pinit.
  Proof. intros t. reflexivity. Qed.

  Lemma all_ok_step s t o s' : all_ok s -> pstep s t o s' -> all_ok s'.
  Proof.
    intros Hok H t'. destruct (Nat.eq_dec t' t) as [->|N].
    - specialize (Hok t). inversion H; subst; rewrite pupd_same; simpl.
      + apply progs_ok. assumption.
      + match goal with E : tp _ = _ |- _ => rewrite E in Hok end. cbn [prog_ok] in Hok.
        match goal with E : next_mode _ _ = Some _ |- _ => rewrite E in Hok end. exact Hok.
      + match goal with E : tp _ = _ |- _ => rewrite E in Hok end. cbn [prog_ok] in Hok.
        match goal with E : next_mode _ _ = Some _ |- _ => rewrite E in Hok end. exact Hok.
      + match goal with E : tp _ = _ |- _ => rewrite E in Hok end. eapply prog_ok_skip; eauto.
    - inversion H; subst; rewrite pupd_other by exact N; apply Hok.
  Qed.

  (* a checked thread is never stuck on a statement for a reason other than the lock being busy *)
  Lemma ok_progress s t st r : all_ok s -> tp (s t) = st :: r -> exists m', next_mode (tm (s t)) st = Some m'.
  Proof.
    intros Hok E. specialize (Hok t). rewrite E in Hok. cbn [prog_ok] in Hok.
    destruct (next_mode (tm (s t)) st) as [m'|]; [eauto|discriminate].
  Qed.

  Lemma all_ok_reach x y : all_ok (snd x) -> sys_reach St pstep x y -> all_ok (snd y).
  Proof.
    intros H0 Hr. induction Hr as [|y z Hr IH Hs]; [exact H0|].
    inversion Hs; subst; simpl in *; eapply all_ok_step; eauto.
  Qed.

  (* an enabled access of a thread *)
  Definition about_to (s : St) (t : tid) (w : bool) (f : string) : Prop :=
    exists r, tp (s t) = SA w f :: r.

  (* every access happens inside a section, writes inside a write section *)
  Theorem access_inside l s t w f :
    sys_reach St pstep (lock_init, pinit) (l, s) -> about_to s t w f ->
    pmode s t <> Out /\ (w = true -> pmode s t = InW).
  Proof.
    intros Hr [r E]. pose proof (all_ok_reach (lock_init, pinit) (l, s) all_ok_init Hr t) as Hok. simpl in Hok.
    rewrite E in Hok. cbn [prog_ok] in Hok. unfold pmode.
    destruct (next_mode (tm (s t)) (SA w f)) as [m'|] eqn:En; [|discriminate].
    pose proof (next_mode_acc _ _ _ _ En) as Hacc. tauto.
  Qed.

  (* NO DATA RACE in the model: in no reachable state is a write to a guarded field enabled together with
     any other access (read or write, same field or not) of another thread *)
  Theorem client_race_free l s t t' f w' f' :
    sys_reach St pstep (lock_init, pinit) (l, s) -> t <> t' ->
    about_to s t true f -> about_to s t' w' f' -> False.
  Proof.
    intros Hr N Ha Hb.
    destruct (access_inside _ _ _ _ _ Hr Ha) as [_ Hw]. specialize (Hw eq_refl).
    destruct (access_inside _ _ _ _ _ Hr Hb) as [Hn _].
    apply Hn.
    exact (rw_mutual_exclusion St pmode pstep client_bracketed pinit l s (fun _ => eq_refl) Hr t t' N Hw).
  Qed.

  (* the unlock calls are only ever applied by a thread that holds the lock in that mode *)
  Theorem client_unlock_held l s s' t o :
    sys_reach St pstep (lock_init, pinit) (l, s) -> pstep s t (Some o) s' ->
    match o with RUnlock => In t (readers l) | WUnlock => writer l = Some t | _ => True end.
  Proof.
    intros Hr Hs.
    assert (HL : LInv St pmode (l, s)).
    { eapply (LInv_reach St pmode pstep client_bracketed); [|exact Hr]. apply LInv_init. intros t0. reflexivity. }
    exact (unlock_only_when_held St pmode pstep client_bracketed (l, s) s' t o HL Hs).
  Qed.
End Client.

(* non-vacuity: a writer and a reader program; the state in which the writer is inside its section and about to
   write is reachable, and the reader is then still outside *)
Module ClientExample.
  Definition wprog : list stmt := [SL WLock; SA true "f"%string; SL WUnlock].
  Definition rprog : list stmt := [SL RLock; SA false "f"%string; SL RUnlock].
  Definition progs := [wprog; rprog].
  Lemma progs_ok : forall p, In p progs -> prog_ok Out p = true.
  Proof. intros p [<-|[<-|[]]]; reflexivity. Qed.
  Example writer_inside_reachable :
    exists l s, sys_reach St (pstep progs) (lock_init, pinit) (l, s)
      /\ about_to s 0 true "f"%string /\ tp (s 1) = rprog /\ pmode s 1 = Out.
  Proof.
    eexists. eexists. split; [|split; [|split]].
    - eapply sr_step. eapply sr_step. eapply sr_step. apply sr_refl.
      + eapply ss_tau. apply (p_start progs _ 0 wprog); [reflexivity|reflexivity|left; reflexivity].
      + eapply ss_tau. apply (p_start progs _ 1 rprog); [reflexivity|reflexivity|right; left; reflexivity].
      + eapply ss_lock. eapply (p_lock progs _ 0 WLock); reflexivity. apply ls_wlock; reflexivity.
    - eexists. reflexivity.
    - reflexivity.
    - reflexivity.
  Qed.
End ClientExample.
