(* C19 — container/mutexMap.go under an RW lock, micro-step method bodies, and the sequential
   specification it is linearizable to.  The model follows the Go code method by method:

     Get    : RLock; val, ok := values[key]; RUnlock
     Insert : Lock;  _, ok := values[key]   (micro-step 1)
                     if !ok { values[key] = val }   (micro-step 2);  Unlock
     Set    : Lock;  values[key] = val; Unlock
     Remove : Lock;  delete(values, key); Unlock
     Len    : RLock; defer RUnlock; len(values)
     Keys   : RLock; make(.., len(values)); for k := range values { append }  (one micro-step per entry); RUnlock

   The linearisation point of every operation is a step taken while the lock is held.
   gen/LockDiscipline.v (checked by lock_discipline_ok) establishes on the current sources that every
   access to `values` is bracketed exactly like this.  builtInFunctions/container.go is a thin wrapper:
   [container_plan] below. *)
From EV Require Import Base.Bytes Concurrency.RWLock.

Definition K := bytes.
Definition V := N.
Definition amap := list (K * V).

Fixpoint mem (k : K) (m : amap) : bool :=
  match m with [] => false | (k', _) :: r => if beqb k k' then true else mem k r end.
Fixpoint find (k : K) (m : amap) : option V :=
  match m with [] => None | (k', v) :: r => if beqb k k' then Some v else find k r end.
Fixpoint remove (k : K) (m : amap) : amap :=
  match m with [] => [] | (k', v) :: r => if beqb k k' then remove k r else (k', v) :: remove k r end.
Definition set (k : K) (v : V) (m : amap) : amap := (k, v) :: remove k m.

Inductive op := Get (k : K) | Insert (k : K) (v : V) | Set_ (k : K) (v : V) | Remove (k : K) | Len | Keys.
Inductive ret := RVal (o : option V) | RBool (b : bool) | RUnit | RNat (n : nat) | RKeys (l : list K).
Definition is_read (o : op) : bool := match o with Get _ | Len | Keys => true | _ => false end.

(* ---- the sequential specification (a plain map) ---- *)
Definition spec (m : amap) (o : op) : amap * ret :=
  match o with
  | Get k => (m, RVal (find k m))
  | Insert k v => if mem k m then (m, RBool false) else (set k v m, RBool true)
  | Set_ k v => (set k v m, RUnit)
  | Remove k => (remove k m, RUnit)
  | Len => (m, RNat (length m))
  | Keys => (m, RKeys (map fst m))
  end.

(* ---- the concurrent program ---- *)
Inductive pc :=
| Idle
| Pending (o : op)                       (* called, lock not yet taken *)
| RHeld (o : op) | WHeld (o : op)        (* lock taken, body not started *)
| WMid (k : K) (v : V) (b : bool)        (* Insert: `_, ok := values[key]` done (b = ok), write pending *)
| KeysAt (i : nat) (acc : list K)        (* Keys: i entries of the range loop done *)
| Done (o : op) (r : ret)                (* body finished, lock still held *)
| Returning (o : op) (r : ret).          (* lock released, about to return *)

Record state := { mp : amap; pcs : tid -> pc }.
Definition upd (f : tid -> pc) (t : tid) (p : pc) : tid -> pc := fun t' => if Nat.eqb t' t then p else f t'.
Definition init_state : state := {| mp := []; pcs := fun _ => Idle |}.

Inductive label :=
| LCall (t : tid) (o : op)               (* invocation event *)
| LLin (t : tid) (o : op) (r : ret)      (* linearisation point *)
| LRet (t : tid) (o : op) (r : ret)      (* response event *)
| LTau (t : tid).
Definition label_tid (l : label) : tid :=
  match l with LCall t _ | LLin t _ _ | LRet t _ _ | LTau t => t end.

Definition body_result (m : amap) (o : op) : ret := snd (spec m o).

(* one step of thread t: optional lock operation, label, new state *)
Inductive cstep_l : state -> tid -> option lock_op -> label -> state -> Prop :=
| s_call s t o : pcs s t = Idle ->
    cstep_l s t None (LCall t o) {| mp := mp s; pcs := upd (pcs s) t (Pending o) |}
| s_rlock s t o : pcs s t = Pending o -> is_read o = true ->
    cstep_l s t (Some RLock) (LTau t) {| mp := mp s; pcs := upd (pcs s) t (RHeld o) |}
| s_wlock s t o : pcs s t = Pending o -> is_read o = false ->
    cstep_l s t (Some WLock) (LTau t) {| mp := mp s; pcs := upd (pcs s) t (WHeld o) |}
(* Get, Len: one read of the map *)
| s_rbody s t o : pcs s t = RHeld o -> is_read o = true -> o <> Keys ->
    cstep_l s t None (LLin t o (body_result (mp s) o))
            {| mp := mp s; pcs := upd (pcs s) t (Done o (body_result (mp s) o)) |}
(* Keys: len(values) for the capacity, then one entry per step; the last step (nothing left) is the linearisation point *)
| s_keys_start s t : pcs s t = RHeld Keys ->
    cstep_l s t None (LTau t) {| mp := mp s; pcs := upd (pcs s) t (KeysAt 0 []) |}
| s_keys_next s t i acc k v : pcs s t = KeysAt i acc -> nth_error (mp s) i = Some (k, v) ->
    cstep_l s t None (LTau t) {| mp := mp s; pcs := upd (pcs s) t (KeysAt (S i) (acc ++ [k])) |}
| s_keys_end s t i acc : pcs s t = KeysAt i acc -> nth_error (mp s) i = None ->
    cstep_l s t None (LLin t Keys (RKeys acc)) {| mp := mp s; pcs := upd (pcs s) t (Done Keys (RKeys acc)) |}
(* Set, Remove: one write *)
| s_wbody s t o : pcs s t = WHeld o -> is_read o = false -> (forall k v, o <> Insert k v) ->
    cstep_l s t None (LLin t o (body_result (mp s) o))
            {| mp := fst (spec (mp s) o); pcs := upd (pcs s) t (Done o (body_result (mp s) o)) |}
(* Insert: read, then conditional write *)
| s_ins1 s t k v : pcs s t = WHeld (Insert k v) ->
    cstep_l s t None (LTau t) {| mp := mp s; pcs := upd (pcs s) t (WMid k v (mem k (mp s))) |}
| s_ins2 s t k v b : pcs s t = WMid k v b ->
    cstep_l s t None (LLin t (Insert k v) (RBool (negb b)))
            {| mp := if b then mp s else set k v (mp s); pcs := upd (pcs s) t (Done (Insert k v) (RBool (negb b))) |}
| s_runlock s t o r : pcs s t = Done o r -> is_read o = true ->
    cstep_l s t (Some RUnlock) (LTau t) {| mp := mp s; pcs := upd (pcs s) t (Returning o r) |}
| s_wunlock s t o r : pcs s t = Done o r -> is_read o = false ->
    cstep_l s t (Some WUnlock) (LTau t) {| mp := mp s; pcs := upd (pcs s) t (Returning o r) |}
| s_ret s t o r : pcs s t = Returning o r ->
    cstep_l s t None (LRet t o r) {| mp := mp s; pcs := upd (pcs s) t Idle |}.

Definition cstep (s : state) (t : tid) (o : option lock_op) (s' : state) : Prop := exists l, cstep_l s t o l s'.

Definition pc_mode (p : pc) : mode :=
  match p with
  | RHeld _ | KeysAt _ _ => InR
  | WHeld _ | WMid _ _ _ => InW
  | Done o _ => if is_read o then InR else InW
  | _ => Out
  end.
Definition mode_of (s : state) (t : tid) : mode := pc_mode (pcs s t).

(* the whole system: client steps synchronised with the lock *)
Inductive lstep : lock * state -> label -> lock * state -> Prop :=
| l_tau l s t lab s' : cstep_l s t None lab s' -> lstep (l, s) lab (l, s')
| l_lock l s t o lab s' l' : cstep_l s t (Some o) lab s' -> lock_step t o l l' -> lstep (l, s) lab (l', s').

Inductive run : lock * state -> list label -> lock * state -> Prop :=
| run_nil x : run x [] x
| run_cons x l y ls z : lstep x l y -> run y ls z -> run x (l :: ls) z.

(* ---- what "linearizable" means here ---- *)
(* (1) the linearisation points, in the order they occur, form a legal sequential execution of [spec] *)
Inductive seq_legal : amap -> list label -> amap -> Prop :=
| sl_nil m : seq_legal m [] m
| sl_lin m t o r m1 rest m2 : (m1, r) = spec m o -> seq_legal m1 rest m2 -> seq_legal m (LLin t o r :: rest) m2
| sl_other m l rest m2 : (forall t o r, l <> LLin t o r) -> seq_legal m rest m2 -> seq_legal m (l :: rest) m2.

(* (2) per thread, events come as  call(o) . lin(o,r) . ret(o,r)  repeated: the linearisation point of an
   operation lies between its invocation and its response, and the response carries the result computed
   at the linearisation point.  Consequently, if a returned before b was called, a's point precedes b's. *)
Inductive phase := PIdle | PCalled (o : op) | PLinned (o : op) (r : ret).
Inductive phase_step : phase -> label -> phase -> Prop :=
| ps_call t o : phase_step PIdle (LCall t o) (PCalled o)
| ps_lin t o r : phase_step (PCalled o) (LLin t o r) (PLinned o r)
| ps_ret t o r : phase_step (PLinned o r) (LRet t o r) PIdle
| ps_tau ph t : phase_step ph (LTau t) ph.
Inductive thread_wf (t : tid) : phase -> list label -> phase -> Prop :=
| tw_nil ph : thread_wf t ph [] ph
| tw_mine ph l ph1 rest ph2 : label_tid l = t -> phase_step ph l ph1 -> thread_wf t ph1 rest ph2 ->
    thread_wf t ph (l :: rest) ph2
| tw_other ph l rest ph2 : label_tid l <> t -> thread_wf t ph rest ph2 -> thread_wf t ph (l :: rest) ph2.

Definition phase_of (p : pc) : phase :=
  match p with
  | Idle => PIdle
  | Pending o | RHeld o | WHeld o => PCalled o
  | WMid k v _ => PCalled (Insert k v)
  | KeysAt _ _ => PCalled Keys
  | Done o r | Returning o r => PLinned o r
  end.

(* ---- builtInFunctions/container.go on top of the map ---- *)
Inductive cop :=
| CGet (k : K) | CAdd (k : K) (f : option V) | CReplace (k : K) (f : option V) | CRemove (k : K) | CLen | CKeys.
Inductive cret :=
| CFun (v : V) | CErrInvalidKey | CErrNilElement | CErrEmptyName | CErrExists | COk | CNat (n : nat) | CKeysR (l : list K)
| CImpossible.
(* either rejected before the map is touched, or exactly one MutexMap operation whose result is post-processed
   (Keys additionally calls Len first and uses the value only as a capacity hint) *)
Definition container_plan (o : cop) : cret + (op * (ret -> cret)) :=
  match o with
  | CGet k => inr (Get k, fun r => match r with RVal (Some v) => CFun v | RVal None => CErrInvalidKey | _ => CImpossible end)
  | CAdd _ None => inl CErrNilElement
  | CAdd [] _ => inl CErrEmptyName
  | CAdd k (Some v) => inr (Insert k v, fun r => match r with RBool true => COk | RBool false => CErrExists | _ => CImpossible end)
  | CReplace _ None => inl CErrNilElement
  | CReplace [] _ => inl CErrEmptyName
  | CReplace k (Some v) => inr (Set_ k v, fun _ => COk)
  | CRemove k => inr (Remove k, fun _ => COk)
  | CLen => inr (Len, fun r => match r with RNat n => CNat n | _ => CImpossible end)
  | CKeys => inr (Keys, fun r => match r with RKeys l => CKeysR l | _ => CImpossible end)
  end.
Definition cspec (m : amap) (o : cop) : amap * cret :=
  match container_plan o with
  | inl r => (m, r)
  | inr (mo, post) => let (m', r) := spec m mo in (m', post r)
  end.
