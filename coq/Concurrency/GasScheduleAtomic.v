(* C19 — an execution is charged wholly by ONE gas schedule.
   Model of every priced built-in function object (gen/LockDiscipline.v + lock_discipline_ok establish the
   shape on the current sources):

     ProcessBuiltinFunction : mutExecution.RLock(); defer mutExecution.RUnlock();
                              ... reads funcGasCost / gasConfig.X, any number of times, in any order ...
     SetNewGasConfig(g)     : mutExecution.Lock(); funcGasCost = g...; gasConfig = g...; mutExecution.Unlock()

   The gas fields are written ONE AT A TIME (a struct assignment is several words): between two writes the
   object holds a MIXTURE of two schedules.  The theorem says no execution can observe it. *)
From EV Require Import Base.Bytes Concurrency.RWLock.
Local Open Scope N_scope.

(* the gas fields of a function object: its own base cost and the per-byte prices it uses *)
Inductive field := FBase | FStorePerByte | FPersistPerByte | FDataCopyPerByte.
Definition all_fields : list field := [FBase; FStorePerByte; FPersistPerByte; FDataCopyPerByte].
Lemma all_fields_complete f : In f all_fields.
Proof. destruct f; simpl; tauto. Qed.
Definition field_eqb (a b : field) : bool :=
  match a, b with
  | FBase, FBase | FStorePerByte, FStorePerByte | FPersistPerByte, FPersistPerByte | FDataCopyPerByte, FDataCopyPerByte => true
  | _, _ => false
  end.
Lemma field_eqb_true a b : field_eqb a b = true <-> a = b.
Proof. destruct a, b; simpl; split; intros; try discriminate; reflexivity. Qed.

Definition sched := field -> N.            (* one schedule version *)
Definition reads := list (field * N).      (* what an execution has read so far *)

Inductive gpc :=
| GIdle
| EPending (todo : list field)             (* execution called; will read these fields in this order *)
| EIn (todo : list field) (got : reads)    (* read lock held *)
| EOut (got : reads)                       (* deferred RUnlock done; the charge is computed from [got] *)
| SPending (g : sched)                     (* SetNewGasConfig(g) called *)
| SIn (g : sched) (todo : list field)      (* write lock held; fields in [todo] not yet written *)
| SOut.

Record gstate := {
  fields : field -> N;                     (* the object's gas fields *)
  cur : sched;                             (* ghost: the last completely installed schedule *)
  hist : list sched;                       (* ghost: every schedule ever completely installed, newest first *)
  gpcs : tid -> gpc
}.
Definition gupd (f : tid -> gpc) (t : tid) (p : gpc) : tid -> gpc := fun t' => if Nat.eqb t' t then p else f t'.
Definition fupd (fs : field -> N) (f : field) (v : N) : field -> N := fun f' => if field_eqb f' f then v else fs f'.

Inductive gstep : gstate -> tid -> option lock_op -> gstate -> Prop :=
| g_exec_call s t todo : gpcs s t = GIdle ->
    gstep s t None {| fields := fields s; cur := cur s; hist := hist s; gpcs := gupd (gpcs s) t (EPending todo) |}
| g_exec_rlock s t todo : gpcs s t = EPending todo ->
    gstep s t (Some RLock) {| fields := fields s; cur := cur s; hist := hist s; gpcs := gupd (gpcs s) t (EIn todo []) |}
| g_exec_read s t f todo got : gpcs s t = EIn (f :: todo) got ->
    gstep s t None {| fields := fields s; cur := cur s; hist := hist s;
                      gpcs := gupd (gpcs s) t (EIn todo (got ++ [(f, fields s f)])) |}
(* the function may return at any point (error paths); the deferred RUnlock runs then *)
| g_exec_runlock s t todo got : gpcs s t = EIn todo got ->
    gstep s t (Some RUnlock) {| fields := fields s; cur := cur s; hist := hist s; gpcs := gupd (gpcs s) t (EOut got) |}
| g_exec_ret s t got : gpcs s t = EOut got ->
    gstep s t None {| fields := fields s; cur := cur s; hist := hist s; gpcs := gupd (gpcs s) t GIdle |}
| g_set_call s t g : gpcs s t = GIdle ->
    gstep s t None {| fields := fields s; cur := cur s; hist := hist s; gpcs := gupd (gpcs s) t (SPending g) |}
| g_set_lock s t g : gpcs s t = SPending g ->
    gstep s t (Some WLock) {| fields := fields s; cur := cur s; hist := hist s; gpcs := gupd (gpcs s) t (SIn g all_fields) |}
| g_set_write s t g f todo : gpcs s t = SIn g (f :: todo) ->
    gstep s t None {| fields := fupd (fields s) f (g f); cur := cur s; hist := hist s; gpcs := gupd (gpcs s) t (SIn g todo) |}
| g_set_unlock s t g : gpcs s t = SIn g [] ->
    gstep s t (Some WUnlock) {| fields := fields s; cur := g; hist := g :: hist s; gpcs := gupd (gpcs s) t SOut |}
| g_set_ret s t : gpcs s t = SOut ->
    gstep s t None {| fields := fields s; cur := cur s; hist := hist s; gpcs := gupd (gpcs s) t GIdle |}.

Definition gpc_mode (p : gpc) : mode :=
  match p with EIn _ _ => InR | SIn _ _ => InW | _ => Out end.
Definition gmode (s : gstate) (t : tid) : mode := gpc_mode (gpcs s t).

Definition ginit (g0 : sched) : gstate := {| fields := g0; cur := g0; hist := [g0]; gpcs := fun _ => GIdle |}.

(* all values read come from the one schedule g *)
Definition consistent (got : reads) (g : sched) : Prop := forall f v, In (f, v) got -> v = g f.

(* ---- proofs ---- *)
Lemma gupd_same f t p : gupd f t p t = p.
Proof. unfold gupd. rewrite Nat.eqb_refl. reflexivity. Qed.
Lemma gupd_other f t p t' : t' <> t -> gupd f t p t' = f t'.
Proof. unfold gupd. intros H. apply Nat.eqb_neq in H. rewrite H. reflexivity. Qed.

Lemma gstep_other s t o s' t' : gstep s t o s' -> t' <> t -> gpcs s' t' = gpcs s t'.
Proof. intros H N. inversion H; subst; simpl; apply gupd_other; exact N. Qed.

Theorem gas_bracketed : bracketed gstate gmode gstep.
Proof.
  intros s t o s' H. split.
  - intros t' N. unfold gmode. rewrite (gstep_other _ _ _ _ _ H N). reflexivity.
  - unfold gmode. inversion H; subst; simpl; rewrite gupd_same;
      repeat match goal with E : gpcs _ _ = _ |- _ => rewrite E; clear E end; simpl; auto.
Qed.

Record GInv (s : gstate) : Prop := {
  g_quiet : (forall t, gmode s t <> InW) -> forall f, fields s f = cur s f;
  g_writer : forall t g todo, gpcs s t = SIn g todo -> forall f, In f todo \/ fields s f = g f;
  g_reader : forall t todo got, gpcs s t = EIn todo got -> consistent got (cur s);
  g_done : forall t got, gpcs s t = EOut got -> exists g, In g (hist s) /\ consistent got g;
  g_cur : In (cur s) (hist s)
}.
Definition Inv (x : lock * gstate) : Prop := LInv gstate gmode x /\ GInv (snd x).

Lemma GInv_init g0 : GInv (ginit g0).
Proof. split; simpl; intros; try discriminate; auto. Qed.
Lemma Inv_init g0 : Inv (lock_init, ginit g0).
Proof. split; [apply LInv_init; intros t; reflexivity|apply GInv_init]. Qed.

Lemma fupd_same fs f v : fupd fs f v f = v.
Proof. unfold fupd. destruct (field_eqb f f) eqn:E; [reflexivity|]. assert (f = f) by reflexivity. apply field_eqb_true in H. congruence. Qed.
Lemma fupd_other fs f v f' : f' <> f -> fupd fs f v f' = fs f'.
Proof. unfold fupd. intros N. destruct (field_eqb f' f) eqn:E; [apply field_eqb_true in E; contradiction|reflexivity]. Qed.

(* a thread in a write section excludes every other section; a thread in a read section excludes writers *)
Lemma no_writer_while_reading lx sx t :
  LInv gstate gmode (lx, sx) -> gmode sx t = InR -> forall t', gmode sx t' <> InW.
Proof.
  intros HL Hr t' Hw. destruct (Nat.eq_dec t t') as [->|N]; [congruence|].
  pose proof (writer_alone gstate gmode (lx, sx) t' t HL Hw N) as Ho. simpl in Ho. congruence.
Qed.

Lemma GInv_step x y : Inv x -> sys_step gstate gstep x y -> GInv (snd y).
Proof.
  intros [HL HG] Hs. destruct x as [lx sx], y as [ly sy]. simpl in *.
  assert (HL' : LInv gstate gmode (ly, sy)) by (eapply (LInv_step gstate gmode gstep gas_bracketed); eauto).
  assert (Hc : exists t o, gstep sx t o sy) by (inversion Hs; subst; eauto).
  destruct Hc as [t [o Hc]].
  destruct HG as [Hq Hw Hr Hd Hcur].
  (* facts about the stepping thread *)
  inversion Hc; subst; simpl in *.
  - (* exec call *)
    split; simpl.
    + intros Hn f. apply Hq. intros t0. destruct (Nat.eq_dec t0 t) as [->|N].
      * unfold gmode. rewrite H. discriminate.
      * specialize (Hn t0). unfold gmode in *. simpl in Hn. rewrite gupd_other in Hn by exact N. exact Hn.
    + intros t0 g td E. destruct (Nat.eq_dec t0 t) as [->|N]; [rewrite gupd_same in E; discriminate|].
      rewrite gupd_other in E by exact N. eapply Hw; eauto.
    + intros t0 td got E. destruct (Nat.eq_dec t0 t) as [->|N]; [rewrite gupd_same in E; discriminate|].
      rewrite gupd_other in E by exact N. eapply Hr; eauto.
    + intros t0 got E. destruct (Nat.eq_dec t0 t) as [->|N]; [rewrite gupd_same in E; discriminate|].
      rewrite gupd_other in E by exact N. eapply Hd; eauto.
    + exact Hcur.
  - (* exec rlock *)
    split; simpl.
    + intros Hn f. apply Hq. intros t0. destruct (Nat.eq_dec t0 t) as [->|N].
      * unfold gmode. rewrite H. discriminate.
      * specialize (Hn t0). unfold gmode in *. simpl in Hn. rewrite gupd_other in Hn by exact N. exact Hn.
    + intros t0 g td E. destruct (Nat.eq_dec t0 t) as [->|N]; [rewrite gupd_same in E; discriminate|].
      rewrite gupd_other in E by exact N. eapply Hw; eauto.
    + intros t0 td got E. destruct (Nat.eq_dec t0 t) as [->|N].
      * rewrite gupd_same in E. inversion E; subst. intros f v [].
      * rewrite gupd_other in E by exact N. eapply Hr; eauto.
    + intros t0 got E. destruct (Nat.eq_dec t0 t) as [->|N]; [rewrite gupd_same in E; discriminate|].
      rewrite gupd_other in E by exact N. eapply Hd; eauto.
    + exact Hcur.
  - (* exec read: no writer is inside, so the fields are exactly the current schedule *)
    assert (Hnw : forall t', gmode sx t' <> InW).
    { apply (no_writer_while_reading lx sx t HL). unfold gmode. rewrite H. reflexivity. }
    split; simpl.
    + intros _ f0. apply Hq. exact Hnw.
    + intros t0 g td E. destruct (Nat.eq_dec t0 t) as [->|N]; [rewrite gupd_same in E; discriminate|].
      rewrite gupd_other in E by exact N. eapply Hw; eauto.
    + intros t0 td got0 E. destruct (Nat.eq_dec t0 t) as [->|N].
      * rewrite gupd_same in E. inversion E; subst. intros f0 v Hin. apply in_app_or in Hin. destruct Hin as [Hin|[Hin|[]]].
        -- eapply Hr; eauto.
        -- inversion Hin; subst. apply Hq. exact Hnw.
      * rewrite gupd_other in E by exact N. eapply Hr; eauto.
    + intros t0 got0 E. destruct (Nat.eq_dec t0 t) as [->|N]; [rewrite gupd_same in E; discriminate|].
      rewrite gupd_other in E by exact N. eapply Hd; eauto.
    + exact Hcur.
  - (* exec runlock *)
    split; simpl.
    + intros Hn f. apply Hq. apply (no_writer_while_reading lx sx t HL). unfold gmode. rewrite H. reflexivity.
    + intros t0 g td E. destruct (Nat.eq_dec t0 t) as [->|N]; [rewrite gupd_same in E; discriminate|].
      rewrite gupd_other in E by exact N. eapply Hw; eauto.
    + intros t0 td got0 E. destruct (Nat.eq_dec t0 t) as [->|N]; [rewrite gupd_same in E; discriminate|].
      rewrite gupd_other in E by exact N. eapply Hr; eauto.
    + intros t0 got0 E. destruct (Nat.eq_dec t0 t) as [->|N].
      * rewrite gupd_same in E. inversion E; subst. exists (cur sx). split; [exact Hcur|eapply Hr; eauto].
      * rewrite gupd_other in E by exact N. eapply Hd; eauto.
    + exact Hcur.
  - (* exec ret *)
    split; simpl.
    + intros Hn f. apply Hq. intros t0. destruct (Nat.eq_dec t0 t) as [->|N].
      * unfold gmode. rewrite H. discriminate.
      * specialize (Hn t0). unfold gmode in *. simpl in Hn. rewrite gupd_other in Hn by exact N. exact Hn.
    + intros t0 g td E. destruct (Nat.eq_dec t0 t) as [->|N]; [rewrite gupd_same in E; discriminate|].
      rewrite gupd_other in E by exact N. eapply Hw; eauto.
    + intros t0 td got0 E. destruct (Nat.eq_dec t0 t) as [->|N]; [rewrite gupd_same in E; discriminate|].
      rewrite gupd_other in E by exact N. eapply Hr; eauto.
    + intros t0 got0 E. destruct (Nat.eq_dec t0 t) as [->|N]; [rewrite gupd_same in E; discriminate|].
      rewrite gupd_other in E by exact N. eapply Hd; eauto.
    + exact Hcur.
  - (* set call *)
    split; simpl.
    + intros Hn f. apply Hq. intros t0. destruct (Nat.eq_dec t0 t) as [->|N].
      * unfold gmode. rewrite H. discriminate.
      * specialize (Hn t0). unfold gmode in *. simpl in Hn. rewrite gupd_other in Hn by exact N. exact Hn.
    + intros t0 g0 td E. destruct (Nat.eq_dec t0 t) as [->|N]; [rewrite gupd_same in E; discriminate|].
      rewrite gupd_other in E by exact N. eapply Hw; eauto.
    + intros t0 td got0 E. destruct (Nat.eq_dec t0 t) as [->|N]; [rewrite gupd_same in E; discriminate|].
      rewrite gupd_other in E by exact N. eapply Hr; eauto.
    + intros t0 got0 E. destruct (Nat.eq_dec t0 t) as [->|N]; [rewrite gupd_same in E; discriminate|].
      rewrite gupd_other in E by exact N. eapply Hd; eauto.
    + exact Hcur.
  - (* set lock: the thread is now inside a write section *)
    split; simpl.
    + intros Hn. exfalso. apply (Hn t). unfold gmode. simpl. rewrite gupd_same. reflexivity.
    + intros t0 g0 td E. destruct (Nat.eq_dec t0 t) as [->|N].
      * rewrite gupd_same in E. inversion E; subst. intros f. left. apply all_fields_complete.
      * rewrite gupd_other in E by exact N. eapply Hw; eauto.
    + intros t0 td got0 E. destruct (Nat.eq_dec t0 t) as [->|N]; [rewrite gupd_same in E; discriminate|].
      rewrite gupd_other in E by exact N. eapply Hr; eauto.
    + intros t0 got0 E. destruct (Nat.eq_dec t0 t) as [->|N]; [rewrite gupd_same in E; discriminate|].
      rewrite gupd_other in E by exact N. eapply Hd; eauto.
    + exact Hcur.
  - (* set write: alone in the section *)
    assert (Hme : gmode sx t = InW) by (unfold gmode; rewrite H; reflexivity).
    split; simpl.
    + intros Hn. exfalso. apply (Hn t). unfold gmode. simpl. rewrite gupd_same. reflexivity.
    + intros t0 g0 td E. destruct (Nat.eq_dec t0 t) as [->|N].
      * rewrite gupd_same in E. inversion E; subst. intros f0.
        destruct (field_eqb f0 f) eqn:Ef.
        -- apply field_eqb_true in Ef. subst. right. apply fupd_same.
        -- assert (f0 <> f) by (intros ->; rewrite (proj2 (field_eqb_true f f) eq_refl) in Ef; discriminate).
           rewrite fupd_other by assumption.
           destruct (Hw _ _ _ H f0) as [[->|Hin]|Hv]; [contradiction|left; exact Hin|right; exact Hv].
      * rewrite gupd_other in E by exact N.
        pose proof (writer_alone gstate gmode (lx, sx) t t0 HL Hme N) as Ho. simpl in Ho.
        unfold gmode in Ho. rewrite E in Ho. discriminate.
    + intros t0 td got0 E. destruct (Nat.eq_dec t0 t) as [->|N]; [rewrite gupd_same in E; discriminate|].
      rewrite gupd_other in E by exact N.
      pose proof (writer_alone gstate gmode (lx, sx) t t0 HL Hme N) as Ho. simpl in Ho.
      unfold gmode in Ho. rewrite E in Ho. discriminate.
    + intros t0 got0 E. destruct (Nat.eq_dec t0 t) as [->|N]; [rewrite gupd_same in E; discriminate|].
      rewrite gupd_other in E by exact N. eapply Hd; eauto.
    + exact Hcur.
  - (* set unlock: everything has been written; the new schedule becomes current *)
    assert (Hme : gmode sx t = InW) by (unfold gmode; rewrite H; reflexivity).
    split; simpl.
    + intros _ f. destruct (Hw _ _ _ H f) as [[]|Hv]. exact Hv.
    + intros t0 g0 td E. destruct (Nat.eq_dec t0 t) as [->|N]; [rewrite gupd_same in E; discriminate|].
      rewrite gupd_other in E by exact N.
      pose proof (writer_alone gstate gmode (lx, sx) t t0 HL Hme N) as Ho. simpl in Ho.
      unfold gmode in Ho. rewrite E in Ho. discriminate.
    + intros t0 td got0 E. destruct (Nat.eq_dec t0 t) as [->|N]; [rewrite gupd_same in E; discriminate|].
      rewrite gupd_other in E by exact N.
      pose proof (writer_alone gstate gmode (lx, sx) t t0 HL Hme N) as Ho. simpl in Ho.
      unfold gmode in Ho. rewrite E in Ho. discriminate.
    + intros t0 got0 E. destruct (Nat.eq_dec t0 t) as [->|N]; [rewrite gupd_same in E; discriminate|].
      rewrite gupd_other in E by exact N. destruct (Hd _ _ E) as [g1 [Hin Hc1]]. exists g1. split; [right; exact Hin|exact Hc1].
    + left. reflexivity.
  - (* set ret *)
    split; simpl.
    + intros Hn f. apply Hq. intros t0. destruct (Nat.eq_dec t0 t) as [->|N].
      * unfold gmode. rewrite H. discriminate.
      * specialize (Hn t0). unfold gmode in *. simpl in Hn. rewrite gupd_other in Hn by exact N. exact Hn.
    + intros t0 g0 td E. destruct (Nat.eq_dec t0 t) as [->|N]; [rewrite gupd_same in E; discriminate|].
      rewrite gupd_other in E by exact N. eapply Hw; eauto.
    + intros t0 td got0 E. destruct (Nat.eq_dec t0 t) as [->|N]; [rewrite gupd_same in E; discriminate|].
      rewrite gupd_other in E by exact N. eapply Hr; eauto.
    + intros t0 got0 E. destruct (Nat.eq_dec t0 t) as [->|N]; [rewrite gupd_same in E; discriminate|].
      rewrite gupd_other in E by exact N. eapply Hd; eauto.
    + exact Hcur.
Qed.

Lemma Inv_step x y : Inv x -> sys_step gstate gstep x y -> Inv y.
Proof.
  intros HI Hs. split.
  - eapply (LInv_step gstate gmode gstep gas_bracketed); [exact (proj1 HI)|exact Hs].
  - eapply GInv_step; eauto.
Qed.
Lemma Inv_reach x y : Inv x -> sys_reach gstate gstep x y -> Inv y.
Proof. intros HI Hr. induction Hr; [exact HI|eapply Inv_step; eauto]. Qed.

(* SINGLE SCHEDULE: in every state reachable from a consistent object, by any number of threads executing and
   re-pricing concurrently, everything a finished (or still running) execution has read comes from ONE
   completely installed schedule — never one schedule's base cost and another's per-byte price *)
Theorem charge_single_schedule g0 l s :
  sys_reach gstate gstep (lock_init, ginit g0) (l, s) ->
  forall t got, (gpcs s t = EOut got \/ exists todo, gpcs s t = EIn todo got) ->
  exists g, In g (hist s) /\ consistent got g.
Proof.
  intros Hr t got H. pose proof (Inv_reach _ _ (Inv_init g0) Hr) as [_ HG]. simpl in HG.
  destruct H as [H|[todo H]].
  - eapply (g_done _ HG); eauto.
  - exists (cur s). split; [apply (g_cur _ HG)|eapply (g_reader _ HG); eauto].
Qed.

(* every installed schedule is the initial one or the argument of some SetNewGasConfig that completed *)
Inductive installed (g0 : sched) : list sched -> Prop :=
| inst_init : installed g0 [g0]
| inst_more g h : installed g0 h -> installed g0 (g :: h).

(* the charge formulas of the three functions the harness stresses, computed from the reads *)
Definition lookup_read (got : reads) (f : field) : N :=
  match List.find (fun p => field_eqb (fst p) f) got with Some p => snd p | None => 0 end.
Corollary charge_formula_single_schedule g0 l s t got len chg :
  sys_reach gstate gstep (lock_init, ginit g0) (l, s) -> gpcs s t = EOut got ->
  In FBase (map fst got) -> In FPersistPerByte (map fst got) -> In FStorePerByte (map fst got) ->
  exists g, In g (hist s) /\
    lookup_read got FBase + len * lookup_read got FPersistPerByte + chg * lookup_read got FStorePerByte
    = g FBase + len * g FPersistPerByte + chg * g FStorePerByte.
Proof.
  intros Hr He H1 H2 H3. destruct (charge_single_schedule g0 l s Hr t got (or_introl He)) as [g [Hin Hc]].
  exists g. split; [exact Hin|].
  assert (L : forall f, In f (map fst got) -> lookup_read got f = g f).
  { intros f Hf. unfold lookup_read. destruct (List.find (fun p => field_eqb (fst p) f) got) as [[f' v]|] eqn:E.
    - apply find_some in E. destruct E as [Hin' Ef]. simpl in Ef. apply field_eqb_true in Ef. subst. simpl. eapply Hc; eauto.
    - exfalso. apply in_map_iff in Hf. destruct Hf as [[f' v] [Ef Hin']]. simpl in Ef. subst.
      pose proof (find_none _ _ E _ Hin') as Hn. simpl in Hn.
      rewrite (proj2 (field_eqb_true f f) eq_refl) in Hn. discriminate. }
  rewrite !L by assumption. reflexivity.
Qed.

(* ---- the lock is what makes this true: the same program WITHOUT the lock can read a mixture ---- *)
Inductive nolock_reach (x : gstate) : gstate -> Prop :=
| nr_refl : nolock_reach x x
| nr_step y z t o : nolock_reach x y -> gstep y t o z -> nolock_reach x z.

Definition sched_a : sched := fun _ => 1.
Definition sched_b : sched := fun _ => 2.
Example unlocked_mixture_reachable :
  exists s, nolock_reach (ginit sched_a) s
    /\ gpcs s 0%nat = EOut [(FBase, 1); (FStorePerByte, 2)]
    /\ ~ exists g, In g [sched_a; sched_b] /\ consistent [(FBase, 1); (FStorePerByte, 2)] g.
Proof.
  eexists. split; [|split].
  - eapply nr_step. eapply nr_step. eapply nr_step. eapply nr_step. eapply nr_step. eapply nr_step.
    eapply nr_step. eapply nr_step. eapply nr_step. apply nr_refl.
    + apply (g_exec_call _ 0%nat [FBase; FStorePerByte]). reflexivity.
    + apply (g_exec_rlock _ 0%nat [FBase; FStorePerByte]). reflexivity.
    + apply (g_exec_read _ 0%nat FBase [FStorePerByte] []). reflexivity.
    + apply (g_set_call _ 1%nat sched_b). reflexivity.
    + apply (g_set_lock _ 1%nat sched_b). reflexivity.
    + apply (g_set_write _ 1%nat sched_b FBase). reflexivity.
    + apply (g_set_write _ 1%nat sched_b FStorePerByte). reflexivity.
    + apply (g_exec_read _ 0%nat FStorePerByte [] [(FBase, 1)]). reflexivity.
    + apply (g_exec_runlock _ 0%nat [] [(FBase, 1); (FStorePerByte, 2)]). reflexivity.
  - reflexivity.
  - intros [g [[<-|[<-|[]]] Hc]].
    + specialize (Hc FStorePerByte 2 (or_intror (or_introl eq_refl))). discriminate.
    + specialize (Hc FBase 1 (or_introl eq_refl)). discriminate.
Qed.


(* non-vacuity of charge_single_schedule: WITH the lock, an execution that overlaps SetNewGasConfig(sched_b) — the
   setter is called while the execution is between its two reads and has to wait — reads both fields from
   sched_a; the setter then installs sched_b completely *)
Example locked_execution_overlapping_setter :
  exists l s, sys_reach gstate gstep (lock_init, ginit sched_a) (l, s)
    /\ gpcs s 0%nat = EOut [(FBase, 1); (FStorePerByte, 1)]
    /\ gpcs s 1%nat = SOut
    /\ consistent [(FBase, 1); (FStorePerByte, 1)] sched_a
    /\ hist s = [sched_b; sched_a] /\ (forall f, fields s f = sched_b f).
Proof.
  eexists. eexists. split; [|split; [|split; [|split; [|split]]]].
  - eapply sr_step. eapply sr_step. eapply sr_step. eapply sr_step. eapply sr_step. eapply sr_step.
    eapply sr_step. eapply sr_step. eapply sr_step. eapply sr_step. eapply sr_step. eapply sr_step. apply sr_refl.
    + cbn [fields cur hist gpcs]. eapply ss_tau. apply (g_exec_call _ 0%nat [FBase; FStorePerByte]). reflexivity.
    + cbn [fields cur hist gpcs]. eapply ss_lock. apply (g_exec_rlock _ 0%nat [FBase; FStorePerByte]). reflexivity. apply ls_rlock. reflexivity.
    + cbn [fields cur hist gpcs]. eapply ss_tau. apply (g_exec_read _ 0%nat FBase [FStorePerByte] []). reflexivity.
    + cbn [fields cur hist gpcs]. eapply ss_tau. apply (g_set_call _ 1%nat sched_b). reflexivity.
    + cbn [fields cur hist gpcs]. eapply ss_tau. apply (g_exec_read _ 0%nat FStorePerByte [] [(FBase, 1)]). reflexivity.
    + cbn [fields cur hist gpcs]. eapply ss_lock. apply (g_exec_runlock _ 0%nat [] [(FBase, 1); (FStorePerByte, 1)]). reflexivity. apply ls_runlock.
    + cbn [fields cur hist gpcs]. eapply ss_lock. apply (g_set_lock _ 1%nat sched_b). reflexivity. apply ls_wlock; reflexivity.
    + cbn [fields cur hist gpcs]. eapply ss_tau. apply (g_set_write _ 1%nat sched_b FBase). reflexivity.
    + cbn [fields cur hist gpcs]. eapply ss_tau. apply (g_set_write _ 1%nat sched_b FStorePerByte). reflexivity.
    + cbn [fields cur hist gpcs]. eapply ss_tau. apply (g_set_write _ 1%nat sched_b FPersistPerByte). reflexivity.
    + cbn [fields cur hist gpcs]. eapply ss_tau. apply (g_set_write _ 1%nat sched_b FDataCopyPerByte). reflexivity.
    + cbn [fields cur hist gpcs]. eapply ss_lock. apply (g_set_unlock _ 1%nat sched_b). reflexivity. apply ls_wunlock.
  - cbn [fields cur hist gpcs]. reflexivity.
  - reflexivity.
  - intros f v [H|[H|[]]]; inversion H; reflexivity.
  - reflexivity.
  - intros f. destruct f; reflexivity.
Qed.

(* while the execution holds the read lock the setter CANNOT take the write lock: the lock step is not enabled *)
Example setter_blocked_while_executing l :
  readers l <> [] -> forall t l', ~ lock_step t WLock l l'.
Proof. intros Hr t l' H. inversion H; subst. contradiction. Qed.
