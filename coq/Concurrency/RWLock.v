(* C19 — a readers/writer lock (sync.RWMutex, safety part) as a state machine, and mutual exclusion
   for every client that brackets its critical sections the way the Go code does
   (gen/LockDiscipline.v checks the bracketing on the current sources).

   Trusted, not modelled: the Go scheduler and memory model (an Unlock happens-before the next Lock
   that observes it, so a section sees every write of the sections that precede it), writer
   preference / fairness of sync.RWMutex (liveness only).  The model allows MORE interleavings than
   the runtime: any thread may take the lock whenever it is compatible. *)
From Coq Require Import List Arith Bool Lia.
Import ListNotations.

Definition tid := nat.

Record lock := { writer : option tid; readers : list tid }.
Definition lock_init : lock := {| writer := None; readers := [] |}.

Inductive lock_op := RLock | RUnlock | WLock | WUnlock.

Fixpoint rm1 (t : tid) (l : list tid) : list tid :=
  match l with [] => [] | x :: r => if Nat.eqb x t then r else x :: rm1 t r end.

(* RLock blocks while a writer holds the lock; Lock blocks while anybody holds it.
   The unlock operations never block. *)
Inductive lock_step (t : tid) : lock_op -> lock -> lock -> Prop :=
| ls_rlock l : writer l = None ->
    lock_step t RLock l {| writer := None; readers := t :: readers l |}
| ls_runlock l :
    lock_step t RUnlock l {| writer := writer l; readers := rm1 t (readers l) |}
| ls_wlock l : writer l = None -> readers l = [] ->
    lock_step t WLock l {| writer := Some t; readers := [] |}
| ls_wunlock l :
    lock_step t WUnlock l {| writer := None; readers := readers l |}.

Lemma in_rm1 t t' l : t' <> t -> In t' l -> In t' (rm1 t l).
Proof.
  induction l as [|x r IH]; simpl; intros Hne H; [contradiction|].
  destruct (Nat.eqb x t) eqn:E.
  - destruct H as [H|H]; [apply Nat.eqb_eq in E; subst; contradiction|exact H].
  - destruct H as [H|H]; [left; exact H|right; auto].
Qed.

(* where a thread is with respect to the lock *)
Inductive mode := Out | InR | InW.

Section Bracketed.
  (* a client: some state, the lock mode of each thread as a function of that state, and a step relation
     in which a thread optionally performs one lock operation *)
  Variable St : Type.
  Variable mode_of : St -> tid -> mode.
  Variable cstep : St -> tid -> option lock_op -> St -> Prop.

  (* the bracketing discipline: lock operations are performed exactly at section boundaries,
     and a step of one thread does not move another thread across a boundary *)
  Definition bracketed : Prop :=
    forall s t o s', cstep s t o s' ->
      (forall t', t' <> t -> mode_of s' t' = mode_of s t') /\
      match o with
      | None => mode_of s' t = mode_of s t
      | Some RLock => mode_of s t = Out /\ mode_of s' t = InR
      | Some RUnlock => mode_of s t = InR /\ mode_of s' t = Out
      | Some WLock => mode_of s t = Out /\ mode_of s' t = InW
      | Some WUnlock => mode_of s t = InW /\ mode_of s' t = Out
      end.
  Hypothesis Hbr : bracketed.

  Inductive sys_step : lock * St -> lock * St -> Prop :=
  | ss_tau l s t s' : cstep s t None s' -> sys_step (l, s) (l, s')
  | ss_lock l s t o s' l' : cstep s t (Some o) s' -> lock_step t o l l' -> sys_step (l, s) (l', s').

  Record LInv (ls : lock * St) : Prop := {
    li_w : forall t, mode_of (snd ls) t = InW -> writer (fst ls) = Some t;
    li_r : forall t, mode_of (snd ls) t = InR -> In t (readers (fst ls));
    li_x : forall t, writer (fst ls) = Some t -> readers (fst ls) = []
  }.

  Lemma mode_other s t o s' t' : cstep s t o s' -> t' <> t -> mode_of s' t' = mode_of s t'.
  Proof. intros H N. exact (proj1 (Hbr _ _ _ _ H) t' N). Qed.

  Lemma LInv_step x y : LInv x -> sys_step x y -> LInv y.
  Proof.
    intros [Hw Hr Hx] Hs. inversion Hs as [l s t s' Hc|l s t o s' l' Hc Hl]; subst; simpl in *.
    - (* no lock operation *)
      pose proof (Hbr _ _ _ _ Hc) as [Hoth Hme]. simpl in Hme.
      split; simpl; intros t0 Ht0.
      + apply Hw. destruct (Nat.eq_dec t0 t) as [->|N]; [congruence|]. rewrite <- (Hoth _ N). exact Ht0.
      + apply Hr. destruct (Nat.eq_dec t0 t) as [->|N]; [congruence|]. rewrite <- (Hoth _ N). exact Ht0.
      + eapply Hx; eauto.
    - pose proof (Hbr _ _ _ _ Hc) as [Hoth Hme].
      inversion Hl as [l0 Hwn|l0|l0 Hwn Hrn|l0]; subst; simpl in *; destruct Hme as [Hb Ha];
        split; simpl; intros t0 Ht0.
      + (* RLock *) destruct (Nat.eq_dec t0 t) as [->|N]; [congruence|].
        rewrite (Hoth _ N) in Ht0. apply Hw in Ht0. congruence.
      + destruct (Nat.eq_dec t0 t) as [->|N]; [left; reflexivity|].
        right. apply Hr. rewrite <- (Hoth _ N). exact Ht0.
      + discriminate.
      + (* RUnlock *) destruct (Nat.eq_dec t0 t) as [->|N]; [congruence|].
        apply Hw. rewrite <- (Hoth _ N). exact Ht0.
      + destruct (Nat.eq_dec t0 t) as [->|N]; [congruence|].
        apply in_rm1; [exact N|]. apply Hr. rewrite <- (Hoth _ N). exact Ht0.
      + exfalso. apply Hr in Hb. rewrite (Hx _ Ht0) in Hb. contradiction.
      + (* WLock *) destruct (Nat.eq_dec t0 t) as [->|N]; [reflexivity|].
        rewrite (Hoth _ N) in Ht0. apply Hw in Ht0. congruence.
      + destruct (Nat.eq_dec t0 t) as [->|N]; [congruence|].
        rewrite (Hoth _ N) in Ht0. apply Hr in Ht0. rewrite Hrn in Ht0. contradiction.
      + reflexivity.
      + (* WUnlock *) destruct (Nat.eq_dec t0 t) as [->|N]; [congruence|].
        rewrite (Hoth _ N) in Ht0. apply Hw in Ht0. apply Hw in Hb. congruence.
      + destruct (Nat.eq_dec t0 t) as [->|N]; [congruence|].
        apply Hr. rewrite <- (Hoth _ N). exact Ht0.
      + discriminate.
  Qed.

  Inductive sys_reach (x : lock * St) : lock * St -> Prop :=
  | sr_refl : sys_reach x x
  | sr_step y z : sys_reach x y -> sys_step y z -> sys_reach x z.

  Lemma LInv_reach x y : LInv x -> sys_reach x y -> LInv y.
  Proof. intros HI Hr. induction Hr; [exact HI|eapply LInv_step; eauto]. Qed.

  Lemma LInv_init s0 : (forall t, mode_of s0 t = Out) -> LInv (lock_init, s0).
  Proof. intros H. split; simpl; intros t E; try rewrite H in E; discriminate. Qed.

  (* a thread inside a write section is alone: nobody else is inside any section *)
  Lemma writer_alone x t t' : LInv x -> mode_of (snd x) t = InW -> t' <> t -> mode_of (snd x) t' = Out.
  Proof.
    intros [Hw Hr Hx] Ht N. destruct (mode_of (snd x) t') eqn:E; [reflexivity| |].
    - apply Hr in E. rewrite (Hx _ (Hw _ Ht)) in E. contradiction.
    - apply Hw in E. apply Hw in Ht. congruence.
  Qed.

  (* MUTUAL EXCLUSION: from a state where every thread is outside, in every reachable state a writer
     excludes every other thread from every section (readers may share) *)
  Theorem rw_mutual_exclusion s0 l s :
    (forall t, mode_of s0 t = Out) -> sys_reach (lock_init, s0) (l, s) ->
    forall t t', t <> t' -> mode_of s t = InW -> mode_of s t' = Out.
  Proof.
    intros H0 Hr t t' N Ht.
    apply (writer_alone (l, s) t t'); [eapply LInv_reach; [apply LInv_init; exact H0|exact Hr]|exact Ht|auto].
  Qed.

  (* the unlock operations are never applied to a lock the thread does not hold
     (sync.RWMutex would crash with "unlock of unlocked RWMutex") *)
  Theorem unlock_only_when_held x s' t o :
    LInv x -> cstep (snd x) t (Some o) s' ->
    match o with
    | RUnlock => In t (readers (fst x))
    | WUnlock => writer (fst x) = Some t
    | _ => True
    end.
  Proof.
    intros [Hw Hr Hx] Hc. pose proof (Hbr _ _ _ _ Hc) as [_ Hme].
    destruct o; auto; destruct Hme as [Hb _]; auto.
  Qed.
End Bracketed.

(* non-vacuity: the smallest client (a thread only enters and leaves sections) is bracketed, and two
   readers can be inside together while a writer cannot join them *)
Module Tiny.
  Definition St := tid -> mode.
  Definition upd (f : St) (t : tid) (m : mode) : St := fun t' => if Nat.eqb t' t then m else f t'.
  Inductive cstep : St -> tid -> option lock_op -> St -> Prop :=
  | c_rl s t : s t = Out -> cstep s t (Some RLock) (upd s t InR)
  | c_ru s t : s t = InR -> cstep s t (Some RUnlock) (upd s t Out)
  | c_wl s t : s t = Out -> cstep s t (Some WLock) (upd s t InW)
  | c_wu s t : s t = InW -> cstep s t (Some WUnlock) (upd s t Out).
  Lemma tiny_bracketed : bracketed St (fun s t => s t) cstep.
  Proof.
    intros s t o s' H. inversion H; subst; (split; [intros t' N; unfold upd; apply Nat.eqb_neq in N; rewrite N; reflexivity|]);
      unfold upd; rewrite Nat.eqb_refl; auto.
  Qed.
  Example two_readers_share :
    exists l s, sys_reach St cstep (lock_init, fun _ => Out) (l, s) /\ s 0 = InR /\ s 1 = InR.
  Proof.
    eexists. eexists. split.
    - eapply sr_step. eapply sr_step. apply sr_refl.
      + eapply ss_lock. apply (c_rl _ 0). reflexivity. apply ls_rlock. reflexivity.
      + eapply ss_lock. apply (c_rl _ 1). reflexivity. apply ls_rlock. reflexivity.
    - split; reflexivity.
  Qed.
End Tiny.
