(* C19 — proofs for Concurrency/MutexMapLin.v: the map program is bracketed, the lock invariant and the
   program invariant hold in every reachable state, every linearisation step is a step of the sequential
   specification, and every run is linearizable (forward simulation, linearisation points inside the
   critical sections). *)
From EV Require Import Base.Bytes Concurrency.RWLock Concurrency.MutexMapLin.

Lemma upd_same f t p : upd f t p t = p.
Proof. unfold upd. rewrite Nat.eqb_refl. reflexivity. Qed.
Lemma upd_other f t p t' : t' <> t -> upd f t p t' = f t'.
Proof. unfold upd. intros H. apply Nat.eqb_neq in H. rewrite H. reflexivity. Qed.

(* every step touches only the program counter of the stepping thread *)
Lemma cstep_l_other s t o l s' t' : cstep_l s t o l s' -> t' <> t -> pcs s' t' = pcs s t'.
Proof. intros H N. inversion H; subst; simpl; apply upd_other; exact N. Qed.

Lemma cstep_l_tid s t o l s' : cstep_l s t o l s' -> label_tid l = t.
Proof. intros H. inversion H; reflexivity. Qed.

(* ---- the program brackets its critical sections ---- *)
Theorem mm_bracketed : bracketed state mode_of cstep.
Proof.
  intros s t o s' [l H]. split.
  - intros t' N. unfold mode_of. rewrite (cstep_l_other _ _ _ _ _ _ H N). reflexivity.
  - unfold mode_of. inversion H; subst; simpl; rewrite upd_same;
      repeat match goal with E : pcs _ _ = _ |- _ => rewrite E; clear E end; simpl;
      repeat match goal with E : is_read _ = _ |- _ => rewrite E end; auto.
Qed.

Lemma lstep_sys x l y : lstep x l y -> sys_step state cstep x y.
Proof.
  intros H. inversion H; subst.
  - eapply ss_tau. eexists; eassumption.
  - eapply ss_lock; [eexists; eassumption|eassumption].
Qed.

(* ---- program invariant ---- *)
Record CInv (s : state) : Prop := {
  c_mid : forall t k v b, pcs s t = WMid k v b -> b = mem k (mp s);
  c_keys : forall t i acc, pcs s t = KeysAt i acc -> acc = firstn i (map fst (mp s)) /\ i <= length (mp s)
}.
Definition Inv (x : lock * state) : Prop := LInv state mode_of x /\ CInv (snd x).

Lemma Inv_init : Inv (lock_init, init_state).
Proof.
  split.
  - apply LInv_init. intros t. reflexivity.
  - split; simpl; intros; discriminate.
Qed.

Lemma firstn_S_nth {A} (l : list A) : forall i x, nth_error l i = Some x -> firstn (S i) l = firstn i l ++ [x].
Proof.
  induction l as [|a l IH]; intros [|i] x H; simpl in *; try discriminate.
  - inversion H. reflexivity.
  - f_equal. apply IH. exact H.
Qed.

(* a thread about to write the map is alone in its section *)
Lemma writer_excludes x t t0 :
  LInv state mode_of x -> mode_of (snd x) t = InW -> t0 <> t -> mode_of (snd x) t0 = Out.
Proof. intros HL Hm N. eapply (writer_alone state mode_of); eauto. Qed.

Lemma CInv_step x l y : Inv x -> lstep x l y -> CInv (snd y).
Proof.
  intros [HL [Hmid Hkeys]] Hs. destruct x as [lx sx], y as [ly sy]. simpl in *.
  assert (Hc : exists t o, cstep_l sx t o l sy).
  { inversion Hs; subst; simpl; eauto. }
  destruct Hc as [t [o Hc]].
  (* does this step write the map? *)
  assert (Hcase : mp sy = mp sx \/ mode_of sx t = InW).
  { unfold mode_of. inversion Hc; subst; simpl; auto;
      right; match goal with E : pcs _ _ = _ |- _ => rewrite E end; reflexivity. }
  split.
  - intros t0 k v b E. destruct (Nat.eq_dec t0 t) as [->|N].
    + (* the stepping thread itself *)
      inversion Hc; subst; simpl in *; rewrite upd_same in E; try discriminate.
      inversion E; subst. reflexivity.
    + rewrite (cstep_l_other _ _ _ _ _ _ Hc N) in E.
      destruct Hcase as [Hm|Hm].
      * rewrite Hm. eapply Hmid; eauto.
      * pose proof (writer_excludes (lx, sx) t t0 HL Hm N) as Ho; simpl in Ho. unfold mode_of in Ho. rewrite E in Ho. discriminate.
  - intros t0 i acc E. destruct (Nat.eq_dec t0 t) as [->|N].
    + inversion Hc; subst; simpl in *; rewrite upd_same in E; try discriminate.
      * inversion E; subst. simpl. split; [reflexivity|lia].
      * inversion E; subst.
        match goal with H : pcs _ _ = KeysAt _ _ |- _ => destruct (Hkeys _ _ _ H) as [Ha Hi] end.
        match goal with H : nth_error _ _ = Some _ |- _ => pose proof H as Hn end.
        split.
        -- rewrite (firstn_S_nth (map fst (mp sx)) i0 k); [rewrite <- Ha; reflexivity|].
           rewrite nth_error_map, Hn. reflexivity.
        -- assert (i0 < length (mp sx)) by (apply nth_error_Some; congruence). lia.
    + rewrite (cstep_l_other _ _ _ _ _ _ Hc N) in E.
      destruct Hcase as [Hm|Hm].
      * rewrite Hm. eapply Hkeys; eauto.
      * pose proof (writer_excludes (lx, sx) t t0 HL Hm N) as Ho; simpl in Ho. unfold mode_of in Ho. rewrite E in Ho. discriminate.
Qed.

Lemma Inv_step x l y : Inv x -> lstep x l y -> Inv y.
Proof.
  intros HI Hs. split.
  - eapply (LInv_step state mode_of cstep mm_bracketed); [exact (proj1 HI)|apply (lstep_sys _ _ _ Hs)].
  - eapply CInv_step; eauto.
Qed.

Lemma Inv_run x ls y : Inv x -> run x ls y -> Inv y.
Proof. intros HI Hr. induction Hr; [exact HI|]. apply IHHr. eapply Inv_step; eauto. Qed.

(* ---- mutual exclusion for the map program ---- *)
Theorem mm_mutual_exclusion ls l s :
  run (lock_init, init_state) ls (l, s) ->
  forall t t', t <> t' -> mode_of s t = InW -> mode_of s t' = Out.
Proof.
  intros Hr t t' N Hm. pose proof (Inv_run _ _ _ Inv_init Hr) as [HL _].
  apply (writer_excludes (l, s) t t' HL Hm). auto.
Qed.

(* ---- every linearisation step is a step of the sequential specification ---- *)
Theorem lin_step_is_spec x t o r y :
  Inv x -> lstep x (LLin t o r) y -> (mp (snd y), r) = spec (mp (snd x)) o.
Proof.
  intros [HL [Hmid Hkeys]] Hs. destruct x as [lx sx], y as [ly sy]. simpl in *.
  assert (Hc : exists t' ol, cstep_l sx t' ol (LLin t o r) sy).
  { inversion Hs; subst; simpl; eauto. }
  destruct Hc as [t' [ol Hc]]. inversion Hc; subst; simpl.
  - (* Get / Len *)
    destruct o; simpl in *; try discriminate; reflexivity.
  - (* Keys: everything has been read, nothing changed meanwhile *)
    match goal with H : pcs _ _ = KeysAt _ _ |- _ => destruct (Hkeys _ _ _ H) as [Ha Hi] end.
    match goal with H : nth_error _ _ = None |- _ => apply nth_error_None in H; rename H into Hn end.
    rewrite Ha. rewrite firstn_all2; [reflexivity|]. rewrite map_length. exact Hn.
  - (* Set / Remove *)
    unfold body_result. destruct (spec (mp sx) o); reflexivity.
  - (* Insert: the earlier read is still valid *)
    match goal with H : pcs _ _ = WMid _ _ _ |- _ => rewrite (Hmid _ _ _ _ H) end.
    destruct (mem k (mp sx)); reflexivity.
Qed.

Lemma non_lin_keeps_map x l y :
  lstep x l y -> (forall t o r, l <> LLin t o r) -> mp (snd y) = mp (snd x).
Proof.
  intros Hs Hn. destruct x as [lx sx], y as [ly sy]. simpl in *.
  assert (Hc : exists t o, cstep_l sx t o l sy).
  { inversion Hs; subst; simpl; eauto. }
  destruct Hc as [t [o Hc]]. inversion Hc; subst; simpl; try reflexivity;
    exfalso; eapply Hn; reflexivity.
Qed.

Theorem runs_linearise x ls y : Inv x -> run x ls y -> seq_legal (mp (snd x)) ls (mp (snd y)).
Proof.
  intros HI Hr. induction Hr as [x|x l y ls z Hs Hr IH].
  - apply sl_nil.
  - pose proof (Inv_step _ _ _ HI Hs) as HI1. specialize (IH HI1).
    destruct l as [t o|t o r|t o r|t].
    + rewrite <- (non_lin_keeps_map _ _ _ Hs) by (intros; discriminate). apply sl_other; [intros; discriminate|exact IH].
    + eapply sl_lin; [eapply lin_step_is_spec; eauto|exact IH].
    + rewrite <- (non_lin_keeps_map _ _ _ Hs) by (intros; discriminate). apply sl_other; [intros; discriminate|exact IH].
    + rewrite <- (non_lin_keeps_map _ _ _ Hs) by (intros; discriminate). apply sl_other; [intros; discriminate|exact IH].
Qed.

(* ---- the linearisation point lies between invocation and response ---- *)
Lemma phase_cstep s t o l s' :
  cstep_l s t o l s' -> phase_step (phase_of (pcs s t)) l (phase_of (pcs s' t)).
Proof.
  intros H. inversion H; subst; simpl; rewrite upd_same;
    repeat match goal with E : pcs _ _ = _ |- _ => rewrite E; clear E end; simpl; constructor.
Qed.

Theorem run_thread_wf x ls y :
  run x ls y -> forall t, thread_wf t (phase_of (pcs (snd x) t)) ls (phase_of (pcs (snd y) t)).
Proof.
  intros Hr. induction Hr as [x|x l y ls z Hs Hr IH]; intros t.
  - apply tw_nil.
  - destruct x as [lx sx], y as [ly sy]. simpl in *.
    assert (Hc : exists t0 o, cstep_l sx t0 o l sy).
    { inversion Hs; subst; simpl; eauto. }
    destruct Hc as [t0 [o Hc]]. pose proof (cstep_l_tid _ _ _ _ _ Hc) as Ht.
    destruct (Nat.eq_dec t t0) as [->|N].
    + eapply tw_mine; [exact Ht|apply (phase_cstep _ _ _ _ _ Hc)|apply IH].
    + apply tw_other; [rewrite Ht; auto|]. rewrite <- (cstep_l_other _ _ _ _ _ _ Hc N). apply IH.
Qed.

(* ---- LINEARIZABILITY of MutexMap ----
   For every run of any number of threads issuing any operations from the empty map:
   (1) the linearisation points, in order, are a legal sequential execution of the map specification
       ending in the final contents;
   (2) in every thread, each response is preceded by the linearisation point of the same operation with the
       same result, itself preceded by the invocation (so real-time order is respected);
   and a history in which every thread is idle again is complete: every operation has all three events. *)
Theorem mutexmap_linearizable ls l s :
  run (lock_init, init_state) ls (l, s) ->
  seq_legal [] ls (mp s) /\ (forall t, thread_wf t PIdle ls (phase_of (pcs s t))).
Proof.
  intros Hr. split.
  - exact (runs_linearise _ _ _ Inv_init Hr).
  - intros t. exact (run_thread_wf _ _ _ Hr t).
Qed.

(* the container wrapper: a container operation is rejected without touching the map or is exactly one
   map operation — so its linearisation point is that of the map operation *)
Theorem container_refines m o :
  match container_plan o with
  | inl r => cspec m o = (m, r)
  | inr (mo, post) => cspec m o = (fst (spec m mo), post (snd (spec m mo)))
  end.
Proof.
  unfold cspec. destruct (container_plan o) as [r|[mo post]]; [reflexivity|].
  destruct (spec m mo); reflexivity.
Qed.

(* ---- non-vacuity: two threads race on Insert of the same key; exactly one wins ---- *)
Example insert_race_run :
  exists ls l s, run (lock_init, init_state) ls (l, s)
    /\ In (LRet 0 (Insert [x61] 1%N) (RBool true)) ls /\ In (LRet 1 (Insert [x61] 2%N) (RBool false)) ls
    /\ mp s = [([x61], 1%N)].
Proof.
  pose (k := [x61]).
  eexists. eexists. eexists. split.
  { eapply run_cons. { eapply l_tau. apply (s_call _ 0 (Insert k 1%N)). reflexivity. }
    eapply run_cons. { eapply l_tau. apply (s_call _ 1 (Insert k 2%N)). reflexivity. }
    eapply run_cons. { eapply l_lock. apply (s_wlock _ 0 (Insert k 1%N)); reflexivity. apply ls_wlock; reflexivity. }
    eapply run_cons. { eapply l_tau. apply (s_ins1 _ 0 k 1%N). reflexivity. }
    eapply run_cons. { eapply l_tau. apply (s_ins2 _ 0 k 1%N false). reflexivity. }
    eapply run_cons. { eapply l_lock. apply (s_wunlock _ 0 (Insert k 1%N) (RBool true)); reflexivity. apply ls_wunlock. }
    eapply run_cons. { eapply l_lock. apply (s_wlock _ 1 (Insert k 2%N)); reflexivity. apply ls_wlock; reflexivity. }
    eapply run_cons. { eapply l_tau. apply (s_ins1 _ 1 k 2%N). reflexivity. }
    eapply run_cons. { eapply l_tau. apply (s_ins2 _ 1 k 2%N true). reflexivity. }
    eapply run_cons. { eapply l_lock. apply (s_wunlock _ 1 (Insert k 2%N) (RBool false)); reflexivity. apply ls_wunlock. }
    eapply run_cons. { eapply l_tau. apply (s_ret _ 0 (Insert k 1%N) (RBool true)). reflexivity. }
    eapply run_cons. { eapply l_tau. apply (s_ret _ 1 (Insert k 2%N) (RBool false)). reflexivity. }
    apply run_nil. }
  simpl. split; [tauto|]. split; [tauto|]. reflexivity.
Qed.
