(* C18 — the registry built by factory.go:CreateBuiltInFunctionContainer is complete and correctly bound.
   [expected] is the hand-written binding table (protocol name -> constructor, literal flags, own gas
   field, activation epoch); [registry], [gas_setters], [ctor_types] are GENERATED from the current
   sources (gen/Registry.v).  [registry_exact] ties the two. *)
From Coq.Strings Require Import String.
From EV Require Import Base.Bytes gen.Consts gen.Registry.
Local Open Scope string_scope.

Record binding := B {
  b_name  : bytes;                 (* protocol name (registered key) *)
  b_ctor  : string;                (* constructor called by the factory *)
  b_args  : list string;           (* its arguments, exactly as written in factory.go *)
  b_type  : string;                (* concrete (unexported) type it builds *)
  b_gas   : option string;         (* the function's OWN field of vmcommon.BuiltInCost, if priced *)
  b_base  : bool;                  (* additionally priced per byte from BaseOperationCost *)
  b_epoch : bool;                  (* carries an activation epoch (embeds *baseEnabled) *)
  b_flags : list (string * bool)   (* literal behaviour flags: (struct field, value), in constructor order *)
}.

(* the protocol's 23 built-in function names, literally as in the property text / constants.go *)
Definition protocol_names : list bytes := [
  str "ClaimDeveloperRewards"; str "ChangeOwnerAddress"; str "SetUserName"; str "SaveKeyValue";
  str "ESDTTransfer"; str "ESDTBurn"; str "ESDTFreeze"; str "ESDTUnFreeze"; str "ESDTWipe";
  str "ESDTPause"; str "ESDTUnPause"; str "ESDTSetRole"; str "ESDTUnSetRole";
  str "ESDTLocalMint"; str "ESDTLocalBurn"; str "ESDTNFTTransfer"; str "ESDTNFTCreate";
  str "ESDTNFTAddQuantity"; str "ESDTNFTCreateRoleTransfer"; str "ESDTNFTBurn";
  str "ESDTNFTAddURI"; str "ESDTNFTUpdateAttributes"; str "MultiESDTNFTTransfer" ].

(* pinned against the generated constants of constants.go *)
Example protocol_names_are_the_constants :
  protocol_names = [
    C.BuiltInFunctionClaimDeveloperRewards; C.BuiltInFunctionChangeOwnerAddress; C.BuiltInFunctionSetUserName;
    C.BuiltInFunctionSaveKeyValue; C.BuiltInFunctionESDTTransfer; C.BuiltInFunctionESDTBurn;
    C.BuiltInFunctionESDTFreeze; C.BuiltInFunctionESDTUnFreeze; C.BuiltInFunctionESDTWipe;
    C.BuiltInFunctionESDTPause; C.BuiltInFunctionESDTUnPause; C.BuiltInFunctionSetESDTRole;
    C.BuiltInFunctionUnSetESDTRole; C.BuiltInFunctionESDTLocalMint; C.BuiltInFunctionESDTLocalBurn;
    C.BuiltInFunctionESDTNFTTransfer; C.BuiltInFunctionESDTNFTCreate; C.BuiltInFunctionESDTNFTAddQuantity;
    C.BuiltInFunctionESDTNFTCreateRoleTransfer; C.BuiltInFunctionESDTNFTBurn; C.BuiltInFunctionESDTNFTAddURI;
    C.BuiltInFunctionESDTNFTUpdateAttributes; C.BuiltInFunctionMultiESDTNFTTransfer ].
Proof. reflexivity. Qed.

Definition expected : list binding := [
  B (str "ClaimDeveloperRewards") "NewClaimDeveloperRewardsFunc"
    ["b.gasConfig.BuiltInCost.ClaimDeveloperRewards"]
    "claimDeveloperRewards" (Some "ClaimDeveloperRewards") false false [];
  B (str "ChangeOwnerAddress") "NewChangeOwnerAddressFunc"
    ["b.gasConfig.BuiltInCost.ChangeOwnerAddress"]
    "changeOwnerAddress" (Some "ChangeOwnerAddress") false false [];
  B (str "SetUserName") "NewSaveUserNameFunc"
    ["b.gasConfig.BuiltInCost.SaveUserName"; "b.mapDNSAddresses"; "b.enableUserNameChange"]
    "saveUserName" (Some "SaveUserName") false false [];
  B (str "SaveKeyValue") "NewSaveKeyValueStorageFunc"
    ["b.gasConfig.BaseOperationCost"; "b.gasConfig.BuiltInCost.SaveKeyValue"]
    "saveKeyValueStorage" (Some "SaveKeyValue") true false [];
  B (str "ESDTPause") "NewESDTPauseFunc" ["b.accounts"; "true"]
    "esdtPause" None false false [("pause", true)];
  B (str "ESDTUnPause") "NewESDTPauseFunc" ["b.accounts"; "false"]
    "esdtPause" None false false [("pause", false)];
  B (str "ESDTTransfer") "NewESDTTransferFunc"
    ["b.gasConfig.BuiltInCost.ESDTTransfer"; "b.marshalizer"; "pauseFunc"; "b.shardCoordinator"]
    "esdtTransfer" (Some "ESDTTransfer") false false [];
  B (str "ESDTBurn") "NewESDTBurnFunc"
    ["b.gasConfig.BuiltInCost.ESDTBurn"; "b.marshalizer"; "pauseFunc"]
    "esdtBurn" (Some "ESDTBurn") false false [];
  B (str "ESDTFreeze") "NewESDTFreezeWipeFunc" ["b.marshalizer"; "true"; "false"]
    "esdtFreezeWipe" None false false [("freeze", true); ("wipe", false)];
  B (str "ESDTUnFreeze") "NewESDTFreezeWipeFunc" ["b.marshalizer"; "false"; "false"]
    "esdtFreezeWipe" None false false [("freeze", false); ("wipe", false)];
  B (str "ESDTWipe") "NewESDTFreezeWipeFunc" ["b.marshalizer"; "false"; "true"]
    "esdtFreezeWipe" None false false [("freeze", false); ("wipe", true)];
  B (str "ESDTSetRole") "NewESDTRolesFunc" ["b.marshalizer"; "true"]
    "esdtRoles" None false false [("set", true)];
  B (str "ESDTUnSetRole") "NewESDTRolesFunc" ["b.marshalizer"; "false"]
    "esdtRoles" None false false [("set", false)];
  B (str "ESDTLocalBurn") "NewESDTLocalBurnFunc"
    ["b.gasConfig.BuiltInCost.ESDTLocalBurn"; "b.marshalizer"; "pauseFunc"; "setRoleFunc"]
    "esdtLocalBurn" (Some "ESDTLocalBurn") false false [];
  B (str "ESDTLocalMint") "NewESDTLocalMintFunc"
    ["b.gasConfig.BuiltInCost.ESDTLocalMint"; "b.marshalizer"; "pauseFunc"; "setRoleFunc"]
    "esdtLocalMint" (Some "ESDTLocalMint") false false [];
  B (str "ESDTNFTAddQuantity") "NewESDTNFTAddQuantityFunc"
    ["b.gasConfig.BuiltInCost.ESDTNFTAddQuantity"; "b.marshalizer"; "pauseFunc"; "setRoleFunc"]
    "esdtNFTAddQuantity" (Some "ESDTNFTAddQuantity") false false [];
  B (str "ESDTNFTBurn") "NewESDTNFTBurnFunc"
    ["b.gasConfig.BuiltInCost.ESDTNFTBurn"; "b.marshalizer"; "pauseFunc"; "setRoleFunc"]
    "esdtNFTBurn" (Some "ESDTNFTBurn") false false [];
  B (str "ESDTNFTCreate") "NewESDTNFTCreateFunc"
    ["b.gasConfig.BuiltInCost.ESDTNFTCreate"; "b.gasConfig.BaseOperationCost"; "b.marshalizer"; "pauseFunc"; "setRoleFunc"]
    "esdtNFTCreate" (Some "ESDTNFTCreate") true false [];
  B (str "ESDTNFTTransfer") "NewESDTNFTTransferFunc"
    ["b.gasConfig.BuiltInCost.ESDTNFTTransfer"; "b.marshalizer"; "pauseFunc"; "b.accounts"; "b.shardCoordinator"; "b.gasConfig.BaseOperationCost"]
    "esdtNFTTransfer" (Some "ESDTNFTTransfer") true false [];
  B (str "ESDTNFTCreateRoleTransfer") "NewESDTNFTCreateRoleTransfer"
    ["b.marshalizer"; "b.accounts"; "b.shardCoordinator"]
    "esdtNFTCreateRoleTransfer" None false false [];
  B (str "ESDTNFTUpdateAttributes") "NewESDTNFTUpdateAttributesFunc"
    ["b.gasConfig.BuiltInCost.ESDTNFTUpdateAttributes"; "b.gasConfig.BaseOperationCost"; "b.marshalizer"; "pauseFunc"; "setRoleFunc"; "b.esdtNFTImprovementV1ActivationEpoch"; "b.epochNotifier"]
    "esdtNFTupdate" (Some "ESDTNFTUpdateAttributes") true true [];
  B (str "ESDTNFTAddURI") "NewESDTNFTAddUriFunc"
    ["b.gasConfig.BuiltInCost.ESDTNFTAddURI"; "b.gasConfig.BaseOperationCost"; "b.marshalizer"; "pauseFunc"; "setRoleFunc"; "b.esdtNFTImprovementV1ActivationEpoch"; "b.epochNotifier"]
    "esdtNFTAddUri" (Some "ESDTNFTAddURI") true true [];
  B (str "MultiESDTNFTTransfer") "NewESDTNFTMultiTransferFunc"
    ["b.gasConfig.BuiltInCost.ESDTNFTMultiTransfer"; "b.marshalizer"; "pauseFunc"; "b.accounts"; "b.shardCoordinator"; "b.gasConfig.BaseOperationCost"; "b.esdtNFTImprovementV1ActivationEpoch"; "b.epochNotifier"]
    "esdtNFTMultiTransfer" (Some "ESDTNFTMultiTransfer") true true []
].

(* ---- boolean checkers ---- *)
Definition row := (bytes * string * list string)%type.
Definition reg_name (r : row) : bytes := fst (fst r).
Definition row_of (b : binding) : row := (b_name b, b_ctor b, b_args b).

Fixpoint slist_eqb (a b : list string) : bool :=
  match a, b with
  | [], [] => true
  | x :: a', y :: b' => String.eqb x y && slist_eqb a' b'
  | _, _ => false
  end.
Definition row_eqb (a b : row) : bool :=
  beqb (fst (fst a)) (fst (fst b)) && String.eqb (snd (fst a)) (snd (fst b)) && slist_eqb (snd a) (snd b).
Definition rows_sub (l1 l2 : list row) : bool := forallb (fun r => existsb (row_eqb r) l2) l1.
Fixpoint nodupb (l : list bytes) : bool :=
  match l with [] => true | x :: r => negb (bytes_in x r) && nodupb r end.
Definition names_sub (l1 l2 : list bytes) : bool := forallb (fun n => bytes_in n l2) l1.

Fixpoint lookup_s {A} (k : string) (l : list (string * A)) : option A :=
  match l with [] => None | (k', v) :: r => if String.eqb k k' then Some v else lookup_s k r end.
Definition sset_sub (l1 l2 : list string) : bool := forallb (fun x => existsb (String.eqb x) l2) l1.
Definition sset_eqb (l1 l2 : list string) : bool :=
  Nat.eqb (List.length l1) (List.length l2) && sset_sub l1 l2 && sset_sub l2 l1.
Definition has_arg (a : string) (args : list string) : bool := existsb (String.eqb a) args.
Fixpoint literal_bools (args : list string) : list bool :=
  match args with
  | [] => []
  | a :: r => if String.eqb a "true" then true :: literal_bools r
              else if String.eqb a "false" then false :: literal_bools r else literal_bools r
  end.
Fixpoint blist_eqb (a b : list bool) : bool :=
  match a, b with [], [] => true | x :: a', y :: b' => Bool.eqb x y && blist_eqb a' b' | _, _ => false end.

(* gas arguments the constructor call must carry / sources SetNewGasConfig must read *)
Definition expected_gas_args (b : binding) : list string :=
  ((match b_gas b with Some g => [("b.gasConfig.BuiltInCost." ++ g)%string] | None => [] end)
   ++ (if b_base b then ["b.gasConfig.BaseOperationCost"] else []))%list.
Definition expected_setter_sources (b : binding) : list string :=
  ((match b_gas b with Some g => [("gasCost.BuiltInCost." ++ g)%string] | None => [] end)
   ++ (if b_base b then ["gasCost.BaseOperationCost"] else []))%list.

Definition binding_ok (b : binding) : bool :=
  (* the constructor builds the expected concrete type *)
  match lookup_s (b_ctor b) ctor_types with Some t => String.eqb t (b_type b) | None => false end
  (* the constructor call is given exactly the function's own price (and the per-byte table) *)
  && sset_eqb (filter (String.prefix "b.gasConfig") (b_args b)) (expected_gas_args b)
  (* SetNewGasConfig of that type re-reads exactly the same fields *)
  && match lookup_s (b_type b) gas_setters with
     | Some ps => sset_eqb (map snd ps) (expected_setter_sources b)
     | None => false
     end
  (* activation epoch + notifier are passed exactly to the functions carrying an activation epoch *)
  && Bool.eqb (has_arg "b.esdtNFTImprovementV1ActivationEpoch" (b_args b)) (b_epoch b)
  && Bool.eqb (has_arg "b.epochNotifier" (b_args b)) (b_epoch b)
  (* literal behaviour flags *)
  && blist_eqb (literal_bools (b_args b)) (map snd (b_flags b)).

Definition registry_check : bool :=
  Nat.eqb (List.length registry) 23
  && Nat.eqb (List.length protocol_names) 23
  && nodupb (map reg_name registry)
  && names_sub (map reg_name registry) protocol_names
  && names_sub protocol_names (map reg_name registry)
  && rows_sub registry (map row_of expected)
  && rows_sub (map row_of expected) registry
  && forallb binding_ok expected.

(* ---- soundness of the checkers ---- *)
Lemma slist_eqb_true a : forall b, slist_eqb a b = true -> a = b.
Proof.
  induction a as [|x a IH]; intros [|y b] H; simpl in H; try discriminate; [reflexivity|].
  apply andb_true_iff in H as [H1 H2]. apply String.eqb_eq in H1. subst. f_equal. auto.
Qed.
Lemma row_eqb_true a b : row_eqb a b = true -> a = b.
Proof.
  destruct a as [[n c] l], b as [[n' c'] l']. unfold row_eqb. simpl. intros H.
  apply andb_true_iff in H as [H H3]. apply andb_true_iff in H as [H1 H2].
  apply beqb_true in H1. apply String.eqb_eq in H2. apply slist_eqb_true in H3. subst. reflexivity.
Qed.
Lemma rows_sub_sound l1 l2 : rows_sub l1 l2 = true -> forall r, In r l1 -> In r l2.
Proof.
  unfold rows_sub. intros H r Hin. rewrite forallb_forall in H. specialize (H r Hin).
  apply existsb_exists in H as [r' [Hin' E]]. apply row_eqb_true in E. subst. exact Hin'.
Qed.
Lemma names_sub_sound l1 l2 : names_sub l1 l2 = true -> forall n, In n l1 -> In n l2.
Proof.
  unfold names_sub. intros H n Hin. rewrite forallb_forall in H. apply bytes_in_true. auto.
Qed.
Lemma nodupb_sound l : nodupb l = true -> NoDup l.
Proof.
  induction l as [|x r IH]; simpl; intros H; [constructor|].
  apply andb_true_iff in H as [H1 H2]. constructor; [|auto].
  intros Hin. apply bytes_in_true in Hin. rewrite Hin in H1. discriminate.
Qed.

Lemma registry_check_true : registry_check = true.
Proof. vm_compute. reflexivity. Qed.

Theorem registry_exact :
  NoDup (map reg_name registry)
  /\ List.length registry = 23%nat /\ List.length protocol_names = 23%nat
  /\ (forall n, In n (map reg_name registry) <-> In n protocol_names)
  /\ (forall r, In r registry <-> exists b, In b expected /\ row_of b = r)
  /\ (forall b, In b expected -> binding_ok b = true).
Proof.
  pose proof registry_check_true as H. unfold registry_check in H.
  repeat (apply andb_true_iff in H; destruct H as [H ?]).
  split; [apply nodupb_sound; assumption|].
  split; [apply Nat.eqb_eq; assumption|].
  split; [apply Nat.eqb_eq; assumption|].
  split; [intros n; split; intros Hin; eapply names_sub_sound; eassumption|].
  split; [|apply forallb_forall; assumption].
  intros r; split.
  - intros Hin. assert (Hr : In r (map row_of expected)) by (eapply rows_sub_sound; eauto).
    apply in_map_iff in Hr as [b [E Hb]]. exists b. split; assumption.
  - intros [b [Hb E]]. subst r. eapply rows_sub_sound; [eassumption|]. apply in_map. exact Hb.
Qed.

(* the bindings the property text spells out, readable *)
Example freeze_binding :
  In (str "ESDTFreeze", "NewESDTFreezeWipeFunc", ["b.marshalizer"; "true"; "false"]) registry
  /\ In (str "ESDTUnFreeze", "NewESDTFreezeWipeFunc", ["b.marshalizer"; "false"; "false"]) registry
  /\ In (str "ESDTWipe", "NewESDTFreezeWipeFunc", ["b.marshalizer"; "false"; "true"]) registry
  /\ In (str "ESDTPause", "NewESDTPauseFunc", ["b.accounts"; "true"]) registry
  /\ In (str "ESDTUnPause", "NewESDTPauseFunc", ["b.accounts"; "false"]) registry
  /\ In (str "ESDTSetRole", "NewESDTRolesFunc", ["b.marshalizer"; "true"]) registry
  /\ In (str "ESDTUnSetRole", "NewESDTRolesFunc", ["b.marshalizer"; "false"]) registry.
Proof.
  assert (S : forall r, existsb (row_eqb r) registry = true -> In r registry).
  { intros r H. apply existsb_exists in H as [r' [Hin E]]. apply row_eqb_true in E. subst. exact Hin. }
  repeat split; apply S; vm_compute; reflexivity.
Qed.

(* exactly three functions carry an activation epoch *)
Example activation_epoch_carriers :
  map b_name (filter b_epoch expected)
  = [str "ESDTNFTUpdateAttributes"; str "ESDTNFTAddURI"; str "MultiESDTNFTTransfer"].
Proof. reflexivity. Qed.

(* every priced function reads its OWN BuiltInCost field: name -> field, 15 priced functions *)
Example own_gas_fields :
  map (fun b => (b_name b, b_gas b)) (filter (fun b => match b_gas b with Some _ => true | None => false end) expected)
  = [ (str "ClaimDeveloperRewards", Some "ClaimDeveloperRewards"); (str "ChangeOwnerAddress", Some "ChangeOwnerAddress");
      (str "SetUserName", Some "SaveUserName"); (str "SaveKeyValue", Some "SaveKeyValue");
      (str "ESDTTransfer", Some "ESDTTransfer"); (str "ESDTBurn", Some "ESDTBurn");
      (str "ESDTLocalBurn", Some "ESDTLocalBurn"); (str "ESDTLocalMint", Some "ESDTLocalMint");
      (str "ESDTNFTAddQuantity", Some "ESDTNFTAddQuantity"); (str "ESDTNFTBurn", Some "ESDTNFTBurn");
      (str "ESDTNFTCreate", Some "ESDTNFTCreate"); (str "ESDTNFTTransfer", Some "ESDTNFTTransfer");
      (str "ESDTNFTUpdateAttributes", Some "ESDTNFTUpdateAttributes"); (str "ESDTNFTAddURI", Some "ESDTNFTAddURI");
      (str "MultiESDTNFTTransfer", Some "ESDTNFTMultiTransfer") ].
Proof. reflexivity. Qed.

(* lookup used by the correspondence check *)
Fixpoint lookup_binding (n : bytes) (l : list binding) : option binding :=
  match l with [] => None | b :: r => if beqb n (b_name b) then Some b else lookup_binding n r end.
