(* Go slices over a heap of backing arrays (properties C13 and C20).

   A Go slice value is a header (pointer to a backing array, position in it, length, capacity);
   several headers may point into the same array.  [append(s, xs...)] writes IN PLACE, into the
   array that [s] points to, whenever [len(s) + len(xs) <= cap(s)], and only otherwise allocates
   a new array.  Whether an [append] can disturb somebody else's data is therefore a question
   of provenance of its first argument, which this file makes precise:

     append_keeps_view         the appended-to slice itself never changes,
     append_frame              only the slice's own array or the fresh array is written,
     append_inplace_window     in place, only positions [off+len, off+len+|xs|) are written,
     append_full_allocates     cap = len  ==>  the array is not written, a fresh array is returned,
     append_full_no_write      the same for every xs, including the empty one (result may be s itself),
     append_view               the result views [view s ++ xs],
     subslice_append_writes_parent, append_preserves_all_views_refuted
                               appending to a sub-slice s[a:b] that has spare capacity DOES write
                               the parent's array: "append never changes other slices" is false.

   Re-homed from notes/spikes/SliceHeap.v and extended with the offset field (sub-slices) and
   with the spare capacity that Go's growth policy gives to a freshly allocated array. *)
From EV Require Import Base.Bytes.

(* heap component: object id -> contents *)
Definition upd {A : Type} (f : nat -> A) (i : nat) (v : A) : nat -> A :=
  fun j => if Nat.eqb j i then v else f j.
Lemma upd_same {A} (f : nat -> A) i v : upd f i v i = v.
Proof. unfold upd. rewrite Nat.eqb_refl. reflexivity. Qed.
Lemma upd_other {A} (f : nat -> A) i v j : j <> i -> upd f i v j = f j.
Proof. unfold upd. intros H. apply Nat.eqb_neq in H. rewrite H. reflexivity. Qed.

(* slice header: backing array, offset of element 0 in it, length, capacity (counted from the offset) *)
Record gslice := { s_arr : nat; s_off : nat; s_len : nat; s_cap : nat }.

(* the nil slice: no capacity, so it never writes any array *)
Definition nil_slice : gslice := {| s_arr := 0; s_off := 0; s_len := 0; s_cap := 0 |}.

(* s[a:b] (Go: panics unless a <= b <= cap(s)); shares the array and keeps the spare capacity *)
Definition sub_slice (s : gslice) (a b : nat) : option gslice :=
  if (a <=? b) && (b <=? s_cap s) then
    Some {| s_arr := s_arr s; s_off := s_off s + a; s_len := b - a; s_cap := s_cap s - a |}
  else None.
(* s[a:b:c] (full slice expression): the capacity is cut to c - a *)
Definition sub_slice3 (s : gslice) (a b c : nat) : option gslice :=
  if (a <=? b) && (b <=? c) && (c <=? s_cap s) then
    Some {| s_arr := s_arr s; s_off := s_off s + a; s_len := b - a; s_cap := c - a |}
  else None.

Section Slices.
  Variable E : Type.                              (* element type *)
  Variable junk : E.                              (* content of the not yet used part of a new array *)
  Definition heap := nat -> list E.               (* array id -> contents; length = size of the array *)

  Definition sview (h : heap) (s : gslice) : list E := firstn (s_len s) (skipn (s_off s) (h (s_arr s))).
  Definition wf (h : heap) (s : gslice) : Prop :=
    s_len s <= s_cap s /\ s_off s + s_cap s <= length (h (s_arr s)).

  (* overwrite |xs| positions of l starting at p *)
  Definition write_at (p : nat) (xs l : list E) : list E := firstn p l ++ xs ++ skipn (p + length xs) l.

  (* append(s, xs...): in place when the capacity suffices, otherwise into the new array [fresh],
     which gets [extra] spare slots (Go rounds the new capacity up; any value is allowed here) *)
  Definition go_append (h : heap) (fresh extra : nat) (s : gslice) (xs : list E) : heap * gslice :=
    if s_len s + length xs <=? s_cap s then
      (upd h (s_arr s) (write_at (s_off s + s_len s) xs (h (s_arr s))),
       {| s_arr := s_arr s; s_off := s_off s; s_len := s_len s + length xs; s_cap := s_cap s |})
    else
      (upd h fresh (sview h s ++ xs ++ repeat junk extra),
       {| s_arr := fresh; s_off := 0; s_len := s_len s + length xs; s_cap := s_len s + length xs + extra |}).

  Lemma write_at_length p xs l : p + length xs <= length l -> length (write_at p xs l) = length l.
  Proof.
    intros H. unfold write_at. rewrite !app_length, firstn_length, skipn_length. lia.
  Qed.
  Lemma write_at_nil p l : write_at p [] l = l.
  Proof. unfold write_at. simpl. rewrite Nat.add_0_r. apply firstn_skipn. Qed.
  Lemma write_at_nth_other p xs l i : p + length xs <= length l ->
    i < p \/ p + length xs <= i -> nth_error (write_at p xs l) i = nth_error l i.
  Proof.
    intros Hl Hi. unfold write_at. destruct Hi as [Hi|Hi].
    - rewrite nth_error_app1 by (rewrite firstn_length; lia).
      rewrite <- (firstn_skipn p l) at 2. rewrite nth_error_app1 by (rewrite firstn_length; lia). reflexivity.
    - rewrite nth_error_app2 by (rewrite firstn_length; lia).
      rewrite nth_error_app2 by (rewrite firstn_length; lia).
      rewrite firstn_length, Nat.min_l by lia.
      rewrite <- (firstn_skipn (p + length xs) l) at 2.
      rewrite nth_error_app2 by (rewrite firstn_length; lia).
      rewrite firstn_length, Nat.min_l by lia. f_equal. lia.
  Qed.
  Lemma write_at_nth_in p xs l i : p <= length l -> i < length xs ->
    nth_error (write_at p xs l) (p + i) = nth_error xs i.
  Proof.
    intros Hp Hi. unfold write_at.
    rewrite nth_error_app2 by (rewrite firstn_length; lia).
    rewrite firstn_length, Nat.min_l by lia. replace (p + i - p) with i by lia.
    apply nth_error_app1. exact Hi.
  Qed.
  Lemma firstn_skipn_app_l (a b : list E) o n : o + n <= length a ->
    firstn n (skipn o (a ++ b)) = firstn n (skipn o a).
  Proof.
    intros H. rewrite skipn_app, firstn_app, skipn_length.
    replace (n - (length a - o)) with 0 by lia. cbn [firstn]. apply app_nil_r.
  Qed.
  Lemma firstn_skipn_write_at_before p xs l o n : o + n <= p -> p <= length l ->
    firstn n (skipn o (write_at p xs l)) = firstn n (skipn o l).
  Proof.
    intros H Hp. unfold write_at.
    rewrite firstn_skipn_app_l by (rewrite firstn_length; lia).
    rewrite <- (firstn_skipn p l) at 2.
    rewrite firstn_skipn_app_l by (rewrite firstn_length; lia). reflexivity.
  Qed.

  Lemma skipn_add (a b : nat) (l : list E) : skipn a (skipn b l) = skipn (b + a) l.
  Proof.
    revert l. induction b as [|b IH]; intros l; [reflexivity|].
    destruct l as [|x l]; [rewrite !skipn_nil; reflexivity|]. cbn [skipn Nat.add]. apply IH.
  Qed.
  Lemma nth_error_firstn_lt (l : list E) n i : i < n -> nth_error (firstn n l) i = nth_error l i.
  Proof.
    revert l i. induction n as [|n IH]; intros l i H; [lia|].
    destruct l as [|x l]; [reflexivity|]. destruct i as [|i]; [reflexivity|]. cbn. apply IH. lia.
  Qed.
  Lemma nth_error_skipn_add (l : list E) n i : nth_error (skipn n l) i = nth_error l (n + i).
  Proof.
    revert l. induction n as [|n IH]; intros l; [reflexivity|].
    destruct l as [|x l]; [destruct i; reflexivity|]. cbn. apply IH.
  Qed.
  Lemma write_at_view p xs l o : o <= p -> p + length xs <= length l ->
    firstn (p - o + length xs) (skipn o (write_at p xs l)) = firstn (p - o) (skipn o l) ++ xs.
  Proof.
    intros Ho Hp. unfold write_at.
    rewrite skipn_app, firstn_length, Nat.min_l by lia.
    replace (o - p) with 0 by lia. cbn [skipn].
    rewrite skipn_firstn_comm.
    set (A := firstn (p - o) (skipn o l)).
    assert (HA : length A = p - o) by (unfold A; rewrite firstn_length, skipn_length; lia).
    rewrite app_assoc. rewrite firstn_app.
    replace (p - o + length xs - length (A ++ xs)) with 0 by (rewrite app_length; lia).
    cbn [firstn]. rewrite app_nil_r. apply firstn_all2. rewrite app_length. lia.
  Qed.

  Lemma sview_length h s : wf h s -> length (sview h s) = s_len s.
  Proof. intros [H1 H2]. unfold sview. rewrite firstn_length, skipn_length. lia. Qed.

  (* 1. the visible part of the appended-to slice never changes, whatever the capacity *)
  Theorem append_keeps_view h fresh extra s xs : wf h s -> fresh <> s_arr s ->
    sview (fst (go_append h fresh extra s xs)) s = sview h s.
  Proof.
    intros [Hl Hc] Hf. unfold go_append. destruct (s_len s + length xs <=? s_cap s) eqn:Ecap; cbn [fst].
    - unfold sview. rewrite upd_same. apply firstn_skipn_write_at_before; lia.
    - unfold sview. rewrite upd_other by auto. reflexivity.
  Qed.

  (* 2. arrays other than the slice's own (and the fresh one) are never written *)
  Theorem append_frame h fresh extra s xs j : j <> s_arr s -> j <> fresh ->
    fst (go_append h fresh extra s xs) j = h j.
  Proof.
    intros H1 H2. unfold go_append. destruct (_ <=? _); cbn [fst]; rewrite upd_other; auto.
  Qed.

  (* 2'. the in-place case writes exactly the window behind the slice's length: every other
         position of its array keeps its content, and the size of the array does not change *)
  Theorem append_inplace_window h fresh extra s xs i : wf h s -> fresh <> s_arr s ->
    i < s_off s + s_len s \/ s_off s + s_len s + length xs <= i ->
    nth_error (fst (go_append h fresh extra s xs) (s_arr s)) i = nth_error (h (s_arr s)) i.
  Proof.
    intros [Hl Hc] Hf Hi. unfold go_append. destruct (s_len s + length xs <=? s_cap s) eqn:Ecap; cbn [fst].
    - apply Nat.leb_le in Ecap. rewrite upd_same. apply write_at_nth_other; lia.
    - rewrite upd_other by auto. reflexivity.
  Qed.
  Theorem append_keeps_array_size h fresh extra s xs j : wf h s -> j <> fresh ->
    length (fst (go_append h fresh extra s xs) j) = length (h j).
  Proof.
    intros [Hl Hc] Hf. unfold go_append. destruct (s_len s + length xs <=? s_cap s) eqn:Ecap; cbn [fst].
    - apply Nat.leb_le in Ecap. destruct (Nat.eq_dec j (s_arr s)) as [->|Hj].
      + rewrite upd_same. apply write_at_length. lia.
      + rewrite upd_other by auto. reflexivity.
    - rewrite upd_other by auto. reflexivity.
  Qed.
  (* hence any other slice on the same array whose window lies before the written one keeps its view *)
  Theorem append_keeps_view_before h fresh extra s xs t : wf h s -> fresh <> s_arr s ->
    s_arr t = s_arr s -> s_off t + s_len t <= s_off s + s_len s ->
    sview (fst (go_append h fresh extra s xs)) t = sview h t.
  Proof.
    intros [Hl Hc] Hf Ha Hb. unfold go_append. destruct (s_len s + length xs <=? s_cap s) eqn:Ecap; cbn [fst].
    - unfold sview. rewrite Ha, upd_same. apply firstn_skipn_write_at_before; lia.
    - unfold sview. rewrite Ha, upd_other by auto. reflexivity.
  Qed.

  (* 3. a full slice (cap = len) is never written by a non-empty append, and the result lives in
        the fresh array: the key prefixes *)
  Theorem append_full_allocates h fresh extra s xs : s_len s = s_cap s -> xs <> [] -> fresh <> s_arr s ->
    fst (go_append h fresh extra s xs) (s_arr s) = h (s_arr s) /\ s_arr (snd (go_append h fresh extra s xs)) = fresh.
  Proof.
    intros Hfull Hne Hf. unfold go_append.
    assert (length xs > 0) by (destruct xs; [congruence|simpl; lia]).
    replace (s_len s + length xs <=? s_cap s) with false by (symmetry; apply Nat.leb_gt; lia).
    cbn [fst snd s_arr]. split; [apply upd_other; auto|reflexivity].
  Qed.
  (* 3'. without spare capacity the array is not written by ANY append (xs = [] gives back s itself) *)
  Theorem append_full_no_write h fresh extra s xs : s_cap s <= s_len s -> fresh <> s_arr s ->
    fst (go_append h fresh extra s xs) (s_arr s) = h (s_arr s).
  Proof.
    intros Hfull Hf. unfold go_append. destruct (s_len s + length xs <=? s_cap s) eqn:Ecap; cbn [fst].
    - apply Nat.leb_le in Ecap. assert (length xs = 0) by lia. destruct xs; [|simpl in *; lia].
      rewrite write_at_nil. rewrite upd_same. reflexivity.
    - apply upd_other; auto.
  Qed.
  Theorem append_full_result h fresh extra s xs : s_cap s <= s_len s ->
    snd (go_append h fresh extra s xs) = s /\ xs = [] \/ s_arr (snd (go_append h fresh extra s xs)) = fresh.
  Proof.
    intros Hfull. unfold go_append. destruct (s_len s + length xs <=? s_cap s) eqn:Ecap; cbn [snd].
    - apply Nat.leb_le in Ecap. left. destruct xs; [|simpl in *; lia].
      split; [|reflexivity]. simpl. rewrite Nat.add_0_r. destruct s; reflexivity.
    - right. reflexivity.
  Qed.

  (* 3''. THE KEY-PREFIX LEMMA (property C13).  A slice without spare capacity (cap = len): append
         writes NO cell of ANY existing array - every array other than the new one keeps its whole
         content - and a non-empty append returns a slice over the new array.  [fresh] is the id the
         allocator hands out, so the only thing asked of it is to differ from the arrays in use. *)
  Theorem append_fresh_when_full h fresh extra s xs : s_cap s = s_len s ->
    (forall j, j <> fresh -> fst (go_append h fresh extra s xs) j = h j)
    /\ (xs <> [] -> s_arr (snd (go_append h fresh extra s xs)) = fresh
                   /\ s_off (snd (go_append h fresh extra s xs)) = 0)
    /\ (xs = [] -> snd (go_append h fresh extra s xs) = s).
  Proof.
    intros Hfull. split; [|split].
    - intros j Hj. destruct (Nat.eq_dec j (s_arr s)) as [->|Hne].
      + apply append_full_no_write; [lia|auto].
      + apply append_frame; auto.
    - intros Hne. unfold go_append.
      assert (length xs > 0) by (destruct xs; [congruence|simpl; lia]).
      replace (s_len s + length xs <=? s_cap s) with false by (symmetry; apply Nat.leb_gt; lia).
      cbn [snd s_arr s_off]. split; reflexivity.
    - intros ->. unfold go_append. cbn [length]. rewrite Nat.add_0_r.
      replace (s_len s <=? s_cap s) with true by (symmetry; apply Nat.leb_le; lia).
      cbn [snd]. destruct s; reflexivity.
  Qed.

  (* 3'''. A slice over an array that nobody else can reach (freshly made, decoded from storage,
          result of an earlier allocating append): whatever its capacity, the append is invisible
          to every slice over any other array. *)
  Theorem append_private_invisible h fresh extra s xs t :
    s_arr t <> s_arr s -> s_arr t <> fresh ->
    sview (fst (go_append h fresh extra s xs)) t = sview h t.
  Proof.
    intros H1 H2. unfold sview. rewrite append_frame by auto. reflexivity.
  Qed.

  (* 4. the result views what it should, and is well formed *)
  Theorem append_view h fresh extra s xs : wf h s ->
    sview (fst (go_append h fresh extra s xs)) (snd (go_append h fresh extra s xs)) = sview h s ++ xs.
  Proof.
    intros Hwf. pose proof (sview_length h s Hwf) as Hvl. destruct Hwf as [Hl Hc].
    unfold go_append. destruct (s_len s + length xs <=? s_cap s) eqn:Ecap; cbn [fst snd].
    - apply Nat.leb_le in Ecap. unfold sview at 1. cbn [s_arr s_off s_len]. rewrite upd_same.
      replace (s_len s + length xs) with (s_off s + s_len s - s_off s + length xs) by lia.
      rewrite write_at_view by lia.
      replace (s_off s + s_len s - s_off s) with (s_len s) by lia. reflexivity.
    - unfold sview at 1. cbn [s_arr s_off s_len]. rewrite upd_same. cbn [skipn].
      rewrite app_assoc, firstn_app.
      assert (Hlen : length (sview h s ++ xs) = s_len s + length xs) by (rewrite app_length; lia).
      rewrite Hlen, Nat.sub_diag. cbn [firstn]. rewrite app_nil_r.
      rewrite <- Hlen at 1. apply firstn_all.
  Qed.
  Theorem append_wf h fresh extra s xs : wf h s ->
    wf (fst (go_append h fresh extra s xs)) (snd (go_append h fresh extra s xs)).
  Proof.
    intros Hwf. pose proof (sview_length h s Hwf) as Hvl. destruct Hwf as [Hl Hc].
    unfold go_append. destruct (s_len s + length xs <=? s_cap s) eqn:Ecap; cbn [fst snd]; unfold wf; cbn [s_arr s_off s_len s_cap].
    - apply Nat.leb_le in Ecap. rewrite upd_same. split; [lia|]. rewrite write_at_length; lia.
    - rewrite upd_same. split; [lia|]. rewrite !app_length, repeat_length. lia.
  Qed.
  (* well-formedness of every other slice is kept (arrays never shrink) *)
  Theorem append_keeps_wf h fresh extra s xs t : wf h s -> wf h t -> s_arr t <> fresh ->
    wf (fst (go_append h fresh extra s xs)) t.
  Proof.
    intros Hs [Ht1 Ht2] Hf. split; [exact Ht1|]. rewrite append_keeps_array_size; auto.
  Qed.

  (* 5. sub-slices: s[a:b] of a well-formed slice is well formed and views the expected part *)
  Theorem sub_slice_wf h s a b t : wf h s -> sub_slice s a b = Some t -> wf h t.
  Proof.
    intros [Hl Hc] H. unfold sub_slice in H. destruct ((a <=? b) && (b <=? s_cap s)) eqn:Eg; [|discriminate].
    apply andb_prop in Eg. destruct Eg as [E1 E2]. apply Nat.leb_le in E1, E2. inversion H; subst; clear H.
    unfold wf. cbn [s_arr s_off s_len s_cap]. lia.
  Qed.
  Theorem sub_slice_view h s a b t : wf h s -> sub_slice s a b = Some t -> b <= s_len s ->
    sview h t = firstn (b - a) (skipn a (sview h s)).
  Proof.
    intros [Hl Hc] H Hb. unfold sub_slice in H. destruct ((a <=? b) && (b <=? s_cap s)) eqn:Eg; [|discriminate].
    apply andb_prop in Eg. destruct Eg as [E1 E2]. apply Nat.leb_le in E1, E2. inversion H; subst; clear H.
    unfold sview. cbn [s_arr s_off s_len].
    rewrite skipn_firstn_comm, firstn_firstn, Nat.min_l by lia.
    rewrite skipn_add. reflexivity.
  Qed.

  (* 6. THE DANGEROUS CASE.  p is a slice, s = p[a:b] with b < len(p) (so s has spare capacity
        inside p's visible part).  append(s, x) does not allocate: it overwrites p[b]. *)
  Theorem subslice_append_writes_parent h fresh extra p a b s x : wf h p -> fresh <> s_arr p ->
    sub_slice p a b = Some s -> b < s_len p ->
    s_arr (snd (go_append h fresh extra s [x])) = s_arr p /\
    nth_error (sview (fst (go_append h fresh extra s [x])) p) b = Some x.
  Proof.
    intros [Hl Hc] Hf H Hb. unfold sub_slice in H. destruct ((a <=? b) && (b <=? s_cap p)) eqn:Eg; [|discriminate].
    apply andb_prop in Eg. destruct Eg as [E1 E2]. apply Nat.leb_le in E1, E2. inversion H; subst; clear H.
    unfold go_append. cbn [s_arr s_off s_len s_cap length].
    replace (b - a + 1 <=? s_cap p - a) with true by (symmetry; apply Nat.leb_le; lia).
    cbn [fst snd s_arr]. split; [reflexivity|].
    unfold sview. rewrite upd_same.
    rewrite nth_error_firstn_lt by lia. rewrite nth_error_skipn_add.
    replace (s_off p + b) with (s_off p + a + (b - a) + 0) by lia.
    rewrite write_at_nth_in by (simpl; lia). reflexivity.
  Qed.
  (* hence the parent's view changes whenever the appended element differs from what was there *)
  Corollary subslice_append_changes_parent h fresh extra p a b s x : wf h p -> fresh <> s_arr p ->
    sub_slice p a b = Some s -> b < s_len p -> nth_error (sview h p) b <> Some x ->
    sview (fst (go_append h fresh extra s [x])) p <> sview h p.
  Proof.
    intros Hwf Hf Hs Hb Hne Heq.
    destruct (subslice_append_writes_parent h fresh extra p a b s x Hwf Hf Hs Hb) as [_ Hn].
    rewrite Heq in Hn. contradiction.
  Qed.
  (* the three-index form s[a:b:b] removes the spare capacity, and with it the danger *)
  Theorem sub_slice3_full_is_safe h fresh extra p a b s xs : wf h p -> fresh <> s_arr p ->
    sub_slice3 p a b b = Some s ->
    fst (go_append h fresh extra s xs) (s_arr p) = h (s_arr p).
  Proof.
    intros Hwf Hf H. unfold sub_slice3 in H.
    destruct ((a <=? b) && (b <=? b) && (b <=? s_cap p)) eqn:Eg; [|discriminate]. inversion H; subst; clear H.
    apply (append_full_no_write h fresh extra
             {| s_arr := s_arr p; s_off := s_off p + a; s_len := b - a; s_cap := b - a |} xs).
    - cbn. lia.
    - cbn. exact Hf.
  Qed.
End Slices.

Arguments sview {E} h s.
Arguments wf {E} h s.
Arguments write_at {E} p xs l.
Arguments go_append {E} junk h fresh extra s xs.

(* "append(s, ...) leaves every other slice alone" is FALSE: concrete counterexample
   (Go: p := []int{1,2,3}; s := p[:1]; _ = append(s, 9)  -- now p[1] == 9). *)
Example append_preserves_all_views_refuted :
  ~ (forall (h : heap nat) fresh extra s xs t, wf h s -> wf h t -> fresh <> s_arr s ->
       sview (fst (go_append 0 h fresh extra s xs)) t = sview h t).
Proof.
  intros H.
  specialize (H (fun _ => [1; 2; 3]) 1 0 {| s_arr := 0; s_off := 0; s_len := 1; s_cap := 3 |} [9]
                {| s_arr := 0; s_off := 0; s_len := 3; s_cap := 3 |}).
  assert (Hc : [1; 9; 3] = [1; 2; 3]).
  { apply H; unfold wf; cbn; lia. }
  discriminate Hc.
Qed.
(* ... while a slice whose capacity equals its length is harmless in the same situation *)
Example append_full_prefix_example :
  let h : heap nat := fun _ => [1; 2; 3] in
  let s := {| s_arr := 0; s_off := 0; s_len := 3; s_cap := 3 |} in
  fst (go_append 0 h 1 2 s [9]) 0 = [1; 2; 3] /\
  sview (fst (go_append 0 h 1 2 s [9])) (snd (go_append 0 h 1 2 s [9])) = [1; 2; 3; 9] /\
  s_cap (snd (go_append 0 h 1 2 s [9])) = 6.
Proof. repeat split. Qed.

Print Assumptions append_keeps_view.
Print Assumptions append_frame.
Print Assumptions append_full_allocates.
Print Assumptions append_full_no_write.
Print Assumptions append_view.
Print Assumptions append_wf.
Print Assumptions subslice_append_writes_parent.
Print Assumptions sub_slice3_full_is_safe.
Print Assumptions append_preserves_all_views_refuted.
Print Assumptions append_fresh_when_full.
Print Assumptions append_private_invisible.
