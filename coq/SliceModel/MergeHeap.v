(* OutputAccount.MergeOutputAccounts (output.go) on a heap: pointer identity made explicit.

   The value-level model [Helpers.merge] says WHAT the merged account contains; this file says
   WHICH memory the Go code writes while computing it, and proves that an account that was
   merged in can never be changed through the result, neither by this merge nor by any later
   merge into the same result (property C20, "never mutates the account merged in, not even
   through later merges into the same result").

   Go objects that matter, each a component of [mheap]:
     accts   OutputAccount structs, addressed by pointer (merge writes the fields of the receiver o only)
     ints    big.Int cells            (o.Balance = outAcc.Balance is a POINTER copy;
                                     o.BalanceDelta.Add(o.BalanceDelta, ..) writes o's delta cell IN PLACE;
                                     a nil o.BalanceDelta is replaced by a fresh cell big.NewInt(0))
     tarrs   backing arrays of []OutputTransfer (append of the suffix of outAcc's transfers:
                                     in place if o's slice has spare capacity, else a fresh array;
                                     an OutputTransfer is copied with its Value POINTER and its
                                     Data / SenderAddress slice headers)
     maps    map[string](ptr to StorageUpdate) objects  (o's map is created if nil; entries copied as POINTERS)
     sus     StorageUpdate structs  (never written by merge)
     barrs   backing arrays of []byte (never written by merge; Address, Code, CodeMetadata,
                                     CodeDeployerAddress are copied as slice headers)

   After [o.MergeOutputAccounts(a)] the result o therefore ALIASES a in many places (a's balance
   cell, a's transfer values, a's storage-update structs, a's byte arrays).  What makes this
   harmless is that merge only ever WRITES through three things of o - its own delta cell, its
   own transfer array (only if it has spare capacity) and its own map object - and that these
   three stay o's own or become freshly allocated ones: [merge_keeps_separate]. *)
From EV Require Import Base.Bytes Helpers.Helpers SliceModel.Slice.

(* ---------- heap ---------- *)
Definition bref := option gslice.                    (* a []byte value: nil, or a header over [barrs] *)
Record xferh := { t_value : option nat; t_gasLimit : N; t_gasLocked : N; t_data : bref;
                  t_callType : N; t_sender : bref }.
Definition zero_xfer : xferh :=
  {| t_value := None; t_gasLimit := 0; t_gasLocked := 0; t_data := None; t_callType := 0; t_sender := None |}.
Record hacct := {
  h_address : bref; h_nonce : N;
  h_balance : option nat;            (* pointer to big.Int, None = nil *)
  h_delta : option nat;              (* pointer to big.Int, None = nil *)
  h_storage : option nat;            (* map object, None = nil map *)
  h_code : bref; h_codeMetadata : bref; h_deployer : bref; h_gasUsed : N;
  h_transfers : gslice }.            (* []OutputTransfer header over [tarrs]; nil = capacity 0 *)
Record mheap := {
  accts : nat -> hacct; ints : nat -> Z; tarrs : nat -> list xferh; maps : nat -> list (bytes * nat);
  sus : nat -> bref * bref; barrs : nat -> bytes;
  nextInt : nat; nextTarr : nat; nextMap : nat }.     (* allocation pointers: ids >= next* are unused *)

Definition brlen (b : bref) : nat := match b with None => 0 | Some s => s_len s end.
(* m[k] = p on a Go map *)
Fixpoint map_put (m : list (bytes * nat)) (k : bytes) (p : nat) : list (bytes * nat) :=
  match m with
  | [] => [(k, p)]
  | (k', p') :: r => if beqb k k' then (k', p) :: r else (k', p') :: map_put r k p
  end.

(* ---------- MergeOutputAccounts, statement by statement ---------- *)
Section Merge.
  Variable grow : nat -> nat.   (* spare capacity Go's growth policy adds to a new array of the given length *)

  (* o.MergeStorageUpdates(outAcc):
       if o.StorageUpdates == nil { o.StorageUpdates = make(map...) }
       for key, update := range outAcc.StorageUpdates { o.StorageUpdates[key] = update } *)
  Definition o_map (h : mheap) (o : hacct) : nat := match h_storage o with Some m => m | None => nextMap h end.
  Definition maps_alloc (h : mheap) (o : hacct) : nat -> list (bytes * nat) :=
    match h_storage o with Some _ => maps h | None => upd (maps h) (nextMap h) [] end.
  Definition maps_after (h : mheap) (o a : hacct) : nat -> list (bytes * nat) :=
    let m1 := maps_alloc h o in
    let src := match h_storage a with Some m => m1 m | None => [] end in
    upd m1 (o_map h o) (fold_left (fun m kp => map_put m (fst kp) (snd kp)) src (m1 (o_map h o))).
  Definition nextMap_after (h : mheap) (o : hacct) : nat :=
    match h_storage o with Some _ => nextMap h | None => S (nextMap h) end.

  (* if o.BalanceDelta == nil { o.BalanceDelta = big.NewInt(0) }
     if outAcc.BalanceDelta != nil { o.BalanceDelta.Add(o.BalanceDelta, outAcc.BalanceDelta) } *)
  Definition o_cell (h : mheap) (o : hacct) : nat := match h_delta o with Some p => p | None => nextInt h end.
  Definition ints_alloc (h : mheap) (o : hacct) : nat -> Z :=
    match h_delta o with Some _ => ints h | None => upd (ints h) (nextInt h) 0%Z end.
  Definition ints_after (h : mheap) (o a : hacct) : nat -> Z :=
    let i1 := ints_alloc h o in
    match h_delta a with
    | Some q => upd i1 (o_cell h o) (i1 (o_cell h o) + i1 q)%Z
    | None => i1
    end.
  Definition nextInt_after (h : mheap) (o : hacct) : nat :=
    match h_delta o with Some _ => nextInt h | None => S (nextInt h) end.

  (* if lenRight > lenLeft { o.OutputTransfers = append(o.OutputTransfers, outAcc.OutputTransfers[lenLeft:]...) } *)
  Definition append_needed (o a : hacct) : bool := s_len (h_transfers o) <? s_len (h_transfers a).
  Definition tr_new (h : mheap) (o a : hacct) : list xferh :=
    skipn (s_len (h_transfers o)) (sview (tarrs h) (h_transfers a)).
  Definition tr_app (h : mheap) (o a : hacct) : heap xferh * gslice :=
    go_append zero_xfer (tarrs h) (nextTarr h)
              (grow (s_len (h_transfers o) + length (tr_new h o a))) (h_transfers o) (tr_new h o a).
  Definition tarrs_after (h : mheap) (o a : hacct) : nat -> list xferh :=
    if append_needed o a then fst (tr_app h o a) else tarrs h.
  Definition transfers_after (h : mheap) (o a : hacct) : gslice :=
    if append_needed o a then snd (tr_app h o a) else h_transfers o.
  Definition nextTarr_after (h : mheap) (o a : hacct) : nat :=
    if append_needed o a then S (nextTarr h) else nextTarr h.

  (* the receiver's fields after the call (in the order of the Go source) *)
  Definition merged_acct (h : mheap) (o a : hacct) : hacct :=
    {| h_address := if Nat.eqb (brlen (h_address a)) 0 then h_address o else h_address a;
       h_storage := Some (o_map h o);
       h_balance := match h_balance a with Some b => Some b | None => h_balance o end;
       h_delta := Some (o_cell h o);
       h_code := if Nat.eqb (brlen (h_code a)) 0 then h_code o else h_code a;
       h_codeMetadata := if Nat.eqb (brlen (h_codeMetadata a)) 0 then h_codeMetadata o else h_codeMetadata a;
       h_nonce := if (h_nonce o <? h_nonce a)%N then h_nonce a else h_nonce o;
       h_transfers := transfers_after h o a;
       h_gasUsed := h_gasUsed a;
       h_deployer := match h_deployer a with Some d => Some d | None => h_deployer o end |}.

  (* o.MergeOutputAccounts(outAcc) with o = the struct at pointer po, outAcc = the struct at pa.
     Every value taken from outAcc is read from the heap BEFORE the call; this is also what the
     sequential Go code computes when po = pa (merging an account into itself): the only field
     written before it is read from outAcc is BalanceDelta, and there nil -> new cell 0 -> 0 + 0,
     non-nil -> x + x, exactly as below. *)
  Definition merge_heap (h : mheap) (po pa : nat) : mheap :=
    let o := accts h po in
    let a := accts h pa in
    {| accts := upd (accts h) po (merged_acct h o a);
       ints := ints_after h o a;
       tarrs := tarrs_after h o a;
       maps := maps_after h o a;
       sus := sus h; barrs := barrs h;
       nextInt := nextInt_after h o; nextTarr := nextTarr_after h o a; nextMap := nextMap_after h o |}.

  (* several merges into the same result, in order *)
  Definition merge_all (h : mheap) (po : nat) (l : list nat) : mheap :=
    fold_left (fun h' p => merge_heap h' po p) l h.

  (* ---------- what an observer holding a pointer to an account can see (deep value) ---------- *)
  Definition bview (h : mheap) (b : bref) : bytes := match b with None => [] | Some s => sview (barrs h) s end.
  Definition xfer_view (h : mheap) (t : xferh) : xfer :=
    {| x_value := match t_value t with Some p => ints h p | None => 0%Z end;
       x_gasLimit := t_gasLimit t; x_gasLocked := t_gasLocked t; x_data := bview h (t_data t);
       x_callType := t_callType t; x_sender := bview h (t_sender t) |}.
  Definition su_view (h : mheap) (p : nat) : bytes * bytes := (bview h (fst (sus h p)), bview h (snd (sus h p))).
  Definition map_view (h : mheap) (m : list (bytes * nat)) : list (bytes * (bytes * bytes)) :=
    map (fun kp => (fst kp, su_view h (snd kp))) m.
  Definition hacct_view (h : mheap) (a : hacct) : oacct :=
    {| oa_address := bview h (h_address a); oa_nonce := h_nonce a;
       oa_balance := option_map (ints h) (h_balance a); oa_delta := option_map (ints h) (h_delta a);
       oa_storage := match h_storage a with Some m => map_view h (maps h m) | None => [] end;
       oa_code := bview h (h_code a); oa_codeMetadata := bview h (h_codeMetadata a);
       oa_deployer := option_map (sview (barrs h)) (h_deployer a); oa_gasUsed := h_gasUsed a;
       oa_transfers := map (xfer_view h) (sview (tarrs h) (h_transfers a)) |}.
  Definition acct_view (h : mheap) (p : nat) : oacct := hacct_view h (accts h p).

  (* ---------- ownership ---------- *)
  (* big.Int cells whose value is visible through account record b *)
  Definition reads_int (h : mheap) (b : hacct) (c : nat) : Prop :=
    h_balance b = Some c \/ h_delta b = Some c \/
    exists t, In t (sview (tarrs h) (h_transfers b)) /\ t_value t = Some c.
  (* the transfer array merge may write through o: o's own, and only if it has spare capacity *)
  Definition owns_tarr (o : hacct) (j : nat) : Prop :=
    s_arr (h_transfers o) = j /\ s_len (h_transfers o) < s_cap (h_transfers o).
  (* "b was constructed independently of o": the three things merge can write through o
     (o's struct, o's delta cell, o's transfer array if it has room, o's map object) are not
     b's, and what b refers to has been allocated (so that it is not handed out again as fresh). *)
  Definition separate (h : mheap) (po pb : nat) : Prop :=
    let o := accts h po in
    let b := accts h pb in
    po <> pb /\
    (forall c, h_delta o = Some c -> ~ reads_int h b c) /\
    (forall c, reads_int h b c -> c < nextInt h) /\
    (s_len (h_transfers b) = 0 \/
     (~ owns_tarr o (s_arr (h_transfers b)) /\ s_arr (h_transfers b) < nextTarr h)) /\
    (forall m, h_storage b = Some m -> h_storage o <> Some m /\ m < nextMap h).

  (* ---------- frame lemmas: what merge_heap does not write ---------- *)
  Lemma merge_accts_other h po pa pb : pb <> po -> accts (merge_heap h po pa) pb = accts h pb.
  Proof. intros H. cbn [merge_heap accts]. apply upd_other. exact H. Qed.

  Lemma ints_after_other h o a c : c <> o_cell h o -> ints_after h o a c = ints h c.
  Proof.
    intros H. unfold ints_after, ints_alloc, o_cell in *.
    destruct (h_delta a) as [q|]; [rewrite upd_other by exact H|];
      (destruct (h_delta o) as [p|]; [reflexivity|apply upd_other; exact H]).
  Qed.
  Lemma tarrs_after_other h o a j : j <> nextTarr h -> ~ owns_tarr o j -> tarrs_after h o a j = tarrs h j.
  Proof.
    intros Hf Hown. unfold tarrs_after. destruct (append_needed o a); [|reflexivity].
    unfold tr_app. destruct (Nat.eq_dec j (s_arr (h_transfers o))) as [->|Hj].
    - apply append_full_no_write.
      + unfold owns_tarr in Hown. lia.
      + auto.
    - apply append_frame; auto.
  Qed.
  Lemma maps_after_other h o a m : m <> o_map h o -> maps_after h o a m = maps h m.
  Proof.
    intros H. unfold maps_after. rewrite upd_other by exact H. unfold maps_alloc, o_map in *.
    destruct (h_storage o); [reflexivity|apply upd_other; exact H].
  Qed.

  (* ownership is preserved: what is writable through the receiver afterwards was writable
     through it before, or is freshly allocated *)
  Lemma transfers_after_owns h o a j :
    owns_tarr (merged_acct h o a) j -> owns_tarr o j \/ j = nextTarr h.
  Proof.
    unfold owns_tarr. cbn [merged_acct h_transfers]. unfold transfers_after, tr_app, go_append.
    destruct (append_needed o a); [|auto].
    destruct (s_len (h_transfers o) + length (tr_new h o a) <=? s_cap (h_transfers o)); cbn [snd s_arr s_len s_cap].
    - intros [H1 H2]. left. split; [exact H1|lia].
    - intros [H1 H2]. right. auto.
  Qed.

  (* ---------- the view depends only on what the account refers to ---------- *)
  Lemma bview_ext h h' b : barrs h' = barrs h -> bview h' b = bview h b.
  Proof. intros H. unfold bview. rewrite H. reflexivity. Qed.
  Lemma su_view_ext h h' p : barrs h' = barrs h -> sus h' = sus h -> su_view h' p = su_view h p.
  Proof. intros H1 H2. unfold su_view. rewrite H2, !(bview_ext h h') by exact H1. reflexivity. Qed.
  Lemma map_view_ext h h' m : barrs h' = barrs h -> sus h' = sus h -> map_view h' m = map_view h m.
  Proof. intros H1 H2. unfold map_view. apply map_ext. intros kp. rewrite (su_view_ext h h') by assumption. reflexivity. Qed.
  Lemma xfer_view_ext h h' t : barrs h' = barrs h ->
    (forall c, t_value t = Some c -> ints h' c = ints h c) -> xfer_view h' t = xfer_view h t.
  Proof.
    intros H1 H2. unfold xfer_view. rewrite !(bview_ext h h') by exact H1.
    destruct (t_value t) as [c|]; [rewrite (H2 c eq_refl)|]; reflexivity.
  Qed.

  Lemma hacct_view_ext h h' b :
    barrs h' = barrs h -> sus h' = sus h ->
    (forall c, reads_int h b c -> ints h' c = ints h c) ->
    (s_len (h_transfers b) = 0 \/ tarrs h' (s_arr (h_transfers b)) = tarrs h (s_arr (h_transfers b))) ->
    (forall m, h_storage b = Some m -> maps h' m = maps h m) ->
    hacct_view h' b = hacct_view h b.
  Proof.
    intros Hb Hs Hi Ht Hm.
    assert (Htv : sview (tarrs h') (h_transfers b) = sview (tarrs h) (h_transfers b)).
    { unfold sview. destruct Ht as [Ht|Ht]; [rewrite Ht; reflexivity|rewrite Ht; reflexivity]. }
    unfold hacct_view. rewrite !(bview_ext h h') by exact Hb. rewrite Hb, Htv.
    f_equal.
    - destruct (h_balance b) as [c|] eqn:E; [|reflexivity]. cbn. f_equal. apply Hi. left. exact E.
    - destruct (h_delta b) as [c|] eqn:E; [|reflexivity]. cbn. f_equal. apply Hi. right. left. exact E.
    - destruct (h_storage b) as [m|] eqn:E; [|reflexivity]. rewrite (Hm m eq_refl). apply map_view_ext; assumption.
    - apply map_ext_in. intros t Hin. apply xfer_view_ext; [exact Hb|].
      intros c Hc. apply Hi. right. right. exists t. split; assumption.
  Qed.

  (* a's visible transfers do not change (its array is not written, or it has none) *)
  Lemma merge_keeps_transfer_view h po pa pb : separate h po pb ->
    sview (tarrs (merge_heap h po pa)) (h_transfers (accts h pb)) = sview (tarrs h) (h_transfers (accts h pb)).
  Proof.
    intros (_ & _ & _ & Ht & _). cbn [merge_heap tarrs]. unfold sview. destruct Ht as [Ht|[Hown Hlt]].
    - rewrite Ht. reflexivity.
    - rewrite tarrs_after_other; [reflexivity|lia|exact Hown].
  Qed.

  (* ---------- one merge ---------- *)
  (* any merge into o leaves every account that is separate from o exactly as it was:
     the struct itself (pointer level) ... *)
  Theorem merge_keeps_record h po pa pb : separate h po pb -> accts (merge_heap h po pa) pb = accts h pb.
  Proof. intros (Hne & _). apply merge_accts_other. auto. Qed.
  (* ... and everything visible through it (deep value) *)
  Theorem merge_keeps_view h po pa pb : separate h po pb ->
    acct_view (merge_heap h po pa) pb = acct_view h pb.
  Proof.
    intros Hsep. unfold acct_view. rewrite merge_keeps_record by exact Hsep.
    destruct Hsep as (Hne & Hd & Hal & Ht & Hm).
    apply hacct_view_ext; try reflexivity.
    - intros c Hc. cbn [merge_heap ints]. apply ints_after_other.
      unfold o_cell. destruct (h_delta (accts h po)) as [p|] eqn:E.
      + intros ->. exact (Hd p eq_refl Hc).
      + apply Hal in Hc. lia.
    - destruct Ht as [Ht|[Hown Hlt]]; [left; exact Ht|right].
      cbn [merge_heap tarrs]. apply tarrs_after_other; [lia|exact Hown].
    - intros m Em. cbn [merge_heap maps]. apply maps_after_other.
      destruct (Hm m Em) as [Hom Hlt]. unfold o_map.
      destruct (h_storage (accts h po)) as [m0|]; [congruence|lia].
  Qed.

  (* the single-merge statement of the spike: the argument itself is not mutated *)
  Theorem merge_does_not_mutate_argument h po pa : separate h po pa ->
    accts (merge_heap h po pa) pa = accts h pa /\ acct_view (merge_heap h po pa) pa = acct_view h pa.
  Proof. intros H. split; [apply merge_keeps_record|apply merge_keeps_view]; exact H. Qed.

  (* OWNERSHIP PRESERVATION: after merging ANY account into o, every account that was separate
     from o still is - although o now aliases the merged account's balance cell, transfer
     values, storage-update structs and byte arrays, none of these is writable through o. *)
  Theorem merge_keeps_separate h po pa pb : separate h po pb -> separate (merge_heap h po pa) po pb.
  Proof.
    intros Hsep. pose proof (merge_keeps_transfer_view h po pa pb Hsep) as Htv.
    pose proof (merge_keeps_record h po pa pb Hsep) as Hrec.
    destruct Hsep as (Hne & Hd & Hal & Ht & Hm).
    assert (Hreads : forall c, reads_int (merge_heap h po pa) (accts h pb) c -> reads_int h (accts h pb) c).
    { intros c [H|[H|(t & Hin & Hv)]]; [left; exact H|right; left; exact H|].
      right. right. exists t. rewrite Htv in Hin. split; assumption. }
    unfold separate. rewrite Hrec.
    replace (accts (merge_heap h po pa) po) with (merged_acct h (accts h po) (accts h pa))
      by (cbn [merge_heap accts]; rewrite upd_same; reflexivity).
    split; [exact Hne|]. split; [|split; [|split]].
    - intros c Hc Hr. apply Hreads in Hr. cbn [merged_acct h_delta] in Hc. inversion Hc; subst c; clear Hc.
      unfold o_cell in Hr. destruct (h_delta (accts h po)) as [p|] eqn:E.
      + exact (Hd p eq_refl Hr).
      + apply Hal in Hr. lia.
    - intros c Hr. apply Hreads in Hr. apply Hal in Hr. cbn [merge_heap nextInt]. unfold nextInt_after.
      destruct (h_delta (accts h po)); lia.
    - destruct Ht as [Ht|[Hown Hlt]]; [left; exact Ht|right]. split.
      + intros Hown'. apply transfers_after_owns in Hown'. destruct Hown' as [H|H]; [exact (Hown H)|lia].
      + cbn [merge_heap nextTarr]. unfold nextTarr_after. destruct (append_needed _ _); lia.
    - intros m Em. destruct (Hm m Em) as [Hom Hlt]. cbn [merged_acct h_storage merge_heap nextMap]. split.
      + unfold o_map. destruct (h_storage (accts h po)) as [m0|]; [congruence|].
        intros Heq. inversion Heq. lia.
      + unfold nextMap_after. destruct (h_storage (accts h po)); lia.
  Qed.

  (* ---------- any number of merges ---------- *)
  (* [prot] is any set of accounts separate from o; [l] is ANY sequence of accounts merged into o
     (members of prot or not, repetitions allowed, even o itself). *)
  Theorem merge_all_preserves : forall l h po prot,
    Forall (separate h po) prot ->
    Forall (separate (merge_all h po l) po) prot /\
    forall pb, In pb prot ->
      accts (merge_all h po l) pb = accts h pb /\ acct_view (merge_all h po l) pb = acct_view h pb.
  Proof.
    induction l as [|pa l IH]; intros h po prot Hsep.
    - split; [exact Hsep|]. intros pb _. split; reflexivity.
    - cbn [merge_all fold_left].
      assert (Hsep1 : Forall (separate (merge_heap h po pa) po) prot).
      { rewrite Forall_forall in *. intros pb Hin. apply merge_keeps_separate. auto. }
      destruct (IH (merge_heap h po pa) po prot Hsep1) as [IH1 IH2]. split; [exact IH1|].
      intros pb Hin. destruct (IH2 pb Hin) as [R V]. unfold merge_all in R, V. rewrite R, V.
      rewrite Forall_forall in Hsep. split; [apply merge_keeps_record|apply merge_keeps_view]; auto.
  Qed.

  (* C20: merging a and then any further accounts into o never changes anything observable
     through a, provided a and the further accounts were constructed independently of o *)
  Theorem merge_no_mutation : forall (h : mheap) (po pa : nat) (others : list nat),
    Forall (separate h po) (pa :: others) ->
    acct_view (merge_all h po (pa :: others)) pa = acct_view h pa.
  Proof.
    intros h po pa others Hsep.
    destruct (merge_all_preserves (pa :: others) h po (pa :: others) Hsep) as [_ H].
    apply H. left. reflexivity.
  Qed.
  (* the same for every account of the sequence, at whatever position it is merged,
     and for the struct itself as well as for its deep value *)
  Theorem merge_no_mutation_all : forall (h : mheap) (po : nat) (l : list nat) (pb : nat),
    Forall (separate h po) l -> In pb l ->
    accts (merge_all h po l) pb = accts h pb /\ acct_view (merge_all h po l) pb = acct_view h pb.
  Proof.
    intros h po l pb Hsep Hin. destruct (merge_all_preserves l h po l Hsep) as [_ H]. apply H. exact Hin.
  Qed.

  (* ---------- agreement with the value-level model Helpers.merge ---------- *)
  Definition wf_bref (h : mheap) (b : bref) : Prop := match b with None => True | Some s => wf (barrs h) s end.
  Definition wf_acct (h : mheap) (a : hacct) : Prop :=
    wf_bref h (h_address a) /\ wf_bref h (h_code a) /\ wf_bref h (h_codeMetadata a) /\ wf (tarrs h) (h_transfers a).
  (* o's delta cell is not at the same time o's balance cell or the value of one of o's transfers
     (otherwise the in-place Add would show through those as well) *)
  Definition own_cell_private (h : mheap) (o : hacct) : Prop :=
    forall c, h_delta o = Some c ->
      h_balance o <> Some c /\ forall t, In t (sview (tarrs h) (h_transfers o)) -> t_value t <> Some c.

  Lemma bview_len h b : wf_bref h b -> length (bview h b) = brlen b.
  Proof. destruct b as [s|]; cbn; [apply sview_length|reflexivity]. Qed.
  Lemma pick_bref h x y : wf_bref h y ->
    bview h (if Nat.eqb (brlen y) 0 then x else y) = match bview h y with [] => bview h x | z => z end.
  Proof.
    intros Hw. rewrite <- (bview_len h y Hw). destruct (bview h y) eqn:E; cbn [length Nat.eqb]; [reflexivity|exact E].
  Qed.
  Lemma map_view_put h m k p : map_view h (map_put m k p) = su_put (map_view h m) k (su_view h p).
  Proof.
    induction m as [|[k' p'] r IH]; cbn; [reflexivity|].
    destruct (beqb k k'); cbn; [reflexivity|]. unfold map_view in IH. rewrite IH. reflexivity.
  Qed.
  Lemma map_view_fold h src acc :
    map_view h (fold_left (fun m kp => map_put m (fst kp) (snd kp)) src acc) = merge_storage (map_view h acc) (map_view h src).
  Proof.
    revert acc. induction src as [|[k p] r IH]; intros acc; [reflexivity|].
    cbn [fold_left fst snd]. rewrite IH, map_view_put. reflexivity.
  Qed.
  Lemma In_skipn_in {A} (x : A) n l : In x (skipn n l) -> In x l.
  Proof.
    revert l. induction n as [|n IH]; intros l H; [exact H|].
    destruct l as [|y l]; [exact H|]. right. apply IH. exact H.
  Qed.

  Theorem merge_heap_agrees h po pa :
    separate h po pa ->
    wf_acct h (accts h po) -> wf_acct h (accts h pa) ->
    own_cell_private h (accts h po) ->
    (forall c, reads_int h (accts h po) c -> c < nextInt h) ->
    acct_view (merge_heap h po pa) po = merge (acct_view h po) (acct_view h pa).
  Proof.
    intros (Hne & Hd & Hal & Ht & Hm) (Hwo1 & Hwo2 & Hwo3 & Hwo4) (Hwa1 & Hwa2 & Hwa3 & Hwa4) Hpriv Halo.
    set (o := accts h po) in *. set (a := accts h pa) in *. set (h' := merge_heap h po pa).
    assert (Hb : barrs h' = barrs h) by reflexivity.
    assert (Hs : sus h' = sus h) by reflexivity.
    (* cells visible through a or through o, other than o's delta cell, keep their value *)
    assert (Hia : forall c, reads_int h a c -> ints h' c = ints h c).
    { intros c Hc. cbn [h' merge_heap ints]. apply ints_after_other. fold o. unfold o_cell.
      destruct (h_delta o) as [p|] eqn:E; [intros ->; exact (Hd p eq_refl Hc)|apply Hal in Hc; lia]. }
    assert (Hio : forall c, reads_int h o c -> h_delta o <> Some c -> ints h' c = ints h c).
    { intros c Hc Hnd. cbn [h' merge_heap ints]. apply ints_after_other. fold o. unfold o_cell.
      destruct (h_delta o) as [p|] eqn:E; [congruence|apply Halo in Hc; lia]. }
    assert (Hxo : forall t, In t (sview (tarrs h) (h_transfers o)) -> xfer_view h' t = xfer_view h t).
    { intros t Hin. apply xfer_view_ext; [exact Hb|]. intros c Hc. apply Hio.
      - right. right. exists t. split; assumption.
      - intros Hdc. destruct (Hpriv c Hdc) as [_ Hp]. exact (Hp t Hin Hc). }
    assert (Hxa : forall t, In t (sview (tarrs h) (h_transfers a)) -> xfer_view h' t = xfer_view h t).
    { intros t Hin. apply xfer_view_ext; [exact Hb|]. intros c Hc. apply Hia.
      right. right. exists t. split; assumption. }
    unfold acct_view. replace (accts h' po) with (merged_acct h o a)
      by (cbn [h' merge_heap accts]; rewrite upd_same; reflexivity).
    fold o a. unfold merge, hacct_view.
    cbn [merged_acct h_address h_nonce h_balance h_delta h_storage h_code h_codeMetadata h_deployer h_gasUsed h_transfers
         oa_address oa_nonce oa_balance oa_delta oa_storage oa_code oa_codeMetadata oa_deployer oa_gasUsed oa_transfers].
    rewrite !(bview_ext h h') by exact Hb. rewrite Hb.
    assert (Faddr : bview h (if Nat.eqb (brlen (h_address a)) 0 then h_address o else h_address a)
                    = match bview h (h_address a) with [] => bview h (h_address o) | x => x end)
      by (apply pick_bref; exact Hwa1).
    assert (Fcode : bview h (if Nat.eqb (brlen (h_code a)) 0 then h_code o else h_code a)
                    = match bview h (h_code a) with [] => bview h (h_code o) | x => x end)
      by (apply pick_bref; exact Hwa2).
    assert (Fmeta : bview h (if Nat.eqb (brlen (h_codeMetadata a)) 0 then h_codeMetadata o else h_codeMetadata a)
                    = match bview h (h_codeMetadata a) with [] => bview h (h_codeMetadata o) | x => x end)
      by (apply pick_bref; exact Hwa3).
    assert (Fbal : option_map (ints h') (match h_balance a with Some b => Some b | None => h_balance o end)
                   = match option_map (ints h) (h_balance a) with Some b => Some b | None => option_map (ints h) (h_balance o) end).
    { destruct (h_balance a) as [q|] eqn:Ea; cbn [option_map].
      - f_equal. apply Hia. left. exact Ea.
      - destruct (h_balance o) as [r|] eqn:Eo; cbn [option_map]; [|reflexivity]. f_equal. apply Hio.
        + left. exact Eo.
        + intros Hdc. destruct (Hpriv r Hdc) as [Hp _]. congruence. }
    assert (Fdelta : option_map (ints h') (Some (o_cell h o))
                     = Some (match option_map (ints h) (h_delta a) with
                             | Some e => (match option_map (ints h) (h_delta o) with Some d => d | None => 0 end + e)
                             | None => match option_map (ints h) (h_delta o) with Some d => d | None => 0 end end)%Z).
    { cbn [option_map h' merge_heap ints]. fold o a. f_equal. unfold ints_after, ints_alloc, o_cell.
      destruct (h_delta a) as [q|] eqn:Ea; cbn [option_map].
      - rewrite upd_same. destruct (h_delta o) as [p|] eqn:Eo; cbn [option_map]; [reflexivity|].
        rewrite upd_same. rewrite upd_other; [reflexivity|].
        assert (q < nextInt h) by (apply Hal; right; left; exact Ea). lia.
      - destruct (h_delta o) as [p|] eqn:Eo; cbn [option_map]; [reflexivity|apply upd_same]. }
    assert (Fstor : map_view h' (maps h' (o_map h o))
                    = merge_storage (match h_storage o with Some m => map_view h (maps h m) | None => [] end)
                                    (match h_storage a with Some m => map_view h (maps h m) | None => [] end)).
    { rewrite (map_view_ext h h') by assumption. cbn [h' merge_heap maps]. fold o a.
      unfold maps_after. rewrite upd_same. rewrite map_view_fold. unfold maps_alloc, o_map.
      destruct (h_storage o) as [mo|] eqn:Eo.
      - destruct (h_storage a) as [ma|]; reflexivity.
      - rewrite upd_same. destruct (h_storage a) as [ma|] eqn:Ea; [|reflexivity].
        destruct (Hm ma eq_refl) as [_ Hlt]. rewrite upd_other by lia. reflexivity. }
    assert (Fdep : option_map (sview (barrs h)) (match h_deployer a with Some d => Some d | None => h_deployer o end)
                   = match option_map (sview (barrs h)) (h_deployer a) with
                     | Some d => Some d | None => option_map (sview (barrs h)) (h_deployer o) end)
      by (destruct (h_deployer a); reflexivity).
    assert (Ftr : map (xfer_view h') (sview (tarrs h') (transfers_after h o a))
                  = map (xfer_view h) (sview (tarrs h) (h_transfers o))
                    ++ skipn (length (map (xfer_view h) (sview (tarrs h) (h_transfers o))))
                             (map (xfer_view h) (sview (tarrs h) (h_transfers a)))).
    { rewrite map_length, (sview_length _ _ _ Hwo4), skipn_map.
      cbn [h' merge_heap tarrs]. fold o a. unfold tarrs_after, transfers_after.
      destruct (append_needed o a) eqn:En.
      - unfold tr_app. rewrite append_view by exact Hwo4. rewrite map_app. f_equal.
        + apply map_ext_in. exact Hxo.
        + apply map_ext_in. intros t Hin. apply Hxa. unfold tr_new in Hin. eapply In_skipn_in. exact Hin.
      - unfold append_needed in En. apply Nat.ltb_ge in En.
        rewrite (skipn_all2 (n := s_len (h_transfers o))) by (rewrite (sview_length _ _ _ Hwa4); exact En).
        cbn [map]. rewrite app_nil_r. apply map_ext_in. exact Hxo. }
    rewrite Faddr, Fcode, Fmeta, Fbal, Fdelta, Fstor. f_equal; first [exact Fdep|exact Ftr].
  Qed.

  (* the side conditions of [merge_heap_agrees] on the receiver are themselves preserved, so the
     agreement extends to sequences of merges *)
  Theorem merge_keeps_own_cell_private h po pa :
    separate h po pa -> wf_acct h (accts h po) -> own_cell_private h (accts h po) ->
    (forall c, reads_int h (accts h po) c -> c < nextInt h) ->
    own_cell_private (merge_heap h po pa) (accts (merge_heap h po pa) po).
  Proof.
    intros (Hne & Hd & Hal & Ht & Hm) (_ & _ & _ & Hwo4) Hpriv Halo.
    set (o := accts h po) in *. set (a := accts h pa) in *.
    replace (accts (merge_heap h po pa) po) with (merged_acct h o a)
      by (cbn [merge_heap accts]; rewrite upd_same; reflexivity).
    intros c Hc. cbn [merged_acct h_delta] in Hc. inversion Hc; subst c; clear Hc.
    assert (Hoc_a : ~ reads_int h a (o_cell h o)).
    { unfold o_cell. destruct (h_delta o) as [p|] eqn:E; [exact (Hd p eq_refl)|].
      intros Hr. apply Hal in Hr. lia. }
    assert (Hoc_o : h_balance o <> Some (o_cell h o) /\
                    forall t, In t (sview (tarrs h) (h_transfers o)) -> t_value t <> Some (o_cell h o)).
    { unfold o_cell. destruct (h_delta o) as [p|] eqn:E; [exact (Hpriv p E)|]. split.
      - intros Hb. assert (nextInt h < nextInt h) by (apply Halo; left; exact Hb). lia.
      - intros t Hin Hv. assert (nextInt h < nextInt h) by (apply Halo; right; right; exists t; split; assumption). lia. }
    cbn [merged_acct h_balance h_transfers merge_heap tarrs]. fold o a. split.
    - destruct (h_balance a) as [q|] eqn:Ea.
      + intros Heq. apply Hoc_a. left. rewrite Ea. exact Heq.
      + exact (proj1 Hoc_o).
    - intros t. unfold tarrs_after, transfers_after. destruct (append_needed o a).
      + unfold tr_app. rewrite append_view by exact Hwo4. intros Hin Hv. apply in_app_or in Hin. destruct Hin as [Hin|Hin].
        * exact (proj2 Hoc_o t Hin Hv).
        * apply Hoc_a. right. right. exists t. split; [|exact Hv]. unfold tr_new in Hin. eapply In_skipn_in. exact Hin.
      + exact (proj2 Hoc_o t).
  Qed.
End Merge.


(* ---------- non-vacuity: a concrete heap ---------- *)
(* o = &OutputAccount{} (everything nil); a and b built independently of o, but sharing things with
   EACH OTHER (the same balance cell, the same storage-update struct) - that is allowed. *)
Module Example1.
  Definition bs (arr len : nat) : bref := Some {| s_arr := arr; s_off := 0; s_len := len; s_cap := len |}.
  Definition o0 : hacct :=
    {| h_address := None; h_nonce := 0; h_balance := None; h_delta := None; h_storage := None; h_code := None;
       h_codeMetadata := None; h_deployer := None; h_gasUsed := 0; h_transfers := nil_slice |}.
  Definition a0 : hacct :=
    {| h_address := bs 0 2; h_nonce := 7; h_balance := Some 0; h_delta := Some 1; h_storage := Some 0; h_code := None;
       h_codeMetadata := bs 1 2; h_deployer := None; h_gasUsed := 11;
       h_transfers := {| s_arr := 0; s_off := 0; s_len := 1; s_cap := 1 |} |}.
  Definition b0 : hacct :=
    {| h_address := bs 0 2; h_nonce := 3; h_balance := Some 0; h_delta := Some 2; h_storage := Some 1; h_code := bs 1 1;
       h_codeMetadata := None; h_deployer := bs 0 1; h_gasUsed := 5;
       h_transfers := {| s_arr := 1; s_off := 0; s_len := 2; s_cap := 4 |} |}.
  Definition tr (v : option nat) (g : N) : xferh :=
    {| t_value := v; t_gasLimit := g; t_gasLocked := 0; t_data := bs 1 2; t_callType := 0; t_sender := bs 0 2 |}.
  Definition h0 : mheap :=
    {| accts := fun p => match p with 0 => o0 | 1 => a0 | _ => b0 end;
       ints := fun c => match c with 0 => 100%Z | 1 => 5%Z | 2 => (-3)%Z | _ => 9%Z end;
       tarrs := fun j => match j with 0 => [tr (Some 3) 50] | _ => [tr (Some 3) 50; tr None 60; zero_xfer; zero_xfer] end;
       maps := fun m => match m with 0 => [([x01], 0)] | _ => [([x01], 1); ([x02], 0)] end;
       sus := fun p => match p with 0 => (bs 0 1, bs 1 2) | _ => (bs 0 1, None) end;
       barrs := fun j => match j with 0 => [x0a; x0b] | _ => [x05; x00] end;
       nextInt := 4; nextTarr := 2; nextMap := 2 |}.

  Ltac reads_tac :=
    repeat match goal with
           | H : reads_int _ _ _ |- _ => destruct H as [H|[H|(?t & ?Hin & H)]]
           | H : In _ (sview _ _) |- _ => cbn in H
           | H : _ \/ _ |- _ => destruct H
           | H : False |- _ => destruct H
           | H : _ = ?t |- _ => is_var t; subst t
           | H : Some _ = Some _ |- _ => inversion H; clear H; subst
           | H : None = Some _ |- _ => discriminate H
           | H : _ = Some _ |- _ => progress cbn in H
           end.
  Lemma separate_a : separate h0 0 1.
  Proof.
    unfold separate. cbn [h0 accts]. split; [lia|]. split; [|split; [|split]].
    - intros c Hc. discriminate Hc.
    - intros c H. reads_tac; cbn; lia.
    - right. split; [|cbn; lia]. unfold owns_tarr. cbn. lia.
    - intros m Hm. cbn in Hm. inversion Hm; subst. split; [discriminate|cbn; lia].
  Qed.
  Lemma separate_b : separate h0 0 2.
  Proof.
    unfold separate. cbn [h0 accts]. split; [lia|]. split; [|split; [|split]].
    - intros c Hc. discriminate Hc.
    - intros c H. reads_tac; cbn; lia.
    - right. split; [|cbn; lia]. unfold owns_tarr. cbn. lia.
    - intros m Hm. cbn in Hm. inversion Hm; subst. split; [discriminate|cbn; lia].
  Qed.
  Example hypotheses_satisfiable : Forall (separate h0 0) [1; 2].
  Proof. constructor; [exact separate_a|]. constructor; [exact separate_b|]. constructor. Qed.

  Definition hfin : mheap := merge_all (fun n => n) h0 0 [1; 2; 1].
  (* the theorem applies ... *)
  Example a_unchanged : acct_view hfin 1 = acct_view h0 1.
  Proof.
    destruct (merge_all_preserves (fun n => n) [1; 2; 1] h0 0 [1; 2] hypotheses_satisfiable) as [_ H].
    apply H. left. reflexivity.
  Qed.
  (* ... and is not vacuous: the result really aliases a (same balance cell, a's transfer values,
     a's storage-update struct), its delta 5 + (-3) + 5 sits in a fresh cell (4), its transfers
     (a's one, then b's second - appended IN PLACE, the first append left room) in a fresh
     array (2), and b's storage-update for key 01 won until a was merged again *)
  Example result_aliases_a :
    h_balance (accts hfin 0) = h_balance a0 /\
    h_delta (accts hfin 0) = Some 4 /\ ints hfin 4 = 7%Z /\ ints hfin 1 = 5%Z /\
    h_transfers (accts hfin 0) = {| s_arr := 2; s_off := 0; s_len := 2; s_cap := 2 |} /\
    map t_value (sview (tarrs hfin) (h_transfers (accts hfin 0))) = [Some 3; None] /\
    maps hfin 2 = [([x01], 0); ([x02], 0)] /\
    oa_delta (acct_view hfin 0) = Some 7%Z.
  Proof. vm_compute. repeat split. Qed.
End Example1.

(* ---------- why the hypothesis is needed ---------- *)
(* If the result shares its delta cell with the account merged in
   (Go: o := &OutputAccount{BalanceDelta: a.BalanceDelta}; o.MergeOutputAccounts(a)),
   the in-place Add changes what is seen through a: 5 becomes 10. *)
Module Example2.
  Import Example1.
  Definition oshare : hacct :=
    {| h_address := None; h_nonce := 0; h_balance := None; h_delta := Some 1; h_storage := None; h_code := None;
       h_codeMetadata := None; h_deployer := None; h_gasUsed := 0; h_transfers := nil_slice |}.
  Definition h1 : mheap :=
    {| accts := fun p => match p with 0 => oshare | 1 => a0 | _ => b0 end;
       ints := ints h0; tarrs := tarrs h0; maps := maps h0; sus := sus h0; barrs := barrs h0;
       nextInt := 4; nextTarr := 2; nextMap := 2 |}.
  Example merge_shared_delta_refuted :
    oa_delta (acct_view h1 1) = Some 5%Z /\
    oa_delta (acct_view (merge_heap (fun n => n) h1 0 1) 1) = Some 10%Z /\
    ~ separate h1 0 1.
  Proof.
    split; [reflexivity|]. split; [reflexivity|].
    intros (_ & Hd & _). apply (Hd 1 eq_refl). right. left. reflexivity.
  Qed.
  (* The same through the transfer array: the result holds a SHORTER slice of b's array with room
     left (Go: o.OutputTransfers = b.OutputTransfers[:1]); the next merge appends in place and
     overwrites b's second transfer. *)
  Definition otail : hacct :=
    {| h_address := None; h_nonce := 0; h_balance := None; h_delta := None; h_storage := None; h_code := None;
       h_codeMetadata := None; h_deployer := None; h_gasUsed := 0;
       h_transfers := {| s_arr := 1; s_off := 0; s_len := 1; s_cap := 4 |} |}.
  Definition a2 : hacct :=
    {| h_address := None; h_nonce := 0; h_balance := None; h_delta := None; h_storage := None; h_code := None;
       h_codeMetadata := None; h_deployer := None; h_gasUsed := 0;
       h_transfers := {| s_arr := 2; s_off := 0; s_len := 2; s_cap := 2 |} |}.
  Definition h2 : mheap :=
    {| accts := fun p => match p with 0 => otail | 1 => a2 | _ => b0 end;
       ints := ints h0;
       tarrs := fun j => match j with 2 => [tr None 1; tr None 2] | _ => tarrs h0 j end;
       maps := maps h0; sus := sus h0; barrs := barrs h0;
       nextInt := 4; nextTarr := 3; nextMap := 2 |}.
  Example merge_shared_array_refuted :
    map x_gasLimit (oa_transfers (acct_view h2 2)) = [50; 60]%N /\
    map x_gasLimit (oa_transfers (acct_view (merge_heap (fun n => n) h2 0 1) 2)) = [50; 2]%N /\
    ~ separate h2 0 2.
  Proof.
    split; [reflexivity|]. split; [reflexivity|].
    intros (_ & _ & _ & [Hl|[Hown _]] & _); [discriminate Hl|].
    apply Hown. unfold owns_tarr. cbn. lia.
  Qed.
End Example2.

Print Assumptions merge_does_not_mutate_argument.
Print Assumptions merge_keeps_separate.
Print Assumptions merge_no_mutation.
Print Assumptions merge_no_mutation_all.
Print Assumptions merge_heap_agrees.
Print Assumptions merge_keeps_own_cell_private.
Print Assumptions Example1.a_unchanged.
Print Assumptions Example2.merge_shared_array_refuted.
