(* Property C13: "independent of map iteration order".  VMOutput.OutputAccounts is the only Go map whose
   iteration order could reach an observer of a built-in call.  In the model the output accounts are a
   list; this file proves that a successful execution of ANY of the 23 functions yields at most one
   output account, so there is no order to depend on. *)
From EV Require Import Base.Bytes Base.Store Base.Monad gen.Consts Codec.Types Helpers.Helpers
  Ledger.Types Ledger.Env Ledger.Funcs Ledger.Transfers.

Definition le1 (o : output) : Prop := length (o_accounts o) <= 1.

Lemma le1_mk rc g : le1 (mk_out rc g). Proof. unfold le1. cbn. lia. Qed.
Lemma le1_set_gasrem o g : le1 o -> le1 (set_gasrem o g). Proof. exact (fun H => H). Qed.
Lemma le1_set_logs o l : le1 o -> le1 (set_logs o l). Proof. exact (fun H => H). Qed.
Lemma le1_set_returnData o l : le1 o -> le1 (set_returnData o l). Proof. exact (fun H => H). Qed.
Lemma le1_add_log o l : le1 o -> le1 (add_log o l). Proof. exact (fun H => H). Qed.
Lemma le1_set_accounts_nil o : le1 (set_accounts o []). Proof. unfold le1. cbn. lia. Qed.
Lemma le1_set_accounts_one o a : le1 (set_accounts o [a]). Proof. unfold le1. cbn. lia. Qed.
Lemma le1_add_output_transfer a b c d e f o : le1 (add_output_transfer a b c d e f o).
Proof. unfold le1. cbn. lia. Qed.
Lemma le1_add_nft_transfer a b c d e f g o : le1 (add_nft_transfer a b c d e f g o).
Proof. unfold le1. cbn. lia. Qed.
Lemma le1_if (b : bool) o1 o2 : le1 o1 -> le1 o2 -> le1 (if b then o1 else o2).
Proof. destruct b; auto. Qed.

Global Hint Resolve le1_mk le1_set_gasrem le1_set_logs le1_set_returnData le1_add_log le1_set_accounts_nil
  le1_set_accounts_one le1_add_output_transfer le1_add_nft_transfer le1_if : le1db.

(* inversion of one successful run, keeping helper calls opaque *)
Ltac oinv :=
  repeat first
    [ minv_step
    | match goal with
      | H : (if ?c then _ else _) _ = (Ok _, _) |- _ => destruct c eqn:?
      | H : (match ?x with Some _ => _ | None => _ end) _ = (Ok _, _) |- _ => destruct x eqn:?
      | H : (match ?x with (_, _) => _ end) _ = (Ok _, _) |- _ => destruct x eqn:?
      | H : (let _ := _ in _) _ = (Ok _, _) |- _ => progress cbv zeta in H
      | H : (fun _ => _) _ _ = (Ok _, _) |- _ => progress cbv beta in H
      end ].

Section Shape.
  Variable E : env.

  Lemma multi_out_args_le1 l : forall o acc s r o' s',
    multi_out_args E l o acc s = (Ok (r, o'), s') -> le1 o -> le1 o'.
  Proof.
    induction l as [|[tok t] l IH]; intros o acc s r o' s' H Ho; cbn [multi_out_args] in H.
    - oinv. inversion H; subst. exact Ho.
    - destruct (t_meta t) eqn:Em; oinv; eapply IH; eauto with le1db.
  Qed.

  Ltac fin := subst; eauto 8 with le1db.
  Ltac shape f := let H := fresh "H" in intros *; intros H; unfold f in H; oinv; fin.
  Lemma f_local_mint_le1 : forall i s o s', f_local_mint E i s = (Ok o, s') -> le1 o.
  Proof. shape f_local_mint. Qed.
  Lemma f_local_burn_le1 : forall i s o s', f_local_burn E i s = (Ok o, s') -> le1 o.
  Proof. shape f_local_burn. Qed.
  Lemma f_esdt_burn_le1 : forall i s o s', f_esdt_burn E i s = (Ok o, s') -> le1 o.
  Proof. shape f_esdt_burn. Qed.
  Lemma f_nft_create_le1 : forall i s o s', f_nft_create E i s = (Ok o, s') -> le1 o.
  Proof. shape f_nft_create. Qed.
  Lemma f_nft_add_quantity_le1 : forall i s o s', f_nft_add_quantity E i s = (Ok o, s') -> le1 o.
  Proof. shape f_nft_add_quantity. Qed.
  Lemma f_nft_burn_le1 : forall i s o s', f_nft_burn E i s = (Ok o, s') -> le1 o.
  Proof. shape f_nft_burn. Qed.
  Lemma f_nft_add_uri_le1 : forall i s o s', f_nft_add_uri E i s = (Ok o, s') -> le1 o.
  Proof. shape f_nft_add_uri. Qed.
  Lemma f_nft_update_attributes_le1 : forall i s o s', f_nft_update_attributes E i s = (Ok o, s') -> le1 o.
  Proof. shape f_nft_update_attributes. Qed.
  Lemma f_create_role_transfer_le1 : forall i s o s', f_create_role_transfer E i s = (Ok o, s') -> le1 o.
  Proof. shape f_create_role_transfer. Qed.
  Lemma f_change_owner_le1 : forall i s o s', f_change_owner E i s = (Ok o, s') -> le1 o.
  Proof. shape f_change_owner. Qed.
  Lemma f_claim_rewards_le1 : forall i s o s', f_claim_rewards E i s = (Ok o, s') -> le1 o.
  Proof. shape f_claim_rewards. Qed.
  Lemma f_set_user_name_le1 : forall i s o s', f_set_user_name E i s = (Ok o, s') -> le1 o.
  Proof. shape f_set_user_name. Qed.
  Lemma f_save_key_value_le1 : forall i s o s', f_save_key_value E i s = (Ok o, s') -> le1 o.
  Proof. shape f_save_key_value. Qed.
  Lemma f_freeze_wipe_le1 : forall a b i s o s', f_freeze_wipe E a b i s = (Ok o, s') -> le1 o.
  Proof. shape f_freeze_wipe. Qed.
  Lemma f_pause_le1 : forall a i s o s', f_pause E a i s = (Ok o, s') -> le1 o.
  Proof. shape f_pause. Qed.
  Lemma f_roles_le1 : forall a i s o s', f_roles E a i s = (Ok o, s') -> le1 o.
  Proof. shape f_roles. Qed.
  Lemma f_esdt_transfer_le1 : forall i s o s', f_esdt_transfer E i s = (Ok o, s') -> le1 o.
  Proof. shape f_esdt_transfer. Qed.
  Lemma f_nft_transfer_sender_le1 : forall i s o s', f_nft_transfer_sender E i s = (Ok o, s') -> le1 o.
  Proof. shape f_nft_transfer_sender. Qed.
  Lemma f_nft_transfer_le1 : forall i s o s', f_nft_transfer E i s = (Ok o, s') -> le1 o.
  Proof.
    intros *; intros H; unfold f_nft_transfer in H; oinv;
      try (eapply f_nft_transfer_sender_le1; eassumption); fin.
  Qed.
  Lemma f_multi_transfer_sender_le1 : forall i s o s', f_multi_transfer_sender E i s = (Ok o, s') -> le1 o.
  Proof.
    intros *; intros H; unfold f_multi_transfer_sender in H; oinv;
      try match goal with Hm : multi_out_args _ _ _ _ _ = (Ok (_, ?o1), _) |- _ =>
            assert (le1 o1) by (eapply multi_out_args_le1; [exact Hm|eauto with le1db]) end; fin.
  Qed.
  Lemma f_multi_transfer_le1 : forall i s o s', f_multi_transfer E i s = (Ok o, s') -> le1 o.
  Proof.
    intros *; intros H; unfold f_multi_transfer in H; oinv;
      try (eapply f_multi_transfer_sender_le1; eassumption); fin.
  Qed.

  (* every successful execution yields at most one output account *)
  Theorem output_accounts_at_most_one : forall f i s o s',
    exec E f i s = (Ok o, s') -> length (o_accounts o) <= 1.
  Proof.
    intros f i s o s' H. change (le1 o). unfold exec in H.
    repeat match type of H with
           | (if ?c then _ else _) _ = _ => destruct c
           end;
      eauto using f_local_mint_le1, f_local_burn_le1, f_esdt_burn_le1, f_nft_create_le1, f_nft_add_quantity_le1,
        f_nft_burn_le1, f_nft_add_uri_le1, f_nft_update_attributes_le1, f_create_role_transfer_le1, f_change_owner_le1,
        f_claim_rewards_le1, f_set_user_name_le1, f_save_key_value_le1, f_freeze_wipe_le1, f_pause_le1, f_roles_le1,
        f_esdt_transfer_le1, f_nft_transfer_le1, f_multi_transfer_le1.
    discriminate H.
  Qed.
End Shape.

(* non-vacuity: a successful call with exactly one output account (SetUserName addressed to another shard) *)
Definition shape_env : env :=
  {| plan := fun _ => false;
     cdc := {| enc_tok := fun _ => []; dec_tok := fun _ => None; enc_rol := fun _ => []; dec_rol := fun _ => None |};
     shard_of := fun _ => 0%N; self_shard := 0%N; payable := fun _ => PayYes; dns := [[x01]]; enable_change := false;
     gas := {| g_ChangeOwnerAddress := 0; g_ClaimDeveloperRewards := 0; g_SaveUserName := 0; g_SaveKeyValue := 0;
               g_ESDTTransfer := 0; g_ESDTBurn := 0; g_ESDTLocalMint := 0; g_ESDTLocalBurn := 0; g_ESDTNFTCreate := 0;
               g_ESDTNFTAddQuantity := 0; g_ESDTNFTBurn := 0; g_ESDTNFTTransfer := 0; g_ESDTNFTChangeCreateOwner := 0;
               g_ESDTNFTMultiTransfer := 0; g_ESDTNFTAddURI := 0; g_ESDTNFTUpdateAttributes := 0;
               g_StorePerByte := 0; g_ReleasePerByte := 0; g_DataCopyPerByte := 0; g_PersistPerByte := 0;
               g_CompilePerByte := 0; g_AoTPreparePerByte := 0 |} |}.
Example one_output_account_example :
  exists o s', exec shape_env C.BuiltInFunctionSetUserName
                 {| i_caller := [x01]; i_rcpt := [x02]; i_args := [[x61]]; i_value := 0; i_gas := 5; i_gasLocked := 0;
                    i_callType := 0; i_rae := false; i_snd := true; i_dst := false |}
                 {| accts := []; calls := 0; allocs := 0 |} = (Ok o, s')
               /\ length (o_accounts o) = 1.
Proof. eexists. eexists. split; [vm_compute; reflexivity|reflexivity]. Qed.

Print Assumptions output_accounts_at_most_one.
Print Assumptions one_output_account_example.
