(* Property C13, determinism half: the specification the implementation is compared to.

   The ledger model [exec] (Ledger/Transfers.v) is a Gallina FUNCTION of the configuration
   (env: fault plan, codec, shard table, payability oracle, DNS set, flag, gas schedule), the
   function name, the input and the state of the executing shard.  There is nothing else it could
   depend on: no function object, no goroutine, no iteration order, no history other than the state
   that history produced.  The statements below spell that out; their proofs are immediate, and
   that is the point - the content of C13 is that the IMPLEMENTATION agrees with such a function,
   which the harness establishes per call by (a) comparing every execution with the model's result
   (all outputs and the complete post-state, projection [proj_all]) and (b) comparing repeated
   executions of the implementation with each other. *)
From Coq.Strings Require Import String.
From EV Require Import Base.Bytes Base.Store Base.Monad gen.Consts Codec.Types
  Ledger.Types Ledger.Env Ledger.Funcs Ledger.Transfers.

Definition result := (res err output * mstate)%type.

(* equal configuration, name, input and state give equal results: return code, gas, return data,
   logs in order, output transfers (all in [output]) and the resulting state *)
Theorem exec_deterministic : forall (E1 E2 : env) (f1 f2 : bytes) (i1 i2 : input) (s1 s2 : mstate),
  E1 = E2 -> f1 = f2 -> i1 = i2 -> s1 = s2 -> exec E1 f1 i1 s1 = exec E2 f2 i2 s2.
Proof. intros; subst; reflexivity. Qed.

(* a history: calls executed one after the other on a shard, a failed call being rolled back
   (DESIGN.md 3.4); the dependency-call counter and the allocation meter are per call *)
Definition settle (s : mstate) (r : result) : mstate :=
  match r with
  | (Ok _, s') => {| accts := accts s'; calls := 0; allocs := 0 |}
  | _ => s
  end.
Fixpoint after (E : env) (h : list (bytes * input)) (s : mstate) : mstate :=
  match h with
  | [] => s
  | (f, i) :: r => after E r (settle s (exec E f i s))
  end.

(* the result of a call depends on the earlier calls - related or not, on "the same function
   object" or not - only through the state they left: two histories that end in the same state are
   indistinguishable by any later call, and by any later sequence of calls *)
Theorem exec_history_independent : forall E h1 h2 s1 s2 f i,
  after E h1 s1 = after E h2 s2 -> exec E f i (after E h1 s1) = exec E f i (after E h2 s2).
Proof. intros E h1 h2 s1 s2 f i H. rewrite H. reflexivity. Qed.
Theorem after_history_independent : forall E h1 h2 s1 s2 h,
  after E h1 s1 = after E h2 s2 -> after E (h1 ++ h) s1 = after E (h2 ++ h) s2.
Proof.
  assert (Happ : forall E h1 h s, after E (h1 ++ h) s = after E h (after E h1 s)).
  { intros E h1. induction h1 as [|[f i] r IH]; intros h s; [reflexivity|]. cbn [after app]. apply IH. }
  intros E h1 h2 s1 s2 h H. rewrite !Happ, H. reflexivity.
Qed.

(* non-vacuity: two different histories that end in the same state (an unknown function is
   rejected and rolled back; so is the empty history) *)
Example histories_example : forall E s,
  after E [(str "NoSuchFunction"%string, {| i_caller := []; i_rcpt := []; i_args := []; i_value := 0; i_gas := 0;
                                     i_gasLocked := 0; i_callType := 0; i_rae := false; i_snd := false; i_dst := false |})] s
  = after E [] s.
Proof. intros E s. reflexivity. Qed.

Print Assumptions exec_deterministic.
Print Assumptions exec_history_independent.
Print Assumptions after_history_independent.
Print Assumptions histories_example.
