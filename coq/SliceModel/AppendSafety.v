(* Property C13, memory half: no execution of a built-in function writes a cell of an array that
   belongs to its input (CallerAddr, RecipientAddr, Arguments[i], ...) or of an array that holds a
   shared key prefix (the keyPrefix field of every function object, roleKeyPrefix, noncePrefix).

   Three ingredients.

   1. gen/AppendSites.v, regenerated from /repo on every run by tools/srcgen/appends.go: every
      `append(x, ...)` call and every other statement that writes through a slice or map
      (x[i] = v, copy(x, ..), delete(x, ..)) of the non-test, non-generated Go sources, with the
      PROVENANCE CLASS of x.  [append_sites_check] is a decidable check of that table, evaluated by
      the kernel ([append_sites_check_ok], vm_compute) and lifted to the statements
      [append_sites_safe], [write_sites_safe], [prefix_args_known], [sites_accounted].

   2. A meaning for the classes ([may_denote]): which slice VALUES a first argument of that class can
      denote at run time, relative to the arrays that existed when the call started.

   3. An abstract machine over the slice heap of SliceModel/Slice.v whose steps are allocations,
      appends at a site of the table and writes at a site of the table ([step]).  Theorem
      [exec_no_protected_write]: if every site is safe and every shared prefix slice has
      cap = len (the fact the harness reads by reflection on every run), then no run of the machine
      changes any array that existed before the call and is protected - whatever the order, number
      and arguments of the steps.  [calls_never_write_input_or_prefix] instantiates it with the
      generated table.  Both hypotheses are necessary: [spare_prefix_is_written] and
      [input_class_is_unsafe] exhibit the write when one of them is dropped.

   TRUSTED (this is why C13 is PARTIAL): the classification analysis itself (appends.go: go/ast,
   flow-insensitive, refuses what it cannot follow -> Unknown) and the reading of its classes in
   [may_denote]; code outside the analysed packages (math/big, the generated protobuf code, the Go
   runtime, the injected collaborators) is assumed not to write into, nor retain, what it is
   handed, except that Unmarshal fills the object with freshly allocated data. *)
From Coq.Strings Require Import String.
From EV Require Import Base.Bytes SliceModel.Slice gen.AppendSites.
Local Open Scope string_scope.

(* ---------------------------------------------------------------- 1. the table check *)

(* classes whose slices may be APPENDED to *)
Definition append_safe_class (c : provenance) : bool :=
  match c with Fresh | Decoded | OwnOutput | PrefixField | PrefixDerived => true | _ => false end.
(* classes whose slices may be WRITTEN through (x[i] = v, copy): a prefix, full or not, may not *)
Definition write_safe_class (c : provenance) : bool :=
  match c with Fresh | Decoded | OwnOutput => true | _ => false end.

(* the code a call of ProcessBuiltinFunction runs inside the analysed packages: everything in
   builtInFunctions/ except the constructors New...(), which run once, before the object is shared *)
Definition is_constructor (s : append_site) : bool := String.prefix "New" (as_func s).
Definition in_call_scope (s : append_site) : bool :=
  String.prefix "builtInFunctions/" (as_file s) && negb (is_constructor s).

(* every site outside the call scope must be one we know: a constructor filling its own object, the
   parsers / tx-data builder / container packages (properties C12, C19; they work on their own
   buffers), the caster called by the generated marshaller on the marshaller's buffer, and the two
   methods of OutputAccount whose CONTRACT is to change their receiver (property C20, heap model in
   SliceModel/MergeHeap.v).  A new site anywhere else makes the check fail. *)
Definition own_or_private (c : provenance) : bool :=
  match c with Fresh | Decoded | OwnOutput | PrivateState => true | _ => false end.
Definition accounted_outside (s : append_site) : bool :=
  (String.prefix "builtInFunctions/" (as_file s) && is_constructor s && own_or_private (as_class s))
  || ((String.prefix "parsers/" (as_file s) || String.prefix "txDataBuilder/" (as_file s)
       || String.prefix "container/" (as_file s) || String.eqb (as_file s) "codeMetadata.go")
      && own_or_private (as_class s))
  || (String.eqb (as_file s) "data/bigIntCaster.go" && String.eqb (as_func s) "BigIntCaster.MarshalTo")
  || (String.eqb (as_file s) "output.go"
      && (String.eqb (as_func s) "OutputAccount.MergeOutputAccounts"
          || String.eqb (as_func s) "OutputAccount.MergeStorageUpdates")).

(* the slices the harness inspects by reflection: EVERY []byte field of every function object (the generator writes a
   field of the method's receiver as "recv.<field>", whatever the receiver and the field are called) and the two
   package-level prefixes.  A PrefixField site must name one of them. *)
Definition prefix_vars : list string := ["roleKeyPrefix"; "noncePrefix"].
Definition measured_prefix (a : string) : bool :=
  String.prefix "recv." a || existsb (String.eqb a) prefix_vars.
Definition known_prefix_arg (s : append_site) : bool :=
  match as_class s with
  | PrefixField => measured_prefix (as_arg s)
  | _ => true
  end.

Definition append_site_ok (s : append_site) : bool :=
  if in_call_scope s then append_safe_class (as_class s) && known_prefix_arg s else accounted_outside s.
Definition write_site_ok (ks : string * append_site) : bool :=
  if in_call_scope (snd ks) then write_safe_class (as_class (snd ks)) else accounted_outside (snd ks).

Definition append_sites_check : bool :=
  forallb append_site_ok append_sites && forallb write_site_ok write_sites.

Lemma append_sites_check_ok : append_sites_check = true.
Proof. vm_compute. reflexivity. Qed.

(* the sites of the call scope, as predicates over the generated tables *)
Definition call_append_site (s : append_site) : Prop := In s append_sites /\ in_call_scope s = true.
Definition call_write_site (k : string) (s : append_site) : Prop :=
  In (k, s) write_sites /\ in_call_scope s = true.

(* fresh | decoded from storage | own local object | constant prefix (cap = len) | derived from it *)
Definition safe_provenance (s : append_site) : Prop :=
  as_class s = Fresh \/ as_class s = Decoded \/ as_class s = OwnOutput
  \/ as_class s = PrefixField \/ as_class s = PrefixDerived.
Definition safe_write_provenance (s : append_site) : Prop :=
  as_class s = Fresh \/ as_class s = Decoded \/ as_class s = OwnOutput.

Lemma append_safe_class_sound s : append_safe_class (as_class s) = true -> safe_provenance s.
Proof. unfold safe_provenance. destruct (as_class s); simpl; intros H; try discriminate; tauto. Qed.
Lemma write_safe_class_sound s : write_safe_class (as_class s) = true -> safe_write_provenance s.
Proof. unfold safe_write_provenance. destruct (as_class s); simpl; intros H; try discriminate; tauto. Qed.

Lemma check_parts :
  forallb append_site_ok append_sites = true /\ forallb write_site_ok write_sites = true.
Proof.
  pose proof append_sites_check_ok as H. unfold append_sites_check in H.
  apply andb_prop in H. exact H.
Qed.

(* soundness of the check, site by site *)
Theorem append_sites_safe : forall site, call_append_site site -> safe_provenance site.
Proof.
  intros site [Hin Hsc].
  destruct check_parts as [Ha _]. rewrite forallb_forall in Ha. specialize (Ha site Hin).
  unfold append_site_ok in Ha. rewrite Hsc in Ha. apply andb_prop in Ha.
  apply append_safe_class_sound. exact (proj1 Ha).
Qed.
Theorem write_sites_safe : forall k site, call_write_site k site -> safe_write_provenance site.
Proof.
  intros k site [Hin Hsc].
  destruct check_parts as [_ Hw]. rewrite forallb_forall in Hw. specialize (Hw (k, site) Hin).
  unfold write_site_ok in Hw. cbn [snd] in Hw. rewrite Hsc in Hw.
  apply write_safe_class_sound. exact Hw.
Qed.
(* in particular: no append to, and no write through, an input slice or a slice of unknown origin *)
Corollary no_append_to_input : forall site, call_append_site site ->
  as_class site <> Input /\ as_class site <> Unknown /\ as_class site <> PrivateState.
Proof.
  intros site H. apply append_sites_safe in H. unfold safe_provenance in H.
  repeat split; intros E; rewrite E in H; repeat (destruct H as [H|H]; try discriminate).
Qed.
Corollary no_write_through_input_or_prefix : forall k site, call_write_site k site ->
  as_class site <> Input /\ as_class site <> Unknown /\ as_class site <> PrivateState
  /\ as_class site <> PrefixField /\ as_class site <> PrefixDerived.
Proof.
  intros k site H. apply write_sites_safe in H. unfold safe_write_provenance in H.
  repeat split; intros E; rewrite E in H; repeat (destruct H as [H|H]; try discriminate).
Qed.
(* the shared prefixes appended to are exactly the ones the harness measures *)
Theorem prefix_args_known : forall site, call_append_site site -> as_class site = PrefixField ->
  measured_prefix (as_arg site) = true.
Proof.
  intros site [Hin Hsc] Hc.
  destruct check_parts as [Ha _]. rewrite forallb_forall in Ha. specialize (Ha site Hin).
  unfold append_site_ok in Ha. rewrite Hsc in Ha. apply andb_prop in Ha. destruct Ha as [_ Hk].
  unfold known_prefix_arg in Hk. rewrite Hc in Hk. exact Hk.
Qed.
(* every site of the whole table is either in the call scope (and safe) or one of the known ones *)
Theorem sites_accounted : forall site, In site append_sites ->
  (in_call_scope site = true /\ safe_provenance site)
  \/ (in_call_scope site = false /\ accounted_outside site = true).
Proof.
  intros site Hin. destruct check_parts as [Ha _]. rewrite forallb_forall in Ha. specialize (Ha site Hin).
  unfold append_site_ok in Ha. destruct (in_call_scope site) eqn:Hsc.
  - left. split; [reflexivity|]. apply andb_prop in Ha. apply append_safe_class_sound. exact (proj1 Ha).
  - right. split; [reflexivity|exact Ha].
Qed.

(* the same statements with the scope written out (the forms restated in Properties/C13.v) *)
Lemma append_sites_safe_in : forall site, In site append_sites -> in_call_scope site = true ->
  as_class site = Fresh \/ as_class site = Decoded \/ as_class site = OwnOutput
  \/ as_class site = PrefixField \/ as_class site = PrefixDerived.
Proof. intros site H1 H2. exact (append_sites_safe site (conj H1 H2)). Qed.
Lemma no_append_to_input_in : forall site, In site append_sites -> in_call_scope site = true ->
  as_class site <> Input /\ as_class site <> Unknown /\ as_class site <> PrivateState.
Proof. intros site H1 H2. exact (no_append_to_input site (conj H1 H2)). Qed.
Lemma write_sites_safe_in : forall k site, In (k, site) write_sites -> in_call_scope site = true ->
  as_class site = Fresh \/ as_class site = Decoded \/ as_class site = OwnOutput.
Proof. intros k site H1 H2. exact (write_sites_safe k site (conj H1 H2)). Qed.
Lemma prefix_args_known_in : forall site, In site append_sites -> in_call_scope site = true ->
  as_class site = PrefixField -> measured_prefix (as_arg site) = true.
Proof. intros site H1 H2. exact (prefix_args_known site (conj H1 H2)). Qed.
(* the table is not empty, and outside the call scope it does contain the dangerous shape *)
Example table_nonvacuous :
  (exists site, In site append_sites /\ in_call_scope site = true /\ as_class site = PrefixField
                /\ String.prefix "recv." (as_arg site) = true)
  /\ (exists site, In site append_sites /\ in_call_scope site = false /\ as_class site = Input)
  /\ 20 <= List.length (filter in_call_scope append_sites)
  /\ 5 <= List.length (filter (fun ks => in_call_scope (snd ks)) write_sites).
Proof.
  (* position-independent: the witnesses are found by a boolean search over the generated table *)
  assert (Hfind : forall (f : append_site -> bool), existsb f append_sites = true ->
                  exists site, In site append_sites /\ f site = true).
  { intros f H. apply existsb_exists in H. exact H. }
  split; [|split; [|split]].
  - destruct (Hfind (fun s => in_call_scope s && (match as_class s with PrefixField => true | _ => false end)
                             && String.prefix "recv." (as_arg s))%bool) as [site [Hin Hs]]; [vm_compute; reflexivity|].
    exists site. apply andb_prop in Hs as [Hs H3]. apply andb_prop in Hs as [H1 H2].
    split; [exact Hin|split; [exact H1|split]].
    + destruct (as_class site); try discriminate H2; reflexivity.
    + exact H3.
  - destruct (Hfind (fun s => negb (in_call_scope s) && (match as_class s with Input => true | _ => false end))%bool)
      as [site [Hin Hs]]; [vm_compute; reflexivity|].
    exists site. apply andb_prop in Hs as [H1 H2]. split; [exact Hin|split].
    + apply Bool.negb_true_iff; exact H1.
    + destruct (as_class site); try discriminate H2; reflexivity.
  - vm_compute. repeat constructor.
  - vm_compute. repeat constructor.
Qed.

(* completeness of the generated table: one entry per `append (` token pair that go/scanner sees in the analysed files
   (counted independently of the go/ast analysis that classifies the sites) *)
Example table_complete : List.length append_sites = append_token_count.
Proof. vm_compute. reflexivity. Qed.

(* ---------------------------------------------------------------- 2./3. the machine *)
Section Machine.
  Variable E : Type.                     (* element type of the arrays *)
  Variable junk : E.

  Record mach := { m_heap : heap E; m_next : nat }.   (* arrays with id >= m_next are not allocated *)

  Variable prot : nat -> Prop.           (* arrays of the input structure and of the shared prefixes *)
  Variable next0 : nat.                  (* the allocation pointer when the call starts *)
  Variable prefix_slice : gslice -> Prop. (* the slice values stored in the prefix fields / variables *)
  Variable asite : append_site -> Prop.              (* the append sites the execution may pass through *)
  Variable wsite : string -> append_site -> Prop.    (* the other write sites *)

  (* a slice of the call's own: the nil slice (no capacity), or over an array allocated by the call *)
  Definition own_slice (m : mach) (s : gslice) : Prop :=
    s_cap s = 0 \/ (next0 <= s_arr s /\ s_arr s < m_next m).

  (* what a first argument of class c can denote; Input, Unknown, PrivateState: anything at all *)
  Definition may_denote (c : provenance) (m : mach) (s : gslice) : Prop :=
    match c with
    | Fresh | Decoded | OwnOutput => own_slice m s
    | PrefixField => prefix_slice s
    | PrefixDerived => prefix_slice s \/ own_slice m s   (* append(prefix) with nothing to add returns the prefix *)
    | PrivateState | Input | Unknown => True
    end.

  Inductive step (m : mach) : mach -> Prop :=
  | step_alloc content :                                 (* make, new, literals, decoding, big.Int.Bytes, ... *)
      step m {| m_heap := upd (m_heap m) (m_next m) content; m_next := S (m_next m) |}
  | step_append site s xs extra :                        (* append(x, xs...) at a site of the table *)
      asite site -> may_denote (as_class site) m s ->
      step m {| m_heap := fst (go_append junk (m_heap m) (m_next m) extra s xs); m_next := S (m_next m) |}
  | step_write kind site s p vs :                        (* x[i] = v, copy(x, vs): inside the window of x *)
      wsite kind site -> may_denote (as_class site) m s ->
      s_len s <= s_cap s -> p + length vs <= s_len s ->
      step m {| m_heap := upd (m_heap m) (s_arr s) (write_at (s_off s + p) vs (m_heap m (s_arr s)));
                m_next := m_next m |}.
  Inductive steps : mach -> mach -> Prop :=
  | steps_refl m : steps m m
  | steps_step m1 m2 m3 : step m1 m2 -> steps m2 m3 -> steps m1 m3.

  Hypothesis prot_old : forall j, prot j -> j < next0.
  Hypothesis prefix_full : forall s, prefix_slice s -> s_cap s = s_len s.      (* checked by the harness *)
  Hypothesis asites_safe : forall site, asite site -> safe_provenance site.
  Hypothesis wsites_safe : forall k site, wsite k site -> safe_write_provenance site.

  Lemma append_own_keeps m s xs extra j : next0 <= m_next m -> prot j -> own_slice m s ->
    fst (go_append junk (m_heap m) (m_next m) extra s xs) j = m_heap m j.
  Proof.
    intros Hn Hj [Hc|[Ho _]]; pose proof (prot_old j Hj) as Hlt.
    - destruct (Nat.eq_dec j (s_arr s)) as [->|Hne].
      + apply append_full_no_write; lia.
      + apply append_frame; [auto|lia].
    - apply append_frame; lia.
  Qed.
  Lemma append_full_keeps m s xs extra j : next0 <= m_next m -> prot j -> s_cap s = s_len s ->
    fst (go_append junk (m_heap m) (m_next m) extra s xs) j = m_heap m j.
  Proof.
    intros Hn Hj Hf. pose proof (prot_old j Hj) as Hlt.
    apply (append_fresh_when_full E junk (m_heap m) (m_next m) extra s xs Hf). lia.
  Qed.

  Lemma step_protected m m' : next0 <= m_next m -> step m m' ->
    next0 <= m_next m' /\ forall j, prot j -> m_heap m' j = m_heap m j.
  Proof.
    intros Hn Hs. destruct Hs as [content | site s xs extra Hin Hden | kind site s p vs Hin Hden Hlc Hp];
      cbn [m_heap m_next]; (split; [lia|]); intros j Hj; pose proof (prot_old j Hj) as Hlt.
    - apply upd_other. lia.
    - pose proof (asites_safe site Hin) as Hsafe. unfold safe_provenance in Hsafe.
      destruct Hsafe as [Hc|[Hc|[Hc|[Hc|Hc]]]]; rewrite Hc in Hden; cbn [may_denote] in Hden.
      + apply append_own_keeps; auto.
      + apply append_own_keeps; auto.
      + apply append_own_keeps; auto.
      + apply append_full_keeps; auto.
      + destruct Hden as [Hpf|Hown]; [apply append_full_keeps|apply append_own_keeps]; auto.
    - pose proof (wsites_safe kind site Hin) as Hsafe. unfold safe_write_provenance in Hsafe.
      assert (Hown : own_slice m s).
      { destruct Hsafe as [Hc|[Hc|Hc]]; rewrite Hc in Hden; exact Hden. }
      destruct Hown as [Hc|[Ho _]].
      + assert (length vs = 0) by lia. destruct vs; [|simpl in *; lia].
        unfold upd. destruct (Nat.eqb j (s_arr s)) eqn:Ej; [|reflexivity].
        apply Nat.eqb_eq in Ej. subst j. apply write_at_nil.
      + apply upd_other. lia.
  Qed.

  (* THE COMPOSITION THEOREM: no run writes a cell of a protected array *)
  Theorem exec_no_protected_write m0 m : m_next m0 = next0 -> steps m0 m ->
    forall j, prot j -> m_heap m j = m_heap m0 j.
  Proof.
    intros H0 Hs. assert (Hn : next0 <= m_next m0) by lia. clear H0.
    induction Hs as [m|m1 m2 m3 H12 H23 IH]; intros j Hj; [reflexivity|].
    destruct (step_protected m1 m2 Hn H12) as [Hn2 Hk]. rewrite (IH Hn2 j Hj). apply Hk. exact Hj.
  Qed.
  (* hence every slice the caller holds over such an array - its arguments, with or without spare
     capacity, its neighbours in the same array, the prefix slices - shows the same elements *)
  Corollary exec_keeps_protected_views m0 m t : m_next m0 = next0 -> steps m0 m -> prot (s_arr t) ->
    sview (m_heap m) t = sview (m_heap m0) t.
  Proof.
    intros H0 Hs Hp. unfold sview. rewrite (exec_no_protected_write m0 m H0 Hs _ Hp). reflexivity.
  Qed.
End Machine.

Arguments m_heap {E} m.
Arguments m_next {E} m.

(* instantiated with the table generated from the current sources *)
Theorem calls_never_write_input_or_prefix :
  forall (E : Type) (junk : E) (prot : nat -> Prop) (next0 : nat) (prefix_slice : gslice -> Prop),
    (forall j, prot j -> j < next0) ->
    (forall s, prefix_slice s -> s_cap s = s_len s) ->
    forall m0 m : mach E, m_next m0 = next0 ->
      steps E junk next0 prefix_slice call_append_site call_write_site m0 m ->
      forall j, prot j -> m_heap m j = m_heap m0 j.
Proof.
  intros E junk prot next0 prefix_slice Hold Hfull m0 m H0 Hs.
  exact (exec_no_protected_write E junk prot next0 prefix_slice call_append_site call_write_site
           Hold Hfull append_sites_safe write_sites_safe m0 m H0 Hs).
Qed.

(* ---------------------------------------------------------------- necessity of the hypotheses *)

(* a prefix slice WITH spare capacity: one permitted append at a PrefixField site writes the prefix's array *)
Definition site_prefix : append_site :=
  {| as_file := "builtInFunctions/x.go"; as_func := "x.ProcessBuiltinFunction"; as_ord := 0;
     as_arg := "recv.keyPrefix"; as_back := false; as_class := PrefixField |}.
Example spare_prefix_is_written :
  let pfx := {| s_arr := 0; s_off := 0; s_len := 3; s_cap := 5 |} in
  let m0 := {| m_heap := fun _ => [1; 2; 3; 0; 0]; m_next := 1 |} in
  exists m, step nat 0 1 (fun s => s = pfx) (eq site_prefix) (fun _ _ => False) m0 m
            /\ safe_provenance site_prefix /\ m_heap m 0 = [1; 2; 3; 9; 0] /\ m_heap m 0 <> m_heap m0 0.
Proof.
  intros pfx m0.
  exists {| m_heap := fst (go_append 0 (m_heap m0) (m_next m0) 0 pfx [9]); m_next := S (m_next m0) |}.
  split; [|split; [|split]].
  - apply (step_append nat 0 1 (fun s => s = pfx) (eq site_prefix) (fun _ _ => False) m0 site_prefix pfx [9] 0).
    + reflexivity.
    + reflexivity.
  - right. right. right. left. reflexivity.
  - reflexivity.
  - discriminate.
Qed.
(* a site of class Input may_denote the caller's own argument slice: with spare capacity the append
   overwrites the neighbouring argument in the same array *)
Definition site_input : append_site :=
  {| as_file := "builtInFunctions/x.go"; as_func := "x.ProcessBuiltinFunction"; as_ord := 0;
     as_arg := "vmInput.Arguments[0]"; as_back := false; as_class := Input |}.
Example input_class_is_unsafe :
  let arg0 := {| s_arr := 0; s_off := 0; s_len := 2; s_cap := 4 |} in
  let arg1 := {| s_arr := 0; s_off := 2; s_len := 2; s_cap := 2 |} in
  let m0 := {| m_heap := fun _ => [1; 2; 3; 4]; m_next := 1 |} in
  exists m, step nat 0 1 (fun _ => False) (eq site_input) (fun _ _ => False) m0 m
            /\ ~ safe_provenance site_input
            /\ sview (m_heap m0) arg1 = [3; 4] /\ sview (m_heap m) arg1 = [9; 4].
Proof.
  intros arg0 arg1 m0.
  exists {| m_heap := fst (go_append 0 (m_heap m0) (m_next m0) 0 arg0 [9]); m_next := S (m_next m0) |}.
  split; [|split; [|split]].
  - apply (step_append nat 0 1 (fun _ => False) (eq site_input) (fun _ _ => False) m0 site_input arg0 [9] 0).
    + reflexivity.
    + exact I.
  - unfold safe_provenance. cbn. intros H. repeat (destruct H as [H|H]; try discriminate).
  - reflexivity.
  - reflexivity.
Qed.
(* and the theorem is not vacuous: a run over safe sites (allocation, append to the full prefix,
   append to the own result, write into it) that leaves the protected arrays 0 (input) and 1 (prefix) alone *)
Definition site_own : append_site :=
  {| as_file := "builtInFunctions/x.go"; as_func := "x.ProcessBuiltinFunction"; as_ord := 1;
     as_arg := "esdtTokenKey"; as_back := false; as_class := PrefixDerived |}.
Definition site_wr : string * append_site :=
  ("index", {| as_file := "builtInFunctions/x.go"; as_func := "x.ProcessBuiltinFunction"; as_ord := 0;
               as_arg := "buf"; as_back := false; as_class := Fresh |}).
Example safe_run_example :
  let pfx := {| s_arr := 1; s_off := 0; s_len := 2; s_cap := 2 |} in
  let h0 : heap nat := fun j => match j with 0 => [7; 7; 7] | 1 => [5; 6] | _ => [] end in
  let m0 := {| m_heap := h0; m_next := 2 |} in
  exists m, steps nat 0 2 (fun s => s = pfx) (fun s => s = site_prefix \/ s = site_own) (fun k s => (k, s) = site_wr) m0 m
            /\ m_heap m 0 = [7; 7; 7] /\ m_heap m 1 = [5; 6] /\ m_heap m 2 = [5; 6; 7; 0] /\ m_heap m 3 = [4; 8].
Proof.
  intros pfx h0 m0.
  (* key := append(prefix, 7) -> array 2 (one spare slot); key2 := append(key, 9) in place;
     buf := make(2) -> array 4?  (ids are consumed by every step); buf[1] = 8 *)
  set (m1 := {| m_heap := fst (go_append 0 (m_heap m0) (m_next m0) 1 pfx [7]); m_next := S (m_next m0) |}).
  set (m2 := {| m_heap := upd (m_heap m1) (m_next m1) [4; 0]; m_next := S (m_next m1) |}).
  set (buf := {| s_arr := 3; s_off := 0; s_len := 2; s_cap := 2 |}).
  set (m3 := {| m_heap := upd (m_heap m2) (s_arr buf) (write_at (s_off buf + 1) [8] (m_heap m2 (s_arr buf)));
                m_next := m_next m2 |}).
  exists m3. split.
  - apply steps_step with m1.
    { apply (step_append nat 0 2 (fun s => s = pfx) _ _ m0 site_prefix pfx [7] 1); [left; reflexivity|reflexivity]. }
    apply steps_step with m2.
    { apply (step_alloc nat 0 2 (fun s => s = pfx) _ _ m1 [4; 0]). }
    apply steps_step with m3.
    { apply (step_write nat 0 2 (fun s => s = pfx) _ _ m2 "index" (snd site_wr) buf 1 [8]).
      - reflexivity.
      - right. cbn. lia.
      - cbn. lia.
      - cbn. lia. }
    apply steps_refl.
  - repeat split.
Qed.

Print Assumptions append_sites_check_ok.
Print Assumptions append_sites_safe.
Print Assumptions write_sites_safe.
Print Assumptions prefix_args_known.
Print Assumptions sites_accounted.
Print Assumptions exec_no_protected_write.
Print Assumptions calls_never_write_input_or_prefix.
Print Assumptions spare_prefix_is_written.
Print Assumptions input_class_is_unsafe.
Print Assumptions safe_run_example.
