(* The "regenerated model" tie for address.go: IsSystemAccountAddress, IsSmartContractAddress, IsEmptyAddress,
   IsMetachainIdentifier, IsSmartContractOnMetachain, IsAllowedToSaveUnderKey = the hand model of Helpers/Helpers.v,
   for ALL inputs; then the laws of C20 / C05 about them transported to the generated functions (obtained by
   rewriting with a tie theorem and applying the existing lemma of Helpers/HelpersProofs.v).
   gen/Pure.v (module P) is produced from /repo's CURRENT Go sources by tools/srcgen/pure.go on every check run.
   A semantic edit of a translated Go function makes its [tie_...] theorem fail; an edit outside the translated
   subset replaces [P.f] by [P.f_unrecognised], so the theorem no longer type-checks.  The ties are split by source
   area (PureTie_Addr / _Meta / _Gas / _Payable over the shared PureTie_Base) so that an edit of one area breaks only
   the proof cones of the properties that are about that area (gen/Pure.v itself always compiles). *)
From Coq.Strings Require Import String.
From EV Require Import Base.Bytes gen.Consts Base.GoSem gen.Pure Helpers.Helpers Helpers.HelpersProofs
  Codec.Types Ledger.Types Ledger.Env Helpers.PureTie_Base.

(* ================================================================== *)
(* the tie theorems                                                     *)
(* ================================================================== *)
(* ---- address.go ---- *)
Theorem tie_IsSystemAccountAddress : forall a, P.IsSystemAccountAddress a = is_system_account_address a.
Proof. intros a. unfold P.IsSystemAccountAddress, is_system_account_address. tie. Qed.
#[global] Hint Rewrite tie_IsSystemAccountAddress : pure_tie.

Theorem tie_IsEmptyAddress : forall a, P.IsEmptyAddress a = Some (is_empty_address a).
Proof. intros a. unfold P.IsEmptyAddress. tie. Qed.
#[global] Hint Rewrite tie_IsEmptyAddress : pure_tie.

Theorem tie_IsSmartContractAddress : forall a, P.IsSmartContractAddress a = is_sc_address a.
Proof. intros a. unfold P.IsSmartContractAddress, is_sc_address. tie. Qed.
#[global] Hint Rewrite tie_IsSmartContractAddress : pure_tie.

Theorem tie_IsMetachainIdentifier : forall id, P.IsMetachainIdentifier id = Some (is_metachain_identifier id).
Proof.
  intros id. unfold P.IsMetachainIdentifier, is_metachain_identifier. tie_callees. cbv zeta. rewrite ?go_for_range_len.
  rewrite (go_for_upto_all (fun b => (b2n b =? C.metaChainShardIdentifier)%N) false).
  - destruct id as [|b r]; [reflexivity|]. tie.
  - intros i b Hi. rewrite (go_index_nth _ _ _ Hi). tie.
Qed.
#[global] Hint Rewrite tie_IsMetachainIdentifier : pure_tie.

Theorem tie_IsSmartContractOnMetachain : forall id a, P.IsSmartContractOnMetachain id a = is_sc_on_metachain id a.
Proof. intros id a. unfold P.IsSmartContractOnMetachain, is_sc_on_metachain. tie. Qed.
#[global] Hint Rewrite tie_IsSmartContractOnMetachain : pure_tie.

Theorem tie_IsAllowedToSaveUnderKey : forall k, P.IsAllowedToSaveUnderKey k = is_allowed_to_save_under_key k.
Proof. intros k. unfold P.IsAllowedToSaveUnderKey, is_allowed_to_save_under_key. tie. Qed.
#[global] Hint Rewrite tie_IsAllowedToSaveUnderKey : pure_tie.

(* ================================================================== *)
(* transported laws                                                     *)
(* ================================================================== *)
(* ---- C20: address classification ---- *)
Theorem P_address_classification_total : forall id a,
  P.IsSystemAccountAddress a <> None /\ P.IsSmartContractAddress a <> None
  /\ P.IsSmartContractOnMetachain id a <> None /\ P.IsAllowedToSaveUnderKey a <> None
  /\ P.IsEmptyAddress a <> None /\ P.IsMetachainIdentifier id <> None.
Proof.
  intros id a. rewrite tie_IsSystemAccountAddress, tie_IsSmartContractAddress, tie_IsSmartContractOnMetachain,
    tie_IsAllowedToSaveUnderKey, tie_IsEmptyAddress, tie_IsMetachainIdentifier.
  repeat split; try discriminate;
    [exact (is_system_account_address_total a)|exact (is_sc_address_total a)
    |exact (is_sc_on_metachain_total id a)|exact (is_allowed_to_save_under_key_total a)].
Qed.
Theorem P_meta_sc_is_sc : forall id a,
  P.IsSmartContractOnMetachain id a = Some true -> P.IsSmartContractAddress a = Some true.
Proof. intros id a. rewrite tie_IsSmartContractOnMetachain, tie_IsSmartContractAddress. apply meta_sc_is_sc. Qed.
Theorem P_system_account_classified :
  P.IsSystemAccountAddress C.SystemAccountAddress = Some true
  /\ P.IsSmartContractAddress C.SystemAccountAddress = Some false
  /\ length C.SystemAccountAddress = 32.
Proof. rewrite tie_IsSystemAccountAddress, tie_IsSmartContractAddress. exact system_account_classified. Qed.
Theorem P_esdt_sc_classified :
  P.IsSmartContractAddress C.ESDTSCAddress = Some true
  /\ P.IsSmartContractOnMetachain [xff; xff] C.ESDTSCAddress = Some true
  /\ P.IsSystemAccountAddress C.ESDTSCAddress = Some false
  /\ length C.ESDTSCAddress = 32.
Proof. rewrite tie_IsSystemAccountAddress, tie_IsSmartContractAddress, tie_IsSmartContractOnMetachain. exact esdt_sc_classified. Qed.
Theorem P_protected_key_iff : forall k,
  P.IsAllowedToSaveUnderKey k = Some false <-> exists r, k = C.ElrondProtectedKeyPrefix ++ r.
Proof. intros k. rewrite tie_IsAllowedToSaveUnderKey. apply protected_key_iff. Qed.

(* ---- C05: the key filter of SaveKeyValue and the contract test, as total functions (Ledger/Env.v) ---- *)
Theorem P_IsAllowedToSaveUnderKey_key_allowed : forall k, P.IsAllowedToSaveUnderKey k = Some (key_allowed k).
Proof.
  intros k. rewrite tie_IsAllowedToSaveUnderKey. unfold key_allowed.
  pose proof (is_allowed_to_save_under_key_total k). destruct (is_allowed_to_save_under_key k); congruence.
Qed.
Theorem P_IsSmartContractAddress_is_sc : forall a, P.IsSmartContractAddress a = Some (is_sc a).
Proof.
  intros a. rewrite tie_IsSmartContractAddress. unfold is_sc.
  pose proof (is_sc_address_total a). destruct (is_sc_address a); congruence.
Qed.
Theorem P_IsSystemAccountAddress_is_sys : forall a, P.IsSystemAccountAddress a = Some (is_sys a).
Proof.
  intros a. rewrite tie_IsSystemAccountAddress. unfold is_sys.
  pose proof (is_system_account_address_total a). destruct (is_system_account_address a); congruence.
Qed.
Theorem P_IsAllowedToSaveUnderKey_char : forall k,
  P.IsAllowedToSaveUnderKey k = Some (negb (prefix_of C.ElrondProtectedKeyPrefix k)).
Proof.
  intros k. pose proof (P_protected_key_iff k) as Hiff. rewrite <- prefix_of_true in Hiff.
  pose proof (P_address_classification_total [] k) as (_ & _ & _ & Ht & _).
  destruct (P.IsAllowedToSaveUnderKey k) as [[]|]; [| |congruence].
  - destruct (prefix_of C.ElrondProtectedKeyPrefix k); [|reflexivity].
    destruct Hiff as [_ H]. specialize (H eq_refl). discriminate.
  - destruct Hiff as [H _]. rewrite (H eq_refl). reflexivity.
Qed.
