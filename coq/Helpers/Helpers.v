(* Models of the shared helper types: codeMetadata.go, builtInFunctions/esdtMetaData.go,
   address.go, gasCost.go (SafeSubUint64), output.go (MergeOutputAccounts, value view).
   A Go slice expression or index out of range is an explicit [None] ("panic"). *)
From EV Require Import Base.Bytes gen.Consts.

(* Go: s[:n] and s[a:b] panic when out of range *)
Definition slice_to (n : N) (l : bytes) : option bytes :=
  if (n <=? N.of_nat (length l))%N then Some (firstn (N.to_nat n) l) else None.
Definition slice (a b : N) (l : bytes) : option bytes :=
  if ((a <=? b) && (b <=? N.of_nat (length l)))%N then Some (firstn (N.to_nat (b - a)) (skipn (N.to_nat a) l)) else None.
Definition index (i : N) (l : bytes) : option byte := nth_error l (N.to_nat i).
Definition blen (l : bytes) : N := N.of_nat (length l).
Definition mask (b : byte) (m : N) : bool := negb (N.land (b2n b) m =? 0)%N.
Definition bor (x : N) (c : bool) (m : N) : N := if c then N.lor x m else x.

(* ---- codeMetadata.go ---- *)
Record codemeta := { cm_payable : bool; cm_upgradeable : bool; cm_readable : bool }.
Definition cm_empty := {| cm_payable := false; cm_upgradeable := false; cm_readable := false |}.
Definition codemeta_from (l : bytes) : option codemeta :=
  if negb (blen l =? C.lengthOfCodeMetadata)%N then Some cm_empty else
  match index 0 l, index 1 l with
  | Some b0, Some b1 =>
    Some {| cm_upgradeable := mask b0 C.MetadataUpgradeable;
            cm_readable := mask b0 C.MetadataReadable;
            cm_payable := mask b1 C.MetadataPayable |}
  | _, _ => None
  end.
(* make([]byte, lengthOfCodeMetadata) then bytes[0] |= .., bytes[1] |= .. *)
Definition set_index (i : nat) (v : byte) (l : bytes) : option bytes :=
  if Nat.ltb i (length l) then Some (firstn i l ++ v :: skipn (S i) l) else None.
Definition codemeta_to (m : codemeta) : option bytes :=
  let z := repeat x00 (N.to_nat C.lengthOfCodeMetadata) in
  let b0 := bor (bor 0 (cm_upgradeable m) C.MetadataUpgradeable) (cm_readable m) C.MetadataReadable in
  let b1 := bor 0 (cm_payable m) C.MetadataPayable in
  match set_index 0 (n2b b0) z with
  | Some z1 => set_index 1 (n2b b1) z1
  | None => None
  end.

(* ---- esdtMetaData.go: one flag in bit 0 of byte 0, two bytes ---- *)
Definition flag_from (m : N) (l : bytes) : option bool :=
  if negb (blen l =? C.bif_lengthOfESDTMetadata)%N then Some false else
  match index 0 l with Some b0 => Some (mask b0 m) | None => None end.
Definition flag_to (m : N) (f : bool) : option bytes :=
  set_index 0 (n2b (bor 0 f m)) (repeat x00 (N.to_nat C.bif_lengthOfESDTMetadata)).
Definition paused_from := flag_from C.bif_MetadataPaused.
Definition paused_to := flag_to C.bif_MetadataPaused.
Definition frozen_from := flag_from C.bif_MetadataFrozen.
Definition frozen_to := flag_to C.bif_MetadataFrozen.

(* ---- address.go ---- *)
Definition zeros (n : nat) : bytes := repeat x00 n.
Definition is_empty_address (a : bytes) : bool := beqb a (zeros (length a)).
Definition is_system_account_address (a : bytes) : option bool :=
  if (blen a <? C.numInitCharactersForSystemAccountAddress)%N then Some false else
  match slice_to C.numInitCharactersForSystemAccountAddress a,
        slice_to C.numInitCharactersForSystemAccountAddress C.SystemAccountAddress with
  | Some x, Some y => Some (beqb x y)
  | _, _ => None
  end.
Definition is_sc_address (a : bytes) : option bool :=
  if (blen a <=? C.NumInitCharactersForScAddress)%N then Some false else
  if is_empty_address a then Some true else
  let nz := (C.NumInitCharactersForScAddress - C.VMTypeLen)%N in
  match slice_to nz a with
  | Some x => Some (beqb x (zeros (N.to_nat nz)))
  | None => None
  end.
Definition is_metachain_identifier (id : bytes) : bool :=
  match id with [] => false | _ => forallb (fun b => (b2n b =? C.metaChainShardIdentifier)%N) id end.
Definition is_sc_on_metachain (id a : bytes) : option bool :=
  if (blen a <=? C.NumInitCharactersForScAddress + C.numInitCharactersForOnMetachainSC)%N then Some false else
  if negb (is_metachain_identifier id) then Some false else
  match is_sc_address a with
  | None => None
  | Some false => Some false
  | Some true =>
    match slice C.NumInitCharactersForScAddress (C.NumInitCharactersForScAddress + C.numInitCharactersForOnMetachainSC) a with
    | Some x => Some (beqb x (zeros (N.to_nat C.numInitCharactersForOnMetachainSC)))
    | None => None
    end
  end.
Definition is_allowed_to_save_under_key (k : bytes) : option bool :=
  let pl := blen C.ElrondProtectedKeyPrefix in
  if (blen k <? pl)%N then Some true else
  match slice_to pl k with
  | Some t => Some (negb (beqb t C.ElrondProtectedKeyPrefix))
  | None => None
  end.

(* ---- gasCost.go ---- *)
Definition safe_sub_u64 (a b : N) : option N := if (a <? b)%N then None else Some (a - b)%N.

(* ---- output.go: MergeOutputAccounts, value view (pointer identity is in SliceModel/MergeHeap) ---- *)
Record xfer := { x_value : Z; x_gasLimit : N; x_gasLocked : N; x_data : bytes; x_callType : N; x_sender : bytes }.
Record oacct := {
  oa_address : bytes; oa_nonce : N; oa_balance : option Z; oa_delta : option Z;
  oa_storage : list (bytes * (bytes * bytes));   (* map key -> (offset, data); later entry for a key wins; kept sorted by the harness *)
  oa_code : bytes; oa_codeMetadata : bytes; oa_deployer : option bytes; oa_gasUsed : N;
  oa_transfers : list xfer }.
Fixpoint su_get (m : list (bytes * (bytes * bytes))) (k : bytes) : option (bytes * bytes) :=
  match m with [] => None | (k', v) :: r => if beqb k k' then Some v else su_get r k end.
Fixpoint su_put (m : list (bytes * (bytes * bytes))) (k : bytes) (v : bytes * bytes) :=
  match m with
  | [] => [(k, v)]
  | (k', v') :: r => if beqb k k' then (k', v) :: r else (k', v') :: su_put r k v
  end.
Definition merge_storage (o a : list (bytes * (bytes * bytes))) :=
  fold_left (fun m kv => su_put m (fst kv) (snd kv)) a o.
Definition merge (o a : oacct) : oacct :=
  let lo := length (oa_transfers o) in
  {| oa_address := match oa_address a with [] => oa_address o | x => x end;
     oa_storage := merge_storage (oa_storage o) (oa_storage a);
     oa_balance := match oa_balance a with Some b => Some b | None => oa_balance o end;
     oa_delta := let d := match oa_delta o with Some d => d | None => 0%Z end in
                 Some (match oa_delta a with Some e => (d + e)%Z | None => d end);
     oa_code := match oa_code a with [] => oa_code o | x => x end;
     oa_codeMetadata := match oa_codeMetadata a with [] => oa_codeMetadata o | x => x end;
     oa_nonce := if (oa_nonce o <? oa_nonce a)%N then oa_nonce a else oa_nonce o;
     oa_transfers := oa_transfers o ++ skipn lo (oa_transfers a);
     oa_gasUsed := oa_gasUsed a;
     oa_deployer := match oa_deployer a with Some d => Some d | None => oa_deployer o end |}.
