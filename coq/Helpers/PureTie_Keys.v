(* The "regenerated model" tie for the storage-key builders of builtInFunctions/esdtNFTCreate.go (property C15, key
   layout): computeESDTNFTTokenKey = [nft_key] of Ledger/Env.v, getNonceKey = (NP ++).  VALUE of the returned slice
   only: both functions are `append(prefix, ...)`, and whether the result shares the backing array of the prefix is
   the business of SliceModel / gen/AppendSites.v (C13), not of this tie (see go_append in Base/GoSem.v).
   gen/Pure.v (module P) is produced from /repo's CURRENT Go sources by tools/srcgen/pure.go on every check run.
   A semantic edit of a translated Go function makes its [tie_...] theorem fail; an edit outside the translated
   subset replaces [P.f] by [P.f_unrecognised], so the theorem no longer type-checks.  The ties are split by source
   area so that an edit of one area breaks only the proof cones of the properties that are about that area. *)
From EV Require Import Base.Bytes gen.Consts Base.GoSem gen.Pure Helpers.Helpers
  Codec.Types Ledger.Types Ledger.Env LedgerProofs.EnvSpec Helpers.PureTie_Base.

Theorem tie_computeESDTNFTTokenKey : forall key nonce,
  P.computeESDTNFTTokenKey key nonce = Some (nft_key key nonce).
Proof. intros key n. unfold P.computeESDTNFTTokenKey, nft_key, u64_bytes. tie. Qed.
#[global] Hint Rewrite tie_computeESDTNFTTokenKey : pure_tie.
(* the prefix variable noncePrefix = []byte(ElrondProtectedKeyPrefix + ESDTNFTLatestNonceIdentifier) is C.bif_noncePrefix *)
Theorem tie_getNonceKey : forall tok, P.getNonceKey tok = Some (NP ++ tok).
Proof. intros tok. unfold P.getNonceKey. change NP with C.bif_noncePrefix. tie. Qed.
#[global] Hint Rewrite tie_getNonceKey : pure_tie.

(* ---- key-layout facts of C15 on the generated functions (rewriting with the tie + the lemma of EnvSpec.v) ---- *)
Theorem P_token_key_layout : forall tok nonce,
  P.computeESDTNFTTokenKey (P ++ tok) nonce = Some (P ++ (tok ++ N_to_be nonce)).
Proof. intros tok n. rewrite tie_computeESDTNFTTokenKey, nft_key_app. reflexivity. Qed.
Theorem P_token_key_nonce_zero : forall key, P.computeESDTNFTTokenKey key 0 = Some key.
Proof. intros key. rewrite tie_computeESDTNFTTokenKey, nft_key_0. reflexivity. Qed.
Theorem P_token_key_inj : forall key n m,
  P.computeESDTNFTTokenKey key n = P.computeESDTNFTTokenKey key m -> n = m.
Proof.
  intros key n m. rewrite !tie_computeESDTNFTTokenKey. intros H. inversion H as [H1]. exact (nft_key_inj key n m H1).
Qed.
Theorem P_token_key_protected : forall tok n k,
  P.computeESDTNFTTokenKey (P ++ tok) n = Some k -> prefix_of C.ElrondProtectedKeyPrefix k = true.
Proof.
  intros tok n k. rewrite tie_computeESDTNFTTokenKey. intros H. inversion H. apply nft_key_protected.
Qed.
Theorem P_key_families_disjoint : forall tok n y k,
  P.computeESDTNFTTokenKey (P ++ tok) n = Some k -> k <> RP ++ y /\ P.getNonceKey y <> Some k.
Proof.
  intros tok n y k. rewrite tie_computeESDTNFTTokenKey, tie_getNonceKey. intros H. inversion H. split.
  - apply nft_key_RP_disjoint.
  - intros H2. apply (nft_key_NP_disjoint tok n y). congruence.
Qed.
Theorem P_key_builders_total : forall key n tok, P.computeESDTNFTTokenKey key n <> None /\ P.getNonceKey tok <> None.
Proof. intros. rewrite tie_computeESDTNFTTokenKey, tie_getNonceKey. split; discriminate. Qed.
