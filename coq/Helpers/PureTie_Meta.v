(* The "regenerated model" tie for the helper types of property C20 other than the address classifiers:
   codeMetadata.go (CodeMetadataFromBytes, ToBytes), builtInFunctions/esdtMetaData.go (the pause / freeze flag bytes)
   and gasCost.go (SafeSubUint64) = the hand model of Helpers/Helpers.v, for ALL inputs; then the laws of C20 about
   them transported to the generated functions (rewriting with a tie theorem + the lemma of Helpers/HelpersProofs.v).
   gen/Pure.v (module P) is produced from /repo's CURRENT Go sources by tools/srcgen/pure.go on every check run.
   A semantic edit of a translated Go function makes its [tie_...] theorem fail; an edit outside the translated
   subset replaces [P.f] by [P.f_unrecognised], so the theorem no longer type-checks.  The ties are split by source
   area (PureTie_Addr / _Meta / _Gas / _Payable over the shared PureTie_Base) so that an edit of one area breaks only
   the proof cones of the properties that are about that area (gen/Pure.v itself always compiles). *)
From Coq.Strings Require Import String.
From EV Require Import Base.Bytes gen.Consts Base.GoSem gen.Pure Helpers.Helpers Helpers.HelpersProofs
  Helpers.PureTie_Base.

(* ================================================================== *)
(* the tie theorems                                                     *)
(* ================================================================== *)
(* ---- codeMetadata.go: the generated record and the hand record, field by field.  [cm_to_P] names every field
        of the generated record: a field added to the Go struct breaks it. ---- *)
Definition cm_of (m : P.CodeMetadata) : codemeta :=
  {| cm_payable := P.CodeMetadata_Payable m; cm_upgradeable := P.CodeMetadata_Upgradeable m;
     cm_readable := P.CodeMetadata_Readable m |}.
Definition cm_to_P (m : codemeta) : P.CodeMetadata :=
  {| P.CodeMetadata_Payable := cm_payable m; P.CodeMetadata_Upgradeable := cm_upgradeable m;
     P.CodeMetadata_Readable := cm_readable m |}.
Lemma cm_of_to_P m : cm_of (cm_to_P m) = m. Proof. destruct m; reflexivity. Qed.
Lemma cm_to_P_of m : cm_to_P (cm_of m) = m. Proof. destruct m; reflexivity. Qed.

Theorem tie_CodeMetadataFromBytes : forall l, option_map cm_of (P.CodeMetadataFromBytes l) = codemeta_from l.
Proof. intros l. unfold P.CodeMetadataFromBytes, codemeta_from. tie. Qed.

(* the receiver is a pointer: [Some m] = a non-nil *CodeMetadata; finitely many records, by evaluation *)
Theorem tie_CodeMetadata_ToBytes : forall m, P.CodeMetadata_ToBytes (Some (cm_to_P m)) = codemeta_to m.
Proof. intros [[] [] []]; vm_compute; reflexivity. Qed.
Theorem tie_CodeMetadata_ToBytes_nil : P.CodeMetadata_ToBytes None = None.
Proof. vm_compute; reflexivity. Qed.

(* ---- builtInFunctions/esdtMetaData.go: one-field structs (the literals name every field of the generated record) ---- *)
Theorem tie_ESDTGlobalMetadataFromBytes : forall l,
  option_map P.ESDTGlobalMetadata_Paused (P.ESDTGlobalMetadataFromBytes l) = paused_from l.
Proof. intros l. unfold P.ESDTGlobalMetadataFromBytes, paused_from, flag_from. tie. Qed.
Theorem tie_ESDTGlobalMetadata_ToBytes : forall f,
  P.ESDTGlobalMetadata_ToBytes (Some {| P.ESDTGlobalMetadata_Paused := f |}) = paused_to f.
Proof. intros []; vm_compute; reflexivity. Qed.
Lemma ESDTGlobalMetadata_eta : forall m, m = {| P.ESDTGlobalMetadata_Paused := P.ESDTGlobalMetadata_Paused m |}.
Proof. intros []; reflexivity. Qed.
Theorem tie_ESDTUserMetadataFromBytes : forall l,
  option_map P.ESDTUserMetadata_Frozen (P.ESDTUserMetadataFromBytes l) = frozen_from l.
Proof. intros l. unfold P.ESDTUserMetadataFromBytes, frozen_from, flag_from. tie. Qed.
Theorem tie_ESDTUserMetadata_ToBytes : forall f,
  P.ESDTUserMetadata_ToBytes (Some {| P.ESDTUserMetadata_Frozen := f |}) = frozen_to f.
Proof. intros []; vm_compute; reflexivity. Qed.
Lemma ESDTUserMetadata_eta : forall m, m = {| P.ESDTUserMetadata_Frozen := P.ESDTUserMetadata_Frozen m |}.
Proof. intros []; reflexivity. Qed.
Theorem tie_ESDTMetadata_ToBytes_nil : P.ESDTGlobalMetadata_ToBytes None = None /\ P.ESDTUserMetadata_ToBytes None = None.
Proof. split; vm_compute; reflexivity. Qed.

(* ---- gasCost.go: the error is a value, not a panic; uint64 operands ---- *)
Theorem tie_SafeSubUint64 : forall a b, (a < two64)%N ->
  P.SafeSubUint64 a b = Some (match safe_sub_u64 a b with
                              | Some r => (r, go_nil)
                              | None => (0%N, go_err "ErrSubtractionOverflow")
                              end).
Proof. intros a b Ha. unfold P.SafeSubUint64, safe_sub_u64. tie. Qed.
Corollary tie_SafeSubUint64_value : forall a b, (a < two64)%N ->
  safe_sub_u64 a b = match P.SafeSubUint64 a b with Some (r, go_nil) => Some r | _ => None end.
Proof. intros a b Ha. rewrite (tie_SafeSubUint64 a b Ha). destruct (safe_sub_u64 a b); reflexivity. Qed.

(* ================================================================== *)
(* transported laws                                                     *)
(* ================================================================== *)
Lemma P_CodeMetadataFromBytes_some l m : codemeta_from l = Some m -> P.CodeMetadataFromBytes l = Some (cm_to_P m).
Proof.
  rewrite <- tie_CodeMetadataFromBytes. destruct (P.CodeMetadataFromBytes l) as [x|]; cbn [option_map]; intros H; [|discriminate].
  inversion H. rewrite cm_to_P_of. reflexivity.
Qed.
Lemma P_flag_from_some {T} (proj : T -> bool) (mk : bool -> T) (from : bytes -> option T) (hand : bytes -> option bool) :
  (forall m, mk (proj m) = m) -> (forall l, option_map proj (from l) = hand l) ->
  forall l f, hand l = Some f -> from l = Some (mk f).
Proof.
  intros Heta Htie l f. rewrite <- Htie. destruct (from l) as [x|]; cbn [option_map]; intros H; [|discriminate].
  inversion H. rewrite Heta. reflexivity.
Qed.
Definition mkPaused (f : bool) : P.ESDTGlobalMetadata := {| P.ESDTGlobalMetadata_Paused := f |}.
Definition mkFrozen (f : bool) : P.ESDTUserMetadata := {| P.ESDTUserMetadata_Frozen := f |}.
Lemma P_paused_from_some l f : paused_from l = Some f -> P.ESDTGlobalMetadataFromBytes l = Some (mkPaused f).
Proof.
  apply (P_flag_from_some P.ESDTGlobalMetadata_Paused mkPaused); [intros []; reflexivity|exact tie_ESDTGlobalMetadataFromBytes].
Qed.
Lemma P_frozen_from_some l f : frozen_from l = Some f -> P.ESDTUserMetadataFromBytes l = Some (mkFrozen f).
Proof.
  apply (P_flag_from_some P.ESDTUserMetadata_Frozen mkFrozen); [intros []; reflexivity|exact tie_ESDTUserMetadataFromBytes].
Qed.

(* ---- C20: code metadata ---- *)
Theorem P_codemeta_bytes_roundtrip : forall a b : byte,
  exists m bs, P.CodeMetadataFromBytes [a; b] = Some m /\ P.CodeMetadata_ToBytes (Some m) = Some bs
    /\ bs = [n2b (N.land (b2n a) 5); n2b (N.land (b2n b) 2)]
    /\ P.CodeMetadataFromBytes bs = Some m
    /\ P.CodeMetadata_Upgradeable m = N.testbit (b2n a) 0 /\ P.CodeMetadata_Readable m = N.testbit (b2n a) 2
    /\ P.CodeMetadata_Payable m = N.testbit (b2n b) 1.
Proof.
  intros a b. destruct (codemeta_bytes_roundtrip a b) as (m & bs & H1 & H2 & H3 & H4 & H5 & H6 & H7).
  exists (cm_to_P m), bs. rewrite tie_CodeMetadata_ToBytes.
  repeat split; auto using P_CodeMetadataFromBytes_some.
Qed.
Theorem P_codemeta_record_roundtrip : forall m : P.CodeMetadata,
  exists bs, P.CodeMetadata_ToBytes (Some m) = Some bs /\ length bs = 2 /\ P.CodeMetadataFromBytes bs = Some m.
Proof.
  intros m. destruct (codemeta_record_roundtrip (cm_of m)) as (bs & H1 & H2 & H3).
  exists bs. rewrite <- (cm_to_P_of m), tie_CodeMetadata_ToBytes. auto using P_CodeMetadataFromBytes_some.
Qed.
Theorem P_codemeta_other_lengths : forall l, length l <> 2 ->
  P.CodeMetadataFromBytes l =
  Some {| P.CodeMetadata_Payable := false; P.CodeMetadata_Upgradeable := false; P.CodeMetadata_Readable := false |}.
Proof. intros l H. apply (P_CodeMetadataFromBytes_some l cm_empty). apply codemeta_other_lengths. exact H. Qed.
Theorem P_codemeta_never_panics : forall l (m : P.CodeMetadata),
  P.CodeMetadataFromBytes l <> None /\ P.CodeMetadata_ToBytes (Some m) <> None.
Proof.
  intros l m. split.
  - pose proof (codemeta_from_total l) as H. rewrite <- tie_CodeMetadataFromBytes in H.
    destruct (P.CodeMetadataFromBytes l); [discriminate|exfalso; apply H; reflexivity].
  - rewrite <- (cm_to_P_of m), tie_CodeMetadata_ToBytes. apply codemeta_to_total.
Qed.

(* ---- C20: ESDT freeze / pause flags ---- *)
Theorem P_frozen_bytes_roundtrip : forall a b : byte,
  exists f bs, P.ESDTUserMetadataFromBytes [a; b] = Some (mkFrozen f) /\ f = N.testbit (b2n a) 0
     /\ P.ESDTUserMetadata_ToBytes (Some (mkFrozen f)) = Some bs
     /\ bs = [n2b (N.land (b2n a) 1); x00] /\ P.ESDTUserMetadataFromBytes bs = Some (mkFrozen f).
Proof.
  intros a b. destruct (frozen_bytes_roundtrip a b) as (f & bs & H1 & H2 & H3 & H4 & H5).
  exists f, bs. unfold mkFrozen at 2. rewrite tie_ESDTUserMetadata_ToBytes. auto 6 using P_frozen_from_some.
Qed.
Theorem P_paused_bytes_roundtrip : forall a b : byte,
  exists f bs, P.ESDTGlobalMetadataFromBytes [a; b] = Some (mkPaused f) /\ f = N.testbit (b2n a) 0
     /\ P.ESDTGlobalMetadata_ToBytes (Some (mkPaused f)) = Some bs
     /\ bs = [n2b (N.land (b2n a) 1); x00] /\ P.ESDTGlobalMetadataFromBytes bs = Some (mkPaused f).
Proof.
  intros a b. destruct (paused_bytes_roundtrip a b) as (f & bs & H1 & H2 & H3 & H4 & H5).
  exists f, bs. unfold mkPaused at 2. rewrite tie_ESDTGlobalMetadata_ToBytes. auto 6 using P_paused_from_some.
Qed.
Theorem P_flag_other_lengths : forall l, length l <> 2 ->
  P.ESDTUserMetadataFromBytes l = Some (mkFrozen false) /\ P.ESDTGlobalMetadataFromBytes l = Some (mkPaused false).
Proof.
  intros l H. destruct (flag_other_lengths l H) as [H1 H2]. auto using P_frozen_from_some, P_paused_from_some.
Qed.
Theorem P_flag_never_panics : forall l f,
  P.ESDTUserMetadataFromBytes l <> None /\ P.ESDTGlobalMetadataFromBytes l <> None
  /\ P.ESDTUserMetadata_ToBytes (Some (mkFrozen f)) <> None /\ P.ESDTGlobalMetadata_ToBytes (Some (mkPaused f)) <> None.
Proof.
  intros l f. destruct (flag_from_total l) as [H1 H2].
  rewrite <- tie_ESDTUserMetadataFromBytes in H1. rewrite <- tie_ESDTGlobalMetadataFromBytes in H2.
  destruct (flag_value_roundtrip f) as [(bs1 & Hf & _) (bs2 & Hp & _)].
  unfold mkFrozen, mkPaused. rewrite tie_ESDTUserMetadata_ToBytes, tie_ESDTGlobalMetadata_ToBytes, Hf, Hp.
  repeat split; try discriminate.
  - destruct (P.ESDTUserMetadataFromBytes l); [discriminate|exfalso; apply H1; reflexivity].
  - destruct (P.ESDTGlobalMetadataFromBytes l); [discriminate|exfalso; apply H2; reflexivity].
Qed.

(* ---- C20: checked subtraction: an error exactly on underflow, else the exact difference ---- *)
Theorem P_safe_sub_spec : forall a b, (a < two64)%N ->
  exists r e, P.SafeSubUint64 a b = Some (r, e)
    /\ (e <> go_nil <-> (a < b)%N) /\ (e = go_nil -> (r + b = a)%N) /\ (e <> go_nil -> r = 0%N).
Proof.
  intros a b Ha. rewrite (tie_SafeSubUint64 a b Ha). destruct (safe_sub_spec a b) as [Hn Hs].
  destruct (safe_sub_u64 a b) as [r|] eqn:E.
  - exists r, go_nil. split; [reflexivity|]. split; [|split].
    + split; [intros H; exfalso; apply H; reflexivity|intros H; apply Hn in H; discriminate H].
    + intros _. apply Hs. reflexivity.
    + intros H. exfalso. apply H. reflexivity.
  - exists 0%N, (go_err "ErrSubtractionOverflow"). split; [reflexivity|]. split; [|split].
    + split; [intros _; apply Hn; reflexivity|intros _; discriminate].
    + intros H. discriminate H.
    + intros _. reflexivity.
Qed.
